"""Per-property configuration of bin/check."""

TRUSTED_BASE = [
    "Coq 8.16.1 kernel (coqc, full .vo build; vm_compute used for finite facts; no native_compute); coqchk in the thorough tier",
    "no Axiom/Parameter/Admitted anywhere (grepped on every run); Print Assumptions output of every property theorem is copied into print_assumptions",
    "extraction with ExtrOcamlBasic only (Extract Inductive bool/option/unit/prod/list/sumbool/sumor); nat, N, Z stay extracted inductives; OCaml 4.13.1",
    "hand-written glue: ocaml/driver.ml + per-property case decoding, harness/*.go (generators, spies, scripted handlers), bin/check",
    "correspondence is differential testing: the tie model ~ code is sampled, the theorems are about the model",
]

NOT_CLAIMED = {}

PROPS = {
    "C13": {
        "technique": "Coq proof (invariant by induction over all operation sequences) + model/implementation correspondence",
        "level_text": "proof: theorems C13_model_meets_spec / C13_at_most_one_status / C13_status_before_body / C13_head_forwards_no_body "
                      "hold for every method and every operation sequence of the Gallina model of response_writer.go; the model is tied to "
                      "the code by running both on the same generated sequences (incl. short writes of the underlying writer) and judging "
                      "the implementation's own outputs with the extracted executable spec",
        "level_note": "trusts the Coq kernel, extraction (ExtrOcamlBasic), the OCaml/Go glue and that sampled correspondence generalises; "
                      "status codes are non-zero; hooks do not re-enter the writer; Hijack/Push not modelled",
        "n_quick": 4000, "n_thorough": 60000, "exhaustive_in_thorough": True,
        "rule": "random op sequences (<=12 ops; WriteHeader codes 100..999, Write of 0..5 arbitrary bytes with an underlying writer that "
                "sometimes accepts fewer, Flush, Before, Status, Size, Written) for HEAD and other methods; thorough adds every sequence "
                "of length <=5 over an 8-op alphabet x {GET,HEAD}.  Non-trivial: a hook is registered and >=2 operations can trigger the "
                "status line; distinct by input.",
        "what": "Theorems (coq/Props/C13.v): for every method and every op sequence the model of response_writer.go is accepted by the "
                "executable judgement spec_ok, and acceptance implies <=1 status line, status before body, no body for HEAD. "
                "Correspondence: model outputs = implementation outputs per operation; spec_ok evaluated on the implementation's own outputs.",
        "assumes": ["status codes passed to WriteHeader are non-zero (net/http panics on invalid codes)",
                    "hooks do not re-enter the writer (sync.Once would deadlock); Hijack/Push are pass-through and not modelled"],
    },
}
