"""Per-property configuration of bin/check."""

TRUSTED_BASE = [
    "Coq 8.16.1 kernel (coqc, full .vo build; vm_compute used for finite facts; no native_compute); coqchk in the thorough tier",
    "no Axiom/Parameter/Admitted anywhere (grepped on every run); Print Assumptions output of every property theorem is copied into print_assumptions",
    "extraction with ExtrOcamlBasic only (Extract Inductive bool/option/unit/prod/list/sumbool/sumor); nat, N, Z stay extracted inductives; OCaml 4.13.1",
    "hand-written glue: ocaml/driver.ml + per-property case decoding, harness/*.go (generators, spies, scripted handlers), bin/check",
    "correspondence is differential testing: the tie model ~ code is sampled, the theorems are about the model",
]

NOT_CLAIMED = {}

PROPS = {
    "C13": {
        "technique": "Coq proof (invariant by induction over all operation sequences) + model/implementation correspondence",
        "level_text": "proof: theorems C13_model_meets_spec / C13_at_most_one_status / C13_status_before_body / C13_head_forwards_no_body / C13_hooks_in_one_operation / C13_stack_one_status / C13_stack_status_before_body / C13_stack_head_no_body / C13_stack_upper_answers (a writer whose underlying writer is another flamego writer: RWStack.v) "
                      "hold for every method and every operation sequence of the Gallina model of response_writer.go; the model is tied to "
                      "the code by running both on the same generated sequences (incl. short writes of the underlying writer, an underlying writer that is an io.ReaderFrom, before functions that panic, and in a quarter of the cases a second writer created over the first after the first has had a life of its own) and judging "
                      "the implementation's own outputs with the extracted executable spec",
        "level_note": "trusts the Coq kernel, extraction (ExtrOcamlBasic), the OCaml/Go glue and that sampled correspondence generalises; "
                      "status codes are non-zero; hooks do not re-enter the writer; Hijack/Push not modelled; in the stacked cases (a writer over a writer) the lower writer's before functions do not panic and a HEAD lower writer has a HEAD upper writer",
        "n_quick": 4000, "n_thorough": 60000, "exhaustive_in_thorough": True,
        "rule": "random op sequences (<=12 ops; WriteHeader codes 100..999, Write of 0..5 arbitrary bytes with an underlying writer that "
                "sometimes accepts fewer, Flush, Before - one in five panicking -, Status, Size, Written) for HEAD and other methods, on an underlying writer that is an http.Flusher (four cases in five) or is not; thorough adds every sequence "
                "of length <=5 over a 9-op alphabet x {GET,HEAD}.  Non-trivial: a hook is registered and >=2 operations can trigger the "
                "status line; distinct by input.",
        "what": "Theorems (coq/Props/C13.v): for every method and every op sequence the model of response_writer.go is accepted by the "
                "executable judgement spec_ok, and acceptance implies <=1 status line, status before body, no body for HEAD. "
                "Correspondence: model outputs = implementation outputs per operation; spec_ok evaluated on the implementation's own outputs.",
        "assumes": ["status codes passed to WriteHeader are non-zero (net/http panics on invalid codes)",
                    "hooks do not re-enter the writer (sync.Once would deadlock); Hijack/Push are pass-through and not modelled"],
    },
    "C03": {
        "n_quick": 6000, "n_thorough": 150000,
        "technique": "Coq proof (fuel-indexed big-step semantics of run/Next, invariants by induction on fuel) + model/implementation correspondence on scripted handler stacks",
        "level_text": "proof: theorems of coq/Props/C03.v about the Gallina model of context.go run()/Next() for every handler stack and every "
                      "handler program; tied to the code by executing the same scripted stacks (middleware, nested groups, route handlers, "
                      "action; writes, Next 0..3 times, cancel, panics, return values; GET and HEAD) on a real Flame and comparing event "
                      "traces, status and body; the executable judgements order_ok / nest_ok / auto_ok judge the implementation's own traces",
        "level_note": "trusts Coq kernel, extraction, glue; handlers are scripted programs over {WriteHeader, Write, Next, Cancel, panic, return values}; "
                      "writes go through Context.ResponseWriter(); a handler re-mapping http.ResponseWriter is outside the model",
        "rule": "random stacks: 0-3 middleware (one Use call each), 0-2 nested groups with 0-2 handlers, 0-3 route handlers, optional action; "
                "each handler <=4 actions (WriteHeader/Write/Next/Cancel - of the request context or of a derived context that replaced it - /Panic) and an optional return value of the C14 shapes; 20% HEAD. "
                "Non-trivial: >=2 handlers and (a handler calls Next twice or >=2 Next calls overall); distinct by input.",
        "what": "Model run()/Next()/Recovery vs real ServeHTTP: full Enter/Exit/Unwind/NextCall/NextRet trace (with the status and "
                "cancellation each handler sees on entry), final status, body chunks, escaped panic.",
        "assumes": ["status codes are valid (100..999)", "handlers write through the context's ResponseWriter"],
    },
    "C14": {
        "n_quick": 6000, "n_thorough": 150000,
        "technique": "Coq proof (case analysis over all values of the supported shapes) + correspondence incl. reflective and fast-path invocation",
        "level_text": "proof: render_table / empty_writes_nothing / response_is_written (coq/Props/C14.v) for every value of the supported return "
                      "shapes of the Gallina model of return_handler.go; tied to the code by handlers of every shape (string, []byte incl. nil "
                      "and empty non-nil, error nil/non-nil of three concrete types, *string, (int,X), (X,error)) at every chain position, invoked "
                      "reflectively and through the func() (int,string) fast path, also behind a middleware that re-maps http.ResponseWriter to a marking wrapper (C14_override: the table writes through the writer found in the injector)",
        "level_note": "trusts Coq kernel, extraction, glue; reflect's Value.IsZero/Kind behaviour is modelled for the supported shapes only; "
                      "a ReturnHandler mapped in the request or application scope is part of the model (C14_override) and of the generator",
        "rule": "random chains of 1-6 handlers where about half are pure 'return a value' handlers of a random supported shape (values: empty, "
                "'s', 'hello', bytes 00ff; nil/empty slices; nil/non-nil errors; status from 7 codes). Non-trivial: the response is decided by a "
                "return value (no earlier write); distinct by input.",
        "what": "Model vs implementation: trace, status, body; spec: status/body equal the documented table for the first returned value.",
        "assumes": ["int status values are valid HTTP codes"],
    },
    "C15": {
        "n_quick": 6000, "n_thorough": 150000,
        "technique": "Coq proof (panic propagation in the fuel-indexed chain semantics) + correspondence with the real Recovery middleware",
        "level_text": "proof: theorems of coq/Props/C15.v about the Gallina model of Recovery inside the chain model, for Recovery at any position, "
                      "panics of any value at any later position and phase; tied to the code by running the real flamego.Recovery() in scripted "
                      "stacks with panics of string/error/runtime-error/struct/http.ErrAbortHandler values and unresolvable handler parameters, "
                      "1-3 requests per instance, development, production and test mode, also with http.ResponseWriter re-mapped to a marking wrapper (C15_response); the panic detail is recognised by the text of the panic value, not by the layout or wording of the page",
        "level_note": "trusts Coq kernel, extraction, glue; hypothesis H1 (handlers placed before Recovery call Next at most once and do not panic) "
                      "is required: without it the statement is false of the code (known finding F16); panic(nil) is outside the domain",
        "rule": "stacks with Recovery after 0-2 non-panicking middleware (<=1 Next each), then 1-6 handlers of which half may panic (7 value kinds) "
                "or be unresolvable, before/after writes and inside nested Next; 1-3 requests on the same instance. Non-trivial: some later "
                "handler can panic; distinct by input.",
        "what": "Model vs implementation: trace, status, body (panic page / production text recognised), escaped panic, for each of the requests; "
                "spec: nothing escapes, detail only in development, pre-Recovery middleware completes, all requests on the instance answer alike.",
        "assumes": ["H1: pre-Recovery handlers call Next at most once (F16 is the recorded counter-example)"],
    },
    "C01": {
        "n_quick": 2500, "n_thorough": 37500,
        "technique": 'Coq proof (soundness of the tree matcher by nested induction) + correspondence model ~ implementation ~ declarative priority spec',
        "level_text": 'proof: C01_dispatch_iff / C01_dispatch_iff_parsed (the latter without any hypothesis, for routes returned by the parser; for every list of accepted registrations, every path and header predicate: dispatched iff some registered route - long or short form - admits the segments and its constraints hold; hence fall-back, never not-found while an admitting route exists), C01_dispatch_sound(_registered), C01_registration_invariant (children sorted by rank with stable insertion, distinct keys, match-all last; exactly the paths of the route itself are added), C01_regex_exact; C01_priority / C01_priority_parsed: the candidates of a request (every match of every registered route whose constraints hold, each with its key (fallback, rank, birth, captured) per depth) are exactly the admitting forms, and the matcher answers with a candidate of least key - static < regex < placeholder < match-all, earlier-registered first among equals (birth = least route id below, C01_birth_is_least_id), fewest captured segments, final match-all last; C01_ordering_invariant (children sorted by (rank, birth)); C01_router_priority (the same for what the router serves in every reachable state, per method, with header gating); C01_priority_over_routes / _parsed / C01_router_priority_over_routes: RouteSpec.spec_winner - the documented order read over the LIST of registered routes, no tree in sight - equals what the tree matcher (and, in every reachable state, the router) answers; spec_winner additionally judges the answer of the implementation on every request; C01_source_styles ties the ranks to the order of the matchStyle constants in the regenerated SourceFacts.v',
        "level_note": 'trusts Coq kernel, extraction, glue; Go regexp is modelled for a fragment (literals, classes, ., concatenation, alternation, greedy * + ? with non-nullable bodies, groups); regex subjects are ASCII; inner groups are non-capturing in the model',
        "rule": 'random registration/Headers/request histories: 1-7 registrations from a collision-rich segment pool (statics incl. regex metacharacters, placeholders, regex segments with several binds / inner groups / random regex ASTs, match-all with capture 1|2|-1|3x, optional last segment, trailing slash), methods GET/other/Any/lower-case, ~8% ill-formed registrations; requests = instances of registered routes (regex parts sampled from the AST), perturbed instances, random segment strings; headers on ~10% of registrations. After a rejected registration the run continues on an instance rebuilt from the accepted operations (AddRoute is not atomic, F11). Non-trivial: a request that >= 2 derivations (routes or capture lengths) admit.',
        "what": 'model (tree insert + match, shortcut, headers) vs ServeHTTP: accept/reject of each registration and chosen route + params of each request; spec: the chosen route equals spec_winner (flat routes x derivations, least key (fallback,rank,birth,captured) per depth)',
        "assumes": ['Go regexp is modelled for a fragment (literals, classes, ., concatenation, alternation, greedy * + ? with non-nullable bodies, groups); regex subjects are ASCII; inner groups are non-capturing in the model'],
    },
    "C02": {
        "n_quick": 2500, "n_thorough": 37500,
        "technique": 'Coq proof (capture frame lemma over the CPS matcher) + correspondence on delivered parameter maps',
        "level_text": 'proof: C02_regex_segment_values (binds of a regex segment get exactly the part their own expression matched in full, literals literal, parts concatenate), C02_regex_segment_accepts, C02_delivered_values (values are those of an adm derivation, decoded once), C02_roundtrip (substituting the values back into the route, with the optional segment iff the request used it, reproduces the path), C02_names (names are exactly the binds of the matched form, pairwise distinct), C02_reserved_route (in the map handlers get, route is the canonical text of the matched route, shadowing a bind of that name; Router.deliver is extracted and used by the correspondence)',
        "level_note": 'trusts Coq kernel, extraction, glue; Go regexp is modelled for a fragment (literals, classes, ., concatenation, alternation, greedy * + ? with non-nullable bodies, groups); regex subjects are ASCII; inner groups are non-capturing in the model; url.PathUnescape is re-implemented (validated by the correspondence)',
        "rule": 'random registration/Headers/request histories: 1-7 registrations from a collision-rich segment pool (statics incl. regex metacharacters, placeholders, regex segments with several binds / inner groups / random regex ASTs, match-all with capture 1|2|-1|3x, optional last segment, trailing slash), methods GET/other/Any/lower-case, ~8% ill-formed registrations; requests = instances of registered routes (regex parts sampled from the AST), perturbed instances, random segment strings; paths biased to regex segments, %-escapes valid/invalid/%2F. After a rejected registration the run continues on an instance rebuilt from the accepted operations (AddRoute is not atomic, F11). Non-trivial: the dispatched route has a regex-style segment.',
        "what": "delivered Params() map of every dispatched request vs model; spec: the values are a capture of the chosen route's pattern (every decomposition checked with the regex semantics), decoded once, and 'route' is the canonical text",
        "assumes": ['Go regexp is modelled for a fragment (literals, classes, ., concatenation, alternation, greedy * + ? with non-nullable bodies, groups); regex subjects are ASCII; inner groups are non-capturing in the model'],
    },
    "C07": {
        "n_quick": 2500, "n_thorough": 37500,
        "technique": 'Coq proof (refinement of an index-level transcription of the matcher, whose slice expressions can fail, to the segment-level matcher) + hostile-input correspondence under recover()',
        "level_text": 'proof: C07_matcher_never_panics / C07_index_matcher_refines - the matcher written over the path and a byte index exactly as tree.go and leaf.go do (path[next:], path[next:next+i], next+i+1, path[next-1:], the match-all loop), with out-of-range slices modelled as a panic value, never panics for any tree and any byte string and returns what the segment-level matcher returns on the split path; C07_one_outcome / C07_unknown_method_not_found / C07_path_has_segments about the total model of ServeHTTP; that the transcription is faithful is tied by the hostile stream (arbitrary bytes as path, arbitrary method tokens) under recover(); C07_source_methods: the model has one method tree per entry of httpMethods in router.go as regenerated into SourceFacts.v, the nine standard tokens',
        "level_note": 'trusts Coq kernel, extraction, glue; segment-level model; Go regexp is modelled for a fragment (literals, classes, ., concatenation, alternation, greedy * + ? with non-nullable bodies, groups); regex subjects are ASCII; inner groups are non-capturing in the model',
        "rule": 'random registration/Headers/request histories: 1-7 registrations from a collision-rich segment pool (statics incl. regex metacharacters, placeholders, regex segments with several binds / inner groups / random regex ASTs, match-all with capture 1|2|-1|3x, optional last segment, trailing slash), methods GET/other/Any/lower-case, ~8% ill-formed registrations; requests = instances of registered routes (regex parts sampled from the AST), perturbed instances, random segment strings; a third of the requests use hostile paths (empty, slash runs, arbitrary bytes, malformed %-escapes, non-UTF-8, long) and odd method tokens. After a rejected registration the run continues on an instance rebuilt from the accepted operations (AddRoute is not atomic, F11). Non-trivial: unknown method or a path with bytes outside printable ASCII.',
        "what": 'every request served twice under recover(): no panic, exactly one chain (counter in the first middleware), same outcome; outcome vs model',
        "assumes": ['Go regexp is modelled for a fragment (literals, classes, ., concatenation, alternation, greedy * + ? with non-nullable bodies, groups); regex subjects are ASCII; inner groups are non-capturing in the model'],
    },
    "C08": {
        "n_quick": 2500, "n_thorough": 37500,
        "technique": 'Coq proof (acceptance characterised on the tree: both directions, by induction over AddRoute and by the uniqueness/no-clash invariants of key-carrying paths) + declarative validity predicate + correspondence on accept/reject',
        "level_text": "proof: C08_accept_iff - on every tree registration can have built, a route is accepted iff every segment classifies in the context of its own earlier segments (expressions compile, no bind reused, no inner empty segment, no second match-all before the end), no non-final segment is optional, and none of its forms has the segment texts of a registered path or a different match-all where a registered path has one in the same role; C08_invariants_preserved (wfo, live, exact key paths added), C08_accepted_reachable (whatever a form of an accepted route admits is dispatched); C08_accept_iff_valid: for every list of accepted registrations the registration is accepted iff RouteSpec.valid - the same conditions stated on the list of routes, which is the executable judge applied to the accept/reject of the implementation on every generated registration",
        "level_note": 'trusts Coq kernel, extraction, glue; regexp.Compile is an oracle (compile : src -> option re) supplied per case',
        "rule": 'random registration/Headers/request histories: 1-7 registrations from a collision-rich segment pool (statics incl. regex metacharacters, placeholders, regex segments with several binds / inner groups / random regex ASTs, match-all with capture 1|2|-1|3x, optional last segment, trailing slash), methods GET/other/Any/lower-case, ~8% ill-formed registrations; requests = instances of registered routes (regex parts sampled from the AST), perturbed instances, random segment strings; a third of the registrations ill-formed (each rejection cause), unknown methods. After a rejected registration the run continues on an instance rebuilt from the accepted operations (AddRoute is not atomic, F11). Non-trivial: a registration the validity spec rejects.',
        "what": 'accept/reject of every registration vs model and vs the declarative predicate RouteSpec.valid on the list of accepted routes',
        "assumes": ['regexp.Compile is an oracle'],
    },
    "C09": {
        "n_quick": 2500, "n_thorough": 37500,
        "technique": 'Coq proof + correspondence over Headers()/request histories',
        "level_text": 'proof: C09_invisible (in every reachable router state the candidates of a request are exactly the matches by routes whose constraints hold for its headers - through the long or short form, any method - and the answer is the least of them, so a route whose constraints fail is invisible), C09_shortcut_too (same through the static shortcut), C09_gate, C09_constrained_leaves_shortcut, C09_replace',
        "level_note": 'trusts Coq kernel, extraction, glue; header regexes in the regex fragment, unanchored search modelled by Regex.search; header names canonical',
        "rule": "random registration/Headers/request histories: 1-7 registrations from a collision-rich segment pool (statics incl. regex metacharacters, placeholders, regex segments with several binds / inner groups / random regex ASTs, match-all with capture 1|2|-1|3x, optional last segment, trailing slash), methods GET/other/Any/lower-case, ~8% ill-formed registrations; requests = instances of registered routes (regex parts sampled from the AST), perturbed instances, random segment strings; Headers() on a third of the routes, re-specified up to 3 times, requests with random header subsets. After a rejected registration the run continues on an instance rebuilt from the accepted operations (AddRoute is not atomic, F11). Non-trivial: some accepted route's constraints fail for a request that reaches a handler.",
        "what": "chosen route of every request vs model; spec: the chosen route's constraints hold and it is the priority winner among routes whose constraints hold (failing ones invisible)",
        "assumes": ['Go regexp is modelled for a fragment (literals, classes, ., concatenation, alternation, greedy * + ? with non-nullable bodies, groups); regex subjects are ASCII; inner groups are non-capturing in the model'],
    },
    "C10": {
        "n_quick": 2500, "n_thorough": 37500,
        "technique": 'Coq proof (router invariant by induction over registration/Headers histories; static lookup through the priority-sorted tree) + correspondence against tree matching',
        "level_text": 'proof: C10_unobservable - for every router state reachable by any history of successful registrations and Headers() calls, every method, path and header set, serve = serve_tree (same route, empty parameters, same header gating); rests on C10_invariant (every method tree well-formed and priority-sorted, every table entry a registered fully static unconstrained route whose own kind path is in the tree of that method) and on static_lookup (tree matching of the literals of a static path returns that route first); tied to the code by histories whose every request outcome is compared with the model and with the model tree matcher',
        "level_note": 'trusts Coq kernel, extraction, glue; the hypothesis on registered segments (canonical text injective, identifiers non-empty and slash-free) is discharged for parser output by C06_exact: C10_unobservable_parsed has no hypothesis',
        "rule": "random registration/Headers/request histories: 1-7 registrations from a collision-rich segment pool (statics incl. regex metacharacters, placeholders, regex segments with several binds / inner groups / random regex ASTs, match-all with capture 1|2|-1|3x, optional last segment, trailing slash), methods GET/other/Any/lower-case, ~8% ill-formed registrations; requests = instances of registered routes (regex parts sampled from the AST), perturbed instances, random segment strings; static-heavy route sets, paths equal to route texts (incl. '?'), extra leading/trailing slashes. After a rejected registration the run continues on an instance rebuilt from the accepted operations (AddRoute is not atomic, F11). Non-trivial: a request answered from the shortcut table.",
        "what": "outcome of every request vs model; spec: equals the model's full tree matching for the same method and path",
        "assumes": [],
    },
    "C12": {
        "n_quick": 2500, "n_thorough": 60000,
        "technique": "Coq proof (the Replacer scan equals simultaneous hole filling, by induction on the skeleton) + correspondence on URLPath calls and on rebuilding dispatched requests",
        "level_text": "proof: C12_inverse / C12_inverse_values (for every form of a registered route and every derivation, filling the skeleton with the captured parameters - optional segment iff the form has it - spells the request path; binds pairwise distinct, C12_binds_distinct) and C12_simultaneous / C12_replacer_is_fill for every route, every value assignment with brace-free names, with and without the optional segment; tied to the code by Router.URLPath calls on named routes with values containing braces, other bind names, slashes, empty, duplicate and dangling pairs, withOptional variants, unknown/empty/duplicate names (panic), and by feeding each dispatched request's parameters back into URLPath",
        "level_note": "trusts Coq kernel, extraction, glue; strings.NewReplacer is modelled (first pair in argument order whose key is a prefix; for brace-free names keys cannot overlap, so Go's map iteration order is irrelevant); the regex oracle returns group-free expressions",
        "rule": "1-4 registrations (10% ill-formed), most of them named (names incl. empty and duplicates), 2-7 URLPath calls per history with values from {'', v, {x}, {y}, /, {, }, {id}x, a}{b, 7, a/b, %41, 'x y'}, unknown names, withOptional true/false/1, repeated and dangling pairs; half followed by a request to an instance of the route whose delivered parameters are rebuilt both with and without the optional segment. Non-trivial: a supplied value contains a brace, or a dispatched request of the named route is rebuilt; distinct by input.",
        "what": "model Router.URLPath vs implementation (string or panic) per call; spec: result = simultaneous filling of the skeleton (fill), rebuilt path = request path for %-free paths.",
        "assumes": ["bind names and literals are brace-free (guaranteed by the route grammar)"],
    },
    "C11": {
        "n_quick": 3000, "n_thorough": 80000,
        "technique": "Coq proof (stack-based execution = lexical flat expansion, by nested induction over programs) + correspondence by probing the real router",
        "level_text": "proof: C11_flat (exec p = flatten p for every registration program), C11_group_scope_restored, C11_autohead_get, C11_headers_routes_last, C11_checked_flat, C11_group_handlers_wrapped, C11_group_handlers_validated, C11_combo_autohead_at_get, C11_held_combo_registers_where_called, C11_held_combo_refuses_same_method (AutoHead, the HandlerWrapper and held ComboRoute values flow from one declaration to the next); tied to the code by running random programs (nesting depth <= 3, group handlers, Combo, Routes with comma lists and extra method strings, Any, AutoHead toggles, handler slices with spare capacity, .Headers on what a statement returns, a HandlerWrapper in a third of the programs and installed or taken off between declarations, ComboRoute values kept in a variable and given methods in other scopes or across AutoHead toggles, now and then a handler that is not a function) on a real Flame and probing every declared (method, path) plus prefix-less paths: handler-id trace and parameters must equal those of the model's registrations fed to the router model",
        "level_note": "trusts Coq kernel, extraction, glue; route paths of the programs are static or {placeholder} segments with unique route paths (no duplicate registrations, whose panic would leave the real group stack pushed); Go slice aliasing is outside the immutable model and is exercised on the implementation only",
        "rule": "random programs of 2-6 top-level statements, groups nested up to depth 3 with paths /gK, '', /{gidK}, /gK/x; every route path unique; 4% end with a Combo using GET twice. Probes: each declared route with 3-7 methods, a third also without its group prefix. Non-trivial: nested groups or a Combo; distinct by input.",
        "what": "per probe: not-found or (handler-id trace, params); whole program: ok or panic. Model: exec -> router model -> prediction; spec: same prediction from flatten.",
        "assumes": ["unique (method, path) per program"],
    },
    "C06": {
        "n_quick": 6000, "n_thorough": 300000, "exhaustive_in_thorough": True,
        "technique": "translator (go/ast -> Coq lexer table, re-proved equal to the model's table on every run) + Coq proof that lexer+parser accept exactly the derivations of the grammar (forward simulation of the lexer on derivations, inversion of parser runs over the chain characterisation of lexer runs) + exhaustive/random correspondence",
        "level_text": "proof + translation: C06_exact (parse s = Some r iff r is a derivable AST and s spells a derivation of it with some spacing: soundness and completeness for all byte strings), C06_canonical (the rendering is that derivation with single blanks, parses to the same AST, renders to itself), C06_total, C06_lexer_preserves_text, C06_lexer_runs_are_chains; C06_source_table (the rule table regenerated from parser.go equals the table the model interprets) and C06_classes (README <char>/<any> = lexer classes) are re-checked by the kernel on every run; tied to the code by all strings up to length 4 (thorough: 5) over the 18-byte token alphabet, every single byte in the five lexer contexts, and random derivations with random spacing and 1-2 random edits, also judged by the byte-level BNF recogniser Grammar.bnf_parse, itself proved equal to the model on every byte string (C06_parse_is_bnf, C06_bnf_exact)",
        "level_note": "trusts Coq kernel, extraction, glue, the translator (harness/xlate.go, which cross-checks each normalised class against Go's regexp on all ASCII bytes); participle's engine is modelled (ordered alternatives, greedy repetition, literal tokens by text, no elision), its 1,000,000-iteration cap is not",
        "rule": "all strings of length <= 4 (thorough <= 5) over / ? { } : , space a * . \\ | ( [ tab $ ~; 2560 single-byte-in-context strings; random grammar derivations (1-4 segments, idents/regexes over the full documented classes, 0-2 blanks after ':' and ','), 40% verbatim, 40% with 1-2 random insert/delete/replace edits over a 31-byte alphabet incl. NUL, 0xff, newline; 20% random bytes. Non-trivial: accepted strings of length >= 4; distinct by input.",
        "what": "accept/reject (never panic), AST, Route.String(), re-parse of the rendering vs model; spec: accepted iff the byte-level BNF recogniser accepts, with its structure, and the canonical form re-parses to the same structure and renders to itself.",
        "assumes": [],
    },
    "C04": {
        "n_quick": 4000, "n_thorough": 100000,
        "technique": "Coq proof (characterisation of Value over scope chains, Invoke/Apply by induction over parameters) + correspondence with reflect-built handlers",
        "level_text": "proof: C04_exact_nearest / C04_implementors_before_parent / C04_else_parent / C04_replace / C04_request_sees_own / C04_request_local / C04_invoke_error / C04_invoke_args / C04_fast_eq, C04_invalid_is_absent / C04_admissible (an entry holding an invalid reflect.Value hides nothing in outer scopes) for every type universe and every chain of scopes; tied to the code by Map/MapTo/Set/Value/Invoke/Apply histories on 1-3 nested injectors over an 11-type universe (int, string, *struct, struct, chan, <-chan via Set, two nested interfaces, interface{}, named int, plain struct; implements table computed by reflect), handlers built with reflect.MakeFunc for random signatures plus two hand-written FastInvoker types, structs built with reflect.StructOf (tagged, untagged, unexported fields), and Flame-level requests whose handlers map values for later handlers",
        "level_note": "trusts Coq kernel, extraction, glue; where Go iterates a map and takes any implementor the model answers the set of admissible values and the comparison is membership; reflect's call mechanics are not modelled",
        "rule": "3-12 operations per history (30% Map, 15% MapTo, Set of <-chan, in a quarter of the cases Set(t, reflect.Value{}) under concrete types together with a valid registration and a look-up of the same type - such cases ask for no interface{} because with an invalid value under an implementing key the answer of Go depends on map iteration order -, Value, Invoke with 0-3 random parameter types or plain+fast pairs, Apply with 1-4 fields, Flame requests with 1-2 requests x 1-3 handlers mapping 0-1 values). Non-trivial: an Invoke with >= 2 parameters, a Value with several admissible implementors, or a request-scope scenario; distinct by input.",
        "what": "per operation: value identity / none, call with argument identities + call count + results unchanged, error naming the type + call count 0, fields set by Apply; model vs implementation (membership for implementor choice).",
        "assumes": ["Set is used with values of the key type"],
    },
    "C18": {
        "n_quick": 5000, "n_thorough": 150000,
        "technique": "Coq proof (escape/unescape round trip by induction over all byte strings, finite hex-digit facts by computation) + correspondence on accessor outputs and a Set-Cookie/Cookie exchange",
        "level_text": "proof (partial): C18_cookie_roundtrip, C18_unescape_escape, C18_escaped_value_is_cookie_safe for every byte string; C18_default_rule_present/absent for the accessor rule; C18_query_parse_encode / C18_query_first_value / C18_query_absent_gives_default / C18_query_all_values / C18_query_bad_piece_skipped for how a value is found in the raw query string (model of net/url.ParseQuery: Query.v); tied to the code by reading Query/QueryTrim/QueryUnescape/QueryBool/QueryInt/QueryInt64/Param/ParamInt/ParamInt64/Cookie with and without defaults for arbitrary byte strings (control bytes, separators, quotes, non-ASCII, huge numbers) and by feeding the Set-Cookie header back as a Cookie header",
        "level_note": "trusts Coq kernel, extraction, glue; net/url escaping, url.ParseQuery with Values.Get (Query.v), strconv integer/bool parsing, strings.TrimSpace (ASCII and 2-byte Unicode spaces) and the cookie byte rule are re-implemented and validated by the correspondence; ParseFloat and net/http's cookie header parsing are oracles (partial)",
        "rule": "query value, path parameter and cookie value drawn from a 46-string pool (empty, spaces, %-sequences, booleans, decimal numbers incl. int64 boundaries and overflow, underscores, hex, control bytes, separators ; , space quote backslash, NUL, DEL, invalid UTF-8, 2-byte Unicode spaces) or random bytes; each default present half of the time; one case in five rewrites the query while the request is served and reads it again. Non-trivial: the cookie value contains a byte that needs escaping; distinct by input.",
        "what": "13 accessor outputs per case vs model; spec: no panic, cookie read back = value written, absent parameter yields the caller's default unchanged or zero.",
        "assumes": ["bytes are < 256"],
    },
    "C16": {
        "n_quick": 4000, "n_thorough": 120000,
        "technique": "Coq proof (path cleaning invariant by induction; case analysis of the decision function) + correspondence over a real directory tree",
        "level_text": "proof (partial): C16_clean_no_dotdot / C16_clean_no_slash for every byte string, C16_contained (whatever is served is a regular file reached by plain components below the directory), C16_other_methods_silent, C16_prefix_boundary, C16_redirect_slash about the Gallina model of static.go over a model of path.Clean / http.Dir.Open / a file tree; tied to the code by serving requests over a real temp tree with files outside the served directory, a sibling directory whose name extends it, a directory named like the prefix and one named like the index file",
        "level_note": "trusts Coq kernel, extraction, glue; http.Dir, os (symbolic links), http.ServeContent (Range/If-Modified-Since) are modelled or oracles, validated by the correspondence only; request paths start with '/'",
        "rule": "half of the paths are real paths of the tree or classic traversals (/../secret.txt, /sub/../../secret.txt, //a.txt, /a.txt/..), half are 0-4 random components from a 27-entry pool (tree names, .., ., empty, NUL, %2e%2e, ..., names outside the directory), with doubled and trailing slashes; prefix from 8 spellings with look-alikes (prefix+'x', prefix+'2'); methods GET 75% / HEAD / others; Index custom 20%; ETag/Expires/CacheControl toggled; with ETag a second request carries If-None-Match; one case in six leaves Directory empty and runs in a working directory whose public entry is the tree; one case in five opens the directory through http.FS(os.DirFS(dir)) instead of http.Dir. Non-trivial: something is served/redirected, or a path with '..' is passed on; distinct by input.",
        "what": "pass / redirect Location / served file identity (+ header presence) / 304 per request vs model; spec: served files are inside the directory, only GET/HEAD under the prefix boundary are answered, redirects end in '/'.",
        "assumes": ["URL.Path starts with '/'", "no symbolic links in the served tree"],
    },
    "C17": {
        "n_quick": 4000, "n_thorough": 100000,
        "technique": "Coq proof of the glue (status, content type in force when the status line is sent, body) with the encoders as oracles + correspondence decoding the bodies with the standard decoders",
        "level_text": "proof (partial): C17_status_ct_body (for every kind, charset, status, payload the response carries exactly that status, the matching Content-Type with the configured charset already set when the status line goes out, and exactly the payload) and C17_available (Render resolves in the request scope after the Renderer middleware, via the C04 model); that encoding/json|xml produce a body decoding back to the value with the configured indentation is checked by the correspondence only (Unmarshal + DeepEqual, byte comparison with the standard encoder's own output)",
        "level_note": "trusts Coq kernel, extraction, glue; encoding/json, encoding/xml are oracles; values are instances of one struct shape with strings (incl. markup characters, non-ASCII, newlines, NUL for JSON), ints, bools, string slices, an optional nested struct with a float and an attribute",
        "rule": "1-3 render calls per instance (JSON/XML 50%, Binary random bytes, PlainText), 8 status codes, charset default/utf-8/iso-8859-1/gbk, JSON and XML indent none/2 spaces/tab; a third of the cases serve the second request as a sub-request issued by the first request's handler before it renders (same Renderer, overlapping requests); 8% put a handler asking for Render before the Renderer. Non-trivial: an encoded value or an overlapping sub-request; distinct by input.",
        "what": "per response: status, Content-Type as it was when the status line was sent, body faithful (decodes to the value and equals the standard encoder's output / verbatim), number of writes; model vs implementation.",
        "assumes": ["values are encodable"],
    },
    "C05": {
        "n_quick": 120, "n_thorough": 3000, "go_build_flags": "-race", "search_rounds": 2,
        "technique": "Coq proof of isolation over every interleaving (invariant by induction on the schedule) for the shared-state discipline; executable support: serial vs concurrent differential run under the Go race detector",
        "level_text": "proof (partial): C05_isolation - for any number of requests and every interleaving of their atomic steps, each request's private state is what it would be served alone and once-cells only go None -> canonical; the Go memory model is outside the model: data races (unsynchronised writes, slice aliasing, a map written while serving) are looked for on the implementation, by serving 16-47 mixed requests per case serially on one instance and from 8 goroutines released together on an identically built fresh instance (lazily rendered strings first touched concurrently), harness built with -race; responses must be equal and the detector silent",
        "level_note": "trusts Coq kernel, extraction, glue; the theorem is about the discipline (immutable configuration + sync.Once cells + per-request private state), not about Go's memory model; the race detector only sees the executions that happen",
        "rule": "2-7 accepted registrations from the router pool (static, regex, match-all, optional, header-constrained, Any), a named route used for URL building inside handlers, request-scoped Map of a per-request token read back by a later handler, an application-scope service resolved through an interface; 16-47 requests per case. Non-trivial: >= 16 requests served concurrently; distinct by input.",
        "what": "serial answers vs router model and priority spec; concurrent answers = serial answers; race detector reports turned into the replay.",
        "assumes": ["set-up has finished before serving starts"],
    },
}

# widenings of the generated streams made while closing seeded changes of rounds 5 and 6 (DESIGN.md 11.5)
_MORE = {
    "C02": "The canonical text of a route is also used as a request path.",
    "C03": "One case in six installs the middleware through Handlers() from a slice the caller overwrites afterwards; handlers may Flush (the wire is no http.Flusher).",
    "C04": "Apply targets may sit behind one or two more pointers.",
    "C05": "Recovery is the first middleware and every third route answers and then panics, so stacks are formatted concurrently.",
    "C07": "Every fourth request is repeated under another spelling of the path and then without its headers; requests may have no header map at all (Header == nil, Host set).",
    "C08": "Also: method lists through Routes() (one unknown entry refuses), raw route texts (a generated route with one character inserted, judged by the parser model), and a same-instance stream (no rebuild after a rejection; judged: a registration that failed never answers a request; single-method registrations only, because a multi-method registration is the sequence of its single ones).",
    "C09": "Constraint names also under non-canonical spellings (x-k, X-k, USER-AGENT), two spellings of one header in one Headers() call included.",
    "C11": "Also: Routes lists with empty or blank-separated entries (unknown method), group paths ending in a slash with relative and empty route paths inside. A quarter of the route statements are followed by .Headers(\"X-Gate\", \"\") and every probe of such a program is sent with and without the header; with a HandlerWrapper installed the trace shows the wrapper's mark before every handler.",
    "C12": "Bind names with the punctuation the lexer allows (user-id, f.n, k~1); every third URL is built through the Context of a request after another build of the same route with other values.",
    "C14": "Also shapes outside the table ((bool, string), three values), a second request on the same instance in every third case, statuses 700 and 999, error texts with %.",
    "C15": "Handlers may Flush; the middleware may be installed through Handlers().",
    "C16": "Every file has its own modification time and a Last-Modified that is sent must be the served file's.",
    "C17": "Statuses also 204, 304, 299, 599, 700; charsets also UTF-8 and Shift_JIS; a declared Content-Length must be the length of what was written.",
    "C18": "One case in five carries a malformed pair elsewhere in the query (junk=%zz, 100%, x=1;y=2, %); QueryFloat64 is judged against strconv.ParseFloat (1e309, -1e400, 1e-400, NaN, inf, 0x1p-2 among the values).",
}
for _k, _v in _MORE.items():
    PROPS[_k]["rule"] = PROPS[_k]["rule"].rstrip() + " " + _v

# widenings of rounds 7 and 8
_MORE2 = {'C02': "Two registrations in three are spelled non-canonically (no blank or two blanks after ':'); static segments may contain escapes (a%20b) and are also requested under their decoded spelling.", 'C04': 'The universe has an interface with unexported methods; some Apply targets have their tagged fields pre-populated; a look-up that misses may be followed by a Set of an implementor and the same look-up again.', 'C05': 'Also in the workload: Static with ETags (files requested alongside), four routes of the built-in func() (int, string) shape with their own status and body, a HandlerWrapper, a plain func(Context) not-found handler.', 'C07': 'A header-less miss is followed by the same request with its headers again.', 'C08': "One case in twelve starts with a fixed sequence: two routes that differ by a '?' inside an expression (both accepted) and two different middle match-alls at one position next to a static sibling (the second refused).", 'C09': 'Header values may have leading/trailing blanks, be blank only, or carry a 1030-byte prefix.', 'C12': 'After a build with two pairs the same route is built again with the second pair folded into the value of the first.', 'C13': 'One WriteHeader in six is a pair (cwh c1 c2): the second call arrives while the first is inside the underlying writer; judged as the two calls one after the other.', 'C14': 'Also a []byte behind a pointer or an interface{} (RPtrB), concrete error types as declared result types, statuses 599 and 600.', 'C15': 'In a third of the cases the scripted panic values rotate from request to request (string, error, struct, string, http.ErrAbortHandler).', 'C16': 'Method look-alikes G, HE, EAD, T,H.', 'C17': 'Text that is not valid UTF-8 (PlainText, Binary); in a quarter of the cases an application-wide default Renderer() precedes the configured one.'}
for _k, _v in _MORE2.items():
    PROPS[_k]["rule"] = PROPS[_k]["rule"].rstrip() + " " + _v

# widenings of rounds 9 and 10
_MORE3 = {'C01': 'One case in fifteen registers 14 equally ranked regex leaves under one node with static and placeholder leaves in between.', 'C02': 'Paths with one letter in the other case.', 'C04': 'Also Map((*svcA)(nil)) and svcA as a value type (pointer-receiver methods).', 'C05': 'Handlers pass one pairs slice shared by all requests of an instance to URLPath; the request Logger is installed.', 'C06': 'Also tokens of 300 characters.', 'C09': 'Request headers may be sent twice (the first value counts).', 'C12': 'One Name call in four is repeated; values with ? and #.', 'C18': 'Accessors may get two defaults; mixed-case boolean spellings. Half of the cases also send a raw query string of well-formed and malformed pieces (bad escapes, semicolons, empty pieces, repeated names, arbitrary bytes) and read one name from it (Query, QueryInt64, QueryTrim, QueryStrings).'}
for _k, _v in _MORE3.items():
    PROPS[_k]["rule"] = PROPS[_k]["rule"].rstrip() + " " + _v
