"""Per-property configuration of bin/check."""

TRUSTED_BASE = [
    "Coq 8.16.1 kernel (coqc, full .vo build; vm_compute used for finite facts; no native_compute); coqchk in the thorough tier",
    "no Axiom/Parameter/Admitted anywhere (grepped on every run); Print Assumptions output of every property theorem is copied into print_assumptions",
    "extraction with ExtrOcamlBasic only (Extract Inductive bool/option/unit/prod/list/sumbool/sumor); nat, N, Z stay extracted inductives; OCaml 4.13.1",
    "hand-written glue: ocaml/driver.ml + per-property case decoding, harness/*.go (generators, spies, scripted handlers), bin/check",
    "correspondence is differential testing: the tie model ~ code is sampled, the theorems are about the model",
]

NOT_CLAIMED = {}

PROPS = {
    "C13": {
        "technique": "Coq proof (invariant by induction over all operation sequences) + model/implementation correspondence",
        "level_text": "proof: theorems C13_model_meets_spec / C13_at_most_one_status / C13_status_before_body / C13_head_forwards_no_body "
                      "hold for every method and every operation sequence of the Gallina model of response_writer.go; the model is tied to "
                      "the code by running both on the same generated sequences (incl. short writes of the underlying writer) and judging "
                      "the implementation's own outputs with the extracted executable spec",
        "level_note": "trusts the Coq kernel, extraction (ExtrOcamlBasic), the OCaml/Go glue and that sampled correspondence generalises; "
                      "status codes are non-zero; hooks do not re-enter the writer; Hijack/Push not modelled",
        "n_quick": 4000, "n_thorough": 60000, "exhaustive_in_thorough": True,
        "rule": "random op sequences (<=12 ops; WriteHeader codes 100..999, Write of 0..5 arbitrary bytes with an underlying writer that "
                "sometimes accepts fewer, Flush, Before, Status, Size, Written) for HEAD and other methods; thorough adds every sequence "
                "of length <=5 over an 8-op alphabet x {GET,HEAD}.  Non-trivial: a hook is registered and >=2 operations can trigger the "
                "status line; distinct by input.",
        "what": "Theorems (coq/Props/C13.v): for every method and every op sequence the model of response_writer.go is accepted by the "
                "executable judgement spec_ok, and acceptance implies <=1 status line, status before body, no body for HEAD. "
                "Correspondence: model outputs = implementation outputs per operation; spec_ok evaluated on the implementation's own outputs.",
        "assumes": ["status codes passed to WriteHeader are non-zero (net/http panics on invalid codes)",
                    "hooks do not re-enter the writer (sync.Once would deadlock); Hijack/Push are pass-through and not modelled"],
    },
    "C03": {
        "n_quick": 6000, "n_thorough": 150000,
        "technique": "Coq proof (fuel-indexed big-step semantics of run/Next, invariants by induction on fuel) + model/implementation correspondence on scripted handler stacks",
        "level_text": "proof: theorems of coq/Props/C03.v about the Gallina model of context.go run()/Next() for every handler stack and every "
                      "handler program; tied to the code by executing the same scripted stacks (middleware, nested groups, route handlers, "
                      "action; writes, Next 0..3 times, cancel, panics, return values; GET and HEAD) on a real Flame and comparing event "
                      "traces, status and body; the executable judgements order_ok / nest_ok / auto_ok judge the implementation's own traces",
        "level_note": "trusts Coq kernel, extraction, glue; handlers are scripted programs over {WriteHeader, Write, Next, Cancel, panic, return values}; "
                      "writes go through Context.ResponseWriter(); a handler re-mapping http.ResponseWriter is outside the model",
        "rule": "random stacks: 0-3 middleware (one Use call each), 0-2 nested groups with 0-2 handlers, 0-3 route handlers, optional action; "
                "each handler <=4 actions (WriteHeader/Write/Next/Cancel/Panic) and an optional return value of the C14 shapes; 20% HEAD. "
                "Non-trivial: >=2 handlers and (a handler calls Next twice or >=2 Next calls overall); distinct by input.",
        "what": "Model run()/Next()/Recovery vs real ServeHTTP: full Enter/Exit/Unwind/NextCall/NextRet trace (with the status and "
                "cancellation each handler sees on entry), final status, body chunks, escaped panic.",
        "assumes": ["status codes are valid (100..999)", "handlers write through the context's ResponseWriter"],
    },
    "C14": {
        "n_quick": 6000, "n_thorough": 150000,
        "technique": "Coq proof (case analysis over all values of the supported shapes) + correspondence incl. reflective and fast-path invocation",
        "level_text": "proof: render_table / empty_writes_nothing / response_is_written (coq/Props/C14.v) for every value of the supported return "
                      "shapes of the Gallina model of return_handler.go; tied to the code by handlers of every shape (string, []byte incl. nil "
                      "and empty non-nil, error nil/non-nil of three concrete types, *string, (int,X), (X,error)) at every chain position, invoked "
                      "reflectively and through the func() (int,string) fast path",
        "level_note": "trusts Coq kernel, extraction, glue; reflect's Value.IsZero/Kind behaviour is modelled for the supported shapes only; "
                      "ReturnHandler override is exercised under C04",
        "rule": "random chains of 1-6 handlers where about half are pure 'return a value' handlers of a random supported shape (values: empty, "
                "'s', 'hello', bytes 00ff; nil/empty slices; nil/non-nil errors; status from 7 codes). Non-trivial: the response is decided by a "
                "return value (no earlier write); distinct by input.",
        "what": "Model vs implementation: trace, status, body; spec: status/body equal the documented table for the first returned value.",
        "assumes": ["int status values are valid HTTP codes"],
    },
    "C15": {
        "n_quick": 6000, "n_thorough": 150000,
        "technique": "Coq proof (panic propagation in the fuel-indexed chain semantics) + correspondence with the real Recovery middleware",
        "level_text": "proof: theorems of coq/Props/C15.v about the Gallina model of Recovery inside the chain model, for Recovery at any position, "
                      "panics of any value at any later position and phase; tied to the code by running the real flamego.Recovery() in scripted "
                      "stacks with panics of string/error/runtime-error/struct/http.ErrAbortHandler values and unresolvable handler parameters, "
                      "1-3 requests per instance, development and production mode",
        "level_note": "trusts Coq kernel, extraction, glue; hypothesis H1 (handlers placed before Recovery call Next at most once and do not panic) "
                      "is required: without it the statement is false of the code (known finding F16); panic(nil) is outside the domain",
        "rule": "stacks with Recovery after 0-2 non-panicking middleware (<=1 Next each), then 1-6 handlers of which half may panic (7 value kinds) "
                "or be unresolvable, before/after writes and inside nested Next; 1-3 requests on the same instance. Non-trivial: some later "
                "handler can panic; distinct by input.",
        "what": "Model vs implementation: trace, status, body (panic page / production text recognised), escaped panic, for each of the requests; "
                "spec: nothing escapes, detail only in development, pre-Recovery middleware completes, all requests on the instance answer alike.",
        "assumes": ["H1: pre-Recovery handlers call Next at most once (F16 is the recorded counter-example)"],
    },
}
