(* Shared basics: bytes are N, byte strings are lists of N. *)
From Coq Require Export List NArith ZArith Bool Lia Arith.
Export ListNotations.

Definition byte := N.
Definition str := list N.

Fixpoint str_eqb (a b : str) : bool :=
  match a, b with
  | [], [] => true
  | x :: a', y :: b' => N.eqb x y && str_eqb a' b'
  | _, _ => false
  end.

Lemma str_eqb_eq a b : str_eqb a b = true <-> a = b.
Proof.
  revert b; induction a as [|x a IH]; intros [|y b]; cbn; split; try congruence; try discriminate.
  - intros H. apply andb_prop in H as [H1 H2]. apply N.eqb_eq in H1. apply IH in H2. congruence.
  - intros H. inversion H; subst. rewrite N.eqb_refl. cbn. apply IH. reflexivity.
Qed.

Lemma str_eqb_refl a : str_eqb a a = true.
Proof. apply str_eqb_eq. reflexivity. Qed.

Lemma str_eqb_neq a b : str_eqb a b = false <-> a <> b.
Proof.
  split.
  - intros H E. apply str_eqb_eq in E. congruence.
  - intros H. destruct (str_eqb a b) eqn:E; [|reflexivity]. apply str_eqb_eq in E. contradiction.
Qed.

Definition str_eq_dec (a b : str) : {a = b} + {a <> b}.
Proof. decide equality. apply N.eq_dec. Defined.

Definition slen (s : str) : N := N.of_nat (length s).

Fixpoint list_eqb {A} (eqb : A -> A -> bool) (a b : list A) : bool :=
  match a, b with
  | [], [] => true
  | x :: a', y :: b' => eqb x y && list_eqb eqb a' b'
  | _, _ => false
  end.

Lemma list_eqb_eq {A} (eqb : A -> A -> bool) :
  (forall x y, eqb x y = true <-> x = y) -> forall a b, list_eqb eqb a b = true <-> a = b.
Proof.
  intros H a; induction a as [|x a IH]; intros [|y b]; cbn; split; try congruence; try discriminate.
  - intros E. apply andb_prop in E as [E1 E2]. apply H in E1. apply IH in E2. congruence.
  - intros E. inversion E; subst. apply andb_true_intro. split; [apply H | apply IH]; reflexivity.
Qed.
