(* Model of the handler chain: context.go run()/Next() (with the index restoration of commit 36e45e1),
   return-value rendering (return_handler.go), the response status/body as the chain sees it, request
   cancellation, panics, and recovery.go's Recovery middleware (C03, C14, C15). *)
Require Import Base Return.

Inductive act :=
| AWriteHeader (c : Z)
| AWrite (bs : str)
| ANext
| ACancel
| APanic (v : nat)
| AMapRH (k : nat)          (* c.Map(ReturnHandler(custom k)): request-scoped return handler *)
| ASub                      (* a sub-request through the same application (a separate request) *)
| AWrapRW
| AFlush.                   (* c.ResponseWriter().Flush(): commits the status 200 if none was sent, whatever the underlying
                               writer can do; no body *)                  (* c.MapTo(wrapper, http.ResponseWriter): the writer re-mapped in the request scope; every Write through the
                               wrapper is preceded by a marker Write *)

Inductive handler :=
| HNormal (acts : list act) (ret : list rv)   (* a scripted handler body and what it returns *)
| HRecovery                                   (* flamego.Recovery() *)
| HUnres.                                     (* a handler with a parameter no scope can resolve *)

(* body chunks reaching the client *)
Inductive chunk := CBytes (bs : str) | CPanicPage (v : nat) (detail : bool).

(* what scripted handlers record *)
Inductive event :=
| Enter (i : nat) (st : Z) (canc : bool)      (* handler i starts; response status / cancellation it sees *)
| Exit (i : nat)                              (* its body returns normally *)
| Unwind (i : nat)                            (* a panic leaves its body *)
| NextCall (i : nat)                          (* it calls c.Next() *)
| NextRet (i : nat)                           (* that call returns *)
| Sent.                                       (* the status line reaches the client (recorded by the wire) *)

Record st := mkst {
  idx : nat;                 (* context.index *)
  status : Z;                (* ResponseWriter.Status() *)
  body : list chunk;         (* oldest first *)
  cancelled : bool;          (* request context done *)
  trace : list event;        (* oldest first *)
  rh : option nat;           (* ReturnHandler mapped in the request scope *)
  wrapped : bool             (* http.ResponseWriter re-mapped in the request scope to the marking wrapper *)
}.

Inductive outcome := Done (s : st) | Panicked (v : nat) (s : st) | OutOfFuel.

Definition set_idx (s : st) (i : nat) := mkst i (status s) (body s) (cancelled s) (trace s) (rh s) (wrapped s).
Definition log (s : st) (e : event) := mkst (idx s) (status s) (body s) (cancelled s) (trace s ++ [e]) (rh s) (wrapped s).
Definition set_cancelled (s : st) := mkst (idx s) (status s) (body s) true (trace s) (rh s) (wrapped s).
Definition set_rh (s : st) (k : nat) := mkst (idx s) (status s) (body s) (cancelled s) (trace s) (Some k) (wrapped s).
Definition set_wrapped (s : st) := mkst (idx s) (status s) (body s) (cancelled s) (trace s) (rh s) true.

(* the first status wins; that is when the status line reaches the client *)
Definition w_header (c : Z) (s : st) : st :=
  if Z.eqb (status s) 0 then mkst (idx s) c (body s) (cancelled s) (trace s ++ [Sent]) (rh s) (wrapped s) else s.

Definition w_body (head : bool) (ch : chunk) (s : st) : st :=
  let s1 := w_header 200 s in
  if head then s1 else mkst (idx s1) (status s1) (body s1 ++ [ch]) (cancelled s1) (trace s1) (rh s1) (wrapped s1).

Definition w_ops (head : bool) (ops : list wop) (s : st) : st :=
  fold_left (fun s o => match o with WHeader c => w_header c s | WBody b => w_body head (CBytes b) s end) ops s.

(* what the marking wrapper adds: one marker Write ("W") before every Write that goes through it *)
Definition marker : str := [87%N].
Definition mark_ops (ops : list wop) : list wop :=
  flat_map (fun o => match o with WBody b => [WBody marker; WBody b] | o => [o] end) ops.
Definition w_mark (head : bool) (s : st) : st :=
  if wrapped s then w_body head (CBytes marker) s else s.

(* a user-supplied ReturnHandler (identified by k): writes its own status and marker *)
Definition custom_rh (k : nat) : list wop := [WHeader (290 + Z.of_nat k); WBody [82; 48 + N.of_nat k]%N].

Definition written (s : st) : bool := negb (Z.eqb (status s) 0).

(* the panic value of "unable to invoke the handler" *)
Definition di_panic : nat := 0.

Section Chain.
Variable hs : list handler.          (* middleware ++ group handlers ++ route handlers *)
Variable action : option handler.    (* Flame.Action *)
Variable head : bool.                (* request method is HEAD *)
Variable dev : bool.                 (* flamego.Env() == EnvTypeDev *)
Variable apprh : option nat.         (* a ReturnHandler mapped in the application scope *)

Definition n := length hs.

Definition handler_at (i : nat) : option handler :=
  if Nat.ltb i n then nth_error hs i else if Nat.eqb i n then action else None.

Section Exec.
Variable runf : st -> outcome.       (* context.run, one unit of fuel less *)
Variable i : nat.                    (* the handler whose body this is *)

(* c.Next(): index++, run, index-- *)
Definition next (s : st) : outcome :=
  match runf (set_idx s (S (idx s))) with
  | Done s1 => Done (set_idx s1 (pred (idx s1)))
  | o => o
  end.

Fixpoint exec (l : list act) (s : st) {struct l} : outcome :=
  match l with
  | [] => Done s
  | a :: l' =>
      match a with
      | AWriteHeader c => exec l' (w_header c s)
      | AWrite bs => exec l' (w_body head (CBytes bs) s)
      | ACancel => exec l' (set_cancelled s)
      | APanic v => Panicked v s
      | AMapRH k => exec l' (set_rh s k)
      | ASub => exec l' s                       (* a separate request: nothing of this one changes *)
      | AWrapRW => exec l' (set_wrapped s)
      | AFlush => exec l' (w_header 200 s)
      | ANext =>
          match next (log s (NextCall i)) with
          | Done s1 => exec l' (log s1 (NextRet i))
          | o => o
          end
      end
  end.

(* Injector.Invoke of one handler *)
Definition invoke (h : handler) (s : st) : outcome :=
  match h with
  | HNormal acts _ =>
      match exec acts (log s (Enter i (status s) (cancelled s))) with
      | Done s1 => Done (log s1 (Exit i))
      | Panicked v s1 => Panicked v (log s1 (Unwind i))
      | OutOfFuel => OutOfFuel
      end
  | HRecovery =>                       (* defer recover(); c.Next() *)
      match next s with
      | Panicked v s1 =>               (* the writer is looked up in the injector: a re-mapped one is used *)
          Done (w_body head (CPanicPage v dev) (w_mark head (w_header 500 s1)))
      | o => o
      end
  | HUnres => Panicked di_panic s
  end.
End Exec.

Definition ret_of (h : handler) : list rv := match h with HNormal _ r => r | _ => [] end.

(* handleReturn is only called when something was returned; the nearest ReturnHandler is used; the default
   one looks the http.ResponseWriter up in the injector, so a re-mapped writer receives what it writes *)
Definition rendering (s : st) (h : handler) : list wop :=
  match ret_of h with
  | [] => []
  | vals => match rh s with
            | Some k => custom_rh k
            | None => match apprh with
                      | Some k => custom_rh k
                      | None => if wrapped s then mark_ops (render vals) else render vals
                      end
            end
  end.

Fixpoint run (fuel : nat) (s : st) {struct fuel} : outcome :=
  match fuel with
  | O => OutOfFuel
  | S f =>
      if Nat.ltb n (idx s) then Done s                       (* for c.index <= len(c.handlers) *)
      else if cancelled s then Done s                        (* request context done *)
      else
        match handler_at (idx s) with
        | None => Done (set_idx s (S (idx s)))               (* h == nil *)
        | Some h =>
            match invoke (run f) (idx s) h s with
            | Done s1 =>
                let s2 := set_idx s1 (S (idx s1)) in         (* c.index++ *)
                let s3 := w_ops head (rendering s2 h) s2 in     (* return values rendered *)
                if written s3 then Done s3 else run f s3
            | o => o
            end
        end
  end.

Definition init : st := mkst 0 0 [] false [] None false.

Definition serve : outcome := run (S (S n)) init.
End Chain.

(* ------------------------------------------------------------------ *)
(* The property as an executable judgement on a recorded trace (oldest first): one left-to-right
   scan that keeps (a) the first index not yet accounted for, (b) the stack of handlers that are
   running, (c) the previous event. *)

Definition scripted (hs : list handler) (action : option handler) (i : nat) : bool :=
  match handler_at hs action i with Some (HNormal _ _) => true | _ => false end.

Record jst := mkj { jnext : nat; jstk : list nat; jprev : option event;
                    jw : bool;      (* the status line has reached the client *)
                    jret : bool }.  (* some Next() call has returned *)

Definition j0 : jst := mkj 0 [] None false false.

Section Judge.
Variable hs : list handler.
Variable action : option handler.

(* no scripted handler in [a, a+len) *)
Definition none_scripted (a len : nat) : bool :=
  forallb (fun k => negb (scripted hs action k)) (seq a len).

Definition top_lt (stk : list nat) (i : nat) : bool :=
  match stk with [] => true | p :: _ => Nat.ltb p i end.

Definition top_is (stk : list nat) (i : nat) : bool :=
  match stk with [] => false | p :: _ => Nat.eqb p i end.

(* may handler i start now, seeing status st / cancellation c?  (the auto-advance rule) *)
Definition may_start (prev : option event) (st : Z) (c : bool) : bool :=
  match prev with
  | None => negb c                                   (* first handler of the request *)
  | Some (NextCall _) => negb c                      (* started by an explicit Next() *)
  | Some (Exit _) | Some (Unwind _) => Z.eqb st 0 && negb c   (* the chain advanced on its own *)
  | _ => false
  end.

Definition jstep (j : jst) (e : event) : option jst :=
  match e with
  | Enter i st c =>
      (* chain order: not before jnext, nothing scripted skipped, at most once (jnext moves past i);
         nesting: deeper than whatever is running; advance rule; the handler sees a truthful status;
         once a Next() call has returned (the remainder of the chain ran inside it, as far as it
         got) a handler can only start if the response has been written *)
      if Nat.leb (jnext j) i && none_scripted (jnext j) (i - jnext j) && scripted hs action i
         && top_lt (jstk j) i && may_start (jprev j) st c
         && Bool.eqb (Z.eqb st 0) (negb (jw j)) && (negb (jret j) || jw j)
      then Some (mkj (S i) (i :: jstk j) (Some e) (jw j) (jret j)) else None
  | Exit i | Unwind i =>
      if top_is (jstk j) i then Some (mkj (jnext j) (tl (jstk j)) (Some e) (jw j) (jret j)) else None
  | NextCall i =>
      if top_is (jstk j) i then Some (mkj (jnext j) (jstk j) (Some e) (jw j) (jret j)) else None
  | NextRet i =>
      if top_is (jstk j) i then Some (mkj (jnext j) (jstk j) (Some e) (jw j) true) else None
  | Sent =>
      (* at most one status line *)
      if jw j then None else Some (mkj (jnext j) (jstk j) (jprev j) true (jret j))
  end.

Fixpoint jrun (j : jst) (tr : list event) : option jst :=
  match tr with
  | [] => Some j
  | e :: t => match jstep j e with Some j' => jrun j' t | None => None end
  end.

(* accepted: every event allowed, and every started handler finished *)
Definition chain_spec_ok (tr : list event) : bool :=
  match jrun j0 tr with Some j => match jstk j with [] => true | _ => false end | None => false end.
End Judge.

Fixpoint enters (tr : list event) : list nat :=
  match tr with [] => [] | Enter i _ _ :: t => i :: enters t | _ :: t => enters t end.
