(* Proofs about the handler-chain model (C03, C15): for every handler stack and every handler program
   the recorded trace is accepted by the judge of Chain.v, fuel n+2 always suffices, and with Recovery
   installed (and the handlers before it calling Next at most once) no panic escapes. *)
Require Import Base Return Chain.
From Coq Require Import Sorted.

(* ---------- small facts about the state setters ---------- *)
Lemma w_header_idx c s : idx (w_header c s) = idx s.
Proof. unfold w_header. destruct (Z.eqb (status s) 0); reflexivity. Qed.
Lemma w_header_trace c s : trace (w_header c s) = trace s.
Proof. unfold w_header. destruct (Z.eqb (status s) 0); reflexivity. Qed.
Lemma w_header_canc c s : cancelled (w_header c s) = cancelled s.
Proof. unfold w_header. destruct (Z.eqb (status s) 0); reflexivity. Qed.
Lemma w_header_written c s : status s <> 0%Z -> status (w_header c s) <> 0%Z.
Proof. unfold w_header. intros H. destruct (Z.eqb (status s) 0) eqn:E; [apply Z.eqb_eq in E; contradiction | exact H]. Qed.
Lemma w_header_nz c s : c <> 0%Z -> status (w_header c s) <> 0%Z.
Proof. unfold w_header. intros H. destruct (Z.eqb (status s) 0) eqn:E; cbn; [exact H | apply Z.eqb_neq in E; exact E]. Qed.

Lemma w_body_idx h ch s : idx (w_body h ch s) = idx s.
Proof. unfold w_body. destruct h; cbn; apply w_header_idx. Qed.
Lemma w_body_trace h ch s : trace (w_body h ch s) = trace s.
Proof. unfold w_body. destruct h; cbn; apply w_header_trace. Qed.
Lemma w_body_canc h ch s : cancelled (w_body h ch s) = cancelled s.
Proof. unfold w_body. destruct h; cbn; apply w_header_canc. Qed.
Lemma w_body_nz h ch s : status (w_body h ch s) <> 0%Z.
Proof. unfold w_body. destruct h; cbn; apply w_header_nz; discriminate. Qed.

Lemma w_ops_idx h ops : forall s, idx (w_ops h ops s) = idx s.
Proof. unfold w_ops. induction ops as [|o ops IH]; intros s; cbn; [reflexivity|]. rewrite IH. destruct o; [apply w_header_idx | apply w_body_idx]. Qed.
Lemma w_ops_trace h ops : forall s, trace (w_ops h ops s) = trace s.
Proof. unfold w_ops. induction ops as [|o ops IH]; intros s; cbn; [reflexivity|]. rewrite IH. destruct o; [apply w_header_trace | apply w_body_trace]. Qed.
Lemma w_ops_canc h ops : forall s, cancelled (w_ops h ops s) = cancelled s.
Proof. unfold w_ops. induction ops as [|o ops IH]; intros s; cbn; [reflexivity|]. rewrite IH. destruct o; [apply w_header_canc | apply w_body_canc]. Qed.
Lemma w_ops_written h ops : forall s, status s <> 0%Z -> status (w_ops h ops s) <> 0%Z.
Proof.
  unfold w_ops. induction ops as [|o ops IH]; intros s H; cbn; [exact H|]. apply IH.
  destruct o; [apply w_header_written; exact H | apply w_body_nz].
Qed.

Lemma written_true s : written s = true <-> status s <> 0%Z.
Proof. unfold written. destruct (Z.eqb (status s) 0) eqn:E; cbn; split; intros H; try congruence.
  - apply Z.eqb_eq in E. contradiction.
  - apply Z.eqb_neq in E. exact E.
Qed.
Lemma written_false s : written s = false <-> status s = 0%Z.
Proof. unfold written. destruct (Z.eqb (status s) 0) eqn:E; cbn; split; intros H; try congruence.
  - apply Z.eqb_eq in E. exact E.
  - apply Z.eqb_neq in E. contradiction.
Qed.

Section P.
Variable hs : list handler.
Variable action : option handler.
Variable head dev : bool.

Notation n := (Chain.n hs).
Notation scr := (scripted hs action).
Notation hat := (handler_at hs action).
Notation J := (jrun hs action j0).
Notation jst1 := (jstep hs action).
Notation runm := (Chain.run hs action head dev).

(* ---------- the judge, one event at a time ---------- *)
Lemma jrun_app j a b :
  jrun hs action j (a ++ b) = match jrun hs action j a with Some j' => jrun hs action j' b | None => None end.
Proof.
  revert j; induction a as [|e a IH]; intros j; [reflexivity|]. cbn [app jrun].
  destruct (jst1 j e); [apply IH | reflexivity].
Qed.

Lemma J_log s e : J (trace (log s e)) = match J (trace s) with Some j => jst1 j e | None => None end.
Proof. cbn [log trace]. rewrite jrun_app. destruct (J (trace s)) as [j|]; [|reflexivity]. cbn. destruct (jst1 j e); reflexivity. Qed.

Definition stk_lt (j : jst) : Prop := Forall (fun x => x < jnext j) (jstk j).

Lemma jstep_stk_lt j e j' : stk_lt j -> jst1 j e = Some j' -> stk_lt j'.
Proof.
  unfold stk_lt. intros H E. destruct e as [i st c|i|i|i|i]; cbn [jstep] in E.
  - destruct (_ && _) eqn:C; [|discriminate]. inversion E; subst; clear E. cbn.
    repeat (apply andb_prop in C as [C ?]). apply Nat.leb_le in C.
    constructor; [lia|]. eapply Forall_impl; [|exact H]. cbn. intros; lia.
  - destruct (top_is _ _); [|discriminate]. inversion E; subst; cbn. destruct (jstk j); cbn; [constructor | inversion H; assumption].
  - destruct (top_is _ _); [|discriminate]. inversion E; subst; cbn. destruct (jstk j); cbn; [constructor | inversion H; assumption].
  - destruct (top_is _ _); [|discriminate]. inversion E; subst; cbn. exact H.
  - destruct (top_is _ _); [|discriminate]. inversion E; subst; cbn. exact H.
Qed.

Lemma jrun_stk_lt tr : forall j j', stk_lt j -> jrun hs action j tr = Some j' -> stk_lt j'.
Proof.
  induction tr as [|e tr IH]; intros j j' H E; cbn in E; [inversion E; subst; exact H|].
  destruct (jst1 j e) as [j1|] eqn:E1; [|discriminate]. eapply IH; [|exact E]. eapply jstep_stk_lt; eauto.
Qed.

Lemma J_stk_lt tr j : J tr = Some j -> stk_lt j.
Proof. apply jrun_stk_lt. constructor. Qed.

Lemma none_scripted_true a len : (forall k, a <= k -> k < a + len -> scr k = false) -> none_scripted hs action a len = true.
Proof.
  intros H. unfold none_scripted. apply forallb_forall. intros k Hk. apply in_seq in Hk. rewrite H; [reflexivity | lia | lia].
Qed.

(* ---------- invariants ---------- *)
(* the trace so far is accepted, the running handlers are [sigma], and every scripted handler below
   the frontier [f] has been started *)
Definition cov (sigma : list nat) (f : nat) (s : st) (j : jst) : Prop :=
  J (trace s) = Some j /\ jstk j = sigma /\ jnext j <= f /\ (forall k, jnext j <= k -> k < f -> scr k = false).

Definition pv_ok (j : jst) : Prop :=
  match jprev j with Some (Enter _ _ _) | Some (NextRet _) => False | _ => True end.

Definition auto_pre (j : jst) (s : st) : Prop :=
  match jprev j with
  | Some (Exit _) | Some (Unwind _) => status s = 0%Z
  | Some (Enter _ _ _) | Some (NextRet _) => False
  | _ => True
  end.

Definition stop (s : st) : Prop := n < idx s \/ cancelled s = true \/ status s <> 0%Z.
Definition stopb (s : st) : Prop := n < S (idx s) \/ cancelled s = true \/ status s <> 0%Z.

Fixpoint nopanic (l : list act) : bool :=
  match l with [] => true | APanic _ :: _ => false | _ :: l' => nopanic l' end.
Fixpoint count_next (l : list act) : nat :=
  match l with [] => 0 | ANext :: l' => S (count_next l') | _ :: l' => count_next l' end.

(* Recovery sits at position r and every handler before it is a scripted handler that does not panic
   itself and calls Next at most once *)
Definition recov_cfg (r : nat) : Prop :=
  hat r = Some HRecovery /\
  forall p, p < r -> exists acts ret, hat p = Some (HNormal acts ret) /\ nopanic acts = true /\ count_next acts <= 1.

Definition not_panicked (o : outcome) : Prop := match o with Panicked _ _ => False | _ => True end.

Definition post_top (sigma : list nat) (s0 : st) (o : outcome) : Prop :=
  match o with
  | Done s' => exists j, cov sigma (idx s') s' j /\ idx s' <= S n /\ idx s0 <= idx s' /\ pv_ok j /\ stop s'
  | Panicked _ s' => exists j, cov sigma (S (idx s')) s' j /\ idx s' <= n /\ idx s0 <= idx s' /\ pv_ok j
  | OutOfFuel => False
  end /\ (forall r, recov_cfg r -> idx s0 <= r -> not_panicked o).

Definition post_body (i : nat) (sigma : list nat) (s0 : st) (o : outcome) : Prop :=
  match o with
  | Done s' => exists j, cov (i :: sigma) (S (idx s')) s' j /\ i <= idx s' /\ idx s' <= n /\ idx s0 <= idx s' /\
                         (stopb s0 -> stopb s') /\ (stopb s' \/ idx s' = idx s0)
  | Panicked _ s' => exists j, cov (i :: sigma) (S (idx s')) s' j /\ idx s' <= n /\ idx s0 <= idx s'
  | OutOfFuel => False
  end.

Lemma hat_lt i : i < n -> hat i = nth_error hs i.
Proof. intros H. unfold handler_at. apply Nat.ltb_lt in H. rewrite H. reflexivity. Qed.

Lemma hat_none i : hat i = None -> n <= i.
Proof.
  unfold handler_at. destruct (Nat.ltb i n) eqn:L; [|intros _; apply Nat.ltb_ge in L; exact L].
  intros H. apply nth_error_None in H. exact H.
Qed.

Lemma scr_none i : hat i = None -> scr i = false.
Proof. unfold scripted. intros ->. reflexivity. Qed.

Lemma cov_frame sigma f s s' j : trace s' = trace s -> cov sigma f s j -> cov sigma f s' j.
Proof. unfold cov. intros ->. auto. Qed.

Lemma cov_weaken sigma f f' s j : cov sigma f s j -> f' <= f -> jnext j <= f' -> cov sigma f' s j.
Proof. unfold cov. intros (A & B & C & D) H1 H2. repeat split; auto. intros k K1 K2. apply D; lia. Qed.

Lemma stopb_frame s s' : idx s' = idx s -> (cancelled s = true -> cancelled s' = true) ->
  (status s <> 0%Z -> status s' <> 0%Z) -> stopb s -> stopb s'.
Proof. unfold stopb. intros -> Hc Hs [H|[H|H]]; auto. Qed.

(* ---------- the body of a scripted handler ---------- *)
Section Body.
Variable f i : nat.
Variable sigma : list nat.
Hypothesis IH : forall sg s j, cov sg (idx s) s j -> idx s <= S n -> auto_pre j s -> S (S n) - idx s <= f ->
                       post_top sg s (runm f s).

Notation execm := (exec head (runm f) i).

Definition body_goal (l : list act) (s1 : st) : Prop :=
    post_body i sigma s1 (execm l s1) /\
    (forall r, recov_cfg r -> i < r -> nopanic l = true ->
       (count_next l = 0 \/ (count_next l <= 1 /\ idx s1 = i)) ->
       not_panicked (execm l s1)).

Definition body_pre (s1 : st) : Prop :=
  (exists j1, cov (i :: sigma) (S (idx s1)) s1 j1) /\ i <= idx s1 /\ idx s1 <= n /\ S n - idx s1 <= f.

(* an action that touches neither the index nor the trace *)
Lemma simple_step (t : st -> st) l s1 :
  idx (t s1) = idx s1 -> trace (t s1) = trace s1 -> (stopb s1 -> stopb (t s1)) ->
  body_pre s1 ->
  (body_pre (t s1) -> body_goal l (t s1)) ->
  post_body i sigma s1 (execm l (t s1)) /\
  (forall r, recov_cfg r -> i < r -> nopanic l = true ->
       (count_next l = 0 \/ (count_next l <= 1 /\ idx s1 = i)) ->
       not_panicked (execm l (t s1))).
Proof.
  intros Ei Et Es ((j1 & C1) & Hi & Hn & Fu) G.
  assert (Pre : body_pre (t s1)).
  { unfold body_pre. rewrite Ei. repeat split; auto. exists j1. eapply cov_frame; eauto. }
  destruct (G Pre) as [P Q]. split.
  - destruct (execm l (t s1)) as [s'|v s'|]; cbn [post_body] in *; auto.
    + destruct P as (j & Cj & ? & ? & ? & Hm & Hd). rewrite Ei in *. exists j. split; [assumption|]. repeat split; auto.
    + destruct P as (j & Cj & ? & ?). rewrite Ei in *. exists j. split; [assumption|]. repeat split; auto.
  - intros r R Hr Np Cn. apply (Q r R Hr Np). rewrite Ei. exact Cn.
Qed.

Lemma exec_ok : forall l s1, body_pre s1 -> body_goal l s1.
Proof.
  induction l as [|a l IHl]; intros s1 Pre.
  - destruct Pre as ((j1 & C1) & Hi & Hn & Fu). split; [|intros; exact I].
    cbn [exec post_body]. exists j1. split; [assumption|]. repeat split; auto.
  - destruct a as [c|bs| | |v]; unfold body_goal; cbn [exec nopanic count_next].
    + (* WriteHeader *)
      apply (simple_step (w_header c)); auto.
      * apply w_header_idx.
      * apply w_header_trace.
      * apply stopb_frame; [apply w_header_idx | rewrite w_header_canc; auto | apply w_header_written].
    + (* Write *)
      apply (simple_step (w_body head (CBytes bs))); auto.
      * apply w_body_idx.
      * apply w_body_trace.
      * intros _. unfold stopb. right; right. apply w_body_nz.
    + (* Next *)
      destruct Pre as ((j1 & C1) & Hi & Hn & Fu).
      set (sc := log s1 (NextCall i)).
      destruct C1 as (E1 & K1 & N1 & U1).
      set (jc := mkj (jnext j1) (jstk j1) (Some (NextCall i))).
      assert (Jc : J (trace sc) = Some jc).
      { subst sc jc. rewrite J_log, E1. cbn [jstep]. rewrite K1. cbn [top_is]. rewrite Nat.eqb_refl. reflexivity. }
      set (s1' := set_idx sc (S (idx sc))).
      assert (I1 : idx s1' = S (idx s1)) by reflexivity.
      assert (T1 : cov (i :: sigma) (idx s1') s1' jc).
      { rewrite I1. unfold cov. subst jc. cbn [jstk jnext]. repeat split; auto. }
      assert (A1 : auto_pre jc s1') by exact I.
      assert (F1 : S (S n) - idx s1' <= f) by (rewrite I1; lia).
      assert (B1 : idx s1' <= S n) by (rewrite I1; lia).
      pose proof (IH (i :: sigma) s1' jc T1 B1 A1 F1) as [P PC].
      unfold next. fold sc. fold s1'.
      destruct (runm f s1') as [s2|v s2|] eqn:R; cbn [post_top] in P.
      * (* the remainder of the chain finished inside the call *)
        destruct P as (j2 & (E2 & K2 & N2 & U2) & B2 & M2 & PV2 & ST2).
        rewrite I1 in M2.
        set (s3 := log (set_idx s2 (pred (idx s2))) (NextRet i)).
        set (j3 := mkj (jnext j2) (jstk j2) (Some (NextRet i))).
        assert (I3 : idx s3 = pred (idx s2)) by reflexivity.
        assert (C3 : cov (i :: sigma) (S (idx s3)) s3 j3).
        { rewrite I3. unfold cov. subst j3. cbn [jstk jnext]. repeat split; auto; try lia.
          - subst s3. rewrite J_log. cbn [trace set_idx]. rewrite E2. cbn [jstep]. rewrite K2. cbn [top_is]. rewrite Nat.eqb_refl. reflexivity.
          - intros k H1 H2. apply U2; lia. }
        assert (Pre3 : body_pre s3).
        { unfold body_pre. rewrite I3. repeat split; try lia. exists j3. rewrite <- I3. exact C3. }
        destruct (IHl s3 Pre3) as [P3 Q3].
        assert (SB3 : stopb s3).
        { unfold stopb, stop in *. rewrite I3. subst s3. cbn [log set_idx cancelled status].
          destruct ST2 as [?|[?|?]]; auto. left. lia. }
        split.
        -- destruct (execm l s3) as [s'|v s'|]; cbn [post_body] in *; auto.
           ++ destruct P3 as (j & ? & ? & ? & ? & Hm & Hd). exists j. rewrite I3 in *. split; [assumption|]. repeat split; auto; try lia.
           ++ destruct P3 as (j & ? & ? & ?). exists j. rewrite I3 in *. split; [assumption|]. repeat split; auto; try lia.
        -- intros r Rc Hr Np Cn. apply (Q3 r Rc Hr Np). left. lia.
      * (* a panic travels through this handler *)
        destruct P as (j2 & C2 & B2 & M2 & PV2). rewrite I1 in M2.
        split.
        -- cbn [post_body]. exists j2. split; [assumption|]. repeat split; auto; try lia.
        -- intros r Rc Hr Np Cn. apply (PC r Rc). rewrite I1.
           destruct Cn as [Cn|[Cn Ei]]; lia.
      * contradiction.
    + (* Cancel *)
      apply (simple_step set_cancelled); auto.
      intros _. unfold stopb. right; left. reflexivity.
    + (* Panic *)
      destruct Pre as ((j1 & C1) & Hi & Hn & Fu). split.
      * cbn [post_body]. exists j1. split; [assumption|]. repeat split; auto.
      * intros r R Hr Np. discriminate.
Qed.
End Body.

Lemma auto_pre_pv j s : auto_pre j s -> pv_ok j.
Proof. unfold auto_pre, pv_ok. destruct (jprev j) as [[ | | | | ]|]; auto. Qed.

Lemma pv_auto j s : pv_ok j -> status s = 0%Z -> auto_pre j s.
Proof. unfold auto_pre, pv_ok. destruct (jprev j) as [[ | | | | ]|]; auto. Qed.

Lemma auto_pre_frame j s s' : status s' = status s -> auto_pre j s -> auto_pre j s'.
Proof. unfold auto_pre. intros ->. auto. Qed.

Lemma may_start_ok j s : auto_pre j s -> cancelled s = false -> may_start (jprev j) (status s) (cancelled s) = true.
Proof.
  unfold auto_pre, may_start. intros A ->. destruct (jprev j) as [[ | | | | ]|]; try contradiction; cbn; auto.
  - rewrite A. reflexivity.
  - rewrite A. reflexivity.
Qed.

Lemma top_lt_ok j i : stk_lt j -> jnext j <= i -> top_lt (jstk j) i = true.
Proof.
  unfold stk_lt, top_lt. intros H L. destruct (jstk j) as [|p r]; [reflexivity|].
  inversion H; subst. apply Nat.ltb_lt. lia.
Qed.

Lemma scr_normal i acts ret : hat i = Some (HNormal acts ret) -> scr i = true.
Proof. unfold scripted. intros ->. reflexivity. Qed.
Lemma scr_recovery i : hat i = Some HRecovery -> scr i = false.
Proof. unfold scripted. intros ->. reflexivity. Qed.
Lemma scr_unres i : hat i = Some HUnres -> scr i = false.
Proof. unfold scripted. intros ->. reflexivity. Qed.

Lemma cov_extend sigma f s j : cov sigma f s j -> scr f = false -> cov sigma (S f) s j.
Proof.
  unfold cov. intros (A & B & C & D) U. repeat split; auto.
  intros k K1 K2. destruct (Nat.eq_dec k f) as [->|]; [exact U | apply D; lia].
Qed.

(* ---------- invoking one handler ---------- *)
Definition post_inv (h : handler) (sigma : list nat) (s0 : st) (o : outcome) : Prop :=
  match o with
  | Done s' => exists j, cov sigma (S (idx s')) s' j /\ idx s' <= n /\ idx s0 <= idx s' /\ pv_ok j /\
                         (stopb s' \/ idx s' = idx s0) /\ (h = HRecovery -> stopb s')
  | Panicked _ s' => exists j, cov sigma (S (idx s')) s' j /\ idx s' <= n /\ idx s0 <= idx s' /\ pv_ok j
  | OutOfFuel => False
  end /\ (forall r, recov_cfg r -> idx s0 <= r -> not_panicked o).

Lemma invoke_ok f
  (IH : forall sg s j, cov sg (idx s) s j -> idx s <= S n -> auto_pre j s -> S (S n) - idx s <= f ->
                       post_top sg s (runm f s)) :
  forall sigma s j h, cov sigma (idx s) s j -> idx s <= n -> auto_pre j s -> cancelled s = false ->
    hat (idx s) = Some h -> S (S n) - idx s <= S f ->
    post_inv h sigma s (invoke head dev (runm f) (idx s) h s).
Proof.
  intros sigma s j h C Hn A Hc Hh Fu. set (i := idx s) in *.
  destruct h as [acts ret| |]; cbn [invoke].
  - (* a scripted handler *)
    destruct C as (E & K & N & U).
    set (e := Enter i (status s) (cancelled s)).
    set (je := mkj (S i) (i :: sigma) (Some e)).
    assert (Je : J (trace (log s e)) = Some je).
    { rewrite J_log, E. subst e. cbn [jstep].
      assert (L : Nat.leb (jnext j) i = true) by (apply Nat.leb_le; exact N). rewrite L.
      rewrite none_scripted_true by (intros k K1 K2; apply U; lia).
      rewrite (scr_normal _ _ _ Hh), (top_lt_ok j i (J_stk_lt _ _ E) N), (may_start_ok j s A Hc).
      cbn. subst je. rewrite K. reflexivity. }
    assert (Pre : body_pre f i sigma (log s e)).
    { unfold body_pre. cbn [idx log]. fold i. repeat split; try lia. exists je. unfold cov. subst je. cbn [jstk jnext].
      repeat split; auto. intros k K1 K2. lia. }
    destruct (exec_ok f i sigma IH acts (log s e) Pre) as [P Q].
    split.
    + destruct (exec head (runm f) i acts (log s e)) as [s1|v s1|]; cbn [post_body] in P; [| |contradiction].
      * destruct P as (j1 & (E1 & K1 & N1 & U1) & I1 & B1 & M1 & Hm & Hd). cbn [idx log] in M1, Hd.
        exists (mkj (jnext j1) sigma (Some (Exit i))). unfold cov. cbn [jstk jnext idx log].
        assert (JJ : J (trace (log s1 (Exit i))) = Some (mkj (jnext j1) sigma (Some (Exit i)))).
        { rewrite J_log, E1. cbn [jstep]. rewrite K1. cbn [top_is tl]. rewrite Nat.eqb_refl. reflexivity. }
        split; [repeat split; auto|].
        split; [exact B1|]. split; [exact M1|]. split; [exact I|].
        split; [|discriminate].
        destruct Hd as [Hd|Hd]; [left; exact Hd | right; exact Hd].
      * destruct P as (j1 & (E1 & K1 & N1 & U1) & B1 & M1). cbn [idx log] in M1.
        exists (mkj (jnext j1) sigma (Some (Unwind i))). unfold cov. cbn [jstk jnext idx log].
        assert (JJ : J (trace (log s1 (Unwind i))) = Some (mkj (jnext j1) sigma (Some (Unwind i)))).
        { rewrite J_log, E1. cbn [jstep]. rewrite K1. cbn [top_is tl]. rewrite Nat.eqb_refl. reflexivity. }
        split; [repeat split; auto|].
        split; [exact B1|]. split; [exact M1|]. exact I.
    + intros r Rc Hr. destruct Rc as (Hrec & Hpre).
      destruct (Nat.eq_dec i r) as [->|Ne]; [rewrite Hrec in Hh; discriminate|].
      destruct (Hpre i ltac:(lia)) as (acts' & ret' & Hh' & Np & Cn). rewrite Hh' in Hh. inversion Hh; subst acts' ret'.
      assert (NP : not_panicked (exec head (runm f) i acts (log s e))).
      { apply (Q r (conj Hrec Hpre)); [lia | exact Np | right; split; [exact Cn | reflexivity]]. }
      destruct (exec head (runm f) i acts (log s e)); cbn in *; auto.
  - (* Recovery *)
    unfold next. set (s1 := set_idx s (S (idx s))).
    assert (C1 : cov sigma (idx s1) s1 j).
    { subst s1. cbn [idx set_idx]. fold i. eapply cov_frame; [|apply cov_extend; [exact C | apply scr_recovery; exact Hh]]. reflexivity. }
    assert (A1 : auto_pre j s1) by (eapply auto_pre_frame; [|exact A]; reflexivity).
    assert (F1 : S (S n) - idx s1 <= f) by (subst s1; cbn [idx set_idx]; fold i; lia).
    assert (B1 : idx s1 <= S n) by (subst s1; cbn [idx set_idx]; fold i; lia).
    pose proof (IH sigma s1 j C1 B1 A1 F1) as [P PC].
    split; [|intros r Rc Hr; destruct (runm f s1); exact I].
    destruct (runm f s1) as [s2|v s2|]; cbn [post_top] in P; [| |contradiction].
    + destruct P as (j2 & C2 & B2 & M2 & PV2 & ST2). subst s1. cbn [idx set_idx] in M2. fold i in M2.
      exists j2. cbn [idx set_idx]. replace (S (pred (idx s2))) with (idx s2) by lia.
      split; [eapply cov_frame; [|exact C2]; reflexivity|].
      assert (SB : stopb (set_idx s2 (pred (idx s2)))).
      { unfold stopb, stop in *. cbn [idx set_idx cancelled status]. destruct ST2 as [?|[?|?]]; auto. left. lia. }
      repeat split; auto; try lia.
    + destruct P as (j2 & C2 & B2 & M2 & PV2). subst s1. cbn [idx set_idx] in M2. fold i in M2.
      set (s3 := w_body head (CPanicPage v dev) (w_header 500 s2)).
      assert (I3 : idx s3 = idx s2) by (subst s3; rewrite w_body_idx, w_header_idx; reflexivity).
      assert (SB : stopb s3) by (unfold stopb; right; right; apply w_body_nz).
      exists j2. rewrite I3. split.
      { eapply cov_frame; [|exact C2]. subst s3. rewrite w_body_trace, w_header_trace. reflexivity. }
      repeat split; auto; try lia.
  - (* a handler whose parameters cannot be resolved *)
    split.
    + cbn. exists j. split; [apply cov_extend; [exact C | apply scr_unres; exact Hh]|].
      repeat split; auto. eapply auto_pre_pv; exact A.
    + intros r (Hrec & Hpre) Hr. exfalso.
      destruct (Nat.eq_dec i r) as [->|Ne]; [rewrite Hrec in Hh; discriminate|].
      destruct (Hpre i ltac:(fold i in Hr; lia)) as (acts' & ret' & Hh' & _). rewrite Hh' in Hh. discriminate.
Qed.

(* ---------- the run loop ---------- *)
Lemma run_stop f s : n < idx s \/ cancelled s = true -> not_panicked (runm f s).
Proof.
  intros H. destruct f as [|f]; cbn [run]; [exact I|].
  destruct (Nat.ltb n (idx s)) eqn:L; [exact I|]. apply Nat.ltb_ge in L.
  destruct H as [H|H]; [lia|]. rewrite H. exact I.
Qed.

Lemma run_ok : forall fuel sigma s j, cov sigma (idx s) s j -> idx s <= S n -> auto_pre j s ->
  S (S n) - idx s <= fuel -> post_top sigma s (runm fuel s).
Proof.
  induction fuel as [|f IH]; intros sigma s j C B A Fu; [lia|].
  cbn [run].
  destruct (Nat.ltb n (idx s)) eqn:L.
  { apply Nat.ltb_lt in L. split; [|intros; exact I]. cbn [post_top]. exists j. split; [exact C|].
    split; [exact B|]. split; [lia|]. split; [eapply auto_pre_pv; exact A|]. left; exact L. }
  apply Nat.ltb_ge in L.
  destruct (cancelled s) eqn:Cn.
  { split; [|intros; exact I]. cbn [post_top]. exists j. split; [exact C|].
    split; [exact B|]. split; [lia|]. split; [eapply auto_pre_pv; exact A|]. right; left; exact Cn. }
  destruct (hat (idx s)) as [h|] eqn:Hh.
  2:{ (* no action *)
      pose proof (hat_none _ Hh) as Hn. assert (En : idx s = n) by lia.
      split; [|intros; exact I]. cbn [post_top idx set_idx]. exists j. split.
      - eapply cov_frame; [|apply cov_extend; [exact C | apply scr_none; exact Hh]]. reflexivity.
      - split; [lia|]. split; [lia|]. split; [eapply auto_pre_pv; exact A|]. left. cbn. lia. }
  pose proof (invoke_ok f (fun sg s0 j0 => IH sg s0 j0) sigma s j h C L A Cn Hh Fu) as [P PC].
  destruct (invoke head dev (runm f) (idx s) h s) as [s1|v s1|] eqn:Inv; cbn [post_inv] in P; [| |contradiction].
  - destruct P as (j1 & C1 & B1 & M1 & PV1 & Hd & Hrec).
    set (s2 := set_idx s1 (S (idx s1))).
    set (s3 := w_ops head (render (ret_of h)) s2).
    assert (I3 : idx s3 = S (idx s1)) by (subst s3 s2; rewrite w_ops_idx; reflexivity).
    assert (C3 : cov sigma (idx s3) s3 j1).
    { rewrite I3. eapply cov_frame; [|exact C1]. subst s3 s2. rewrite w_ops_trace. reflexivity. }
    destruct (written s3) eqn:W.
    + apply written_true in W. split; [|intros; exact I]. cbn [post_top]. exists j1. split; [exact C3|].
      rewrite I3. split; [lia|]. split; [lia|]. split; [exact PV1|]. right; right. exact W.
    + apply written_false in W.
      assert (A3 : auto_pre j1 s3) by (apply pv_auto; assumption).
      assert (F3 : S (S n) - idx s3 <= f) by (rewrite I3; lia).
      assert (B3 : idx s3 <= S n) by (rewrite I3; lia).
      pose proof (IH sigma s3 j1 C3 B3 A3 F3) as [P3 PC3].
      split.
      * destruct (runm f s3) as [s'|v s'|]; cbn [post_top] in *; auto.
        -- destruct P3 as (j' & ? & ? & ? & ? & ?). exists j'. split; [assumption|]. repeat split; auto; lia.
        -- destruct P3 as (j' & ? & ? & ? & ?). exists j'. split; [assumption|]. repeat split; auto; lia.
      * intros r Rc Hr.
        assert (S1 : status s1 = 0%Z).
        { destruct (Z.eq_dec (status s1) 0) as [Z0|Z0]; [exact Z0|]. exfalso.
          assert (X : status s3 <> 0%Z) by (subst s3 s2; apply w_ops_written; exact Z0). contradiction. }
        assert (Stop3 : stopb s1 -> not_panicked (runm f s3)).
        { intros SB. apply run_stop. unfold stopb in SB. rewrite I3. subst s3 s2. rewrite w_ops_canc. cbn [cancelled set_idx].
          destruct SB as [?|[?|?]]; [left; assumption | right; assumption | contradiction]. }
        destruct (Nat.eq_dec (idx s) r) as [Er|Ner].
        -- (* the handler just invoked was Recovery itself *)
           destruct Rc as (Hr1 & _). rewrite Er, Hr1 in Hh. inversion Hh; subst h. apply Stop3. apply Hrec. reflexivity.
        -- destruct Hd as [SB|Ei]; [apply Stop3; exact SB|].
           apply (PC3 r Rc). rewrite I3, Ei. lia.
  - destruct P as (j1 & C1 & B1 & M1 & PV1). split; [|exact PC].
    cbn [post_top]. exists j1. split; [exact C1|]. repeat split; auto.
Qed.

(* ---------- the whole request ---------- *)
Theorem serve_ok : post_top [] init (serve hs action head dev).
Proof.
  unfold serve. apply (run_ok (S (S n)) [] init j0).
  - unfold cov. cbn. repeat split; auto. intros; lia.
  - cbn. lia.
  - exact I.
  - cbn. lia.
Qed.

(* fuel n+2 is always enough, and whatever the handlers do, the recorded trace is accepted *)
Theorem serve_accepted :
  match serve hs action head dev with
  | Done s | Panicked _ s => chain_spec_ok hs action (trace s) = true
  | OutOfFuel => False
  end.
Proof.
  destruct serve_ok as [P _].
  destruct (serve hs action head dev) as [s|v s|]; cbn [post_top] in P; [| |exact P].
  - destruct P as (j & (E & K & _) & _). unfold chain_spec_ok. rewrite E, K. reflexivity.
  - destruct P as (j & (E & K & _) & _). unfold chain_spec_ok. rewrite E, K. reflexivity.
Qed.

(* with Recovery installed no panic escapes *)
Theorem serve_contained r : recov_cfg r -> exists s, serve hs action head dev = Done s.
Proof.
  intros Rc. destruct serve_ok as [P PC]. specialize (PC r Rc ltac:(cbn; lia)).
  destruct (serve hs action head dev) as [s|v s|]; [exists s; reflexivity | contradiction | cbn in P; contradiction].
Qed.
End P.

(* ------------------------------------------------------------------ *)
(* What acceptance by the judge means, for ANY trace (the model's or the implementation's). *)
Section Meaning.
Variable hs : list handler.
Variable action : option handler.
Notation scr := (scripted hs action).

Lemma enters_app a b : enters (a ++ b) = enters a ++ enters b.
Proof. induction a as [|e a IH]; [reflexivity|]. destruct e; cbn; rewrite ?IH; reflexivity. Qed.

Definition order_inv (pre : list event) (j : jst) : Prop :=
  (forall x, In x (enters pre) -> x < jnext j) /\
  (forall k, k < jnext j -> scr k = true -> In k (enters pre)) /\
  StronglySorted lt (enters pre).

Lemma sorted_snoc l x : StronglySorted lt l -> (forall y, In y l -> y < x) -> StronglySorted lt (l ++ [x]).
Proof.
  induction 1 as [|a l S IH F]; intros H; cbn.
  - constructor; constructor.
  - constructor.
    + apply IH. intros y Hy. apply H. right. exact Hy.
    + apply Forall_app. split; [exact F|]. constructor; [|constructor]. apply H. left. reflexivity.
Qed.

Lemma none_scripted_false a len k : none_scripted hs action a len = true -> a <= k -> k < a + len -> scr k = false.
Proof.
  unfold none_scripted. intros H H1 H2. rewrite forallb_forall in H.
  specialize (H k). rewrite in_seq in H. specialize (H (conj H1 H2)). destruct (scr k); [discriminate | reflexivity].
Qed.

Lemma jstep_order pre j e j' : order_inv pre j -> jstep hs action j e = Some j' -> order_inv (pre ++ [e]) j'.
Proof.
  intros (A & B & C) E. unfold order_inv. rewrite enters_app.
  destruct e as [i st c|i|i|i|i]; cbn [jstep] in E.
  - destruct (_ && _) eqn:Cd; [|discriminate]. inversion E; subst; clear E. cbn [jnext enters].
    repeat (apply andb_prop in Cd as [Cd ?]). apply Nat.leb_le in Cd.
    repeat split.
    + intros x Hx. apply in_app_or in Hx as [Hx|[<-|[]]]; [specialize (A x Hx); lia | lia].
    + intros k Hk Sk. apply in_or_app. destruct (Nat.lt_ge_cases k (jnext j)) as [L|G]; [left; apply B; assumption|].
      destruct (Nat.eq_dec k i) as [->|Ne]; [right; left; reflexivity|]. exfalso.
      assert (X : scr k = false) by (eapply none_scripted_false; [eassumption | lia | lia]). congruence.
    + apply sorted_snoc; [exact C|]. intros y Hy. specialize (A y Hy). lia.
  - destruct (top_is _ _); [|discriminate]. inversion E; subst. cbn. rewrite app_nil_r. auto.
  - destruct (top_is _ _); [|discriminate]. inversion E; subst. cbn. rewrite app_nil_r. auto.
  - destruct (top_is _ _); [|discriminate]. inversion E; subst. cbn. rewrite app_nil_r. auto.
  - destruct (top_is _ _); [|discriminate]. inversion E; subst. cbn. rewrite app_nil_r. auto.
Qed.

Lemma jrun_order tr : forall pre j j', order_inv pre j -> jrun hs action j tr = Some j' -> order_inv (pre ++ tr) j'.
Proof.
  induction tr as [|e tr IH]; intros pre j j' I E; cbn in E.
  - inversion E; subst. rewrite app_nil_r. exact I.
  - destruct (jstep hs action j e) as [j1|] eqn:E1; [|discriminate].
    replace (pre ++ e :: tr) with ((pre ++ [e]) ++ tr) by (rewrite <- app_assoc; reflexivity).
    eapply IH; [|exact E]. eapply jstep_order; eauto.
Qed.

Lemma spec_ok_run tr : chain_spec_ok hs action tr = true -> exists j, jrun hs action j0 tr = Some j.
Proof. unfold chain_spec_ok. destruct (jrun hs action j0 tr) as [j|]; [eauto | discriminate]. Qed.

(* started in chain order, each at most once *)
Theorem accepted_increasing tr : chain_spec_ok hs action tr = true -> StronglySorted lt (enters tr).
Proof.
  intros H. destruct (spec_ok_run tr H) as (j & E).
  assert (I0 : order_inv [] j0) by (repeat split; cbn; try constructor; intros; try contradiction; lia).
  apply (jrun_order tr [] j0 j I0 E).
Qed.

(* never skipping a scripted handler *)
Theorem accepted_no_skip tr i k :
  chain_spec_ok hs action tr = true -> In i (enters tr) -> k < i -> scr k = true -> In k (enters tr).
Proof.
  intros H Hi Hk Sk. destruct (spec_ok_run tr H) as (j & E).
  assert (I0 : order_inv [] j0) by (repeat split; cbn; try constructor; intros; try contradiction; lia).
  destruct (jrun_order tr [] j0 j I0 E) as (A & B & _). cbn [app] in *.
  apply B; [|exact Sk]. specialize (A i Hi). lia.
Qed.

Lemma jstep_prev j e j' : jstep hs action j e = Some j' -> jprev j' = Some e.
Proof.
  destruct e as [i st c|i|i|i|i]; cbn [jstep]; intros E.
  - destruct (_ && _); [|discriminate]. inversion E; reflexivity.
  - destruct (top_is _ _); [|discriminate]. inversion E; reflexivity.
  - destruct (top_is _ _); [|discriminate]. inversion E; reflexivity.
  - destruct (top_is _ _); [|discriminate]. inversion E; reflexivity.
  - destruct (top_is _ _); [|discriminate]. inversion E; reflexivity.
Qed.

Lemma jrun_app' j a b :
  jrun hs action j (a ++ b) = match jrun hs action j a with Some j' => jrun hs action j' b | None => None end.
Proof.
  revert j; induction a as [|e a IH]; intros j; [reflexivity|]. cbn [app jrun].
  destruct (jstep hs action j e); [apply IH | reflexivity].
Qed.

(* the chain advances on its own (a handler starts right after another one finished) only while
   nothing has been written and the request is not cancelled *)
Theorem accepted_auto_advance tr pre e i st c post :
  chain_spec_ok hs action tr = true -> tr = pre ++ e :: Enter i st c :: post ->
  (match e with Exit _ | Unwind _ => st = 0%Z /\ c = false
              | NextCall _ => c = false
              | _ => False end).
Proof.
  intros H ->. destruct (spec_ok_run _ H) as (j & E).
  rewrite jrun_app' in E. destruct (jrun hs action j0 pre) as [j1|]; [|discriminate].
  cbn [jrun] in E. destruct (jstep hs action j1 e) as [j2|] eqn:E2; [|discriminate].
  apply jstep_prev in E2.
  destruct (jstep hs action j2 (Enter i st c)) as [j3|] eqn:E3; [|discriminate].
  cbn [jstep] in E3. destruct (_ && _) eqn:Cd; [|discriminate].
  apply andb_prop in Cd as [_ M]. rewrite E2 in M. unfold may_start in M.
  destruct e; try discriminate.
  - apply andb_prop in M as [M1 M2]. apply Z.eqb_eq in M1. destruct c; [discriminate | auto].
  - apply andb_prop in M as [M1 M2]. apply Z.eqb_eq in M1. destruct c; [discriminate | auto].
  - destruct c; [discriminate | reflexivity].
Qed.

(* no handler ever starts in a cancelled request *)
Theorem accepted_never_cancelled tr i st c :
  chain_spec_ok hs action tr = true -> In (Enter i st c) tr -> c = false.
Proof.
  intros H Hin. destruct (spec_ok_run _ H) as (j & E).
  apply in_split in Hin as (pre & post & ->).
  rewrite jrun_app' in E. destruct (jrun hs action j0 pre) as [j1|]; [|discriminate].
  cbn [jrun] in E. destruct (jstep hs action j1 (Enter i st c)) as [j2|] eqn:E2; [|discriminate].
  cbn [jstep] in E2. destruct (_ && _) eqn:Cd; [|discriminate].
  apply andb_prop in Cd as [_ M]. unfold may_start in M.
  destruct (jprev j1) as [[ | | | | ]|]; try discriminate; destruct c; try reflexivity; try discriminate;
    rewrite ?andb_false_r in M; discriminate.
Qed.
End Meaning.

(* What Recovery sends: 500 unless a status had been sent, the panic detail only in development. *)
Lemma recovery_response head dev v s :
  let s' := w_body head (CPanicPage v dev) (w_header 500 s) in
  status s' = (if Z.eqb (status s) 0 then 500%Z else status s) /\
  (head = false -> body s' = body s ++ [CPanicPage v dev]) /\
  trace s' = trace s /\ idx s' = idx s.
Proof.
  cbn. unfold w_body, w_header. destruct (Z.eqb (status s) 0) eqn:E; cbn; rewrite ?E; cbn.
  - destruct head; cbn; repeat split; auto; intros; discriminate.
  - destruct head; cbn; rewrite ?E; cbn; repeat split; auto; intros; discriminate.
Qed.

(* return values that render to nothing leave the response untouched, so the chain goes on *)
Lemma empty_return_continues head r s : render r = [] -> w_ops head (render r) s = s.
Proof. intros ->. reflexivity. Qed.
