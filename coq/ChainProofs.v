(* Proofs about the handler-chain model (C03, C14, C15): for every handler stack and every handler
   program the recorded trace is accepted by the judge of Chain.v, fuel n+2 always suffices, and with
   Recovery installed (and the handlers before it calling Next at most once) no panic escapes. *)
Require Import Base Return Chain.
From Coq Require Import Sorted.

(* ---------- small facts about the state setters ---------- *)
Lemma w_header_idx c s : idx (w_header c s) = idx s.
Proof. unfold w_header. destruct (Z.eqb (status s) 0); reflexivity. Qed.
Lemma w_header_canc c s : cancelled (w_header c s) = cancelled s.
Proof. unfold w_header. destruct (Z.eqb (status s) 0); reflexivity. Qed.
Lemma w_header_written c s : status s <> 0%Z -> status (w_header c s) <> 0%Z.
Proof. unfold w_header. intros H. destruct (Z.eqb (status s) 0) eqn:E; [apply Z.eqb_eq in E; contradiction | exact H]. Qed.
Lemma w_header_nz c s : c <> 0%Z -> status (w_header c s) <> 0%Z.
Proof. unfold w_header. intros H. destruct (Z.eqb (status s) 0) eqn:E; cbn; [exact H | apply Z.eqb_neq in E; exact E]. Qed.

Lemma w_body_idx h ch s : idx (w_body h ch s) = idx s.
Proof. unfold w_body. destruct h; cbn; apply w_header_idx. Qed.
Lemma w_body_canc h ch s : cancelled (w_body h ch s) = cancelled s.
Proof. unfold w_body. destruct h; cbn; apply w_header_canc. Qed.
Lemma w_body_nz h ch s : status (w_body h ch s) <> 0%Z.
Proof. unfold w_body. destruct h; cbn; apply w_header_nz; discriminate. Qed.

Lemma w_ops_idx h ops : forall s, idx (w_ops h ops s) = idx s.
Proof. unfold w_ops. induction ops as [|o ops IH]; intros s; cbn; [reflexivity|]. rewrite IH. destruct o; [apply w_header_idx | apply w_body_idx]. Qed.
Lemma w_ops_canc h ops : forall s, cancelled (w_ops h ops s) = cancelled s.
Proof. unfold w_ops. induction ops as [|o ops IH]; intros s; cbn; [reflexivity|]. rewrite IH. destruct o; [apply w_header_canc | apply w_body_canc]. Qed.
Lemma w_ops_written h ops : forall s, status s <> 0%Z -> status (w_ops h ops s) <> 0%Z.
Proof.
  unfold w_ops. induction ops as [|o ops IH]; intros s H; cbn; [exact H|]. apply IH.
  destruct o; [apply w_header_written; exact H | apply w_body_nz].
Qed.

Lemma written_true s : written s = true <-> status s <> 0%Z.
Proof. unfold written. destruct (Z.eqb (status s) 0) eqn:E; cbn; split; intros H; try congruence.
  - apply Z.eqb_eq in E. contradiction.
  - apply Z.eqb_neq in E. exact E.
Qed.
Lemma written_false s : written s = false <-> status s = 0%Z.
Proof. unfold written. destruct (Z.eqb (status s) 0) eqn:E; cbn; split; intros H; try congruence.
  - apply Z.eqb_eq in E. exact E.
  - apply Z.eqb_neq in E. contradiction.
Qed.

(* status codes are never 0: net/http refuses them *)
Definition ops_nz (ops : list wop) : bool :=
  forallb (fun o => match o with WHeader c => negb (Z.eqb c 0) | WBody _ => true end) ops.
Definition acts_nz (l : list act) : bool :=
  forallb (fun a => match a with AWriteHeader c => negb (Z.eqb c 0) | _ => true end) l.
Definition ret_nz (r : list rv) : bool := match r with RInt n :: _ => negb (Z.eqb n 0) | _ => true end.
Definition valid_handler (h : handler) : bool :=
  match h with HNormal acts ret => acts_nz acts && ret_nz ret | _ => true end.
Definition valid_cfg (hs : list handler) (action : option handler) : bool :=
  forallb valid_handler hs && match action with Some h => valid_handler h | None => true end.

Lemma render_val_nz v : ops_nz (render_val v) = true.
Proof.
  destruct v as [s|[b|]|[e|]|z|[p|]|[pb|]|]; cbn; try reflexivity; try (destruct s; reflexivity); try (destruct b; reflexivity);
    try (destruct pb; reflexivity).
  destruct z; reflexivity.
Qed.

Lemma render_nz r : ret_nz r = true -> ops_nz (render r) = true.
Proof.
  destruct r as [|v0 [|v1 [|v2 r]]]; intros H; try reflexivity.
  - cbn [render]. destruct v0; apply render_val_nz.
  - cbn [render]. destruct v0 as [s|b|e|z|p|pb|]; cbn [is_str_or_bytes];
      try (destruct v1 as [?|?|[?|]|?|?|?|]; apply render_val_nz); try reflexivity.
    cbn [ret_nz] in H. cbn [ops_nz forallb]. rewrite H. apply render_val_nz.
  - cbn. destruct v0; reflexivity.
Qed.

Lemma mark_ops_nz ops : ops_nz ops = true -> ops_nz (mark_ops ops) = true.
Proof.
  unfold ops_nz, mark_ops. induction ops as [|o ops IH]; intros H; [reflexivity|].
  cbn [forallb] in H. apply andb_prop in H as [Ho H]. cbn [flat_map]. rewrite forallb_app, (IH H), andb_true_r.
  destruct o; cbn [forallb]; [rewrite Ho|]; reflexivity.
Qed.

Lemma custom_rh_nz k : ops_nz (custom_rh k) = true.
Proof.
  unfold custom_rh, ops_nz. cbn [forallb]. destruct (Z.eqb (290 + Z.of_nat k) 0) eqn:E; [apply Z.eqb_eq in E; lia | reflexivity].
Qed.

Section P.
Variable hs : list handler.
Variable action : option handler.
Variable head dev : bool.
Variable apprh : option nat.
Hypothesis Hvalid : valid_cfg hs action = true.

Notation n := (Chain.n hs).
Notation scr := (scripted hs action).
Notation hat := (handler_at hs action).
Notation J := (jrun hs action j0).
Notation jst1 := (jstep hs action).
Notation runm := (Chain.run hs action head dev apprh).

Lemma hat_valid i h : hat i = Some h -> valid_handler h = true.
Proof.
  unfold valid_cfg in Hvalid. apply andb_prop in Hvalid as [V1 V2]. unfold handler_at.
  destruct (Nat.ltb i n); [intros H; apply nth_error_In in H; rewrite forallb_forall in V1; apply V1; exact H|].
  destruct (Nat.eqb i n); [intros ->; exact V2 | discriminate].
Qed.

(* ---------- the judge, one event at a time ---------- *)
Lemma jrun_app j a b :
  jrun hs action j (a ++ b) = match jrun hs action j a with Some j' => jrun hs action j' b | None => None end.
Proof.
  revert j; induction a as [|e a IH]; intros j; [reflexivity|]. cbn [app jrun].
  destruct (jst1 j e); [apply IH | reflexivity].
Qed.

Lemma J_snoc tr e : J (tr ++ [e]) = match J tr with Some j => jst1 j e | None => None end.
Proof. rewrite jrun_app. destruct (J tr) as [j|]; [|reflexivity]. cbn. destruct (jst1 j e); reflexivity. Qed.

Lemma J_log s e : J (trace (log s e)) = match J (trace s) with Some j => jst1 j e | None => None end.
Proof. apply J_snoc. Qed.

Definition stk_lt (j : jst) : Prop := Forall (fun x => x < jnext j) (jstk j).

Lemma jstep_stk_lt j e j' : stk_lt j -> jst1 j e = Some j' -> stk_lt j'.
Proof.
  unfold stk_lt. intros H E. destruct e as [i st c|i|i|i|i|]; cbn [jstep] in E.
  - destruct (_ && _) eqn:C; [|discriminate]. inversion E; subst; clear E. cbn.
    repeat (apply andb_prop in C as [C ?]). apply Nat.leb_le in C.
    constructor; [lia|]. eapply Forall_impl; [|exact H]. cbn. intros; lia.
  - destruct (top_is _ _); [|discriminate]. inversion E; subst; cbn. destruct (jstk j); cbn; [constructor | inversion H; assumption].
  - destruct (top_is _ _); [|discriminate]. inversion E; subst; cbn. destruct (jstk j); cbn; [constructor | inversion H; assumption].
  - destruct (top_is _ _); [|discriminate]. inversion E; subst; cbn. exact H.
  - destruct (top_is _ _); [|discriminate]. inversion E; subst; cbn. exact H.
  - destruct (jw j); [discriminate|]. inversion E; subst; cbn. exact H.
Qed.

Lemma jrun_stk_lt tr : forall j j', stk_lt j -> jrun hs action j tr = Some j' -> stk_lt j'.
Proof.
  induction tr as [|e tr IH]; intros j j' H E; cbn in E; [inversion E; subst; exact H|].
  destruct (jst1 j e) as [j1|] eqn:E1; [|discriminate]. eapply IH; [|exact E]. eapply jstep_stk_lt; eauto.
Qed.

Lemma J_stk_lt tr j : J tr = Some j -> stk_lt j.
Proof. apply jrun_stk_lt. constructor. Qed.

Lemma none_scripted_true a len : (forall k, a <= k -> k < a + len -> scr k = false) -> none_scripted hs action a len = true.
Proof.
  intros H. unfold none_scripted. apply forallb_forall. intros k Hk. apply in_seq in Hk. rewrite H; [reflexivity | lia | lia].
Qed.

(* ---------- invariants ---------- *)
(* the trace so far is accepted, the running handlers are [sigma], every scripted handler below the
   frontier [f] has been started, and the judge's "written" flag is the truth *)
Definition cov (sigma : list nat) (f : nat) (s : st) (j : jst) : Prop :=
  J (trace s) = Some j /\ jstk j = sigma /\ jnext j <= f /\ (forall k, jnext j <= k -> k < f -> scr k = false) /\
  jw j = written s.

(* same control state, possibly a different "written" flag *)
Definition same_ctl (j j' : jst) : Prop :=
  jnext j' = jnext j /\ jstk j' = jstk j /\ jprev j' = jprev j /\ jret j' = jret j.

Lemma same_ctl_refl j : same_ctl j j.
Proof. repeat split. Qed.

Definition pv_ok (j : jst) : Prop :=
  match jprev j with Some (Enter _ _ _) | Some (NextRet _) | Some Sent => False | _ => True end.

Definition auto_pre (j : jst) (s : st) : Prop :=
  match jprev j with
  | Some (Exit _) | Some (Unwind _) => status s = 0%Z
  | Some (Enter _ _ _) | Some (NextRet _) | Some Sent => False
  | _ => True
  end.

Definition stop (s : st) : Prop := n < idx s \/ cancelled s = true \/ status s <> 0%Z.
Definition stopb (s : st) : Prop := n < S (idx s) \/ cancelled s = true \/ status s <> 0%Z.

Fixpoint nopanic (l : list act) : bool :=
  match l with [] => true | APanic _ :: _ => false | _ :: l' => nopanic l' end.
Fixpoint count_next (l : list act) : nat :=
  match l with [] => 0 | ANext :: l' => S (count_next l') | _ :: l' => count_next l' end.

(* Recovery sits at position r and every handler before it is a scripted handler that does not panic
   itself and calls Next at most once *)
Definition recov_cfg (r : nat) : Prop :=
  hat r = Some HRecovery /\
  forall p, p < r -> exists acts ret, hat p = Some (HNormal acts ret) /\ nopanic acts = true /\ count_next acts <= 1.

Definition not_panicked (o : outcome) : Prop := match o with Panicked _ _ => False | _ => True end.

Definition post_top (sigma : list nat) (s0 : st) (o : outcome) : Prop :=
  match o with
  | Done s' => exists j, cov sigma (idx s') s' j /\ idx s' <= S n /\ idx s0 <= idx s' /\ pv_ok j /\ stop s'
  | Panicked _ s' => exists j, cov sigma (S (idx s')) s' j /\ idx s' <= n /\ idx s0 <= idx s' /\ pv_ok j
  | OutOfFuel => False
  end /\ (forall r, recov_cfg r -> idx s0 <= r -> not_panicked o).

Definition post_body (i : nat) (sigma : list nat) (s0 : st) (o : outcome) : Prop :=
  match o with
  | Done s' => exists j, cov (i :: sigma) (S (idx s')) s' j /\ (jret j = true -> stopb s') /\
                         i <= idx s' /\ idx s' <= n /\ idx s0 <= idx s' /\
                         (stopb s0 -> stopb s') /\ (stopb s' \/ idx s' = idx s0)
  | Panicked _ s' => exists j, cov (i :: sigma) (S (idx s')) s' j /\ idx s' <= n /\ idx s0 <= idx s'
  | OutOfFuel => False
  end.

Lemma hat_none i : hat i = None -> n <= i.
Proof.
  unfold handler_at. destruct (Nat.ltb i n) eqn:L; [|intros _; apply Nat.ltb_ge in L; exact L].
  intros H. apply nth_error_None in H. exact H.
Qed.

Lemma scr_none i : hat i = None -> scr i = false.
Proof. unfold scripted. intros ->. reflexivity. Qed.

Lemma cov_frame sigma f s s' j : trace s' = trace s -> status s' = status s -> cov sigma f s j -> cov sigma f s' j.
Proof. unfold cov, written. intros -> ->. auto. Qed.

Lemma cov_same_ctl_pv j j' : same_ctl j j' -> pv_ok j -> pv_ok j'.
Proof. intros (_ & _ & E & _). unfold pv_ok. rewrite E. auto. Qed.

(* a write: the trace may gain a Sent event, the control state of the judge does not move *)
Lemma cov_w_header sigma f s j c : c <> 0%Z -> cov sigma f s j ->
  exists j', cov sigma f (w_header c s) j' /\ same_ctl j j'.
Proof.
  intros Hc (E & K & N & U & W). unfold w_header. destruct (Z.eqb (status s) 0) eqn:Z0.
  - assert (Wf : jw j = false) by (rewrite W; unfold written; rewrite Z0; reflexivity).
    exists (mkj (jnext j) (jstk j) (jprev j) true (jret j)). split; [|repeat split].
    unfold cov. cbn [trace status]. rewrite J_snoc, E. cbn [jstep]. rewrite Wf. cbn [jstk jnext jw].
    repeat split; auto. unfold written. cbn [status].
    destruct (Z.eqb c 0) eqn:Ec; [apply Z.eqb_eq in Ec; contradiction | reflexivity].
  - exists j. split; [repeat split; auto | apply same_ctl_refl].
Qed.

Lemma cov_w_body sigma f s j ch : cov sigma f s j ->
  exists j', cov sigma f (w_body head ch s) j' /\ same_ctl j j'.
Proof.
  intros C. destruct (cov_w_header sigma f s j 200 ltac:(discriminate) C) as (j' & C' & S).
  exists j'. split; [|exact S]. unfold w_body. destruct head; [exact C'|].
  eapply cov_frame; [| |exact C']; reflexivity.
Qed.

Lemma w_mark_idx s : idx (w_mark head s) = idx s.
Proof. unfold w_mark. destruct (wrapped s); [apply w_body_idx | reflexivity]. Qed.
Lemma w_mark_written s : status s <> 0%Z -> status (w_mark head s) <> 0%Z.
Proof. unfold w_mark. intros H. destruct (wrapped s); [apply w_body_nz | exact H]. Qed.
Lemma cov_w_mark sigma f s j : cov sigma f s j ->
  exists j', cov sigma f (w_mark head s) j' /\ same_ctl j j'.
Proof.
  intros C. unfold w_mark. destruct (wrapped s); [apply cov_w_body; exact C|].
  exists j. split; [exact C | apply same_ctl_refl].
Qed.

Lemma same_ctl_trans a b c : same_ctl a b -> same_ctl b c -> same_ctl a c.
Proof. intros (A1 & A2 & A3 & A4) (B1 & B2 & B3 & B4). repeat split; congruence. Qed.

Lemma cov_w_ops sigma f ops : forall s j, ops_nz ops = true -> cov sigma f s j ->
  exists j', cov sigma f (w_ops head ops s) j' /\ same_ctl j j'.
Proof.
  unfold w_ops. induction ops as [|o ops IH]; intros s j V C; cbn [fold_left].
  - exists j. split; [exact C | apply same_ctl_refl].
  - cbn [ops_nz forallb] in V. apply andb_prop in V as [Vo V].
    destruct o as [c|b].
    + assert (Hc : c <> 0%Z) by (intros ->; discriminate).
      destruct (cov_w_header sigma f s j c Hc C) as (j1 & C1 & S1).
      destruct (IH _ j1 V C1) as (j2 & C2 & S2). exists j2. split; [exact C2 | eapply same_ctl_trans; eauto].
    + destruct (cov_w_body sigma f s j (CBytes b) C) as (j1 & C1 & S1).
      destruct (IH _ j1 V C1) as (j2 & C2 & S2). exists j2. split; [exact C2 | eapply same_ctl_trans; eauto].
Qed.

Lemma stopb_frame s s' : idx s' = idx s -> (cancelled s = true -> cancelled s' = true) ->
  (status s <> 0%Z -> status s' <> 0%Z) -> stopb s -> stopb s'.
Proof. unfold stopb. intros -> Hc Hs [H|[H|H]]; auto. Qed.

Lemma rendering_nz s h : valid_handler h = true -> ops_nz (rendering apprh s h) = true.
Proof.
  intros V. unfold rendering. destruct h as [acts ret| |]; cbn [ret_of]; try reflexivity.
  destruct ret as [|v r]; [reflexivity|].
  destruct (rh s) as [k|]; [apply custom_rh_nz|]. destruct apprh as [k|]; [apply custom_rh_nz|].
  assert (R : ops_nz (render (v :: r)) = true)
    by (apply render_nz; cbn [valid_handler] in V; apply andb_prop in V as [_ V]; exact V).
  destruct (wrapped s); [apply mark_ops_nz|]; exact R.
Qed.

(* ---------- the body of a scripted handler ---------- *)
Section Body.
Variable f i : nat.
Variable sigma : list nat.
Hypothesis IH : forall sg s j, cov sg (idx s) s j -> idx s <= S n -> auto_pre j s -> (jret j = true -> stop s) ->
                       S (S n) - idx s <= f -> post_top sg s (runm f s).

Notation execm := (exec head (runm f) i).

Definition body_goal (l : list act) (s1 : st) : Prop :=
    post_body i sigma s1 (execm l s1) /\
    (forall r, recov_cfg r -> i < r -> nopanic l = true ->
       (count_next l = 0 \/ (count_next l <= 1 /\ idx s1 = i)) ->
       not_panicked (execm l s1)).

Definition body_pre (s1 : st) : Prop :=
  (exists j1, cov (i :: sigma) (S (idx s1)) s1 j1 /\ (jret j1 = true -> stopb s1)) /\
  i <= idx s1 /\ idx s1 <= n /\ S n - idx s1 <= f.

(* an action that does not touch the index and leaves the judge's control state alone *)
Lemma simple_step (t : st -> st) l s1 :
  idx (t s1) = idx s1 -> (stopb s1 -> stopb (t s1)) ->
  (forall sg fr j, cov sg fr s1 j -> exists j', cov sg fr (t s1) j' /\ same_ctl j j') ->
  body_pre s1 ->
  (body_pre (t s1) -> body_goal l (t s1)) ->
  post_body i sigma s1 (execm l (t s1)) /\
  (forall r, recov_cfg r -> i < r -> nopanic l = true ->
       (count_next l = 0 \/ (count_next l <= 1 /\ idx s1 = i)) ->
       not_panicked (execm l (t s1))).
Proof.
  intros Ei Es Ec ((j1 & C1 & R1) & Hi & Hn & Fu) G.
  assert (Pre : body_pre (t s1)).
  { unfold body_pre. rewrite Ei. repeat split; auto.
    destruct (Ec _ _ _ C1) as (j' & C' & (_ & _ & _ & Er)). exists j'. split; [exact C'|].
    rewrite Er. intros X. apply Es. apply R1. exact X. }
  destruct (G Pre) as [P Q]. split.
  - destruct (execm l (t s1)) as [s'|v s'|]; cbn [post_body] in *; auto.
    + destruct P as (j & Cj & ? & ? & ? & ? & Hm & Hd). rewrite Ei in *. exists j. split; [assumption|]. repeat split; auto.
    + destruct P as (j & Cj & ? & ?). rewrite Ei in *. exists j. split; [assumption|]. repeat split; auto.
  - intros r R Hr Np Cn. apply (Q r R Hr Np). rewrite Ei. exact Cn.
Qed.

Lemma exec_ok : forall l s1, acts_nz l = true -> body_pre s1 -> body_goal l s1.
Proof.
  induction l as [|a l IHl]; intros s1 V Pre.
  - destruct Pre as ((j1 & C1 & R1) & Hi & Hn & Fu). split; [|intros; exact I].
    cbn [exec post_body]. exists j1. split; [assumption|]. repeat split; auto.
  - cbn [acts_nz forallb] in V. apply andb_prop in V as [Va V].
    destruct a as [c|bs| | |v|k| | |]; unfold body_goal; cbn [exec nopanic count_next].
    + (* WriteHeader *)
      assert (Hc : c <> 0%Z) by (intros ->; discriminate).
      apply (simple_step (w_header c)); auto.
      * apply w_header_idx.
      * apply stopb_frame; [apply w_header_idx | rewrite w_header_canc; auto | apply w_header_written].
      * intros sg fr j Cj. apply cov_w_header; assumption.
    + (* Write *)
      apply (simple_step (w_body head (CBytes bs))); auto.
      * apply w_body_idx.
      * intros _. unfold stopb. right; right. apply w_body_nz.
      * intros sg fr j Cj. apply cov_w_body; assumption.
    + (* Next *)
      destruct Pre as ((j1 & C1 & R1) & Hi & Hn & Fu).
      set (sc := log s1 (NextCall i)).
      destruct C1 as (E1 & K1 & N1 & U1 & W1).
      set (jc := mkj (jnext j1) (jstk j1) (Some (NextCall i)) (jw j1) (jret j1)).
      assert (Jc : J (trace sc) = Some jc).
      { subst sc jc. rewrite J_log, E1. cbn [jstep]. rewrite K1. cbn [top_is]. rewrite Nat.eqb_refl. reflexivity. }
      set (s1' := set_idx sc (S (idx sc))).
      assert (I1 : idx s1' = S (idx s1)) by reflexivity.
      assert (T1 : cov (i :: sigma) (idx s1') s1' jc).
      { rewrite I1. unfold cov. subst jc. cbn [jstk jnext jw]. repeat split; auto. }
      assert (A1 : auto_pre jc s1') by exact I.
      assert (RT : jret jc = true -> stop s1').
      { subst jc. cbn [jret]. intros X. specialize (R1 X). unfold stop, stopb in *. rewrite I1. exact R1. }
      assert (F1 : S (S n) - idx s1' <= f) by (rewrite I1; lia).
      assert (B1 : idx s1' <= S n) by (rewrite I1; lia).
      pose proof (IH (i :: sigma) s1' jc T1 B1 A1 RT F1) as [P PC].
      unfold next. fold sc. fold s1'.
      destruct (runm f s1') as [s2|v s2|] eqn:R; cbn [post_top] in P.
      * (* the remainder of the chain finished inside the call *)
        destruct P as (j2 & (E2 & K2 & N2 & U2 & W2) & B2 & M2 & PV2 & ST2).
        rewrite I1 in M2.
        set (s3 := log (set_idx s2 (pred (idx s2))) (NextRet i)).
        set (j3 := mkj (jnext j2) (jstk j2) (Some (NextRet i)) (jw j2) true).
        assert (I3 : idx s3 = pred (idx s2)) by reflexivity.
        assert (C3 : cov (i :: sigma) (S (idx s3)) s3 j3).
        { rewrite I3. unfold cov. subst j3. cbn [jstk jnext jw]. repeat split; auto; try lia.
          - subst s3. rewrite J_log. cbn [trace set_idx]. rewrite E2. cbn [jstep]. rewrite K2. cbn [top_is]. rewrite Nat.eqb_refl. reflexivity.
          - intros k H1 H2. apply U2; lia. }
        assert (SB3 : stopb s3).
        { unfold stopb, stop in *. rewrite I3. subst s3. cbn [log set_idx cancelled status].
          destruct ST2 as [?|[?|?]]; auto. left. lia. }
        assert (Pre3 : body_pre s3).
        { unfold body_pre. rewrite I3. repeat split; try lia. exists j3. rewrite <- I3. split; [exact C3 | intros _; exact SB3]. }
        destruct (IHl s3 V Pre3) as [P3 Q3].
        split.
        -- destruct (execm l s3) as [s'|v s'|]; cbn [post_body] in *; auto.
           ++ destruct P3 as (j & ? & ? & ? & ? & ? & Hm & Hd). exists j. rewrite I3 in *. split; [assumption|]. repeat split; auto; try lia.
           ++ destruct P3 as (j & ? & ? & ?). exists j. rewrite I3 in *. split; [assumption|]. repeat split; auto; try lia.
        -- intros r Rc Hr Np Cn. apply (Q3 r Rc Hr Np). left. lia.
      * (* a panic travels through this handler *)
        destruct P as (j2 & C2 & B2 & M2 & PV2). rewrite I1 in M2.
        split.
        -- cbn [post_body]. exists j2. split; [assumption|]. repeat split; auto; try lia.
        -- intros r Rc Hr Np Cn. apply (PC r Rc). rewrite I1.
           destruct Cn as [Cn|[Cn Ei]]; lia.
      * contradiction.
    + (* Cancel *)
      apply (simple_step set_cancelled); auto.
      * intros _. unfold stopb. right; left. reflexivity.
      * intros sg fr j Cj. exists j. split; [exact Cj | apply same_ctl_refl].
    + (* Panic *)
      destruct Pre as ((j1 & C1 & R1) & Hi & Hn & Fu). split.
      * cbn [post_body]. exists j1. split; [assumption|]. repeat split; auto.
      * intros r R Hr Np. discriminate.
    + (* Map a ReturnHandler *)
      apply (simple_step (fun s => set_rh s k)); auto.
      intros sg fr j Cj. exists j. split; [exact Cj | apply same_ctl_refl].
    + (* a sub-request: another request altogether *)
      apply (simple_step (fun s => s)); auto.
      intros sg fr j Cj. exists j. split; [exact Cj | apply same_ctl_refl].
    + (* the http.ResponseWriter is re-mapped *)
      apply (simple_step set_wrapped); auto.
      intros sg fr j Cj. exists j. split; [exact Cj | apply same_ctl_refl].
    + (* Flush *)
      apply (simple_step (w_header 200)); auto.
      * apply w_header_idx.
      * apply stopb_frame; [apply w_header_idx | rewrite w_header_canc; auto | apply w_header_written].
      * intros sg fr j Cj. apply cov_w_header; [discriminate | assumption].
Qed.
End Body.

Lemma auto_pre_pv j s : auto_pre j s -> pv_ok j.
Proof. unfold auto_pre, pv_ok. destruct (jprev j) as [[ | | | | | ]|]; auto. Qed.

Lemma pv_auto j s : pv_ok j -> status s = 0%Z -> auto_pre j s.
Proof. unfold auto_pre, pv_ok. destruct (jprev j) as [[ | | | | | ]|]; auto. Qed.

Lemma auto_pre_frame j s s' : status s' = status s -> auto_pre j s -> auto_pre j s'.
Proof. unfold auto_pre. intros ->. auto. Qed.

Lemma may_start_ok j s : auto_pre j s -> cancelled s = false -> may_start (jprev j) (status s) (cancelled s) = true.
Proof.
  unfold auto_pre, may_start. intros A ->. destruct (jprev j) as [[ | | | | | ]|]; try contradiction; cbn; auto.
  - rewrite A. reflexivity.
  - rewrite A. reflexivity.
Qed.

Lemma top_lt_ok j i : stk_lt j -> jnext j <= i -> top_lt (jstk j) i = true.
Proof.
  unfold stk_lt, top_lt. intros H L. destruct (jstk j) as [|p r]; [reflexivity|].
  inversion H; subst. apply Nat.ltb_lt. lia.
Qed.

Lemma scr_normal i acts ret : hat i = Some (HNormal acts ret) -> scr i = true.
Proof. unfold scripted. intros ->. reflexivity. Qed.
Lemma scr_recovery i : hat i = Some HRecovery -> scr i = false.
Proof. unfold scripted. intros ->. reflexivity. Qed.
Lemma scr_unres i : hat i = Some HUnres -> scr i = false.
Proof. unfold scripted. intros ->. reflexivity. Qed.

Lemma cov_extend sigma f s j : cov sigma f s j -> scr f = false -> cov sigma (S f) s j.
Proof.
  unfold cov. intros (A & B & C & D & W) U. repeat split; auto.
  intros k K1 K2. destruct (Nat.eq_dec k f) as [->|]; [exact U | apply D; lia].
Qed.

(* ---------- invoking one handler ---------- *)
Definition post_inv (h : handler) (sigma : list nat) (s0 : st) (o : outcome) : Prop :=
  match o with
  | Done s' => exists j, cov sigma (S (idx s')) s' j /\ idx s' <= n /\ idx s0 <= idx s' /\ pv_ok j /\
                         (jret j = true -> stopb s') /\
                         (stopb s' \/ idx s' = idx s0) /\ (h = HRecovery -> stopb s')
  | Panicked _ s' => exists j, cov sigma (S (idx s')) s' j /\ idx s' <= n /\ idx s0 <= idx s' /\ pv_ok j
  | OutOfFuel => False
  end /\ (forall r, recov_cfg r -> idx s0 <= r -> not_panicked o).

Lemma invoke_ok f
  (IH : forall sg s j, cov sg (idx s) s j -> idx s <= S n -> auto_pre j s -> (jret j = true -> stop s) ->
                       S (S n) - idx s <= f -> post_top sg s (runm f s)) :
  forall sigma s j h, cov sigma (idx s) s j -> idx s <= n -> auto_pre j s -> (jret j = true -> stop s) ->
    cancelled s = false -> hat (idx s) = Some h -> S (S n) - idx s <= S f ->
    post_inv h sigma s (invoke head dev (runm f) (idx s) h s).
Proof.
  intros sigma s j h C Hn A RT Hc Hh Fu. set (i := idx s) in *.
  assert (WR : jret j = true -> status s <> 0%Z).
  { intros X. destruct (RT X) as [L|[L|L]]; [fold i in L; lia | congruence | exact L]. }
  destruct h as [acts ret| |]; cbn [invoke].
  - (* a scripted handler *)
    pose proof (hat_valid _ _ Hh) as Vh. cbn [valid_handler] in Vh. apply andb_prop in Vh as [Va _].
    destruct C as (E & K & N & U & W).
    set (e := Enter i (status s) (cancelled s)).
    set (je := mkj (S i) (i :: sigma) (Some e) (jw j) (jret j)).
    assert (Je : J (trace (log s e)) = Some je).
    { rewrite J_log, E. subst e. cbn [jstep].
      assert (L : Nat.leb (jnext j) i = true) by (apply Nat.leb_le; exact N). rewrite L.
      rewrite none_scripted_true by (intros k K1 K2; apply U; lia).
      rewrite (scr_normal _ _ _ Hh), (top_lt_ok j i (J_stk_lt _ _ E) N), (may_start_ok j s A Hc).
      assert (T1 : Bool.eqb (Z.eqb (status s) 0) (negb (jw j)) = true).
      { rewrite W. unfold written. rewrite negb_involutive. apply eqb_reflx. }
      assert (T2 : negb (jret j) || jw j = true).
      { destruct (jret j) eqn:Rj; [|reflexivity]. cbn. rewrite W. apply written_true. apply WR. reflexivity. }
      rewrite T1, T2. cbn. subst je. rewrite K. reflexivity. }
    assert (Pre : body_pre f i sigma (log s e)).
    { unfold body_pre. cbn [idx log]. fold i. repeat split; try lia. exists je. split.
      - unfold cov. subst je. cbn [jstk jnext jw]. repeat split; auto. intros k K1 K2. lia.
      - subst je. cbn [jret]. intros X. unfold stopb. cbn [status log cancelled]. right; right. apply WR. exact X. }
    destruct (exec_ok f i sigma IH acts (log s e) Va Pre) as [P Q].
    split.
    + destruct (exec head (runm f) i acts (log s e)) as [s1|v s1|]; cbn [post_body] in P; [| |contradiction].
      * destruct P as (j1 & (E1 & K1 & N1 & U1 & W1) & R1 & I1 & B1 & M1 & Hm & Hd). cbn [idx log] in M1, Hd.
        exists (mkj (jnext j1) sigma (Some (Exit i)) (jw j1) (jret j1)). unfold cov. cbn [jstk jnext jw jret idx log].
        assert (JJ : J (trace (log s1 (Exit i))) = Some (mkj (jnext j1) sigma (Some (Exit i)) (jw j1) (jret j1))).
        { rewrite J_log, E1. cbn [jstep]. rewrite K1. cbn [top_is tl]. rewrite Nat.eqb_refl. reflexivity. }
        split; [repeat split; auto|].
        split; [exact B1|]. split; [exact M1|]. split; [exact I|].
        split; [exact R1|]. split; [|discriminate].
        destruct Hd as [Hd|Hd]; [left; exact Hd | right; exact Hd].
      * destruct P as (j1 & (E1 & K1 & N1 & U1 & W1) & B1 & M1). cbn [idx log] in M1.
        exists (mkj (jnext j1) sigma (Some (Unwind i)) (jw j1) (jret j1)). unfold cov. cbn [jstk jnext jw idx log].
        assert (JJ : J (trace (log s1 (Unwind i))) = Some (mkj (jnext j1) sigma (Some (Unwind i)) (jw j1) (jret j1))).
        { rewrite J_log, E1. cbn [jstep]. rewrite K1. cbn [top_is tl]. rewrite Nat.eqb_refl. reflexivity. }
        split; [repeat split; auto|].
        split; [exact B1|]. split; [exact M1|]. exact I.
    + intros r Rc Hr. destruct Rc as (Hrec & Hpre).
      destruct (Nat.eq_dec i r) as [->|Ne]; [rewrite Hrec in Hh; discriminate|].
      destruct (Hpre i ltac:(lia)) as (acts' & ret' & Hh' & Np & Cn). rewrite Hh' in Hh. inversion Hh; subst acts' ret'.
      assert (NP : not_panicked (exec head (runm f) i acts (log s e))).
      { apply (Q r (conj Hrec Hpre)); [lia | exact Np | right; split; [exact Cn | reflexivity]]. }
      destruct (exec head (runm f) i acts (log s e)); cbn in *; auto.
  - (* Recovery *)
    unfold next. set (s1 := set_idx s (S (idx s))).
    assert (C1 : cov sigma (idx s1) s1 j).
    { subst s1. cbn [idx set_idx]. fold i. eapply cov_frame; [| |apply cov_extend; [exact C | apply scr_recovery; exact Hh]]; reflexivity. }
    assert (A1 : auto_pre j s1) by (eapply auto_pre_frame; [|exact A]; reflexivity).
    assert (RT1 : jret j = true -> stop s1).
    { intros X. unfold stop. right; right. subst s1. cbn [status set_idx]. apply WR. exact X. }
    assert (F1 : S (S n) - idx s1 <= f) by (subst s1; cbn [idx set_idx]; fold i; lia).
    assert (B1 : idx s1 <= S n) by (subst s1; cbn [idx set_idx]; fold i; lia).
    pose proof (IH sigma s1 j C1 B1 A1 RT1 F1) as [P PC].
    split; [|intros r Rc Hr; destruct (runm f s1); exact I].
    destruct (runm f s1) as [s2|v s2|]; cbn [post_top] in P; [| |contradiction].
    + destruct P as (j2 & C2 & B2 & M2 & PV2 & ST2). subst s1. cbn [idx set_idx] in M2. fold i in M2.
      exists j2. cbn [idx set_idx]. replace (S (pred (idx s2))) with (idx s2) by lia.
      split; [eapply cov_frame; [| |exact C2]; reflexivity|].
      assert (SB : stopb (set_idx s2 (pred (idx s2)))).
      { unfold stopb, stop in *. cbn [idx set_idx cancelled status]. destruct ST2 as [?|[?|?]]; auto. left. lia. }
      repeat split; auto; try lia.
    + destruct P as (j2 & C2 & B2 & M2 & PV2). subst s1. cbn [idx set_idx] in M2. fold i in M2.
      set (s3 := w_body head (CPanicPage v dev) (w_mark head (w_header 500 s2))).
      assert (I3 : idx s3 = idx s2) by (subst s3; rewrite w_body_idx, w_mark_idx, w_header_idx; reflexivity).
      assert (SB : stopb s3) by (unfold stopb; right; right; apply w_body_nz).
      destruct (cov_w_header sigma (S (idx s2)) s2 j2 500 ltac:(discriminate) C2) as (j3 & C3 & S3).
      destruct (cov_w_mark sigma (S (idx s2)) _ j3 C3) as (j3' & C3' & S3').
      destruct (cov_w_body sigma (S (idx s2)) _ j3' (CPanicPage v dev) C3') as (j4 & C4 & S4).
      exists j4. rewrite I3. split; [exact C4|].
      assert (PV4 : pv_ok j4)
        by (eapply cov_same_ctl_pv; [exact S4|]; eapply cov_same_ctl_pv; [exact S3'|]; eapply cov_same_ctl_pv; [exact S3 | exact PV2]).
      repeat split; auto; try lia.
  - (* a handler whose parameters cannot be resolved *)
    split.
    + cbn. exists j. split; [apply cov_extend; [exact C | apply scr_unres; exact Hh]|].
      repeat split; auto. eapply auto_pre_pv; exact A.
    + intros r (Hrec & Hpre) Hr. exfalso.
      destruct (Nat.eq_dec i r) as [->|Ne]; [rewrite Hrec in Hh; discriminate|].
      destruct (Hpre i ltac:(fold i in Hr; lia)) as (acts' & ret' & Hh' & _). rewrite Hh' in Hh. discriminate.
Qed.

(* ---------- the run loop ---------- *)
Lemma run_stop f s : n < idx s \/ cancelled s = true -> not_panicked (runm f s).
Proof.
  intros H. destruct f as [|f]; cbn [run]; [exact I|].
  destruct (Nat.ltb n (idx s)) eqn:L; [exact I|]. apply Nat.ltb_ge in L.
  destruct H as [H|H]; [lia|]. rewrite H. exact I.
Qed.

Lemma run_ok : forall fuel sigma s j, cov sigma (idx s) s j -> idx s <= S n -> auto_pre j s ->
  (jret j = true -> stop s) -> S (S n) - idx s <= fuel -> post_top sigma s (runm fuel s).
Proof.
  induction fuel as [|f IH]; intros sigma s j C B A RT Fu; [lia|].
  cbn [run].
  destruct (Nat.ltb n (idx s)) eqn:L.
  { apply Nat.ltb_lt in L. split; [|intros; exact I]. cbn [post_top]. exists j. split; [exact C|].
    split; [exact B|]. split; [lia|]. split; [eapply auto_pre_pv; exact A|]. left; exact L. }
  apply Nat.ltb_ge in L.
  destruct (cancelled s) eqn:Cn.
  { split; [|intros; exact I]. cbn [post_top]. exists j. split; [exact C|].
    split; [exact B|]. split; [lia|]. split; [eapply auto_pre_pv; exact A|]. right; left; exact Cn. }
  destruct (hat (idx s)) as [h|] eqn:Hh.
  2:{ (* no action *)
      pose proof (hat_none _ Hh) as Hn. assert (En : idx s = n) by lia.
      split; [|intros; exact I]. cbn [post_top idx set_idx]. exists j. split.
      - eapply cov_frame; [| |apply cov_extend; [exact C | apply scr_none; exact Hh]]; reflexivity.
      - split; [lia|]. split; [lia|]. split; [eapply auto_pre_pv; exact A|]. left. cbn. lia. }
  pose proof (invoke_ok f (fun sg s0 j0 => IH sg s0 j0) sigma s j h C L A RT Cn Hh Fu) as [P PC].
  destruct (invoke head dev (runm f) (idx s) h s) as [s1|v s1|] eqn:Inv; cbn [post_inv] in P; [| |contradiction].
  - destruct P as (j1 & C1 & B1 & M1 & PV1 & R1 & Hd & Hrec).
    set (s2 := set_idx s1 (S (idx s1))).
    set (s3 := w_ops head (rendering apprh s2 h) s2).
    assert (I3 : idx s3 = S (idx s1)) by (subst s3 s2; rewrite w_ops_idx; reflexivity).
    assert (C2 : cov sigma (S (idx s1)) s2 j1) by (eapply cov_frame; [| |exact C1]; reflexivity).
    destruct (cov_w_ops sigma (S (idx s1)) (rendering apprh s2 h) s2 j1 (rendering_nz s2 h (hat_valid _ _ Hh)) C2) as (j3 & C3 & S3).
    fold s3 in C3. rewrite <- I3 in C3.
    assert (PV3 : pv_ok j3) by (eapply cov_same_ctl_pv; eauto).
    destruct (written s3) eqn:W.
    + apply written_true in W. split; [|intros; exact I]. cbn [post_top]. exists j3. split; [exact C3|].
      rewrite I3. split; [lia|]. split; [lia|]. split; [exact PV3|]. right; right. exact W.
    + apply written_false in W.
      assert (A3 : auto_pre j3 s3) by (apply pv_auto; assumption).
      assert (S1 : status s1 = 0%Z).
      { destruct (Z.eq_dec (status s1) 0) as [Z0|Z0]; [exact Z0|]. exfalso.
        assert (X : status s3 <> 0%Z) by (subst s3 s2; apply w_ops_written; exact Z0). contradiction. }
      assert (SB3 : stopb s1 -> n < idx s3 \/ cancelled s3 = true).
      { intros SB. unfold stopb in SB. rewrite I3. subst s3 s2. rewrite w_ops_canc. cbn [cancelled set_idx].
        destruct SB as [?|[?|?]]; [left; assumption | right; assumption | contradiction]. }
      assert (RT3 : jret j3 = true -> stop s3).
      { destruct S3 as (_ & _ & _ & Er). rewrite Er. intros X. destruct (SB3 (R1 X)) as [Y|Y]; [left; exact Y | right; left; exact Y]. }
      assert (F3 : S (S n) - idx s3 <= f) by (rewrite I3; lia).
      assert (B3 : idx s3 <= S n) by (rewrite I3; lia).
      pose proof (IH sigma s3 j3 C3 B3 A3 RT3 F3) as [P3 PC3].
      split.
      * destruct (runm f s3) as [s'|v s'|]; cbn [post_top] in *; auto.
        -- destruct P3 as (j' & ? & ? & ? & ? & ?). exists j'. split; [assumption|]. repeat split; auto; lia.
        -- destruct P3 as (j' & ? & ? & ? & ?). exists j'. split; [assumption|]. repeat split; auto; lia.
      * intros r Rc Hr.
        assert (Stop3 : stopb s1 -> not_panicked (runm f s3)) by (intros SB; apply run_stop; apply SB3; exact SB).
        destruct (Nat.eq_dec (idx s) r) as [Er|Ner].
        -- destruct Rc as (Hr1 & _). rewrite Er, Hr1 in Hh. inversion Hh; subst h. apply Stop3. apply Hrec. reflexivity.
        -- destruct Hd as [SB|Ei]; [apply Stop3; exact SB|].
           apply (PC3 r Rc). rewrite I3, Ei. lia.
  - destruct P as (j1 & C1 & B1 & M1 & PV1). split; [|exact PC].
    cbn [post_top]. exists j1. split; [exact C1|]. repeat split; auto.
Qed.

(* ---------- the whole request ---------- *)
Theorem serve_ok : post_top [] init (serve hs action head dev apprh).
Proof.
  unfold serve. apply (run_ok (S (S n)) [] init j0).
  - unfold cov. cbn. repeat split; auto. intros; lia.
  - cbn. lia.
  - exact I.
  - cbn. discriminate.
  - cbn. lia.
Qed.

(* fuel n+2 is always enough, and whatever the handlers do, the recorded trace is accepted *)
Theorem serve_accepted :
  match serve hs action head dev apprh with
  | Done s | Panicked _ s => chain_spec_ok hs action (trace s) = true
  | OutOfFuel => False
  end.
Proof.
  destruct serve_ok as [P _].
  destruct (serve hs action head dev apprh) as [s|v s|]; cbn [post_top] in P; [| |exact P].
  - destruct P as (j & (E & K & _) & _). unfold chain_spec_ok. rewrite E, K. reflexivity.
  - destruct P as (j & (E & K & _) & _). unfold chain_spec_ok. rewrite E, K. reflexivity.
Qed.

(* with Recovery installed no panic escapes *)
Theorem serve_contained r : recov_cfg r -> exists s, serve hs action head dev apprh = Done s.
Proof.
  intros Rc. destruct serve_ok as [P PC]. specialize (PC r Rc ltac:(cbn; lia)).
  destruct (serve hs action head dev apprh) as [s|v s|]; [exists s; reflexivity | contradiction | cbn in P; contradiction].
Qed.
End P.

(* ------------------------------------------------------------------ *)
(* What acceptance by the judge means, for ANY trace (the model's or the implementation's). *)
Section Meaning.
Variable hs : list handler.
Variable action : option handler.
Notation scr := (scripted hs action).

Lemma enters_app a b : enters (a ++ b) = enters a ++ enters b.
Proof. induction a as [|e a IH]; [reflexivity|]. destruct e; cbn; rewrite ?IH; reflexivity. Qed.

Definition order_inv (pre : list event) (j : jst) : Prop :=
  (forall x, In x (enters pre) -> x < jnext j) /\
  (forall k, k < jnext j -> scr k = true -> In k (enters pre)) /\
  StronglySorted lt (enters pre).

Lemma sorted_snoc l x : StronglySorted lt l -> (forall y, In y l -> y < x) -> StronglySorted lt (l ++ [x]).
Proof.
  induction 1 as [|a l S IH F]; intros H; cbn.
  - constructor; constructor.
  - constructor.
    + apply IH. intros y Hy. apply H. right. exact Hy.
    + apply Forall_app. split; [exact F|]. constructor; [|constructor]. apply H. left. reflexivity.
Qed.

Lemma none_scripted_false a len k : none_scripted hs action a len = true -> a <= k -> k < a + len -> scr k = false.
Proof.
  unfold none_scripted. intros H H1 H2. rewrite forallb_forall in H.
  specialize (H k). rewrite in_seq in H. specialize (H (conj H1 H2)). destruct (scr k); [discriminate | reflexivity].
Qed.

(* the conditions under which the judge lets a handler start *)
Lemma jstep_enter j i st c j' : jstep hs action j (Enter i st c) = Some j' ->
  jnext j <= i /\ none_scripted hs action (jnext j) (i - jnext j) = true /\ scr i = true /\
  may_start (jprev j) st c = true /\ Z.eqb st 0 = negb (jw j) /\ (jret j = true -> jw j = true) /\
  j' = mkj (S i) (i :: jstk j) (Some (Enter i st c)) (jw j) (jret j).
Proof.
  cbn [jstep]. destruct (_ && _) eqn:Cd; [|discriminate]. intros E. inversion E; subst; clear E.
  repeat (apply andb_prop in Cd as [Cd ?]). apply Nat.leb_le in Cd.
  repeat split; auto.
  - apply eqb_prop. assumption.
  - intros R. rewrite R in *. cbn in *. assumption.
Qed.

Lemma jstep_order pre j e j' : order_inv pre j -> jstep hs action j e = Some j' -> order_inv (pre ++ [e]) j'.
Proof.
  intros (A & B & C) E. unfold order_inv. rewrite enters_app.
  destruct e as [i st c|i|i|i|i|].
  - apply jstep_enter in E as (L & NS & Si & _ & _ & _ & ->). cbn [jnext enters].
    repeat split.
    + intros x Hx. apply in_app_or in Hx as [Hx|[<-|[]]]; [specialize (A x Hx); lia | lia].
    + intros k Hk Sk. apply in_or_app. destruct (Nat.lt_ge_cases k (jnext j)) as [Lt|G]; [left; apply B; assumption|].
      destruct (Nat.eq_dec k i) as [->|Ne]; [right; left; reflexivity|]. exfalso.
      assert (X : scr k = false) by (eapply none_scripted_false; [eassumption | lia | lia]). congruence.
    + apply sorted_snoc; [exact C|]. intros y Hy. specialize (A y Hy). lia.
  - cbn [jstep] in E. destruct (top_is _ _); [|discriminate]. inversion E; subst. cbn. rewrite app_nil_r. auto.
  - cbn [jstep] in E. destruct (top_is _ _); [|discriminate]. inversion E; subst. cbn. rewrite app_nil_r. auto.
  - cbn [jstep] in E. destruct (top_is _ _); [|discriminate]. inversion E; subst. cbn. rewrite app_nil_r. auto.
  - cbn [jstep] in E. destruct (top_is _ _); [|discriminate]. inversion E; subst. cbn. rewrite app_nil_r. auto.
  - cbn [jstep] in E. destruct (jw j); [discriminate|]. inversion E; subst. cbn. rewrite app_nil_r. auto.
Qed.

Lemma jrun_order tr : forall pre j j', order_inv pre j -> jrun hs action j tr = Some j' -> order_inv (pre ++ tr) j'.
Proof.
  induction tr as [|e tr IH]; intros pre j j' I E; cbn in E.
  - inversion E; subst. rewrite app_nil_r. exact I.
  - destruct (jstep hs action j e) as [j1|] eqn:E1; [|discriminate].
    replace (pre ++ e :: tr) with ((pre ++ [e]) ++ tr) by (rewrite <- app_assoc; reflexivity).
    eapply IH; [|exact E]. eapply jstep_order; eauto.
Qed.

Lemma spec_ok_run tr : chain_spec_ok hs action tr = true -> exists j, jrun hs action j0 tr = Some j.
Proof. unfold chain_spec_ok. destruct (jrun hs action j0 tr) as [j|]; [eauto | discriminate]. Qed.

Lemma order_inv0 : order_inv [] j0.
Proof. repeat split; cbn; try constructor; intros; try contradiction; lia. Qed.

(* started in chain order, each at most once *)
Theorem accepted_increasing tr : chain_spec_ok hs action tr = true -> StronglySorted lt (enters tr).
Proof. intros H. destruct (spec_ok_run tr H) as (j & E). apply (jrun_order tr [] j0 j order_inv0 E). Qed.

(* never skipping a scripted handler *)
Theorem accepted_no_skip tr i k :
  chain_spec_ok hs action tr = true -> In i (enters tr) -> k < i -> scr k = true -> In k (enters tr).
Proof.
  intros H Hi Hk Sk. destruct (spec_ok_run tr H) as (j & E).
  destruct (jrun_order tr [] j0 j order_inv0 E) as (A & B & _). cbn [app] in *.
  apply B; [|exact Sk]. specialize (A i Hi). lia.
Qed.

(* what the judge remembers of a prefix *)
Definition is_sent (e : event) : bool := match e with Sent => true | _ => false end.
Definition is_nextret (e : event) : bool := match e with NextRet _ => true | _ => false end.
Fixpoint last_ctl (tr : list event) (acc : option event) : option event :=
  match tr with [] => acc | Sent :: t => last_ctl t acc | e :: t => last_ctl t (Some e) end.

Definition mem_inv (pre : list event) (j : jst) : Prop :=
  jw j = existsb is_sent pre /\ jret j = existsb is_nextret pre /\ jprev j = last_ctl pre None.

Lemma last_ctl_snoc tr : forall acc e, last_ctl (tr ++ [e]) acc = if is_sent e then last_ctl tr acc else Some e.
Proof.
  induction tr as [|x tr IH]; intros acc e; cbn.
  - destruct e; reflexivity.
  - destruct x; apply IH.
Qed.

Lemma jstep_mem pre j e j' : mem_inv pre j -> jstep hs action j e = Some j' -> mem_inv (pre ++ [e]) j'.
Proof.
  intros (A & B & C) E. unfold mem_inv. rewrite !existsb_app, last_ctl_snoc. cbn [existsb].
  destruct e as [i st c|i|i|i|i|].
  - apply jstep_enter in E as (_ & _ & _ & _ & _ & _ & ->). cbn. rewrite !orb_false_r. auto.
  - cbn [jstep] in E. destruct (top_is _ _); [|discriminate]. inversion E; subst. cbn. rewrite !orb_false_r. auto.
  - cbn [jstep] in E. destruct (top_is _ _); [|discriminate]. inversion E; subst. cbn. rewrite !orb_false_r. auto.
  - cbn [jstep] in E. destruct (top_is _ _); [|discriminate]. inversion E; subst. cbn. rewrite !orb_false_r. auto.
  - cbn [jstep] in E. destruct (top_is _ _); [|discriminate]. inversion E; subst. cbn. rewrite orb_false_r, orb_true_r. auto.
  - cbn [jstep] in E. destruct (jw j) eqn:W; [discriminate|]. inversion E; subst. cbn. rewrite orb_true_r, orb_false_r. auto.
Qed.

Lemma jrun_mem tr : forall pre j j', mem_inv pre j -> jrun hs action j tr = Some j' -> mem_inv (pre ++ tr) j'.
Proof.
  induction tr as [|e tr IH]; intros pre j j' I E; cbn in E.
  - inversion E; subst. rewrite app_nil_r. exact I.
  - destruct (jstep hs action j e) as [j1|] eqn:E1; [|discriminate].
    replace (pre ++ e :: tr) with ((pre ++ [e]) ++ tr) by (rewrite <- app_assoc; reflexivity).
    eapply IH; [|exact E]. eapply jstep_mem; eauto.
Qed.

Lemma jrun_app' j a b :
  jrun hs action j (a ++ b) = match jrun hs action j a with Some j' => jrun hs action j' b | None => None end.
Proof.
  revert j; induction a as [|e a IH]; intros j; [reflexivity|]. cbn [app jrun].
  destruct (jstep hs action j e); [apply IH | reflexivity].
Qed.

(* every start of a handler in an accepted trace, with what came before it *)
Lemma accepted_enter tr pre i st c post :
  chain_spec_ok hs action tr = true -> tr = pre ++ Enter i st c :: post ->
  may_start (last_ctl pre None) st c = true /\
  Z.eqb st 0 = negb (existsb is_sent pre) /\
  (existsb is_nextret pre = true -> existsb is_sent pre = true).
Proof.
  intros H ->. destruct (spec_ok_run _ H) as (j & E).
  rewrite jrun_app' in E. destruct (jrun hs action j0 pre) as [j1|] eqn:E1; [|discriminate].
  cbn [jrun] in E. destruct (jstep hs action j1 (Enter i st c)) as [j2|] eqn:E2; [|discriminate].
  apply jstep_enter in E2 as (_ & _ & _ & M & T & R & _).
  assert (I0 : mem_inv [] j0) by (repeat split).
  destruct (jrun_mem pre [] j0 j1 I0 E1) as (A & B & C). cbn [app] in *.
  rewrite <- C, <- A, <- B. auto.
Qed.

(* the chain advances on its own (a handler starts right after another one finished) only while
   nothing has been written and the request is not cancelled; any other start follows a Next() call *)
Theorem accepted_auto_advance tr pre i st c post :
  chain_spec_ok hs action tr = true -> tr = pre ++ Enter i st c :: post ->
  match last_ctl pre None with
  | Some (Exit _) | Some (Unwind _) => st = 0%Z /\ c = false
  | Some (NextCall _) | None => c = false
  | _ => False
  end.
Proof.
  intros H E. destruct (accepted_enter tr pre i st c post H E) as (M & _ & _).
  unfold may_start in M. destruct (last_ctl pre None) as [[ | | | | | ]|]; try discriminate.
  - apply andb_prop in M as [M1 M2]. apply Z.eqb_eq in M1. destruct c; [discriminate | auto].
  - apply andb_prop in M as [M1 M2]. apply Z.eqb_eq in M1. destruct c; [discriminate | auto].
  - destruct c; [discriminate | reflexivity].
  - destruct c; [discriminate | reflexivity].
Qed.

(* the status a handler sees on entry is truthful: 0 iff no status line has reached the client *)
Theorem accepted_truthful_status tr pre i st c post :
  chain_spec_ok hs action tr = true -> tr = pre ++ Enter i st c :: post ->
  (st = 0%Z <-> existsb is_sent pre = false).
Proof.
  intros H E. destruct (accepted_enter tr pre i st c post H E) as (_ & T & _).
  destruct (existsb is_sent pre); cbn [negb] in T; split; intros X.
  - subst. discriminate.
  - discriminate.
  - reflexivity.
  - apply Z.eqb_eq. exact T.
Qed.

(* once a Next() call has returned - the remainder of the chain ran inside it as far as it got - a
   handler can only start if the response has been written *)
Theorem accepted_remainder_inside_next tr pre i st c post :
  chain_spec_ok hs action tr = true -> tr = pre ++ Enter i st c :: post ->
  existsb is_nextret pre = true -> st <> 0%Z.
Proof.
  intros H E R. destruct (accepted_enter tr pre i st c post H E) as (_ & T & N).
  rewrite (N R) in T. cbn in T. apply Z.eqb_neq. exact T.
Qed.

(* no handler ever starts in a cancelled request *)
Theorem accepted_never_cancelled tr i st c :
  chain_spec_ok hs action tr = true -> In (Enter i st c) tr -> c = false.
Proof.
  intros H Hin. apply in_split in Hin as (pre & post & E).
  destruct (accepted_enter tr pre i st c post H E) as (M & _ & _).
  unfold may_start in M. destruct (last_ctl pre None) as [[ | | | | | ]|]; try discriminate;
    destruct c; try reflexivity; try discriminate; rewrite ?andb_false_r in M; discriminate.
Qed.

(* at most one status line *)
Lemma jrun_sent_once tr : forall j j', jrun hs action j tr = Some j' -> jw j = true -> existsb is_sent tr = false.
Proof.
  induction tr as [|e tr IH]; intros j j' E W; [reflexivity|]. cbn in E.
  destruct (jstep hs action j e) as [j1|] eqn:E1; [|discriminate].
  destruct e as [i st c|i|i|i|i|]; cbn [existsb is_sent orb].
  - apply jstep_enter in E1 as (_ & _ & _ & _ & _ & _ & ->). eapply IH; [exact E | exact W].
  - cbn [jstep] in E1. destruct (top_is _ _); [|discriminate]. inversion E1; subst. eapply IH; [exact E | exact W].
  - cbn [jstep] in E1. destruct (top_is _ _); [|discriminate]. inversion E1; subst. eapply IH; [exact E | exact W].
  - cbn [jstep] in E1. destruct (top_is _ _); [|discriminate]. inversion E1; subst. eapply IH; [exact E | exact W].
  - cbn [jstep] in E1. destruct (top_is _ _); [|discriminate]. inversion E1; subst. eapply IH; [exact E | exact W].
  - cbn [jstep] in E1. rewrite W in E1. discriminate.
Qed.

Theorem accepted_one_status tr pre post :
  chain_spec_ok hs action tr = true -> tr = pre ++ Sent :: post -> existsb is_sent post = false.
Proof.
  intros H ->. destruct (spec_ok_run _ H) as (j & E).
  rewrite jrun_app' in E. destruct (jrun hs action j0 pre) as [j1|]; [|discriminate].
  cbn [jrun] in E. destruct (jstep hs action j1 Sent) as [j2|] eqn:E2; [|discriminate].
  cbn [jstep] in E2. destruct (jw j1); [discriminate|]. inversion E2; subst.
  eapply jrun_sent_once; [exact E | reflexivity].
Qed.
End Meaning.

(* What Recovery sends: 500 unless a status had been sent, the panic detail only in development; through
   the http.ResponseWriter found in the injector (the marker shows a re-mapped one was used). *)
Lemma recovery_response head dev v s :
  let s' := w_body head (CPanicPage v dev) (w_mark head (w_header 500 s)) in
  status s' = (if Z.eqb (status s) 0 then 500%Z else status s) /\
  (head = false -> body s' = body s ++ (if wrapped s then [CBytes marker] else []) ++ [CPanicPage v dev]) /\
  idx s' = idx s.
Proof.
  cbv zeta. destruct s as [i stt b c t r w]. unfold w_body, w_mark, w_body, w_header. cbn [status wrapped].
  destruct (Z.eqb stt 0) eqn:E; cbn [wrapped status]; destruct w; cbn [status]; rewrite ?E; cbn [Z.eqb status];
    destruct head; cbn [idx status body]; rewrite ?E; cbn [idx status body Z.eqb app]; rewrite <- ?app_assoc;
    repeat split; auto; intros; try discriminate.
Qed.

(* return values that render to nothing leave the response untouched, so the chain goes on *)
Lemma empty_return_continues head ops s : ops = [] -> w_ops head ops s = s.
Proof. intros ->. reflexivity. Qed.

(* a ReturnHandler mapped in the request scope is the one used, then the application's, then the table *)
Lemma rendering_nearest apprh s acts v r :
  rendering apprh s (HNormal acts (v :: r)) =
  match rh s with
  | Some k => custom_rh k
  | None => match apprh with
            | Some k => custom_rh k
            | None => if wrapped s then mark_ops (render (v :: r)) else render (v :: r)
            end
  end.
Proof. reflexivity. Qed.

Lemma rendering_nothing_returned apprh s acts : rendering apprh s (HNormal acts []) = [].
Proof. reflexivity. Qed.
