(* C05: isolation of concurrent requests, as a theorem about every interleaving.  Shared state during
   serving = immutable configuration + "once" cells (lazily rendered route / segment strings guarded by
   sync.Once); everything else a request touches is private to it (fresh context, params, handler
   slice, injector scope, response writer). *)
Require Import Base.

Section Conc.
Variable cfg : Type.                       (* routes, middleware, mapped services: fixed after set-up *)
Variable local : Type.                     (* everything private to one request *)
Variable canonical : cfg -> nat -> nat.    (* the value cell c is initialised to (a function of cfg only) *)

Inductive action := APrivate | AOnce (cell : nat).

Variable next_action : cfg -> local -> option action.       (* None: the request is finished *)
Variable step_private : cfg -> local -> local.
Variable step_once : cfg -> local -> nat -> local.           (* continues with the value read from the cell *)

Definition cells := nat -> option nat.
Definition no_cells : cells := fun _ => None.

(* one atomic step of request-local progress, given the value a once cell yields *)
Definition step_local (c : cfg) (l : local) : local :=
  match next_action c l with
  | None => l
  | Some APrivate => step_private c l
  | Some (AOnce k) => step_once c l (canonical c k)
  end.

(* the same step against the shared cells: the first toucher initialises *)
Definition step_shared (c : cfg) (cs : cells) (l : local) : cells * local :=
  match next_action c l with
  | None => (cs, l)
  | Some APrivate => (cs, step_private c l)
  | Some (AOnce k) =>
      match cs k with
      | Some v => (cs, step_once c l v)
      | None => ((fun j => if Nat.eqb j k then Some (canonical c k) else cs j), step_once c l (canonical c k))
      end
  end.

Fixpoint run_alone (c : cfg) (n : nat) (l : local) : local :=
  match n with O => l | S n' => run_alone c n' (step_local c l) end.

(* global state: the cells and the private state of every request *)
Definition gstate := (cells * list local)%type.

Fixpoint update (ls : list local) (i : nat) (l : local) : list local :=
  match ls, i with
  | [], _ => []
  | _ :: t, O => l :: t
  | h :: t, S i' => h :: update t i' l
  end.

Definition sched_step (c : cfg) (g : gstate) (i : nat) : gstate :=
  match nth_error (snd g) i with
  | None => g
  | Some l => let '(cs', l') := step_shared c (fst g) l in (cs', update (snd g) i l')
  end.

Definition run_schedule (c : cfg) (g : gstate) (sched : list nat) : gstate := fold_left (sched_step c) sched g.

Definition count (i : nat) (sched : list nat) : nat := length (filter (Nat.eqb i) sched).

(* every cell is untouched or holds its canonical value *)
Definition cells_ok (c : cfg) (cs : cells) : Prop := forall k v, cs k = Some v -> v = canonical c k.

Lemma step_shared_local c cs l : cells_ok c cs -> snd (step_shared c cs l) = step_local c l.
Proof.
  intros H. unfold step_shared, step_local. destruct (next_action c l) as [[|k]|]; try reflexivity.
  destruct (cs k) as [v|] eqn:E; cbn; [rewrite (H k v E)|]; reflexivity.
Qed.

Lemma step_shared_cells_ok c cs l : cells_ok c cs -> cells_ok c (fst (step_shared c cs l)).
Proof.
  intros H. unfold step_shared. destruct (next_action c l) as [[|k]|]; try exact H.
  destruct (cs k) as [v|] eqn:E; cbn; [exact H|].
  intros j v Hj. destruct (Nat.eqb_spec j k) as [->|Ne]; [inversion Hj; reflexivity | apply H; exact Hj].
Qed.

Lemma nth_update_same ls i l : i < length ls -> nth_error (update ls i l) i = Some l.
Proof. revert i; induction ls as [|h t IH]; intros [|i] H; cbn in *; try lia; [reflexivity | apply IH; lia]. Qed.

Lemma nth_update_other ls i j l : i <> j -> nth_error (update ls i l) j = nth_error ls j.
Proof. revert i j; induction ls as [|h t IH]; intros [|i] [|j] H; cbn; try reflexivity; try congruence. apply IH. congruence. Qed.

Lemma update_length ls i l : length (update ls i l) = length ls.
Proof. revert i; induction ls as [|h t IH]; intros [|i]; cbn; auto. Qed.

Lemma run_alone_snoc c n l : run_alone c (S n) l = step_local c (run_alone c n l).
Proof. revert l; induction n as [|n IH]; intros l; [reflexivity|]. cbn [run_alone] in *. rewrite <- IH. reflexivity. Qed.

(* the invariant: request i has made exactly as much private progress as it was scheduled *)
Definition inv (c : cfg) (init : list local) (g : gstate) (done : list nat) : Prop :=
  cells_ok c (fst g) /\ length (snd g) = length init /\
  forall i l0, nth_error init i = Some l0 -> nth_error (snd g) i = Some (run_alone c (count i done) l0).

Lemma count_snoc i done j : count i (done ++ [j]) = count i done + (if Nat.eqb i j then 1 else 0).
Proof. unfold count. rewrite filter_app, app_length. cbn. destruct (Nat.eqb i j); reflexivity. Qed.

Lemma sched_step_inv c init g done j : inv c init g done -> inv c init (sched_step c g j) (done ++ [j]).
Proof.
  intros (Hc & Hl & Hn). unfold sched_step. destruct g as [cs ls]. cbn [fst snd] in *.
  destruct (nth_error ls j) as [l|] eqn:E.
  - pose proof (step_shared_local c cs l Hc) as SL. pose proof (step_shared_cells_ok c cs l Hc) as SC.
    destruct (step_shared c cs l) as [cs' l']. cbn [fst snd] in *. subst l'.
    unfold inv. cbn [fst snd]. split; [exact SC|]. split; [rewrite update_length; exact Hl|].
    intros i l0 Hi. rewrite count_snoc. destruct (Nat.eqb_spec i j) as [->|Ne].
    + rewrite nth_update_same by (apply nth_error_Some; congruence).
      rewrite (Hn j l0 Hi) in E. inversion E; subst. rewrite Nat.add_1_r, run_alone_snoc. reflexivity.
    + rewrite nth_update_other by congruence. rewrite Nat.add_0_r. apply Hn. exact Hi.
  - unfold inv. cbn [fst snd]. split; [exact Hc|]. split; [exact Hl|]. intros i l0 Hi. rewrite count_snoc.
    destruct (Nat.eqb_spec i j) as [->|Ne]; [|rewrite Nat.add_0_r; apply Hn; exact Hi].
    exfalso. apply nth_error_None in E. assert (j < length init) by (apply nth_error_Some; congruence). lia.
Qed.

(* C05 isolation: under EVERY schedule, each request's private state is what it would be had it run
   alone for as many steps as it was given; the shared cells only ever go None -> canonical *)
Theorem isolation c init : forall sched done g,
  inv c init g done -> inv c init (run_schedule c g sched) (done ++ sched).
Proof.
  induction sched as [|j sched IH]; intros done g H; cbn [run_schedule fold_left].
  - rewrite app_nil_r. exact H.
  - replace (done ++ j :: sched) with ((done ++ [j]) ++ sched) by (rewrite <- app_assoc; reflexivity).
    apply IH. apply sched_step_inv. exact H.
Qed.

Corollary isolation_from_start c init sched i l0 :
  nth_error init i = Some l0 ->
  nth_error (snd (run_schedule c (no_cells, init) sched)) i = Some (run_alone c (count i sched) l0) /\
  cells_ok c (fst (run_schedule c (no_cells, init) sched)).
Proof.
  intros Hi. assert (I0 : inv c init (no_cells, init) []).
  { split; [intros k v E; discriminate|]. split; [reflexivity|]. intros j l Hj. exact Hj. }
  destruct (isolation c init sched [] _ I0) as (Hc & _ & Hn). split; [apply Hn; exact Hi | exact Hc].
Qed.
End Conc.
