(* Models of net/url.QueryEscape / QueryUnescape, the cookie-value byte rule of net/http, and the
   strconv conversions used by the request accessors of context.go (C18). *)
Require Import Base.
Local Open Scope N_scope.

Definition is_alnum (c : N) : bool :=
  (N.leb 48 c && N.leb c 57) || (N.leb 65 c && N.leb c 90) || (N.leb 97 c && N.leb c 122).

(* shouldEscape(c, encodeQueryComponent) = false *)
Definition unreserved (c : N) : bool :=
  is_alnum c || N.eqb c 45 || N.eqb c 95 || N.eqb c 46 || N.eqb c 126.

Definition upper_hex (d : N) : N := if N.ltb d 10 then 48 + d else 55 + d.

Fixpoint query_escape (s : str) : str :=
  match s with
  | [] => []
  | c :: s' =>
      if unreserved c then c :: query_escape s'
      else if N.eqb c 32 then 43 :: query_escape s'
      else 37 :: upper_hex (c / 16) :: upper_hex (c mod 16) :: query_escape s'
  end.

Definition hexv (c : N) : option N :=
  if N.leb 48 c && N.leb c 57 then Some (c - 48)
  else if N.leb 97 c && N.leb c 102 then Some (c - 87)
  else if N.leb 65 c && N.leb c 70 then Some (c - 55)
  else None.

Fixpoint query_unescape (s : str) : option str :=
  match s with
  | [] => Some []
  | 37 :: rest =>
      match rest with
      | h :: l :: rest' =>
          match hexv h, hexv l, query_unescape rest' with
          | Some a, Some b, Some r => Some ((a * 16 + b) :: r)
          | _, _, _ => None
          end
      | _ => None
      end
  | 43 :: rest => match query_unescape rest with Some r => Some (32 :: r) | None => None end
  | c :: rest => match query_unescape rest with Some r => Some (c :: r) | None => None end
  end.

(* net/http validCookieValueByte, and the bytes that force quoting *)
Definition cookie_value_byte (c : N) : bool :=
  N.leb 32 c && N.ltb c 127 && negb (N.eqb c 34) && negb (N.eqb c 59) && negb (N.eqb c 92).
Definition cookie_plain_byte (c : N) : bool :=
  cookie_value_byte c && negb (N.eqb c 32) && negb (N.eqb c 44).

(* SetCookie then Cookie(name): escape; the value travels unchanged (all bytes plain); unescape, raw on error *)
Definition cookie_roundtrip (v : str) : str :=
  let sent := query_escape v in
  match query_unescape sent with Some d => d | None => sent end.

(* ---- strconv ---- *)
Definition is_digit (c : N) : bool := N.leb 48 c && N.leb c 57.

Fixpoint digits (acc : Z) (s : str) : option Z :=
  match s with
  | [] => Some acc
  | c :: s' => if is_digit c then digits (acc * 10 + Z.of_N (c - 48))%Z s' else None
  end.

Definition max_int64 : Z := 9223372036854775807%Z.
Definition min_int64 : Z := (-9223372036854775808)%Z.

(* strconv.ParseInt(s, 10, 64) with the error dropped: 0 on a syntax error, clamped on a range error *)
Definition parse_int (s : str) : Z :=
  let clamp z := if Z.ltb max_int64 z then max_int64 else if Z.ltb z min_int64 then min_int64 else z in
  match s with
  | [] => 0%Z
  | 45 :: d :: s' => match digits 0%Z (d :: s') with Some v => clamp (- v)%Z | None => 0%Z end
  | 43 :: d :: s' => match digits 0%Z (d :: s') with Some v => clamp v | None => 0%Z end
  | _ => match digits 0%Z s with Some v => clamp v | None => 0%Z end
  end.

(* strconv.ParseBool with the error dropped *)
Definition parse_bool (s : str) : bool :=
  existsb (str_eqb s) [[49]; [116]; [84]; [84;82;85;69]; [116;114;117;101]; [84;114;117;101]].

(* strings.TrimSpace for ASCII white space and the two-byte U+0085 / U+00A0 *)
Definition ascii_space (c : N) : bool := (N.leb 9 c && N.leb c 13) || N.eqb c 32.
Fixpoint ltrim (s : str) : str :=
  match s with
  | c :: s' =>
      if ascii_space c then ltrim s'
      else match s with
           | 194 :: d :: s'' => if N.eqb d 133 || N.eqb d 160 then ltrim s'' else s
           | _ => s
           end
  | [] => []
  end.
Fixpoint rtrim_rev (r : str) : str :=     (* on the reversed string *)
  match r with
  | c :: r' =>
      if ascii_space c then rtrim_rev r'
      else match r with
           | d :: 194 :: r'' => if N.eqb d 133 || N.eqb d 160 then rtrim_rev r'' else r
           | _ => r
           end
  | [] => []
  end.
Definition trim_space (s : str) : str := rev (rtrim_rev (rev (ltrim s))).

(* ---- the one rule of the accessors: present and non-empty -> converted; else default, else zero ---- *)
Definition with_default {A} (v : str) (conv : str -> A) (dflt : option A) (zero : A) : A :=
  match v with
  | [] => match dflt with Some d => d | None => zero end
  | _ => conv v
  end.

Definition query (v : str) (d : option str) : str := with_default v (fun x => x) d [].
Definition query_trim (v : str) (d : option str) : str := with_default v trim_space d [].
Definition query_unescape_acc (v : str) (d : option str) : str :=
  with_default v (fun x => match query_unescape x with Some y => y | None => [] end) d [].
Definition query_bool (v : str) (d : option bool) : bool := with_default v parse_bool d false.
Definition query_int (v : str) (d : option Z) : Z := with_default v parse_int d 0%Z.
