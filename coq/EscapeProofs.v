Require Import Base Escape.
From Coq Require Import ZifyN ZifyBool.

Definition is_byte (c : N) : Prop := (c < 256)%N.

Lemma hexv_upper_hex d : (d < 16)%N -> hexv (upper_hex d) = Some d.
Proof.
  intros H. assert (E : In d [0;1;2;3;4;5;6;7;8;9;10;11;12;13;14;15]%N).
  { assert (d = 0 \/ d = 1 \/ d = 2 \/ d = 3 \/ d = 4 \/ d = 5 \/ d = 6 \/ d = 7 \/ d = 8 \/ d = 9 \/ d = 10 \/
            d = 11 \/ d = 12 \/ d = 13 \/ d = 14 \/ d = 15)%N by lia.
    cbn. intuition. }
  cbn in E. repeat (destruct E as [<-|E]; [reflexivity|]). contradiction.
Qed.

Lemma upper_hex_not_special d : (d < 16)%N -> upper_hex d <> 37%N /\ upper_hex d <> 43%N.
Proof. intros H. unfold upper_hex. destruct (N.ltb d 10) eqn:E; lia. Qed.

Lemma unreserved_plain c : unreserved c = true -> c <> 37%N /\ c <> 43%N.
Proof. unfold unreserved, is_alnum. intros H. split; intros ->; cbn in H; discriminate. Qed.

(* decoding what QueryEscape produced gives the original bytes back - for every byte string *)
Theorem unescape_escape s : Forall is_byte s -> query_unescape (query_escape s) = Some s.
Proof.
  induction 1 as [|c s Hc _ IH]; [reflexivity|]. cbn [query_escape].
  destruct (unreserved c) eqn:U.
  - destruct (unreserved_plain c U) as [N1 N2]. cbn [query_unescape].
    destruct c as [|p]; [cbn in U; discriminate|].
    assert (X : query_unescape (N.pos p :: query_escape s) = Some (N.pos p :: s)).
    { unfold query_unescape; fold query_unescape. rewrite IH.
      destruct (N.eqb (N.pos p) 37) eqn:E1; [apply N.eqb_eq in E1; congruence|].
      destruct (N.eqb (N.pos p) 43) eqn:E2; [apply N.eqb_eq in E2; congruence|].
      do 6 (destruct p as [p|p|]; try reflexivity); exfalso; apply N.eqb_neq in E1, E2; try (apply E1; reflexivity); try (apply E2; reflexivity). }
    exact X.
  - destruct (N.eqb c 32) eqn:S.
    + apply N.eqb_eq in S. subst. cbn [query_unescape]. rewrite IH. reflexivity.
    + assert (H1 : (c / 16 < 16)%N) by (unfold is_byte in Hc; apply N.div_lt_upper_bound; lia).
      assert (H2 : (c mod 16 < 16)%N) by (apply N.mod_lt; lia).
      cbn [query_unescape]. rewrite (hexv_upper_hex _ H1), (hexv_upper_hex _ H2), IH.
      f_equal. f_equal. rewrite (N.div_mod c 16) at 3 by lia. lia.
Qed.

(* every byte QueryEscape emits may appear unquoted in a cookie value *)
Theorem escape_is_cookie_plain s : Forall is_byte s -> forallb cookie_plain_byte (query_escape s) = true.
Proof.
  induction 1 as [|c s Hc _ IH]; [reflexivity|]. cbn [query_escape].
  destruct (unreserved c) eqn:U.
  - cbn [forallb]. rewrite IH, andb_true_r.
    unfold unreserved, is_alnum in U. unfold cookie_plain_byte, cookie_value_byte. unfold is_byte in Hc. lia.
  - destruct (N.eqb c 32) eqn:S.
    + cbn [forallb]. rewrite IH. reflexivity.
    + assert (H1 : (c / 16 < 16)%N) by (unfold is_byte in Hc; apply N.div_lt_upper_bound; lia).
      assert (H2 : (c mod 16 < 16)%N) by (apply N.mod_lt; lia).
      cbn [forallb]. rewrite IH, andb_true_r.
      assert (P : forall d, (d < 16)%N -> cookie_plain_byte (upper_hex d) = true).
      { intros d Hd. unfold cookie_plain_byte, cookie_value_byte, upper_hex. destruct (N.ltb d 10) eqn:E; lia. }
      rewrite (P _ H1), (P _ H2). reflexivity.
Qed.

(* a cookie value written with SetCookie and sent back is read back byte for byte *)
Theorem cookie_roundtrip_id s : Forall is_byte s -> cookie_roundtrip s = s.
Proof. intros H. unfold cookie_roundtrip. rewrite (unescape_escape s H). reflexivity. Qed.

(* the default rule *)
Theorem with_default_present {A} v (conv : str -> A) d z : v <> [] -> with_default v conv d z = conv v.
Proof. destruct v; [congruence | reflexivity]. Qed.
Theorem with_default_absent {A} (conv : str -> A) d z : with_default [] conv d z = match d with Some x => x | None => z end.
Proof. reflexivity. Qed.
