(* The class of segments the route parser produces satisfies what the registration and shortcut
   theorems (TreeAdd, TreeDispatch, RouterInv) assume of registered segments: the canonical text is
   injective on it, and its identifiers are non-empty and contain no "/". *)
Require Import Base Route Lexer LexSteps Parser Unparse UnparseProofs ParseSound RouterInv.

Definition pgood (es : list elem) : Prop := Forall wf_elem es /\ no_adjacent_idents es.

Lemma pgood_nil : pgood [].
Proof. split; [constructor | exact I]. Qed.

Lemma pgood_wf_route es : pgood es -> wf_route [mkseg false es].
Proof. intros [W NA]. split; [discriminate|]. constructor; [split; assumption | constructor]. Qed.

Lemma pgood_inj a b : pgood a -> pgood b -> render_elems a = render_elems b -> a = b.
Proof.
  intros Ga Gb E.
  pose proof (parse_render _ (pgood_wf_route a Ga)) as Pa. pose proof (parse_render _ (pgood_wf_route b Gb)) as Pb.
  unfold render_route, render_segment in Pa, Pb. cbn [map concat optional elems] in Pa, Pb. rewrite E in Pa.
  rewrite Pa in Pb. inversion Pb. reflexivity.
Qed.

Lemma pgood_ident es s : pgood es -> In (EIdent s) es -> s <> [] /\ slash_free s.
Proof.
  intros [W _] HIn. rewrite Forall_forall in W. specialize (W _ HIn). cbn in W. destruct W as [Hne Ha].
  split; [exact Hne|]. intros HS. unfold all_in in Ha. rewrite forallb_forall in Ha. specialize (Ha _ HS). discriminate.
Qed.

(* every route the parser returns is made of such segments *)
Lemma parsed_good s r : parse s = Some r -> Forall (fun sg => pgood (elems sg)) r.
Proof.
  intros H. destruct (parse_sound s r H) as ((_ & W) & _). apply Forall_forall. intros sg Hs.
  rewrite Forall_forall in W. exact (W sg Hs).
Qed.
