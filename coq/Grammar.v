(* The documented route grammar (internal/route/README.md), read directly on bytes - no lexer states,
   no tokens.  [bnf_parse] is a recogniser for the BNF that also builds the derivation's structure. *)
Require Import Base Route Lexer.

Definition is_char (c : N) : bool := in_cls c ident_cls.     (* <char> *)
Definition is_any (c : N) : bool := in_cls c regex_cls.       (* <any>  *)

(* longest prefix over a class *)
Fixpoint span (p : N -> bool) (s : str) : str * str :=
  match s with
  | c :: s' => if p c then let '(a, b) := span p s' in (c :: a, b) else ([], s)
  | [] => ([], [])
  end.

Fixpoint drop_blanks (s : str) : str :=
  match s with c :: s' => if N.eqb c c_space then drop_blanks s' else s | [] => [] end.

(* <bind_parameter> ::= <ident> ":" " "* ( <ident> | "/" <any>+ "/" ) *)
Definition bnf_param (s : str) : option ((str * pval) * str) :=
  match span is_char s with
  | ([], _) => None
  | (name, rest) =>
      match rest with
      | c :: rest1 =>
          if N.eqb c c_colon then
            let rest2 := drop_blanks rest1 in
            match rest2 with
            | c2 :: rest3 =>
                if N.eqb c2 c_slash then
                  match span is_any rest3 with
                  | ([], _) => None
                  | (re, c3 :: rest4) => if N.eqb c3 c_slash then Some ((name, VRegex re), rest4) else None
                  | (_, []) => None
                  end
                else match span is_char rest2 with
                     | ([], _) => None
                     | (v, rest4) => Some ((name, VLit v), rest4)
                     end
            | [] => None
            end
          else None
      | [] => None
      end
  end.

(* <bind_parameters> "}" , after the opening brace *)
Fixpoint bnf_params (fuel : nat) (s : str) : option (list (str * pval) * str) :=
  match fuel with
  | O => None
  | S f =>
      match bnf_param s with
      | None => None
      | Some (p, rest) =>
          match rest with
          | c :: rest' =>
              if N.eqb c c_rbrace then Some ([p], rest')
              else if N.eqb c c_comma then
                match bnf_params f (drop_blanks rest') with
                | Some (ps, r) => Some (p :: ps, r)
                | None => None
                end
              else None
          | [] => None
          end
      end
  end.

(* <segment_element>* *)
Fixpoint bnf_elems (fuel : nat) (s : str) : option (list elem * str) :=
  match fuel with
  | O => None
  | S f =>
      match s with
      | [] => Some ([], [])
      | c :: rest =>
          if N.eqb c c_slash then Some ([], s)
          else if N.eqb c c_lbrace then
            (* "{" <ident> "}"  or  "{" <bind_parameters> "}" *)
            match span is_char rest with
            | (name, c2 :: rest2) =>
                if negb (match name with [] => true | _ => false end) && N.eqb c2 c_rbrace then
                  match bnf_elems f rest2 with Some (es, r) => Some (EBind name :: es, r) | None => None end
                else
                  match bnf_params (length rest) rest with
                  | Some (ps, r0) => match bnf_elems f r0 with Some (es, r) => Some (EParams ps :: es, r) | None => None end
                  | None => None
                  end
            | (_, []) => None
            end
          else
            match span is_char s with
            | ([], _) => None
            | (id, rest2) => match bnf_elems f rest2 with Some (es, r) => Some (EIdent id :: es, r) | None => None end
            end
      end
  end.

(* <route> ::= ( "/" "?"? <segment_element>* )+ *)
Fixpoint bnf_segments (fuel : nat) (s : str) : option (list segment) :=
  match fuel with
  | O => None
  | S f =>
      match s with
      | c :: rest =>
          if N.eqb c c_slash then
            let '(opt, rest1) := match rest with
                                 | q :: rest' => if N.eqb q c_qmark then (true, rest') else (false, rest)
                                 | [] => (false, rest)
                                 end in
            match bnf_elems (S (length rest1)) rest1 with
            | Some (es, []) => Some [mkseg opt es]
            | Some (es, r) => match bnf_segments f r with Some ss => Some (mkseg opt es :: ss) | None => None end
            | None => None
            end
          else None
      | [] => None
      end
  end.

Definition bnf_parse (s : str) : option route := bnf_segments (S (length s)) s.
