(* The byte-level recogniser of the documented BNF (Grammar.bnf_parse) accepts exactly the derivations of
   Unparse.v, with their structure - hence it agrees with the lexer+parser model on every byte string. *)
Require Import Base Route Lexer LexSteps Parser Grammar Unparse UnparseProofs ParseSound.

(* ---------------- spans ---------------- *)
Lemma span_spec p : forall s a b, span p s = (a, b) ->
  s = a ++ b /\ forallb p a = true /\ (match b with [] => True | c :: _ => p c = false end).
Proof.
  induction s as [|c s IH]; intros a b H; cbn [span] in H.
  - inversion H; subst. auto.
  - destruct (p c) eqn:E.
    + destruct (span p s) as [a0 b0] eqn:S. inversion H; subst. destruct (IH a0 b eq_refl) as (E1 & E2 & E3).
      split; [cbn; f_equal; exact E1|]. split; [cbn; rewrite E, E2; reflexivity | exact E3].
    + inversion H; subst. split; [reflexivity|]. split; [reflexivity | exact E].
Qed.

Lemma span_app p a : forall b, forallb p a = true -> (match b with [] => True | c :: _ => p c = false end) -> span p (a ++ b) = (a, b).
Proof.
  induction a as [|c a IH]; intros b Ha Hb; cbn [app].
  - destruct b as [|c b]; [reflexivity|]. cbn [span]. rewrite Hb. reflexivity.
  - cbn [forallb] in Ha. apply andb_prop in Ha as [Hc Ha]. cbn [span]. rewrite Hc, (IH b Ha Hb). reflexivity.
Qed.

Lemma span_ident id rest : is_ident id -> not_start ident_cls rest -> span is_char (id ++ rest) = (id, rest).
Proof. intros [_ Ha] Hr. apply span_app; [exact Ha|]. destruct rest; [exact I | exact Hr]. Qed.

Lemma span_regex re rest : is_regex_text re -> not_start regex_cls rest -> span is_any (re ++ rest) = (re, rest).
Proof. intros [_ Ha] Hr. apply span_app; [exact Ha|]. destruct rest; [exact I | exact Hr]. Qed.

Lemma drop_blanks_blanks k rest : (match rest with c :: _ => c <> c_space | [] => True end) -> drop_blanks (blanks k ++ rest) = rest.
Proof.
  intros H. induction k as [|k IH]; cbn [blanks repeat app].
  - destruct rest as [|c rest]; [reflexivity|]. cbn [drop_blanks]. apply N.eqb_neq in H. rewrite H. reflexivity.
  - cbn [drop_blanks]. rewrite N.eqb_refl. exact IH.
Qed.

Lemma drop_blanks_spec s : exists k, s = blanks k ++ drop_blanks s /\ (match drop_blanks s with c :: _ => c <> c_space | [] => True end).
Proof.
  induction s as [|c s IH]; [exists 0; split; [reflexivity | exact I]|]. cbn [drop_blanks]. destruct (N.eqb c c_space) eqn:E.
  - apply N.eqb_eq in E. subst c. destruct IH as (k & E1 & E2). exists (S k). split; [cbn; f_equal; exact E1 | exact E2].
  - exists 0. split; [reflexivity|]. apply N.eqb_neq in E. exact E.
Qed.

Lemma ident_first_not id c : is_ident id -> in_cls c ident_cls = false -> match id with x :: _ => x <> c | [] => True end.
Proof.
  intros [_ Ha] Hc. destruct id as [|x id]; [exact I|]. unfold all_in in Ha. cbn [forallb] in Ha. apply andb_prop in Ha as [Hx _].
  intros ->. congruence.
Qed.

(* ---------------- completeness ---------------- *)
Definition ends_param (rest : str) : Prop := exists rest', rest = c_comma :: rest' \/ rest = c_rbrace :: rest'.

Lemma bnf_param_complete p rest : wf_param (erase_param p) -> ends_param rest ->
  bnf_param (unparse_param_core p ++ rest) = Some (erase_param p, rest).
Proof.
  intros [Wn Wv] (rest' & E). unfold unparse_param_core, erase_param in *. cbn [fst snd] in *.
  assert (NS : not_start ident_cls rest) by (destruct E as [-> | ->]; reflexivity).
  unfold bnf_param. rewrite <- !app_assoc. rewrite (span_ident (sp_name p)); [|exact Wn | reflexivity].
  destruct (sp_name p) as [|n0 nm] eqn:En; [destruct Wn; congruence|]. cbn [app]. rewrite N.eqb_refl.
  destruct (sp_val p) as [v|re]; cbn [render_pval wf_pval] in *.
  - rewrite drop_blanks_blanks by (destruct v as [|x v']; [destruct Wv; congruence | cbn; apply (ident_first_not (x :: v') c_space Wv); reflexivity]).
    destruct v as [|x v']; [destruct Wv; congruence|]. cbn [app].
    assert (Hx : N.eqb x c_slash = false) by (apply N.eqb_neq; apply (ident_first_not (x :: v') c_slash Wv); reflexivity).
    rewrite Hx. change (x :: v' ++ rest) with ((x :: v') ++ rest). rewrite (span_ident (x :: v') rest Wv NS). reflexivity.
  - cbn [app]. rewrite drop_blanks_blanks by discriminate. rewrite N.eqb_refl. rewrite <- app_assoc.
    rewrite (span_regex re); [|exact Wv | reflexivity]. destruct re as [|r0 re']; [destruct Wv; congruence|]. cbn [app]. rewrite N.eqb_refl. reflexivity.
Qed.

Lemma bnf_params_complete : forall ps p rest fuel, Forall wf_param (map erase_param (p :: ps)) -> length ps < fuel ->
  bnf_params fuel (unparse_param_core p ++ unparse_more ps ++ c_rbrace :: rest) = Some (map erase_param (p :: ps), rest).
Proof.
  induction ps as [|q ps IH]; intros p rest fuel W F; (destruct fuel as [|fuel]; [lia|]); inversion W as [|? ? Wp Wps]; subst; cbn [bnf_params unparse_more app map].
  - rewrite bnf_param_complete; [|exact Wp | exists rest; right; reflexivity]. rewrite N.eqb_refl. reflexivity.
  - rewrite bnf_param_complete; [|exact Wp | eexists; left; reflexivity].
    change (N.eqb c_comma c_rbrace) with false. cbv iota. rewrite N.eqb_refl. rewrite <- !app_assoc.
    inversion Wps as [|? ? Wq _]; subst.
    rewrite drop_blanks_blanks.
    + rewrite IH; [reflexivity | exact Wps | cbn in F; lia].
    + unfold unparse_param_core. destruct (sp_name q) as [|x nm] eqn:En; [destruct Wq as [[X _] _]; cbn in X; congruence|].
      cbn [app]. assert (Wi : is_ident (x :: nm)) by (rewrite <- En; exact (proj1 Wq)). apply (ident_first_not (x :: nm) c_space Wi). reflexivity.
Qed.

Lemma unparse_more_length ps : length ps <= length (unparse_more ps).
Proof. induction ps as [|p ps IH]; [cbn; lia|]. cbn [unparse_more length app]. rewrite !app_length. lia. Qed.

Definition stops (rest : str) : Prop := match rest with [] => True | c :: _ => c = c_slash end.

Lemma bnf_elems_complete : forall es fuel rest, Forall wf_elem (map erase_elem es) -> no_adjacent_idents (map erase_elem es) ->
  stops rest -> length es < fuel ->
  bnf_elems fuel (unparse_elems es ++ rest) = Some (map erase_elem es, rest).
Proof.
  induction es as [|e es IH]; intros fuel rest W NA R F; (destruct fuel as [|fuel]; [lia|]).
  - unfold unparse_elems. cbn [map concat app bnf_elems]. destruct rest as [|c rest']; [reflexivity|]. cbn in R. subst c. rewrite N.eqb_refl. reflexivity.
  - cbn [map] in W, NA. inversion W as [|? ? We Wes]; subst. unfold unparse_elems. cbn [map concat]. fold (unparse_elems es). rewrite <- app_assoc.
    assert (IHs : bnf_elems fuel (unparse_elems es ++ rest) = Some (map erase_elem es, rest)).
    { apply IH; auto; [eapply no_adjacent_tail; exact NA | cbn in F; lia]. }
    destruct e as [s|b|ps]; cbn [unparse_elem erase_elem wf_elem] in *.
    + (* a literal *)
      destruct s as [|x s']; [destruct We; congruence|]. cbn [app bnf_elems].
      assert (H1 : N.eqb x c_slash = false) by (apply N.eqb_neq; apply (ident_first_not (x :: s') c_slash We); reflexivity).
      assert (H2 : N.eqb x c_lbrace = false) by (apply N.eqb_neq; apply (ident_first_not (x :: s') c_lbrace We); reflexivity).
      rewrite H1, H2. change (x :: s' ++ unparse_elems es ++ rest) with ((x :: s') ++ unparse_elems es ++ rest).
      rewrite (span_ident (x :: s')); [rewrite IHs; reflexivity | exact We |].
      destruct es as [|e2 es2]; [cbn; destruct rest; [exact I | cbn in R; subst; reflexivity]|].
      destruct e2; cbn in NA |- *; [destruct NA | reflexivity | reflexivity].
    + cbn [app bnf_elems]. change (N.eqb c_lbrace c_slash) with false. cbv iota. rewrite N.eqb_refl. rewrite <- app_assoc.
      rewrite (span_ident b); [|exact We | reflexivity]. cbn [app]. destruct b as [|x b']; [destruct We; congruence|].
      cbn [negb andb]. rewrite N.eqb_refl. rewrite IHs. reflexivity.
    + destruct We as [Hne Wps]. destruct ps as [|p ps]; [cbn in Hne; congruence|].
      cbn [app bnf_elems]. change (N.eqb c_lbrace c_slash) with false. cbv iota. rewrite N.eqb_refl. cbn [unparse_params]. rewrite <- !app_assoc.
      set (tail := unparse_more ps ++ [c_rbrace] ++ unparse_elems es ++ rest).
      cbn [map] in Wps. inversion Wps as [|? ? Wp _]; subst.
      unfold unparse_param_core at 1. rewrite <- !app_assoc. rewrite (span_ident (sp_name p)); [|exact (proj1 Wp) | reflexivity].
      cbn [app]. change (N.eqb c_colon c_rbrace) with false. rewrite andb_false_r.
      unfold tail. change ([c_rbrace] ++ unparse_elems es ++ rest) with (c_rbrace :: (unparse_elems es ++ rest)).
      rewrite bnf_params_complete; [rewrite IHs; reflexivity | exact Wps |].
      pose proof (unparse_more_length ps) as X. rewrite !app_length. cbn [length]. lia.
Qed.

Lemma unparse_elems_length es : Forall wf_elem (map erase_elem es) -> length es <= length (unparse_elems es).
Proof.
  induction es as [|e es IH]; intros W; [cbn; lia|]. cbn [map] in W. inversion W as [|? ? We Wes]; subst.
  unfold unparse_elems. cbn [map concat length]. rewrite app_length. fold (unparse_elems es). specialize (IH Wes).
  destruct e as [s|b|ps]; cbn [unparse_elem erase_elem wf_elem] in *.
  - destruct s; [destruct We; congruence | cbn [length]; lia].
  - cbn [app length]. lia.
  - cbn [app length]. lia.
Qed.

Lemma unparse_starts_slash s r : exists rest, unparse (s :: r) = c_slash :: rest.
Proof. unfold unparse. cbn [map concat]. unfold unparse_seg. cbn [app]. eauto. Qed.

Lemma unparse_length r : length r <= length (unparse r).
Proof.
  induction r as [|s r IH]; [cbn; lia|]. unfold unparse in *. cbn [map concat length]. rewrite app_length.
  set (X := concat (map unparse_seg r)) in *. unfold unparse_seg. cbn [app length]. lia.
Qed.

Lemma bnf_segments_complete : forall r fuel, r <> [] -> Forall wf_segment (erase r) -> length r < fuel ->
  bnf_segments fuel (unparse r) = Some (erase r).
Proof.
  induction r as [|s r IH]; intros fuel Hne W F; [congruence|]. destruct fuel as [|fuel]; [lia|].
  cbn [erase map] in W. inversion W as [|? ? [We NA] Wr]; subst. cbn [erase_seg elems] in We, NA.
  unfold unparse. cbn [map concat]. fold (unparse r). unfold unparse_seg. cbn [app bnf_segments]. rewrite N.eqb_refl.
  assert (ST : stops (unparse r)) by (destruct r as [|s2 r2]; [exact I | destruct (unparse_starts_slash s2 r2) as [x ->]; reflexivity]).
  assert (EL : forall f, length (s_elems s) < f -> bnf_elems f (unparse_elems (s_elems s) ++ unparse r) = Some (map erase_elem (s_elems s), unparse r))
    by (intros f Hf; apply bnf_elems_complete; assumption).
  assert (NQ : s_opt s = false -> match unparse_elems (s_elems s) ++ unparse r with q :: _ => N.eqb q c_qmark = false | [] => True end).
  { intros _. destruct (s_elems s) as [|e es].
    - cbn [unparse_elems map concat app]. destruct (unparse r) as [|c x] eqn:E; [exact I|]. cbn in ST. subst c. reflexivity.
    - inversion We as [|? ? We1 _]; subst. unfold unparse_elems. cbn [map concat].
      destruct e as [x|b|ps]; cbn [unparse_elem erase_elem wf_elem app] in *; try reflexivity.
      destruct x as [|c x']; [destruct We1; congruence|]. cbn [app]. apply N.eqb_neq. apply (ident_first_not (c :: x') c_qmark We1). reflexivity. }
  set (rest1 := unparse_elems (s_elems s) ++ unparse r) in *.
  assert (FIN : match bnf_elems (S (length rest1)) rest1 with
                | Some (es, []) => Some [mkseg (s_opt s) es]
                | Some (es, r0) => match bnf_segments fuel r0 with Some ss => Some (mkseg (s_opt s) es :: ss) | None => None end
                | None => None
                end = Some (erase_seg s :: erase r)).
  { rewrite EL by (subst rest1; rewrite app_length; pose proof (unparse_elems_length (s_elems s) We); lia).
    destruct r as [|s2 r2].
    - cbn [unparse map concat erase]. reflexivity.
    - destruct (unparse_starts_slash s2 r2) as [x Ex]. rewrite Ex. rewrite <- Ex.
      rewrite IH; [reflexivity | discriminate | exact Wr | cbn [length] in *; lia]. }
  destruct (s_opt s) eqn:O; cbn [app].
  - rewrite N.eqb_refl. exact FIN.
  - specialize (NQ eq_refl).
    assert (PR : (match rest1 with
                  | q :: rest' => if N.eqb q c_qmark then (true, rest') else (false, rest1)
                  | [] => (false, rest1)
                  end) = (false, rest1)).
    { clearbody rest1. destruct rest1 as [|q rest']; [reflexivity|]. rewrite NQ. reflexivity. }
    fold rest1. rewrite PR. exact FIN.
Qed.

Theorem bnf_complete sr : wf_route (erase sr) -> bnf_parse (unparse sr) = Some (erase sr).
Proof.
  intros [Hne W]. unfold bnf_parse. apply bnf_segments_complete; [intros ->; apply Hne; reflexivity | exact W |].
  pose proof (unparse_length sr). lia.
Qed.

(* ---------------- soundness ---------------- *)
Lemma span_ident_inv s a b : span is_char s = (a, b) -> a <> [] -> is_ident a /\ s = a ++ b /\ not_start ident_cls b.
Proof.
  intros H Hne. destruct (span_spec _ _ _ _ H) as (E & A & B). split; [split; [exact Hne | exact A]|]. split; [exact E|].
  destruct b; [exact I | exact B].
Qed.

Lemma bnf_param_sound s n v rest : bnf_param s = Some ((n, v), rest) ->
  exists k, is_ident n /\ wf_pval v /\ s = unparse_param_core (mksp n v k 0) ++ rest /\
            (match v with VLit _ => not_start ident_cls rest | VRegex _ => True end).
Proof.
  unfold bnf_param. destruct (span is_char s) as [name rest0] eqn:S1. destruct name as [|n0 nm]; [discriminate|].
  destruct (span_ident_inv _ _ _ S1 ltac:(discriminate)) as (In & -> & _).
  destruct rest0 as [|c rest1]; [discriminate|]. destruct (N.eqb c c_colon) eqn:Ec; [|discriminate]. apply N.eqb_eq in Ec. subst c.
  destruct (drop_blanks_spec rest1) as (k & Eb & Nb). destruct (drop_blanks rest1) as [|c2 rest3] eqn:D; [discriminate|].
  destruct (N.eqb c2 c_slash) eqn:E2.
  - apply N.eqb_eq in E2. subst c2. destruct (span is_any rest3) as [re r4] eqn:S2. destruct re as [|r0 re']; [discriminate|].
    destruct r4 as [|c3 rest4]; [discriminate|]. destruct (N.eqb c3 c_slash) eqn:E3; [|discriminate]. apply N.eqb_eq in E3. subst c3.
    intros H; inversion H; subst n v rest. destruct (span_spec _ _ _ _ S2) as (E & A & _).
    exists k. split; [exact In|]. split; [split; [discriminate | exact A]|]. split; [|exact I].
    unfold unparse_param_core. cbn [sp_name sp_val sp_colon render_pval]. rewrite Eb, E. rewrite <- !app_assoc. reflexivity.
  - destruct (span is_char (c2 :: rest3)) as [v0 r4] eqn:S2. destruct v0 as [|v1 v']; [discriminate|].
    intros H; inversion H; subst n v rest. destruct (span_ident_inv _ _ _ S2 ltac:(discriminate)) as (Iv & E & Ns).
    exists k. split; [exact In|]. split; [exact Iv|]. split; [|exact Ns].
    unfold unparse_param_core. cbn [sp_name sp_val sp_colon render_pval]. rewrite Eb, E. rewrite <- !app_assoc. reflexivity.
Qed.

Lemma bnf_params_sound : forall fuel s ps rest, bnf_params fuel s = Some (ps, rest) ->
  exists sp sps, map erase_param (sp :: sps) = ps /\ Forall wf_param ps /\
                 s = unparse_param_core sp ++ unparse_more sps ++ c_rbrace :: rest.
Proof.
  induction fuel as [|fuel IH]; intros s ps rest H; [discriminate|]. cbn [bnf_params] in H.
  destruct (bnf_param s) as [[[n v] r0]|] eqn:P; [|discriminate]. destruct (bnf_param_sound _ _ _ _ P) as (k & In & Wv & -> & _).
  destruct r0 as [|c r1]; [discriminate|]. destruct (N.eqb c c_rbrace) eqn:E1.
  - apply N.eqb_eq in E1. subst c. inversion H; subst. exists (mksp n v k 0), []. split; [reflexivity|].
    split; [constructor; [split; assumption | constructor] | reflexivity].
  - destruct (N.eqb c c_comma) eqn:E2; [|discriminate]. apply N.eqb_eq in E2. subst c.
    destruct (bnf_params fuel (drop_blanks r1)) as [[ps1 r2]|] eqn:R; [|discriminate]. inversion H; subst ps rest.
    destruct (IH _ _ _ R) as (sp & sps & Es & Ws & E). destruct (drop_blanks_spec r1) as (kc & Eb & _).
    exists (mksp n v k 0), (mksp (sp_name sp) (sp_val sp) (sp_colon sp) kc :: sps).
    split; [cbn [map] in *; rewrite <- Es; reflexivity|]. split; [constructor; [split; assumption | exact Ws]|].
    cbn [unparse_more]. rewrite Eb, E. unfold unparse_param_core. cbn [sp_name sp_val sp_colon sp_comma]. rewrite <- !app_assoc. reflexivity.
Qed.

Lemma bnf_elems_sound : forall fuel s es rest, bnf_elems fuel s = Some (es, rest) ->
  exists ses, map erase_elem ses = es /\ Forall wf_elem es /\ no_adjacent_idents es /\ s = unparse_elems ses ++ rest /\ stops rest /\
              (match es with EIdent _ :: _ => True | _ => not_start ident_cls s end).
Proof.
  induction fuel as [|fuel IH]; intros s es rest H; [discriminate|]. cbn [bnf_elems] in H.
  destruct s as [|c s0]; [inversion H; subst; exists []; repeat split; auto; constructor|].
  destruct (N.eqb c c_slash) eqn:E1.
  - apply N.eqb_eq in E1. subst c. inversion H; subst. exists []. repeat split; auto; constructor.
  - destruct (N.eqb c c_lbrace) eqn:E2.
    + apply N.eqb_eq in E2. subst c. destruct (span is_char s0) as [name r0] eqn:S1. destruct r0 as [|c2 rest2]; [discriminate|].
      destruct (negb (match name with [] => true | _ => false end) && N.eqb c2 c_rbrace) eqn:B.
      * apply andb_prop in B as [B1 B2]. apply N.eqb_eq in B2. subst c2. destruct name as [|n0 nm]; [discriminate|].
        destruct (bnf_elems fuel rest2) as [[es1 r1]|] eqn:R; [|discriminate]. inversion H; subst es rest.
        destruct (IH _ _ _ R) as (ses & Es & Ws & NA & E & St & _). destruct (span_ident_inv _ _ _ S1 ltac:(discriminate)) as (In & E0 & _).
        exists (SBind (n0 :: nm) :: ses). split; [cbn; rewrite Es; reflexivity|]. split; [constructor; assumption|].
        split; [exact NA|]. split; [|split; [exact St | reflexivity]].
        unfold unparse_elems. cbn [map concat unparse_elem]. fold (unparse_elems ses). rewrite E0, E. rewrite <- !app_assoc. reflexivity.
      * destruct (bnf_params (length s0) s0) as [[ps r0]|] eqn:P; [|discriminate].
        destruct (bnf_elems fuel r0) as [[es1 r1]|] eqn:R; [|discriminate]. inversion H; subst es rest.
        destruct (bnf_params_sound _ _ _ _ P) as (sp & sps & Eps & Wps & E0). destruct (IH _ _ _ R) as (ses & Es & Ws & NA & E & St & _).
        exists (SParams (sp :: sps) :: ses). split; [change (map erase_elem (SParams (sp :: sps) :: ses)) with (EParams (map erase_param (sp :: sps)) :: map erase_elem ses); rewrite Eps, Es; reflexivity|].
        split; [constructor; [split; [rewrite <- Eps; discriminate | exact Wps] | exact Ws]|].
        split; [exact NA|]. split; [|split; [exact St | reflexivity]].
        unfold unparse_elems. cbn [map concat unparse_elem unparse_params]. fold (unparse_elems ses). rewrite E0, E. rewrite <- !app_assoc. reflexivity.
    + destruct (span is_char (c :: s0)) as [id r0] eqn:S1. destruct id as [|i0 id']; [discriminate|].
      destruct (bnf_elems fuel r0) as [[es1 r1]|] eqn:R; [|discriminate]. inversion H; subst es rest.
      destruct (span_ident_inv _ _ _ S1 ltac:(discriminate)) as (In & E0 & Ns). destruct (IH _ _ _ R) as (ses & Es & Ws & NA & E & St & Fst).
      exists (SIdent (i0 :: id') :: ses). split; [cbn; rewrite Es; reflexivity|]. split; [constructor; assumption|].
      split; [|split; [|split; [exact St | exact I]]].
      * destruct es1 as [|[y| |] es2]; try exact NA. cbn [no_adjacent_idents]. (* the next literal would have been part of this one *)
        destruct ses as [|[y'| |] ses2]; try discriminate. cbn [map erase_elem] in Es. inversion Es; subst y'.
        rewrite E in Ns. unfold unparse_elems in Ns. cbn [map concat unparse_elem] in Ns. inversion Ws as [|? ? Wy _]; subst. cbn in Wy.
        destruct y as [|c0 y']; [destruct Wy; congruence|]. cbn [app] in Ns. unfold not_start in Ns. destruct Wy as [_ Ha]. unfold all_in in Ha. cbn [forallb] in Ha.
        rewrite Ns in Ha. discriminate.
      * unfold unparse_elems. cbn [map concat unparse_elem]. fold (unparse_elems ses). rewrite E0, E. rewrite <- app_assoc. reflexivity.
Qed.

Lemma bnf_segments_sound : forall fuel s ss, bnf_segments fuel s = Some ss ->
  ss <> [] /\ exists sr, erase sr = ss /\ Forall wf_segment ss /\ unparse sr = s.
Proof.
  induction fuel as [|fuel IH]; intros s ss H; [discriminate|]. cbn [bnf_segments] in H.
  destruct s as [|c rest]; [discriminate|]. destruct (N.eqb c c_slash) eqn:E1; [|discriminate]. apply N.eqb_eq in E1. subst c.
  set (pr := match rest with q :: rest' => if N.eqb q c_qmark then (true, rest') else (false, rest) | [] => (false, rest) end) in H.
  assert (PR : exists opt rest1, pr = (opt, rest1) /\ rest = (if opt then [c_qmark] else []) ++ rest1).
  { unfold pr. destruct rest as [|q rest']; [exists false, []; auto|]. destruct (N.eqb q c_qmark) eqn:Eq.
    - apply N.eqb_eq in Eq. subst q. exists true, rest'. auto.
    - exists false, (q :: rest'). auto. }
  destruct PR as (opt & rest1 & Epr & Er). rewrite Epr in H.
  destruct (bnf_elems (S (length rest1)) rest1) as [[es r0]|] eqn:BE; [|discriminate].
  destruct (bnf_elems_sound _ _ _ _ BE) as (ses & Es & Ws & NA & E & St & _).
  assert (SEG : wf_segment (mkseg opt es)) by (split; assumption).
  destruct r0 as [|c0 r1].
  - inversion H; subst ss. split; [discriminate|]. exists [mksseg opt ses]. split; [cbn; unfold erase_seg; cbn; rewrite Es; reflexivity|].
    split; [constructor; [exact SEG | constructor]|]. unfold unparse. cbn [map concat]. unfold unparse_seg. cbn [s_opt s_elems].
    rewrite app_nil_r. rewrite Er, E. rewrite app_nil_r. reflexivity.
  - destruct (bnf_segments fuel (c0 :: r1)) as [ss1|] eqn:BS; [|discriminate]. inversion H; subst ss.
    destruct (IH _ _ BS) as (_ & sr & Esr & Wsr & Usr). split; [discriminate|]. exists (mksseg opt ses :: sr).
    split; [cbn [erase map]; unfold erase_seg at 1; cbn [s_opt s_elems]; rewrite Es; fold (erase sr); rewrite Esr; reflexivity|].
    split; [constructor; assumption|]. unfold unparse. cbn [map concat]. fold (unparse sr). unfold unparse_seg. cbn [s_opt s_elems].
    rewrite Usr, Er, E. rewrite <- !app_assoc. reflexivity.
Qed.

Theorem bnf_sound s r : bnf_parse s = Some r -> wf_route r /\ exists sr, erase sr = r /\ unparse sr = s.
Proof.
  unfold bnf_parse. intros H. destruct (bnf_segments_sound _ _ _ H) as (Hne & sr & E & W & U).
  split; [split; assumption|]. eauto.
Qed.

(* the two readings of the grammar agree on every byte string *)
Theorem parse_is_bnf s : parse s = bnf_parse s.
Proof.
  destruct (parse s) as [r|] eqn:P.
  - destruct (parse_sound s r P) as (W & sr & <- & <-). symmetry. apply bnf_complete. exact W.
  - destruct (bnf_parse s) as [r|] eqn:B; [|reflexivity]. destruct (bnf_sound s r B) as (W & sr & <- & <-).
    rewrite (parse_complete sr W) in P. discriminate.
Qed.
