(* Model of the registration front-end of router.go: Route / Get (AutoHead) / Routes / Any / Group /
   Combo, with the explicit group stack of the code, and the flat expansion it should equal (C11). *)
Require Import Base.

(* one step on a ComboRoute held in a variable: a method registration, or an AutoHead toggle on the router
   between two of them (the setting is read when .Get registers, not when Combo creates the value) *)
Inductive cuse := CUse (m : str) (hs : list nat) | CAuto (b : bool).

Inductive stmt :=
| SRoute (method : str) (path : str) (hs : list nat) (hdr : bool)
| SGet (path : str) (hs : list nat) (hdr : bool)          (* honours AutoHead *)
| SRoutes (path : str) (methods : str) (extra : list str) (hs : list nat) (hdr : bool)
| SAny (path : str) (hs : list nat) (hdr : bool)
| SGroup (path : str) (hs : list nat) (body : list stmt)
| SCombo (path : str) (common : list nat) (uses : list cuse)
| SAutoHead (b : bool)
| SWrapper (b : bool)
| SComboNew (id : nat) (path : str) (common : list nat)   (* c := r.Combo(path, common...) kept in a variable *)
| SComboUse (id : nat) (m : str) (hs : list nat).          (* c.<Method>(hs...) later, possibly in another scope *)        (* HandlerWrapper(f) / HandlerWrapper(nil) between two declarations *)

(* hdr: the statement is followed by .Headers(...) on the *Route it returns (Get: the GET route, not its
   HEAD twin; Routes: the route of the LAST method only; Any: the one route holding every method) *)

(* a primitive registration: router.Route(method, fullPath, handlers), and whether .Headers(...) is then
   called on the *Route it returned *)
(* fr_wr: a HandlerWrapper is installed at the moment router.Route runs for this registration *)
Record freg := mkfreg { fr_method : str; fr_path : str; fr_hs : list nat; fr_hdr : bool; fr_wr : bool }.

(* Routes returns the *Route of the last method it registered *)
Fixpoint mark_last (hdr : bool) (l : list freg) : list freg :=
  match l with
  | [] => []
  | [r] => [mkfreg (fr_method r) (fr_path r) (fr_hs r) hdr (fr_wr r)]
  | r :: l' => r :: mark_last hdr l'
  end.

Definition m_get : str := [71;69;84]%N.
Definition m_head : str := [72;69;65;68]%N.
Definition m_star : str := [42]%N.

(* strings.Split(methods, ",") with strings.TrimSpace on each piece *)
Definition is_space (c : N) : bool := N.eqb c 32 || N.eqb c 9 || N.eqb c 10 || N.eqb c 13 || N.eqb c 11 || N.eqb c 12.
Fixpoint ltrim (s : str) : str := match s with c :: s' => if is_space c then ltrim s' else s | [] => [] end.
Definition trim (s : str) : str := rev (ltrim (rev (ltrim s))).
Fixpoint split_comma (cur : str) (s : str) : list str :=
  match s with
  | [] => [rev cur]
  | c :: s' => if N.eqb c 44 then rev cur :: split_comma [] s' else split_comma (c :: cur) s'
  end.
Definition methods_of (methods : str) (extra : list str) : list str :=
  map trim (split_comma [] methods) ++ extra.

(* ---------------- the code: an explicit stack of living groups ---------------- *)
(* the two router settings that flow from one declaration to the next *)
(* f_cs: the ComboRoute values made so far: id -> (path, common handlers, methods already added) *)
Record flags := mkf { f_ah : bool; f_wr : bool; f_cs : list (nat * (str * list nat * list str)) }.
Definition set_ah (b : bool) (fs : flags) : flags := mkf b (f_wr fs) (f_cs fs).
Definition set_wr (b : bool) (fs : flags) : flags := mkf (f_ah fs) b (f_cs fs).
Fixpoint find_combo (id : nat) (cs : list (nat * (str * list nat * list str))) : option (str * list nat * list str) :=
  match cs with [] => None | (i, c) :: cs' => if Nat.eqb i id then Some c else find_combo id cs' end.
Definition add_combo (id : nat) (c : str * list nat * list str) (fs : flags) : flags := mkf (f_ah fs) (f_wr fs) ((id, c) :: f_cs fs).
Record gst := mkg { fl : flags; groups : list (str * list nat) (* outermost first *) }.
Definition autohead (g : gst) : bool := f_ah (fl g).

Definition route_in (g : gst) (m path : str) (hs : list nat) (hdr : bool) : freg :=
  mkfreg m (concat (map fst (groups g)) ++ path) (concat (map snd (groups g)) ++ hs) hdr (f_wr (fl g)).

(* Get returns the GET route; the HEAD twin is registered by a separate r.Head call whose result is dropped *)
Definition get_in (g : gst) (path : str) (hs : list nat) (hdr : bool) : list freg :=
  route_in g m_get path hs hdr :: (if autohead g then [route_in g m_head path hs false] else []).

(* ComboRoute.route: the same method twice is refused; the AutoHead setting current at each .Get counts *)
Fixpoint combo_in (g : gst) (path : str) (common : list nat) (added : list str) (uses : list cuse)
  : option (flags * list freg) :=
  match uses with
  | [] => Some (fl g, [])
  | CAuto b :: rest => combo_in (mkg (set_ah b (fl g)) (groups g)) path common added rest
  | CUse m hs :: rest =>
      if existsb (str_eqb m) added then None
      else match combo_in g path common (m :: added) rest with
           | None => None
           | Some (ah, l) => Some (ah, (if str_eqb m m_get then get_in g path (common ++ hs) false else [route_in g m path (common ++ hs) false]) ++ l)
           end
  end.

(* run a list of statements, threading the state and collecting the registrations *)
Section Seq.
Context {A : Type}.
Variable f : A -> stmt -> option (A * list freg).
Fixpoint seq_list (a : A) (l : list stmt) : option (A * list freg) :=
  match l with
  | [] => Some (a, [])
  | s :: l' => match f a s with
               | None => None
               | Some (a', r) => match seq_list a' l' with None => None | Some (a'', r') => Some (a'', r ++ r') end
               end
  end.
End Seq.

Fixpoint exec_stmt (fuel : nat) (g : gst) (s : stmt) {struct fuel} : option (gst * list freg) :=
  match fuel with
  | O => None
  | S f =>
    match s with
    | SRoute m path hs hdr => Some (g, [route_in g m path hs hdr])
    | SGet path hs hdr => Some (g, get_in g path hs hdr)
    | SRoutes path methods extra hs hdr =>
        match methods with
        | [] => None                                       (* empty methods *)
        | _ => Some (g, mark_last hdr (map (fun m => route_in g m path hs false) (methods_of methods extra)))
        end
    | SAny path hs hdr => Some (g, [route_in g m_star path hs hdr])
    | SGroup path hs body =>
        (* r.groups = append(r.groups, group{...}); fn(); r.groups = r.groups[:len-1] *)
        let g1 := mkg (fl g) (groups g ++ [(path, hs)]) in
        match seq_list (exec_stmt f) g1 body with
        | None => None
        | Some (g2, r) => Some (mkg (fl g2) (removelast (groups g2)), r)
        end
    | SCombo path common uses =>
        match combo_in g path common [] uses with Some (ah, l) => Some (mkg ah (groups g), l) | None => None end
    | SAutoHead b => Some (mkg (set_ah b (fl g)) (groups g), [])
    | SWrapper b => Some (mkg (set_wr b (fl g)) (groups g), [])
    | SComboNew id path common => Some (mkg (add_combo id (path, common, []) (fl g)) (groups g), [])
    | SComboUse id m hs =>
        (* the method call registers through the router as it is NOW: the groups living at the call, not at Combo() *)
        match find_combo id (f_cs (fl g)) with
        | None => None
        | Some (path, common, added) =>
            if existsb (str_eqb m) added then None
            else Some (mkg (add_combo id (path, common, m :: added) (fl g)) (groups g),
                       if str_eqb m m_get then get_in g path (common ++ hs) false else [route_in g m path (common ++ hs) false])
        end
    end
  end.

Definition exec_list (fuel : nat) (g : gst) (l : list stmt) : option (gst * list freg) := seq_list (exec_stmt fuel) g l.

(* nesting depth bounds the fuel *)
Fixpoint depth (s : stmt) : nat :=
  match s with
  | SGroup _ _ body => S (fold_right (fun s d => Nat.max (depth s) d) 0 body)
  | _ => 1
  end.
Definition depth_list (l : list stmt) : nat := fold_right (fun s d => Nat.max (depth s) d) 0 l.

(* w0: a HandlerWrapper is installed before the first declaration *)
Definition exec (w0 : bool) (p : list stmt) : option (list freg) :=
  match exec_list (S (depth_list p)) (mkg (mkf false w0 []) []) p with Some (_, r) => Some r | None => None end.

(* ---------------- the specification: flat expansion with the lexical prefix ---------------- *)
Definition reg_at (fs : flags) (pp : str) (ph : list nat) (m path : str) (hs : list nat) (hdr : bool) : freg :=
  mkfreg m (pp ++ path) (ph ++ hs) hdr (f_wr fs).

Definition get_at (ah : flags) (pp : str) (ph : list nat) (path : str) (hs : list nat) (hdr : bool) : list freg :=
  reg_at ah pp ph m_get path hs hdr :: (if f_ah ah then [reg_at ah pp ph m_head path hs false] else []).

Fixpoint combo_at (ah : flags) (pp : str) (ph : list nat) (path : str) (common : list nat) (added : list str)
  (uses : list cuse) : option (flags * list freg) :=
  match uses with
  | [] => Some (ah, [])
  | CAuto b :: rest => combo_at (set_ah b ah) pp ph path common added rest
  | CUse m hs :: rest =>
      if existsb (str_eqb m) added then None
      else match combo_at ah pp ph path common (m :: added) rest with
           | None => None
           | Some (ah', l) => Some (ah', (if str_eqb m m_get then get_at ah pp ph path (common ++ hs) false else [reg_at ah pp ph m path (common ++ hs) false]) ++ l)
           end
  end.

(* the AutoHead setting and the HandlerWrapper are the only things that flow from one statement to the next *)
Fixpoint flatten_stmt (ah : flags) (pp : str) (ph : list nat) (s : stmt) {struct s} : option (flags * list freg) :=
  match s with
  | SRoute m path hs hdr => Some (ah, [reg_at ah pp ph m path hs hdr])
  | SGet path hs hdr => Some (ah, get_at ah pp ph path hs hdr)
  | SRoutes path methods extra hs hdr =>
      match methods with
      | [] => None
      | _ => Some (ah, mark_last hdr (map (fun m => reg_at ah pp ph m path hs false) (methods_of methods extra)))
      end
  | SAny path hs hdr => Some (ah, [reg_at ah pp ph m_star path hs hdr])
  | SGroup path hs body =>
      seq_list (fun ah s => flatten_stmt ah (pp ++ path) (ph ++ hs) s) ah body
  | SCombo path common uses =>
      combo_at ah pp ph path common [] uses
  | SAutoHead b => Some (set_ah b ah, [])
  | SWrapper b => Some (set_wr b ah, [])
  | SComboNew id path common => Some (add_combo id (path, common, []) ah, [])
  | SComboUse id m hs =>
      match find_combo id (f_cs ah) with
      | None => None
      | Some (path, common, added) =>
          if existsb (str_eqb m) added then None
          else Some (add_combo id (path, common, m :: added) ah,
                     if str_eqb m m_get then get_at ah pp ph path (common ++ hs) false else [reg_at ah pp ph m path (common ++ hs) false])
      end
  end.

Definition flatten_list (ah : flags) (pp : str) (ph : list nat) (l : list stmt) : option (flags * list freg) :=
  seq_list (fun ah s => flatten_stmt ah pp ph s) ah l.

Definition flatten (w0 : bool) (p : list stmt) : option (list freg) :=
  match flatten_list (mkf false w0 []) [] [] p with Some (_, r) => Some r | None => None end.

(* ---------------- handlers at registration: validated and wrapped, all of them ---------------- *)
(* router.Route runs validateAndWrapHandlers over the CONCATENATED list (group handlers included).
   Handler id 0 stands for a value that is not a function (registration panics); with a HandlerWrapper
   installed every handler that has no fast invoker is wrapped exactly once: the wrapper's mark 0 runs
   before it. *)
Definition callable (r : freg) : bool := negb (existsb (Nat.eqb 0) (fr_hs r)).
Definition run_trace (r : freg) : list nat :=
  if fr_wr r then flat_map (fun h => [0; h]) (fr_hs r) else fr_hs r.
Definition checked (regs : option (list freg)) : option (list freg) :=
  match regs with Some l => if forallb callable l then Some l else None | None => None end.
