(* C11: the group stack of the code computes exactly the flat expansion. *)
Require Import Base Groups.

Definition gp (g : gst) : str := concat (map fst (groups g)).
Definition gh (g : gst) : list nat := concat (map snd (groups g)).

Lemma route_in_reg_at g m path hs hdr : route_in g m path hs hdr = reg_at (fl g) (gp g) (gh g) m path hs hdr.
Proof. reflexivity. Qed.

Lemma get_in_get_at g path hs hdr : get_in g path hs hdr = get_at (fl g) (gp g) (gh g) path hs hdr.
Proof. reflexivity. Qed.

Lemma combo_in_at path common : forall uses g added,
  combo_in g path common added uses = combo_at (fl g) (gp g) (gh g) path common added uses.
Proof.
  induction uses as [|[m hs|b] uses IH]; intros g added; cbn [combo_in combo_at]; [reflexivity| |].
  - destruct (existsb (str_eqb m) added); [reflexivity|]. rewrite IH. reflexivity.
  - rewrite IH. reflexivity.
Qed.

(* what the code does to the state: only AutoHead survives a statement, the stack is restored *)
Definition lift (g : gst) (o : option (flags * list freg)) : option (gst * list freg) :=
  match o with Some (ah, r) => Some (mkg ah (groups g), r) | None => None end.

Lemma removelast_snoc {A} (l : list A) x : removelast (l ++ [x]) = l.
Proof. apply removelast_last. Qed.

Lemma concat_map_snoc {A B} (f : A -> list B) l x : concat (map f (l ++ [x])) = concat (map f l) ++ f x.
Proof. rewrite map_app, concat_app. cbn. rewrite app_nil_r. reflexivity. Qed.

Lemma seq_list_ext {A} (f1 f2 : A -> stmt -> option (A * list freg)) l :
  Forall (fun s => forall a, f1 a s = f2 a s) l -> forall a, seq_list f1 a l = seq_list f2 a l.
Proof.
  induction 1 as [|s l Hs _ IH]; intros a; cbn; [reflexivity|]. rewrite Hs.
  destruct (f2 a s) as [[a' r]|]; [|reflexivity]. rewrite IH. reflexivity.
Qed.

(* relating a run with the stack to a run with the lexical prefix *)
Lemma seq_list_lift fuel pp ph (gs : list (str * list nat)) l :
  Forall (fun s => forall g, groups g = gs ->
            exec_stmt fuel g s = lift g (flatten_stmt (fl g) pp ph s)) l ->
  forall g, groups g = gs ->
    seq_list (exec_stmt fuel) g l = lift g (seq_list (fun ah s => flatten_stmt ah pp ph s) (fl g) l).
Proof.
  induction 1 as [|s l Hs _ IH]; intros g Hg; cbn [seq_list].
  - destruct g; reflexivity.
  - rewrite (Hs g Hg). destruct (flatten_stmt (fl g) pp ph s) as [[ah r]|]; cbn [lift]; [|reflexivity].
    rewrite (IH (mkg ah (groups g))) by exact Hg. cbn [fl groups].
    destruct (seq_list _ ah l) as [[ah' r']|]; reflexivity.
Qed.

Lemma depth_in_le s l : In s l -> depth s <= fold_right (fun s d => Nat.max (depth s) d) 0 l.
Proof. induction l as [|x l IH]; intros []; cbn; [subst; lia | specialize (IH H); lia]. Qed.

Section StmtInd.
Variable P : stmt -> Prop.
Hypothesis Hroute : forall m p hs hdr, P (SRoute m p hs hdr).
Hypothesis Hget : forall p hs hdr, P (SGet p hs hdr).
Hypothesis Hroutes : forall p ms ex hs hdr, P (SRoutes p ms ex hs hdr).
Hypothesis Hany : forall p hs hdr, P (SAny p hs hdr).
Hypothesis Hgroup : forall p hs body, Forall P body -> P (SGroup p hs body).
Hypothesis Hcombo : forall p c u, P (SCombo p c u).
Hypothesis Hah : forall b, P (SAutoHead b).
Hypothesis Hwr : forall b, P (SWrapper b).
Hypothesis Hcn : forall i p c, P (SComboNew i p c).
Hypothesis Hcu : forall i m hs, P (SComboUse i m hs).
Fixpoint stmt_ind2 (s : stmt) : P s :=
  match s with
  | SRoute m p hs hdr => Hroute m p hs hdr
  | SGet p hs hdr => Hget p hs hdr
  | SRoutes p ms ex hs hdr => Hroutes p ms ex hs hdr
  | SAny p hs hdr => Hany p hs hdr
  | SGroup p hs body =>
      Hgroup p hs body ((fix f (l : list stmt) : Forall P l :=
                           match l with [] => Forall_nil _ | x :: l' => Forall_cons x (stmt_ind2 x) (f l') end) body)
  | SCombo p c u => Hcombo p c u
  | SAutoHead b => Hah b
  | SWrapper b => Hwr b
  | SComboNew i p c => Hcn i p c
  | SComboUse i m hs => Hcu i m hs
  end.
End StmtInd.

Theorem exec_stmt_flat : forall s fuel g, depth s <= fuel ->
  exec_stmt fuel g s = lift g (flatten_stmt (fl g) (gp g) (gh g) s).
Proof.
  induction s as [m p hs hdr|p hs hdr|p ms ex hs hdr|p hs hdr|p hs body IH|p c u|b|b|i p c|i m hs] using stmt_ind2; intros fuel g Hd;
    (destruct fuel as [|f]; [cbn in Hd; lia|]); cbn [exec_stmt flatten_stmt lift].
  - destruct g; reflexivity.
  - rewrite get_in_get_at. destruct g; reflexivity.
  - destruct ms; [reflexivity|]. destruct g; reflexivity.
  - destruct g; reflexivity.
  - (* Group *)
    set (g1 := mkg (fl g) (groups g ++ [(p, hs)])).
    assert (E : seq_list (exec_stmt f) g1 body =
                lift g1 (seq_list (fun ah s => flatten_stmt ah (gp g ++ p) (gh g ++ hs) s) (fl g1) body)).
    { apply (seq_list_lift f _ _ (groups g1)); [|reflexivity].
      rewrite Forall_forall in IH. apply Forall_forall. intros s Hin g' Hg'.
      rewrite (IH s Hin f g').
      - assert (E1 : gp g' = gp g ++ p) by (unfold gp; rewrite Hg'; subst g1; cbn [groups]; apply (concat_map_snoc fst)).
        assert (E2 : gh g' = gh g ++ hs) by (unfold gh; rewrite Hg'; subst g1; cbn [groups]; apply (concat_map_snoc snd)).
        rewrite E1, E2. reflexivity.
      - cbn [depth] in Hd. pose proof (depth_in_le s body Hin). lia. }
    rewrite E. subst g1. cbn [fl].
    destruct (seq_list _ (fl g) body) as [[ah r]|]; cbn [lift]; [|reflexivity].
    cbn [fl groups]. rewrite removelast_snoc. reflexivity.
  - rewrite combo_in_at. destruct (combo_at _ _ _ _ _ _ _) as [[ah l]|]; reflexivity.
  - reflexivity.
  - reflexivity.
  - reflexivity.
  - destruct (find_combo i (f_cs (fl g))) as [[[p c] added]|]; [|reflexivity].
    destruct (existsb (str_eqb m) added); [reflexivity|]. rewrite get_in_get_at. reflexivity.
Qed.

(* the whole program: what the code registers is the flat expansion, in the same order *)
Theorem exec_is_flatten w0 p : exec w0 p = flatten w0 p.
Proof.
  unfold exec, flatten, exec_list, flatten_list.
  assert (F : Forall (fun s => forall g, groups g = [] ->
            exec_stmt (S (depth_list p)) g s = lift g (flatten_stmt (fl g) [] [] s)) p).
  { apply Forall_forall. intros s Hin g Hg. rewrite exec_stmt_flat.
    - unfold gp, gh. rewrite Hg. reflexivity.
    - pose proof (depth_in_le s p Hin). unfold depth_list. lia. }
  rewrite (seq_list_lift (S (depth_list p)) [] [] [] p F (mkg (mkf false w0 []) []) eq_refl).
  cbn [fl]. destruct (seq_list _ (mkf false w0 []) p) as [[ah r]|]; reflexivity.
Qed.

(* leaving a group restores the enclosing scope: a statement never changes the stack *)
Theorem stmt_restores_stack s fuel g g' r : depth s <= fuel -> exec_stmt fuel g s = Some (g', r) -> groups g' = groups g.
Proof.
  intros Hd H. rewrite exec_stmt_flat in H by exact Hd.
  destruct (flatten_stmt _ _ _ s) as [[ah r']|]; cbn in H; [|discriminate]. inversion H; reflexivity.
Qed.

(* ---- Headers on the returned *Route, and handler validation/wrapping ---- *)
Lemma mark_last_snoc hdr l r :
  mark_last hdr (l ++ [r]) = l ++ [mkfreg (fr_method r) (fr_path r) (fr_hs r) hdr (fr_wr r)].
Proof.
  induction l as [|x l IH]; [reflexivity|].
  destruct l as [|y l']; [reflexivity|].
  change (mark_last hdr ((x :: y :: l') ++ [r])) with (x :: mark_last hdr ((y :: l') ++ [r])).
  rewrite IH. reflexivity.
Qed.

Lemma mark_last_same l : Forall (fun r => fr_hdr r = false) l -> mark_last false l = l.
Proof.
  induction 1 as [|x l Hx _ IH]; [reflexivity|].
  destruct l as [|y l']; [destruct x; cbn in *; subst; reflexivity|].
  change (mark_last false (x :: y :: l')) with (x :: mark_last false (y :: l')). rewrite IH. reflexivity.
Qed.

Definition wrap_list (wrap : bool) (hs : list nat) : list nat := if wrap then flat_map (fun h => [0; h]) hs else hs.

Lemma run_trace_reg_at fs pp ph m path hs hdr :
  run_trace (reg_at fs pp ph m path hs hdr) = wrap_list (f_wr fs) ph ++ wrap_list (f_wr fs) hs.
Proof. unfold run_trace, wrap_list, reg_at; cbn. destruct (f_wr fs); [apply flat_map_app|reflexivity]. Qed.

Lemma callable_reg_at fs pp ph m path hs hdr :
  callable (reg_at fs pp ph m path hs hdr) = forallb (fun h => negb (Nat.eqb 0 h)) ph && forallb (fun h => negb (Nat.eqb 0 h)) hs.
Proof.
  unfold callable, reg_at; cbn. rewrite existsb_app, negb_orb.
  assert (E : forall l, negb (existsb (Nat.eqb 0) l) = forallb (fun h => negb (Nat.eqb 0 h)) l).
  { induction l as [|x l IH]; [reflexivity|]. cbn [existsb forallb]. rewrite negb_orb, IH. reflexivity. }
  rewrite !E. reflexivity.
Qed.

Lemma checked_exec_flatten w0 p : checked (exec w0 p) = checked (flatten w0 p).
Proof. rewrite exec_is_flatten. reflexivity. Qed.
