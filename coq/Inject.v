(* Model of inject/inject.go: type-indexed scopes with a parent chain, Value / Invoke / Apply (C04). *)
Require Import Base.

Section Inject.
(* the type universe is a parameter: types are numbered; reflect supplies the two predicates *)
Variable is_iface : nat -> bool.                 (* t.Kind() == reflect.Interface *)
Variable implements : nat -> nat -> bool.        (* k.Implements(t), t an interface *)

Definition scope := list (nat * nat).            (* (type, value) registrations, oldest first *)

(* inj.values[t]: a later registration for the same type replaces the earlier *)
Fixpoint lookup (s : scope) (t : nat) : option nat :=
  match s with
  | [] => None
  | (k, v) :: s' => match lookup s' t with Some w => Some w | None => if Nat.eqb k t then Some v else None end
  end.

(* the map's current entries: for every key its last value *)
Fixpoint entries (s : scope) : list (nat * nat) :=
  match s with
  | [] => []
  | (k, v) :: s' => if existsb (fun e => Nat.eqb (fst e) k) s' then entries s' else (k, v) :: entries s'
  end.

(* values registered in this scope under a type implementing interface t (Go picks any of them) *)
Definition implementors (s : scope) (t : nat) : list nat :=
  map snd (filter (fun e => implements (fst e) t) (entries s)).

(* Injector.Value over the chain of scopes, nearest first: the set of admissible answers *)
Fixpoint value (scopes : list scope) (t : nat) : list nat :=
  match scopes with
  | [] => []
  | s :: parents =>
      match lookup s t with
      | Some v => [v]
      | None =>
          if is_iface t then
            match implementors s t with
            | [] => value parents t
            | vs => vs
            end
          else value parents t
      end
  end.

(* Map / MapTo / Set all come down to values[key] = v *)
Definition register (s : scope) (k v : nat) : scope := s ++ [(k, v)].

(* Invoke: resolve the parameters in order; the first unresolvable one is reported and the body does
   not run.  The result lists, per parameter, the admissible values. *)
Inductive invoke_result := ICall (args : list (list nat)) | IError (t : nat).

Fixpoint resolve (scopes : list scope) (params : list nat) : invoke_result :=
  match params with
  | [] => ICall []
  | t :: ps =>
      match value scopes t with
      | [] => IError t
      | vs => match resolve scopes ps with ICall l => ICall (vs :: l) | e => e end
      end
  end.

(* callInvoke and fastInvoke run the same resolution loop; they differ in how the body is called *)
Definition call_invoke := resolve.
Definition fast_invoke := resolve.

(* Apply: fields (type, tagged-and-settable) in order; untagged ones are skipped; the first
   unresolvable tagged field is reported, fields before it stay set *)
Inductive apply_result := AOk (sets : list (nat * list nat)) | AError (sets : list (nat * list nat)) (t : nat).

Fixpoint apply_fields (scopes : list scope) (idx : nat) (fields : list (nat * bool)) : apply_result :=
  match fields with
  | [] => AOk []
  | (t, tagged) :: fs =>
      if tagged then
        match value scopes t with
        | [] => AError [] t
        | vs => match apply_fields scopes (S idx) fs with
                | AOk l => AOk ((idx, vs) :: l)
                | AError l e => AError ((idx, vs) :: l) e
                end
        end
      else apply_fields scopes (S idx) fs
  end.
End Inject.
