(* Model of inject/inject.go: type-indexed scopes with a parent chain, Value / Invoke / Apply (C04). *)
Require Import Base.

Section Inject.
(* the type universe is a parameter: types are numbered; reflect supplies the two predicates *)
Variable is_iface : nat -> bool.                 (* t.Kind() == reflect.Interface *)
Variable implements : nat -> nat -> bool.        (* k.Implements(t), t an interface *)

(* (type, value) registrations, oldest first; the value None is an invalid reflect.Value (MapTo of an untyped
   nil, Set with the zero Value): the key is in the map, IsValid() is false *)
Definition scope := list (nat * option nat).

(* inj.values[t]: a later registration for the same type replaces the earlier *)
Fixpoint lookup (s : scope) (t : nat) : option (option nat) :=
  match s with
  | [] => None
  | (k, v) :: s' => match lookup s' t with Some w => Some w | None => if Nat.eqb k t then Some v else None end
  end.

(* the map's current entries: for every key its last value *)
Fixpoint entries (s : scope) : list (nat * option nat) :=
  match s with
  | [] => []
  | (k, v) :: s' => if existsb (fun e => Nat.eqb (fst e) k) s' then entries s' else (k, v) :: entries s'
  end.

(* entries of this scope whose key implements interface t (Go's range over the map picks any of them) *)
Definition impl_entries (s : scope) (t : nat) : list (nat * option nat) :=
  filter (fun e => implements (fst e) t) (entries s).

(* the valid values among them *)
Definition implementors (s : scope) (t : nat) : list nat :=
  flat_map (fun e => match snd e with Some v => [v] | None => [] end) (impl_entries s t).

(* Injector.Value over the chain of scopes, nearest first: the set of admissible answers.
     val := values[t]; if val.IsValid() return val
     if t is an interface: for k, v := range values { if k.Implements(t) { val = v; break } }
     if !val.IsValid() && parent != nil: val = parent.Value(t) *)
Fixpoint value (scopes : list scope) (t : nat) : list nat :=
  match scopes with
  | [] => []
  | s :: parents =>
      match lookup s t with
      | Some (Some v) => [v]
      | _ =>
          if is_iface t then
            match impl_entries s t with
            | [] => value parents t
            | es => flat_map (fun e => match snd e with Some v => [v] | None => value parents t end) es
            end
          else value parents t
      end
  end.

(* Map / MapTo / Set all come down to values[key] = v *)
Definition register_val (s : scope) (k : nat) (v : option nat) : scope := s ++ [(k, v)].
Definition register (s : scope) (k v : nat) : scope := register_val s k (Some v).
Definition register_invalid (s : scope) (k : nat) : scope := register_val s k None.

(* Invoke: resolve the parameters in order; the first unresolvable one is reported and the body does
   not run.  The result lists, per parameter, the admissible values. *)
Inductive invoke_result := ICall (args : list (list nat)) | IError (t : nat).

Fixpoint resolve (scopes : list scope) (params : list nat) : invoke_result :=
  match params with
  | [] => ICall []
  | t :: ps =>
      match value scopes t with
      | [] => IError t
      | vs => match resolve scopes ps with ICall l => ICall (vs :: l) | e => e end
      end
  end.

(* callInvoke and fastInvoke run the same resolution loop; they differ in how the body is called *)
Definition call_invoke := resolve.
Definition fast_invoke := resolve.

(* Apply: fields (type, tagged-and-settable) in order; untagged ones are skipped; the first
   unresolvable tagged field is reported, fields before it stay set *)
Inductive apply_result := AOk (sets : list (nat * list nat)) | AError (sets : list (nat * list nat)) (t : nat).

Fixpoint apply_fields (scopes : list scope) (idx : nat) (fields : list (nat * bool)) : apply_result :=
  match fields with
  | [] => AOk []
  | (t, tagged) :: fs =>
      if tagged then
        match value scopes t with
        | [] => AError [] t
        | vs => match apply_fields scopes (S idx) fs with
                | AOk l => AOk ((idx, vs) :: l)
                | AError l e => AError ((idx, vs) :: l) e
                end
        end
      else apply_fields scopes (S idx) fs
  end.
End Inject.
