Require Import Base Inject.

Section P.
Variable is_iface : nat -> bool.
Variable implements : nat -> nat -> bool.
Notation value := (Inject.value is_iface implements).
Notation resolve := (Inject.resolve is_iface implements).
Notation implementors := (Inject.implementors implements).

(* a later registration for the same type in the same scope replaces the earlier *)
Lemma lookup_register_same s k v : lookup (register s k v) k = Some v.
Proof.
  unfold register. induction s as [|[k' v'] s IH]; cbn.
  - rewrite Nat.eqb_refl. reflexivity.
  - rewrite IH. reflexivity.
Qed.

Lemma lookup_register_other s k v t : t <> k -> lookup (register s k v) t = lookup s t.
Proof.
  unfold register. intros Ne. induction s as [|[k' v'] s IH]; cbn.
  - destruct (Nat.eqb_spec k t); [congruence | reflexivity].
  - rewrite IH. reflexivity.
Qed.

Theorem replace_last s k v1 v2 : lookup (register (register s k v1) k v2) k = Some v2.
Proof. apply lookup_register_same. Qed.

(* an exact registration in the nearest scope that has one wins, before any outer scope *)
Theorem value_exact_nearest s parents t v : lookup s t = Some v -> value (s :: parents) t = [v].
Proof. intros H. cbn. rewrite H. reflexivity. Qed.

(* within a scope, exact registration before implementors; implementors before the parent *)
Theorem value_implementors s parents t :
  lookup s t = None -> is_iface t = true -> implementors s t <> [] ->
  value (s :: parents) t = implementors s t.
Proof. intros H1 H2 H3. cbn. rewrite H1, H2. destruct (implementors s t); [congruence | reflexivity]. Qed.

Theorem value_falls_to_parent s parents t :
  lookup s t = None -> (is_iface t = false \/ implementors s t = []) ->
  value (s :: parents) t = value parents t.
Proof.
  intros H1 H2. cbn. rewrite H1. destruct (is_iface t); [|reflexivity].
  destruct H2 as [H2|H2]; [discriminate|]. rewrite H2. reflexivity.
Qed.

(* request-local: one application scope, one scope per request (parent = application).  Registering
   in request i changes neither what the application scope resolves nor what any other request sees. *)
Definition upd (reqs : list scope) (i : nat) (f : scope -> scope) : list scope :=
  firstn i reqs ++ match nth_error reqs i with Some s => [f s] | None => [] end ++ skipn (S i) reqs.

Lemma nth_error_upd_other reqs i j f : j <> i -> nth_error (upd reqs i f) j = nth_error reqs j.
Proof.
  unfold upd. intros Ne. revert i j Ne. induction reqs as [|s reqs IH]; intros i j Ne.
  - destruct i, j; reflexivity.
  - destruct i as [|i]; destruct j as [|j]; cbn; try congruence; try reflexivity.
    apply IH. congruence.
Qed.

Theorem request_local app reqs i k v j t :
  j <> i ->
  match nth_error (upd reqs i (fun s => register s k v)) j, nth_error reqs j with
  | Some s', Some s => value [s'; app] t = value [s; app] t
  | None, None => True
  | _, _ => False
  end /\ value [app] t = value [app] t.
Proof.
  intros Ne. rewrite nth_error_upd_other by exact Ne. split; [|reflexivity].
  destruct (nth_error reqs j); [reflexivity | exact I].
Qed.

(* ... while the request itself sees its registration at once, before the application's *)
Theorem request_sees_own s app k v : value [register s k v; app] k = [v].
Proof. apply value_exact_nearest. apply lookup_register_same. Qed.

(* Invoke: an error names the FIRST unresolvable parameter type, and then nothing is called *)
Fixpoint first_unresolved (scopes : list scope) (params : list nat) : option nat :=
  match params with
  | [] => None
  | t :: ps => match value scopes t with [] => Some t | _ => first_unresolved scopes ps end
  end.

Theorem invoke_error_iff scopes params t :
  resolve scopes params = IError t <-> first_unresolved scopes params = Some t.
Proof.
  induction params as [|p ps IH]; cbn; [split; discriminate|].
  destruct (value scopes p) as [|v vs] eqn:E.
  - split; intros H; inversion H; reflexivity.
  - rewrite <- IH. destruct (resolve scopes ps); split; intros H; try discriminate; inversion H; reflexivity.
Qed.

(* otherwise the body is called once, every argument being an admissible value for its parameter *)
Theorem invoke_call_args scopes params args :
  resolve scopes params = ICall args ->
  length args = length params /\
  forall i t, nth_error params i = Some t -> nth_error args i = Some (value scopes t) /\ value scopes t <> [].
Proof.
  revert args; induction params as [|p ps IH]; intros args H; cbn in H.
  - inversion H; subst. split; [reflexivity|]. intros [|i] t E; discriminate.
  - destruct (value scopes p) as [|v vs] eqn:E; [discriminate|].
    destruct (resolve scopes ps) as [l|e] eqn:R; [|discriminate]. inversion H; subst.
    destruct (IH l eq_refl) as [L A]. split; [cbn; congruence|].
    intros [|i] t Et; cbn in *.
    + inversion Et; subst. rewrite E. split; [reflexivity | discriminate].
    + apply A. exact Et.
Qed.

(* plain functions and fast invokers resolve identically *)
Theorem fast_eq_call scopes params : fast_invoke is_iface implements scopes params = call_invoke is_iface implements scopes params.
Proof. reflexivity. Qed.
End P.
