Require Import Base Inject.

Section P.
Variable is_iface : nat -> bool.
Variable implements : nat -> nat -> bool.
Notation value := (Inject.value is_iface implements).
Notation resolve := (Inject.resolve is_iface implements).
Notation implementors := (Inject.implementors implements).

Notation impl_entries := (Inject.impl_entries implements).

(* a later registration for the same type in the same scope replaces the earlier *)
Lemma lookup_register_val_same s k v : lookup (register_val s k v) k = Some v.
Proof.
  unfold register_val. induction s as [|[k' v'] s IH]; cbn.
  - rewrite Nat.eqb_refl. reflexivity.
  - rewrite IH. reflexivity.
Qed.

Lemma lookup_register_same s k v : lookup (register s k v) k = Some (Some v).
Proof. apply lookup_register_val_same. Qed.

Lemma lookup_register_other s k v t : t <> k -> lookup (register_val s k v) t = lookup s t.
Proof.
  unfold register_val. intros Ne. induction s as [|[k' v'] s IH]; cbn.
  - destruct (Nat.eqb_spec k t); [congruence | reflexivity].
  - rewrite IH. reflexivity.
Qed.

Theorem replace_last s k v1 v2 : lookup (register (register s k v1) k v2) k = Some (Some v2).
Proof. apply lookup_register_same. Qed.

(* the valid exact registration of a scope, if any (an invalid reflect.Value does not count) *)
Definition exact (s : scope) (t : nat) : option nat :=
  match lookup s t with Some (Some v) => Some v | _ => None end.

(* an exact registration in the nearest scope that has one wins, before any outer scope *)
Theorem value_exact_nearest s parents t v : exact s t = Some v -> value (s :: parents) t = [v].
Proof. unfold exact. intros H. cbn. destruct (lookup s t) as [[w|]|]; try discriminate. inversion H. reflexivity. Qed.

Lemma value_no_exact s parents t : exact s t = None ->
  value (s :: parents) t =
  if is_iface t then
    match impl_entries s t with
    | [] => value parents t
    | es => flat_map (fun e => match snd e with Some v => [v] | None => value parents t end) es
    end
  else value parents t.
Proof. unfold exact. intros H. cbn. destruct (lookup s t) as [[w|]|]; try discriminate; reflexivity. Qed.

(* within a scope, exact registration before implementors; implementors before the parent *)
Theorem value_implementors s parents t :
  exact s t = None -> is_iface t = true -> impl_entries s t <> [] ->
  (forall e, In e (impl_entries s t) -> snd e <> None) ->
  value (s :: parents) t = implementors s t.
Proof.
  intros H1 H2 H3 H4. rewrite (value_no_exact s parents t H1), H2. unfold Inject.implementors.
  destruct (impl_entries s t) as [|e es] eqn:E; [congruence|]. rewrite <- E in *. clear E H3.
  induction (impl_entries s t) as [|x l IH]; [reflexivity|]. cbn [flat_map].
  rewrite IH by (intros e' He'; apply H4; right; exact He').
  destruct (snd x) eqn:Sx; [reflexivity|]. exfalso. exact (H4 x (or_introl eq_refl) Sx).
Qed.

Theorem value_falls_to_parent s parents t :
  exact s t = None -> (is_iface t = false \/ impl_entries s t = []) ->
  value (s :: parents) t = value parents t.
Proof.
  intros H1 H2. rewrite (value_no_exact s parents t H1). destruct (is_iface t); [|reflexivity].
  destruct H2 as [H2|H2]; [discriminate|]. rewrite H2. reflexivity.
Qed.

(* an entry holding an invalid reflect.Value (MapTo(nil, ...), Set(t, reflect.Value{})) hides nothing: for a
   concrete type it is as if absent ... *)
Theorem invalid_is_absent s parents t :
  lookup s t = Some None -> is_iface t = false -> value (s :: parents) t = value parents t.
Proof. intros H1 H2. apply value_falls_to_parent; [unfold exact; rewrite H1; reflexivity | left; exact H2]. Qed.

(* ... and in general the admissible answers are the valid values under implementing keys of this scope, plus -
   when Go's iteration may stop at an implementing key holding an invalid value - those of the outer scopes *)
Theorem value_admissible s parents t v :
  exact s t = None -> is_iface t = true -> impl_entries s t <> [] ->
  (In v (value (s :: parents) t) <->
   (exists e, In e (impl_entries s t) /\ snd e = Some v) \/
   ((exists e, In e (impl_entries s t) /\ snd e = None) /\ In v (value parents t))).
Proof.
  intros H1 H2 H3. rewrite (value_no_exact s parents t H1), H2.
  destruct (impl_entries s t) as [|e0 es] eqn:E; [congruence|]. rewrite <- E. clear E H3.
  rewrite in_flat_map. split.
  - intros (e & He & Hv). destruct (snd e) as [w|] eqn:Se.
    + destruct Hv as [<-|[]]. left. exists e. auto.
    + right. split; [exists e; auto | exact Hv].
  - intros [(e & He & Se)|((e & He & Se) & Hv)]; exists e; (split; [exact He|]); rewrite Se; [left; reflexivity | exact Hv].
Qed.

(* request-local: one application scope, one scope per request (parent = application).  Registering
   in request i changes neither what the application scope resolves nor what any other request sees. *)
Definition upd (reqs : list scope) (i : nat) (f : scope -> scope) : list scope :=
  firstn i reqs ++ match nth_error reqs i with Some s => [f s] | None => [] end ++ skipn (S i) reqs.

Lemma nth_error_upd_other reqs i j f : j <> i -> nth_error (upd reqs i f) j = nth_error reqs j.
Proof.
  unfold upd. intros Ne. revert i j Ne. induction reqs as [|s reqs IH]; intros i j Ne.
  - destruct i, j; reflexivity.
  - destruct i as [|i]; destruct j as [|j]; cbn; try congruence; try reflexivity.
    apply IH. congruence.
Qed.

Theorem request_local app reqs i k v j t :
  j <> i ->
  match nth_error (upd reqs i (fun s => register s k v)) j, nth_error reqs j with
  | Some s', Some s => value [s'; app] t = value [s; app] t
  | None, None => True
  | _, _ => False
  end /\ value [app] t = value [app] t.
Proof.
  intros Ne. rewrite nth_error_upd_other by exact Ne. split; [|reflexivity].
  destruct (nth_error reqs j); [reflexivity | exact I].
Qed.

(* ... while the request itself sees its registration at once, before the application's *)
Theorem request_sees_own s app k v : value [register s k v; app] k = [v].
Proof. apply value_exact_nearest. unfold exact. rewrite lookup_register_same. reflexivity. Qed.

(* Invoke: an error names the FIRST unresolvable parameter type, and then nothing is called *)
Fixpoint first_unresolved (scopes : list scope) (params : list nat) : option nat :=
  match params with
  | [] => None
  | t :: ps => match value scopes t with [] => Some t | _ => first_unresolved scopes ps end
  end.

Theorem invoke_error_iff scopes params t :
  resolve scopes params = IError t <-> first_unresolved scopes params = Some t.
Proof.
  induction params as [|p ps IH]; cbn; [split; discriminate|].
  destruct (value scopes p) as [|v vs] eqn:E.
  - split; intros H; inversion H; reflexivity.
  - rewrite <- IH. destruct (resolve scopes ps); split; intros H; try discriminate; inversion H; reflexivity.
Qed.

(* otherwise the body is called once, every argument being an admissible value for its parameter *)
Theorem invoke_call_args scopes params args :
  resolve scopes params = ICall args ->
  length args = length params /\
  forall i t, nth_error params i = Some t -> nth_error args i = Some (value scopes t) /\ value scopes t <> [].
Proof.
  revert args; induction params as [|p ps IH]; intros args H; cbn in H.
  - inversion H; subst. split; [reflexivity|]. intros [|i] t E; discriminate.
  - destruct (value scopes p) as [|v vs] eqn:E; [discriminate|].
    destruct (resolve scopes ps) as [l|e] eqn:R; [|discriminate]. inversion H; subst.
    destruct (IH l eq_refl) as [L A]. split; [cbn; congruence|].
    intros [|i] t Et; cbn in *.
    + inversion Et; subst. rewrite E. split; [reflexivity | discriminate].
    + apply A. exact Et.
Qed.

(* plain functions and fast invokers resolve identically *)
Theorem fast_eq_call scopes params : fast_invoke is_iface implements scopes params = call_invoke is_iface implements scopes params.
Proof. reflexivity. Qed.
End P.
