(* URL building inverts matching (C12, C02): filling the URL skeleton of a route with the values its
   pattern captured from a request reproduces the request path. *)
Require Import Base Regex RegexProofs Route Tree TreeProofs SegProofs UrlPath UrlPathProofs TreeAdd.

Definition vals_cover (vals : list (str * str)) (ps : params) : Prop :=
  forall n v, In (n, v) ps -> lookup_val vals n = Some v.

Lemma vals_cover_app vals a b : vals_cover vals (a ++ b) -> vals_cover vals a /\ vals_cover vals b.
Proof. intros H. split; intros n v HIn; apply H; apply in_or_app; auto. Qed.

Lemma fill_app vals a b : fill vals (a ++ b) = fill vals a ++ fill vals b.
Proof. unfold fill. rewrite map_app, concat_app. reflexivity. Qed.

Lemma fill_hole vals n v : lookup_val vals n = Some v -> fill vals [SHole n] = v.
Proof. intros H. unfold fill. cbn. rewrite H, app_nil_r. reflexivity. Qed.

Definition path_text (segs : list str) : str := concat (map (fun s => c_slash :: s) segs).

Lemma path_text_join segs : segs <> [] -> path_text segs = c_slash :: join_slash segs.
Proof.
  unfold path_text. induction segs as [|s segs IH]; intros H; [congruence|]. destruct segs as [|s2 segs'].
  - cbn. rewrite app_nil_r. reflexivity.
  - specialize (IH ltac:(discriminate)). cbn [map concat] in *. rewrite IH. cbn [join_slash]. unfold c_slash_s. cbn.
    reflexivity.
Qed.

Lemma path_text_app a b : path_text (a ++ b) = path_text a ++ path_text b.
Proof. unfold path_text. rewrite map_app, concat_app. reflexivity. Qed.

Section Inv.
Variable compile : str -> option re.
(* the regex oracle returns expressions without capturing groups of their own (inner groups are not
   modelled as capturing) *)
Hypothesis compile_group_free : forall src r, compile src = Some r -> gidx r = [].

(* ---------------- one regex-style segment ---------------- *)
Lemma params_pieces_fill vals : forall ps0 l1 parts first,
  params_pieces compile ps0 = Some l1 -> Forall2 piece_adm l1 parts -> vals_cover vals (part_values l1 parts) ->
  fill vals (param_holes first ps0) = concat parts.
Proof.
  induction ps0 as [|[n v] ps0 IH]; intros l1 parts first P F C; cbn [params_pieces] in P.
  - inversion P; subst. inversion F; subst. reflexivity.
  - destruct v as [lit|src]; [discriminate|]. destruct (compile src) as [r|]; [|discriminate].
    destruct (params_pieces compile ps0) as [l|] eqn:E; [|discriminate]. inversion P; subst l1.
    inversion F as [|? part ? parts' Hp F']; subst. cbn [part_values] in C.
    cbn [param_holes is_regex_val]. rewrite orb_true_r. rewrite fill_app. cbn [concat]. f_equal.
    + apply fill_hole. apply C. left. reflexivity.
    + apply (IH l parts' false eq_refl F'). intros n' v' H'. apply C. right. exact H'.
Qed.

Lemma params_pieces_group_free : forall ps0 l1, params_pieces compile ps0 = Some l1 -> group_free l1.
Proof.
  induction ps0 as [|[n v] ps0 IH]; intros l1 P; cbn [params_pieces] in P.
  - inversion P. constructor.
  - destruct v as [lit|src]; [discriminate|]. destruct (compile src) as [r|] eqn:Ec; [|discriminate].
    destruct (params_pieces compile ps0) as [l|] eqn:E; [|discriminate]. inversion P; subst l1.
    constructor; [exact (compile_group_free src r Ec) | apply IH; reflexivity].
Qed.

Lemma part_values_app l1 l2 p1 p2 : Forall2 piece_adm l1 p1 ->
  part_values (l1 ++ l2) (p1 ++ p2) = part_values l1 p1 ++ part_values l2 p2.
Proof.
  intros F. induction F as [|x y l1' p1' H F IH]; [reflexivity|]. cbn [app part_values].
  destruct x; cbn [app]; rewrite IH; reflexivity.
Qed.

Lemma regex_pieces_fill vals : forall es pcs parts,
  regex_pieces compile es = Some pcs -> Forall2 piece_adm pcs parts -> vals_cover vals (part_values pcs parts) ->
  fill vals (flat_map elem_skel es) = concat parts.
Proof.
  induction es as [|e es IH]; intros pcs parts R F C; cbn [regex_pieces] in R.
  - inversion R; subst. inversion F; subst. reflexivity.
  - destruct e as [s|b|ps0].
    + destruct (regex_pieces compile es) as [l|] eqn:E; [|discriminate]. inversion R; subst pcs.
      inversion F as [|? part ? parts' Hp F']; subst. cbn in Hp. subst part. cbn [part_values] in C.
      cbn [flat_map elem_skel app]. change (SLit s :: flat_map elem_skel es) with ([SLit s] ++ flat_map elem_skel es).
      rewrite fill_app. cbn [concat]. f_equal; [unfold fill; cbn; apply app_nil_r|]. exact (IH l parts' eq_refl F' C).
    + destruct (regex_pieces compile es) as [l|] eqn:E; [|discriminate]. inversion R; subst pcs.
      inversion F as [|? part ? parts' Hp F']; subst. cbn [part_values] in C.
      cbn [flat_map elem_skel app]. change (SHole b :: flat_map elem_skel es) with ([SHole b] ++ flat_map elem_skel es).
      rewrite fill_app. cbn [concat]. f_equal.
      * apply fill_hole. apply C. left. reflexivity.
      * apply (IH l parts' eq_refl F'). intros n' v' H'. apply C. right. exact H'.
    + destruct (params_pieces compile ps0) as [l1|] eqn:E1; [|discriminate].
      destruct (regex_pieces compile es) as [l2|] eqn:E2; [|discriminate]. inversion R; subst pcs.
      apply Forall2_app_inv_l in F as (p1 & p2 & F1 & F2 & ->).
      rewrite (part_values_app l1 l2 p1 p2 F1) in C. apply vals_cover_app in C as [C1 C2].
      cbn [flat_map elem_skel]. rewrite fill_app, concat_app. f_equal.
      * exact (params_pieces_fill vals ps0 l1 p1 true E1 F1 C1).
      * exact (IH l2 p2 eq_refl F2 C2).
Qed.

Lemma regex_pieces_group_free : forall es pcs, regex_pieces compile es = Some pcs -> group_free pcs.
Proof.
  induction es as [|e es IH]; intros pcs R; cbn [regex_pieces] in R.
  - inversion R. constructor.
  - destruct e as [s|b|ps0].
    + destruct (regex_pieces compile es) as [l|] eqn:E; [|discriminate]. inversion R; subst. constructor; [exact I | apply IH; reflexivity].
    + destruct (regex_pieces compile es) as [l|] eqn:E; [|discriminate]. inversion R; subst.
      constructor; [reflexivity | apply IH; reflexivity].
    + destruct (params_pieces compile ps0) as [l1|] eqn:E1; [|discriminate].
      destruct (regex_pieces compile es) as [l2|] eqn:E2; [|discriminate]. inversion R; subst.
      apply Forall_app. split; [eapply params_pieces_group_free; eassumption | apply IH; reflexivity].
Qed.

Lemma match_all_of_two e e2 es : match_all_of (e :: e2 :: es) = None.
Proof. destruct e as [s|b|ps]; try reflexivity. destruct ps as [|[b [v|src]] rest]; reflexivity. Qed.

(* ---------------- one segment of any style but match-all ---------------- *)
Lemma seg_fill as_leaf anc aa es k seg ps vals :
  classify compile as_leaf anc aa es = Some k -> is_all k = false -> seg_match k seg = Some ps -> vals_cover vals ps ->
  fill vals (flat_map elem_skel es) = seg.
Proof.
  intros Cl NA M C. unfold classify in Cl.
  destruct es as [|e es'].
  - destruct as_leaf; [|discriminate]. inversion Cl; subst k. cbn [seg_match] in M.
    destruct (str_eqb [] seg) eqn:E; [|discriminate]. apply str_eqb_eq in E. subst seg. reflexivity.
  - destruct e as [s|b|ps0]; destruct es' as [|e2 es''].
    + inversion Cl; subst k. cbn [seg_match] in M. destruct (str_eqb s seg) eqn:E; [|discriminate]. apply str_eqb_eq in E. subst seg.
      unfold fill. cbn. apply app_nil_r.
    + (* literal followed by more: regex style *)
      rewrite (match_all_of_two (EIdent s) e2 es'') in Cl.
      destruct (regex_pieces compile (EIdent s :: e2 :: es'')) as [pcs|] eqn:R; [|discriminate].
      destruct (disjoint_str (piece_binds pcs) anc && nodup_str (piece_binds pcs)); [|discriminate]. inversion Cl; subst k.
      destruct (seg_values pcs seg ps (regex_pieces_group_free _ _ R) M) as (parts & -> & F & ->).
      exact (regex_pieces_fill vals _ pcs parts R F C).
    + destruct (match_all_of [EBind b]) as [[b0 cap0]|] eqn:MA.
      * destruct (mem_str b0 anc); [discriminate|]. destruct (negb as_leaf && aa); [discriminate|]. inversion Cl; subst k. discriminate.
      * destruct (mem_str b anc); [discriminate|]. inversion Cl; subst k. cbn [seg_match] in M. inversion M; subst ps.
        cbn [flat_map elem_skel app]. apply fill_hole. apply C. left. reflexivity.
    + rewrite (match_all_of_two (EBind b) e2 es'') in Cl.
      destruct (regex_pieces compile (EBind b :: e2 :: es'')) as [pcs|] eqn:R; [|discriminate].
      destruct (disjoint_str (piece_binds pcs) anc && nodup_str (piece_binds pcs)); [|discriminate]. inversion Cl; subst k.
      destruct (seg_values pcs seg ps (regex_pieces_group_free _ _ R) M) as (parts & -> & F & ->).
      exact (regex_pieces_fill vals _ pcs parts R F C).
    + destruct (match_all_of [EParams ps0]) as [[b0 cap0]|] eqn:MA.
      * destruct (mem_str b0 anc); [discriminate|]. destruct (negb as_leaf && aa); [discriminate|]. inversion Cl; subst k. discriminate.
      * destruct (regex_pieces compile [EParams ps0]) as [pcs|] eqn:R; [|discriminate].
        destruct (disjoint_str (piece_binds pcs) anc && nodup_str (piece_binds pcs)); [|discriminate]. inversion Cl; subst k.
        destruct (seg_values pcs seg ps (regex_pieces_group_free _ _ R) M) as (parts & -> & F & ->).
        exact (regex_pieces_fill vals _ pcs parts R F C).
    + rewrite (match_all_of_two (EParams ps0) e2 es'') in Cl.
      destruct (regex_pieces compile (EParams ps0 :: e2 :: es'')) as [pcs|] eqn:R; [|discriminate].
      destruct (disjoint_str (piece_binds pcs) anc && nodup_str (piece_binds pcs)); [|discriminate]. inversion Cl; subst k.
      destruct (seg_values pcs seg ps (regex_pieces_group_free _ _ R) M) as (parts & -> & F & ->).
      exact (regex_pieces_fill vals _ pcs parts R F C).
Qed.

(* ---------------- a match-all segment: one hole, its bind ---------------- *)
Lemma param_holes_lits rest : forallb (fun p : str * pval => match snd p with VRegex _ => false | VLit _ => true end) rest = true ->
  param_holes false rest = [].
Proof.
  induction rest as [|[n v] rest IH]; intros H; [reflexivity|]. cbn [forallb] in H. apply andb_prop in H as [H1 H2].
  cbn [param_holes]. destruct v; [|discriminate]. cbn. apply IH. exact H2.
Qed.

Lemma all_skel as_leaf anc aa es b cap : classify compile as_leaf anc aa es = Some (KAll b cap) ->
  flat_map elem_skel es = [SHole b].
Proof.
  intros Cl. unfold classify in Cl.
  destruct es as [|e es']; [destruct as_leaf; discriminate|].
  destruct es' as [|e2 es''].
  - destruct e as [s|b1|ps0]; [discriminate| |].
    + destruct (match_all_of [EBind b1]) as [[b0 cap0]|] eqn:MA.
      * destruct (mem_str b0 anc); [discriminate|]. destruct (negb as_leaf && aa); [discriminate|]. inversion Cl; subst b0 cap0.
        cbn [match_all_of] in MA. destruct (str_eqb b1 star2) eqn:E; [|discriminate]. inversion MA; subst.
        apply str_eqb_eq in E. subst b1. reflexivity.
      * destruct (mem_str b1 anc); discriminate.
    + destruct (match_all_of [EParams ps0]) as [[b0 cap0]|] eqn:MA.
      * destruct (mem_str b0 anc); [discriminate|]. destruct (negb as_leaf && aa); [discriminate|]. inversion Cl; subst b0 cap0.
        cbn [match_all_of] in MA. destruct ps0 as [|[b1 v] rest]; [discriminate|]. destruct v as [lit|src]; [|discriminate].
        destruct (str_eqb lit star2 && forallb _ rest) eqn:E; [|discriminate]. apply andb_prop in E as [_ E].
        inversion MA; subst. cbn [flat_map elem_skel param_holes orb app]. rewrite (param_holes_lits rest E). reflexivity.
      * destruct (regex_pieces compile [EParams ps0]) as [pcs|]; [|discriminate].
        destruct (disjoint_str (piece_binds pcs) anc && nodup_str (piece_binds pcs)); discriminate.
  - destruct e as [s|b1|ps0];
      rewrite match_all_of_two in Cl;
      (destruct (regex_pieces compile _) as [pcs|]; [|discriminate]);
      destruct (disjoint_str (piece_binds pcs) anc && nodup_str (piece_binds pcs)); discriminate.
Qed.

(* a last segment, of any style *)
Lemma last_fill as_leaf anc aa es k segs ps vals :
  classify compile as_leaf anc aa es = Some k -> adm [k] segs ps -> vals_cover vals ps ->
  c_slash :: fill vals (flat_map elem_skel es) = path_text segs.
Proof.
  intros Cl A C. inversion A as [k0 s ps0 M | b cap s r Hr Hc | k0 ks s rest ps1 ps2 Hks | b cap ks taken rest ps2 Hks]; subst;
    try congruence.
  - unfold path_text. cbn. rewrite app_nil_r. f_equal.
    destruct (is_all k) eqn:IA.
    + destruct k as [| | |b cap]; try discriminate. rewrite (all_skel _ _ _ _ _ _ Cl). cbn [seg_match] in M. inversion M; subst.
      apply fill_hole. apply C. left. reflexivity.
    + eapply seg_fill; eauto.
  - rewrite (all_skel _ _ _ _ _ _ Cl). rewrite path_text_join by discriminate. f_equal.
    apply fill_hole. apply C. left. reflexivity.
Qed.

(* non-final segments of a registered route are not optional (C08) *)
Definition nonfinal_plain (r : route) : Prop := forall s, In s (removelast r) -> optional s = false.

Lemma nonfinal_plain_tail s r : r <> [] -> nonfinal_plain (s :: r) -> optional s = false /\ nonfinal_plain r.
Proof.
  intros Hr H. destruct r as [|s2 r']; [congruence|]. split.
  - apply H. cbn. left. reflexivity.
  - intros x Hx. apply H. cbn [removelast]. right. exact Hx.
Qed.

Lemma news_nonempty : forall r root anc aa l ks, news compile root anc aa r = Some l -> In ks l -> ks <> [].
Proof.
  induction r as [|s r IH]; intros root anc aa l ks N HIn; [discriminate|].
  destruct r as [|s2 rest2].
  - cbn [news] in N. destruct (classify compile true anc false (elems s)); [|discriminate]. inversion N; subst.
    destruct (optional s && root); cbn in HIn; intuition (subst; discriminate).
  - rewrite news_cons2 in N. destruct (classify compile false anc aa (elems s)) as [k|]; [|discriminate].
    destruct (news compile false _ _ (s2 :: rest2)) as [l0|] eqn:N0; [|discriminate]. cbv zeta in N.
    destruct (match rest2 with [] => _ | _ :: _ => _ end) as [sh|] eqn:S; [|discriminate]. inversion N; subst.
    apply in_app_or in HIn as [HIn|HIn].
    + apply in_map_iff in HIn as (? & <- & _). discriminate.
    + destruct rest2; [|inversion S; subst; destruct HIn]. destruct (optional s2); [|inversion S; subst; destruct HIn].
      destruct (classify compile true anc false (elems s)); [|discriminate]. inversion S; subst. destruct HIn as [<-|[]]. discriminate.
Qed.

(* ---------------- the whole route ---------------- *)
Lemma inverse_suffix : forall r anc aa l ks segs ps vals,
  news compile false anc aa r = Some l -> In ks l -> adm ks segs ps -> vals_cover vals ps -> nonfinal_plain r ->
  exists wo, fill vals (route_skel r wo) = path_text segs.
Proof.
  induction r as [|s r IH]; intros anc aa l ks segs ps vals N HIn A C NP; [discriminate|].
  destruct r as [|s2 rest2].
  - (* the last segment *)
    cbn [news] in N. destruct (classify compile true anc false (elems s)) as [k|] eqn:Cl; [|discriminate].
    rewrite andb_false_r in N. inversion N; subst l. destruct HIn as [<-|[]].
    exists true. cbn [route_skel]. rewrite andb_false_r. rewrite app_nil_r.
    change (SLit [c_slash] :: flat_map elem_skel (elems s)) with ([SLit [c_slash]] ++ flat_map elem_skel (elems s)).
    rewrite fill_app. change (fill vals [SLit [c_slash]]) with ([c_slash] ++ []). cbn [app].
    eapply last_fill; eauto.
  - rewrite news_cons2 in N. destruct (classify compile false anc aa (elems s)) as [k|] eqn:Cl; [|discriminate].
    destruct (news compile false (ctx_anc anc k) (ctx_aa aa k) (s2 :: rest2)) as [l0|] eqn:N0; [|discriminate]. cbv zeta in N.
    destruct (match rest2 with [] => _ | _ :: _ => _ end) as [sh|] eqn:S; [|discriminate]. inversion N; subst l.
    destruct (nonfinal_plain_tail s (s2 :: rest2) ltac:(discriminate) NP) as [Os NP'].
    assert (SK : forall wo, route_skel (s :: s2 :: rest2) wo =
                   [SLit [c_slash]] ++ flat_map elem_skel (elems s) ++ route_skel (s2 :: rest2) wo).
    { intros wo. cbn [route_skel]. rewrite Os. reflexivity. }
    apply in_app_or in HIn as [HIn|HIn].
    + (* a form that continues below this segment *)
      apply in_map_iff in HIn as (ks' & <- & HIn').
      pose proof (news_nonempty _ _ _ _ _ _ N0 HIn') as Hne.
      inversion A as [k0 s0 ps0 M | b cap s0 r0 Hr Hc | k0 ks0 s0 rest ps1 ps2 Hks NAll M A' | b cap ks0 taken rest ps2 Hks Ht Hc A']; subst;
        try congruence.
      * apply vals_cover_app in C as [C2 C1].
        destruct (IH _ _ _ _ _ _ _ N0 HIn' A' C2 NP') as [wo E]. exists wo.
        rewrite SK, !fill_app, E. change (fill vals [SLit [c_slash]]) with ([c_slash] ++ []). cbn [app].
        change (path_text (s0 :: rest)) with ((c_slash :: s0) ++ path_text rest). cbn [app].
        f_equal. f_equal. eapply seg_fill; eauto.
      * apply vals_cover_app in C as [C2 C1].
        destruct (IH _ _ _ _ _ _ _ N0 HIn' A' C2 NP') as [wo E]. exists wo.
        rewrite SK, !fill_app, E. change (fill vals [SLit [c_slash]]) with ([c_slash] ++ []). cbn [app].
        rewrite path_text_app. rewrite (path_text_join taken Ht). cbn [app]. f_equal. f_equal.
        rewrite (all_skel _ _ _ _ _ _ Cl). apply fill_hole. apply C1. left. reflexivity.
    + (* the short form: this segment as a leaf, the optional last segment left out *)
      destruct rest2 as [|s3 rest3]; [|inversion S; subst; destruct HIn].
      destruct (optional s2) eqn:O2; [|inversion S; subst; destruct HIn].
      destruct (classify compile true anc false (elems s)) as [kl|] eqn:Cl2; [|discriminate]. inversion S; subst sh.
      destruct HIn as [<-|[]]. exists false. rewrite SK. cbn [route_skel]. rewrite O2. cbn [negb andb]. rewrite app_nil_r.
      rewrite fill_app. change (fill vals [SLit [c_slash]]) with ([c_slash] ++ []). cbn [app].
      eapply last_fill; eauto.
Qed.

Theorem inverse_route r l ks segs ps vals :
  news compile true [] false r = Some l -> In ks l -> adm ks segs ps -> vals_cover vals ps -> nonfinal_plain r ->
  exists wo, fill vals (route_skel' r wo) = path_text segs.
Proof.
  intros N HIn A C NP. destruct r as [|s [|s2 rest2]]; [discriminate| |].
  - (* a single segment *)
    cbn [news] in N. destruct (classify compile true [] false (elems s)) as [k|] eqn:Cl; [|discriminate].
    rewrite andb_true_r in N. inversion N; subst l. destruct (optional s) eqn:O.
    + destruct HIn as [<-|[<-|[]]].
      * (* the short form "/" *)
        exists false. unfold route_skel'. cbn [route_skel]. rewrite O. cbn [negb andb].
        inversion A as [k0 s0 ps0 M | b cap s0 r0 Hr Hc | k0 ks0 s0 rest ps1 ps2 Hks | b cap ks0 taken rest ps2 Hks]; subst; try congruence.
        cbn [seg_match] in M. destruct (str_eqb [] s0) eqn:E; [|discriminate].
        apply str_eqb_eq in E. subst s0. reflexivity.
      * exists true. unfold route_skel'. cbn [route_skel]. rewrite andb_false_r, app_nil_r.
        change (SLit [c_slash] :: flat_map elem_skel (elems s)) with ([SLit [c_slash]] ++ flat_map elem_skel (elems s)).
        cbn [app]. change (fill vals (SLit [c_slash] :: flat_map elem_skel (elems s))) with ([c_slash] ++ fill vals (flat_map elem_skel (elems s))).
        cbn [app]. eapply last_fill; eauto.
    + destruct HIn as [<-|[]]. exists true. unfold route_skel'. cbn [route_skel]. rewrite andb_false_r, app_nil_r.
      change (fill vals (SLit [c_slash] :: flat_map elem_skel (elems s))) with ([c_slash] ++ fill vals (flat_map elem_skel (elems s))).
      cbn [app]. eapply last_fill; eauto.
  - destruct (inverse_suffix (s :: s2 :: rest2) [] false l ks segs ps vals N HIn A C NP) as [wo E].
    exists wo. unfold route_skel'. destruct (route_skel (s :: s2 :: rest2) wo) eqn:R; [|exact E].
    exfalso. cbn [route_skel] in R. destruct (nonfinal_plain_tail s (s2 :: rest2) ltac:(discriminate) NP) as [Os _].
    rewrite Os in R. discriminate.
Qed.
End Inv.

(* ---------------- the matcher's own parameters are such values ---------------- *)
Lemma mem_str_in x l : mem_str x l = true <-> In x l.
Proof.
  induction l as [|y l IH]; cbn [mem_str In]; [split; [discriminate | tauto]|].
  rewrite orb_true_iff, IH, str_eqb_eq. split; intros [H|H]; auto.
Qed.

Lemma nodup_str_nodup l : nodup_str l = true -> NoDup l.
Proof.
  induction l as [|x l IH]; intros H; [constructor|]. cbn [nodup_str] in H. apply andb_prop in H as [H1 H2].
  constructor; [|apply IH; exact H2]. intros HIn. apply mem_str_in in HIn. rewrite HIn in H1. discriminate.
Qed.

Lemma disjoint_str_disjoint a b : disjoint_str a b = true -> forall x, In x a -> ~ In x b.
Proof.
  induction a as [|y a IH]; intros H x Hx; [destruct Hx|]. cbn [disjoint_str] in H. apply andb_prop in H as [H1 H2].
  destruct Hx as [<-|Hx]; [|exact (IH H2 x Hx)]. intros HIn. apply mem_str_in in HIn. rewrite HIn in H1. discriminate.
Qed.

Section Names.
Variable compile : str -> option re.

Lemma classify_binds as_leaf anc aa es k : classify compile as_leaf anc aa es = Some k ->
  NoDup (kind_binds k) /\ forall x, In x (kind_binds k) -> ~ In x anc.
Proof.
  intros Cl. unfold classify in Cl.
  assert (ST : forall l, NoDup (kind_binds (KStatic l)) /\ forall x, In x (kind_binds (KStatic l)) -> ~ In x anc)
    by (intros l; split; [constructor | intros x []]).
  assert (ONE : forall b, mem_str b anc = false -> forall k', kind_binds k' = [b] ->
            NoDup (kind_binds k') /\ forall x, In x (kind_binds k') -> ~ In x anc).
  { intros b Hb k' E. rewrite E. split; [constructor; [intros [] | constructor]|].
    intros x [<-|[]] HIn. apply mem_str_in in HIn. congruence. }
  assert (GEN : forall es0,
    match match_all_of es0 with
    | Some (b, cap) => if mem_str b anc then None else if negb as_leaf && aa then None else Some (KAll b cap)
    | None => match regex_pieces compile es0 with
              | Some ps => if disjoint_str (piece_binds ps) anc && nodup_str (piece_binds ps) then Some (KRegex ps) else None
              | None => None
              end
    end = Some k -> NoDup (kind_binds k) /\ forall x, In x (kind_binds k) -> ~ In x anc).
  { intros es0 H. destruct (match_all_of es0) as [[b cap]|].
    - destruct (mem_str b anc) eqn:M; [discriminate|]. destruct (negb as_leaf && aa); [discriminate|]. inversion H; subst.
      apply (ONE b M). reflexivity.
    - destruct (regex_pieces compile es0) as [ps|]; [|discriminate].
      destruct (disjoint_str (piece_binds ps) anc && nodup_str (piece_binds ps)) eqn:D; [|discriminate]. inversion H; subst.
      apply andb_prop in D as [D1 D2]. split; [apply nodup_str_nodup; exact D2 | apply disjoint_str_disjoint; exact D1]. }
  destruct es as [|e es']; [destruct as_leaf; [inversion Cl; apply ST | discriminate]|].
  cbv zeta in Cl.
  destruct e as [s|b|ps0]; destruct es' as [|e2 es''].
  - inversion Cl. apply ST.
  - exact (GEN (EIdent s :: e2 :: es'') Cl).
  - destruct (match_all_of [EBind b]) as [[b0 cap0]|] eqn:MA.
    + apply (GEN [EBind b]). rewrite MA. exact Cl.
    + destruct (mem_str b anc) eqn:M; [discriminate|]. inversion Cl; subst. apply (ONE b M). reflexivity.
  - exact (GEN (EBind b :: e2 :: es'') Cl).
  - exact (GEN [EParams ps0] Cl).
  - exact (GEN (EParams ps0 :: e2 :: es'') Cl).
Qed.

Fixpoint rbinds (ks : list kind) : list str :=
  match ks with [] => [] | k :: ks' => rbinds ks' ++ kind_binds k end.

Lemma bind_values_names pcs : forall i c, map fst (bind_values pcs i c) = piece_binds pcs.
Proof.
  induction pcs as [|p pcs IH]; intros i c; [reflexivity|]. destruct p as [l|n r]; cbn [bind_values piece_binds flat_map app map fst].
  - apply IH.
  - f_equal. apply IH.
Qed.

Lemma seg_match_names k s ps : seg_match k s = Some ps -> map fst ps = kind_binds k.
Proof.
  destruct k as [l|pcs|b|b cap]; cbn [seg_match kind_binds]; intros H.
  - destruct (str_eqb l s); inversion H. reflexivity.
  - destruct (full (seg_re pcs 0) s); inversion H. apply bind_values_names.
  - inversion H. reflexivity.
  - inversion H. reflexivity.
Qed.

Lemma adm_names ks segs ps : adm ks segs ps -> map fst ps = rbinds ks.
Proof.
  induction 1 as [k s ps M | b cap s r Hr Hc | k ks s rest ps ps' Hks NA M A IH | b cap ks taken rest ps' Hks Ht Hc A IH].
  - cbn. apply seg_match_names in M. exact M.
  - reflexivity.
  - cbn [rbinds]. rewrite map_app, IH. f_equal. apply seg_match_names in M. exact M.
  - cbn [rbinds]. rewrite map_app, IH. reflexivity.
Qed.

Lemma NoDup_app_intro {A} (a b : list A) : NoDup a -> NoDup b -> (forall x, In x a -> ~ In x b) -> NoDup (a ++ b).
Proof.
  induction a as [|x a IH]; intros Ha Hb D; [exact Hb|]. inversion Ha; subst. cbn. constructor.
  - intros HIn. apply in_app_or in HIn as [HIn|HIn]; [contradiction | exact (D x (or_introl eq_refl) HIn)].
  - apply IH; auto. intros y Hy. apply D. right. exact Hy.
Qed.

(* binds along every form of a route are pairwise distinct, and distinct from the context *)
Lemma news_binds : forall r root anc aa l ks, news compile root anc aa r = Some l -> In ks l ->
  NoDup (rbinds ks) /\ forall x, In x (rbinds ks) -> ~ In x anc.
Proof.
  induction r as [|s r IH]; intros root anc aa l ks N HIn; [discriminate|].
  destruct r as [|s2 rest2].
  - cbn [news] in N. destruct (classify compile true anc false (elems s)) as [k|] eqn:Cl; [|discriminate]. inversion N; subst l.
    destruct (classify_binds _ _ _ _ _ Cl) as [B1 B2].
    assert (K : ks = [k] \/ ks = [KStatic []]) by (destruct (optional s && root); cbn in HIn; intuition).
    destruct K as [-> | ->]; cbn [rbinds app]; [split; assumption | split; [constructor | intros x []]].
  - rewrite news_cons2 in N. destruct (classify compile false anc aa (elems s)) as [k|] eqn:Cl; [|discriminate].
    destruct (news compile false (ctx_anc anc k) (ctx_aa aa k) (s2 :: rest2)) as [l0|] eqn:N0; [|discriminate]. cbv zeta in N.
    destruct (match rest2 with [] => _ | _ :: _ => _ end) as [sh|] eqn:S; [|discriminate]. inversion N; subst l.
    destruct (classify_binds _ _ _ _ _ Cl) as [B1 B2].
    apply in_app_or in HIn as [HIn|HIn].
    + apply in_map_iff in HIn as (ks' & <- & HIn'). destruct (IH _ _ _ _ _ N0 HIn') as [I1 I2]. cbn [rbinds]. unfold ctx_anc in I2. split.
      * apply NoDup_app_intro; auto. intros x Hx Hk. apply (I2 x Hx). apply in_or_app. left. exact Hk.
      * intros x Hx HA. apply in_app_or in Hx as [Hx|Hx]; [apply (I2 x Hx); apply in_or_app; right; exact HA | exact (B2 x Hx HA)].
    + destruct rest2; [|inversion S; subst; destruct HIn]. destruct (optional s2); [|inversion S; subst; destruct HIn].
      destruct (classify compile true anc false (elems s)) as [kl|] eqn:Cl2; [|discriminate]. inversion S; subst. destruct HIn as [<-|[]].
      cbn [rbinds app]. exact (classify_binds _ _ _ _ _ Cl2).
Qed.

Lemma nodup_cover ps : NoDup (map fst ps) -> vals_cover ps ps.
Proof.
  induction ps as [|[n v] ps IH]; intros ND m w HIn; [destruct HIn|]. cbn [map fst] in ND. inversion ND as [|? ? Hn ND']; subst.
  unfold lookup_val. cbn [find fst]. destruct (str_eqb n m) eqn:E.
  - apply str_eqb_eq in E. subst m. destruct HIn as [H|H]; [inversion H; reflexivity|].
    exfalso. apply Hn. apply in_map_iff. exists (n, w). split; [reflexivity | exact H].
  - destruct HIn as [H|H]; [inversion H; subst; rewrite str_eqb_refl in E; discriminate|]. exact (IH ND' m w H).
Qed.
End Names.

(* INVERSE: the parameters captured by any form of a registered route, filled back into the URL
   skeleton of the route (with the optional segment iff that form has it), spell the request path *)
Theorem inverse_own_params compile : (forall src r, compile src = Some r -> gidx r = []) ->
  forall r l ks segs ps, news compile true [] false r = Some l -> In ks l -> adm ks segs ps -> nonfinal_plain r ->
  exists wo, fill ps (route_skel' r wo) = path_text segs.
Proof.
  intros G r l ks segs ps N HIn A NP. apply (inverse_route compile G r l ks segs ps ps N HIn A); [|exact NP].
  apply nodup_cover. rewrite (adm_names _ _ _ A). exact (proj1 (news_binds compile _ _ _ _ _ _ N HIn)).
Qed.
