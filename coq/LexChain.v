(* What every successful run of the lexer looks like: a chain of tokens, each produced by the first
   rule of the current state that accepts its first byte, greedy runs maximal, the action of the rule
   giving the state for the next token. *)
Require Import Base Lexer LexSteps.

Definition first_byte (v : str) : N := hd 0%N v.

Inductive chain (tbl : table) : list nat -> list token -> Prop :=
| chain_nil stack : chain tbl stack []
| chain_cons st stk r v ts stack' :
    first_rule (nth st tbl []) (first_byte v) = Some r -> v <> [] -> all_in (r_cls r) v ->
    (r_plus r = false -> exists c, v = [c]) ->
    (r_plus r = true -> match ts with t2 :: _ => not_start (r_cls r) (snd t2) | [] => True end) ->
    (ts <> [] -> apply_action (r_act r) (st :: stk) = Some stack') ->
    chain tbl stack' ts ->
    chain tbl (st :: stk) ((r_name r, v) :: ts).

Lemma first_rule_in rs c r : first_rule rs c = Some r -> In r rs /\ in_cls c (r_cls r) = true.
Proof. unfold first_rule. intros H. apply find_some in H. exact H. Qed.

Lemma all_in_app k a b : all_in k a -> all_in k b -> all_in k (a ++ b).
Proof. unfold all_in. rewrite forallb_app. intros -> ->. reflexivity. Qed.

Lemma all_in_rev k a : all_in k a -> all_in k (rev a).
Proof.
  unfold all_in. rewrite !forallb_forall. intros H x Hx. apply H. apply in_rev. exact Hx.
Qed.

Section Chain.
Variable tbl : table.

Definition starts_tok (s : str) (ts : list token) : Prop :=
  match s with
  | [] => ts = []
  | c :: _ => exists n v ts', ts = (n, c :: v) :: ts'
  end.

(* the greedy run in progress: (r, acc) was started in the state on top of [st :: stk] *)
Definition pend_ok (st : nat) (r : rule) (acc : str) : Prop :=
  acc <> [] /\ all_in (r_cls r) acc /\ r_plus r = true /\ first_rule (nth st tbl []) (first_byte (rev acc)) = Some r.

Lemma lex_from_chain : forall s,
  (forall stack ts, lex_from tbl stack None s = Some ts -> chain tbl stack ts /\ starts_tok s ts) /\
  (forall st stk r acc ts, lex_from tbl (st :: stk) (Some (r, acc)) s = Some ts -> pend_ok st r acc ->
     exists w ts' stack', ts = (r_name r, rev acc ++ w) :: ts' /\ all_in (r_cls r) w /\
       match ts' with t2 :: _ => not_start (r_cls r) (snd t2) | [] => True end /\
       (ts' <> [] -> apply_action (r_act r) (st :: stk) = Some stack') /\ chain tbl stack' ts').
Proof.
  induction s as [|c s IH].
  - split.
    + intros stack ts H. cbn in H. inversion H; subst. split; [constructor | reflexivity].
    + intros st stk r acc ts H _. cbn in H. inversion H; subst. exists [], [], []. rewrite app_nil_r.
      repeat split; try reflexivity; try constructor. intros X; congruence.
  - destruct IH as [IHn IHp].
    assert (NONE : forall stack ts, lex_from tbl stack None (c :: s) = Some ts -> chain tbl stack ts /\ starts_tok (c :: s) ts).
    { intros stack ts H. cbn [lex_from] in H. unfold start_with in H. destruct stack as [|st stk]; [discriminate|].
      destruct (first_rule (nth st tbl []) c) as [r|] eqn:F; [|discriminate].
      destruct (first_rule_in _ _ _ F) as [_ Hc].
      destruct (r_plus r) eqn:P.
      - destruct (lex_from tbl (st :: stk) (Some (r, [c])) s) as [ts1|] eqn:E; [|discriminate].
        inversion H; subst ts. cbn [app].
        destruct (IHp st stk r [c] ts1 E) as (w & ts' & stack' & -> & Hw & Hm & Ha & Hch).
        { repeat split; [discriminate | unfold all_in; cbn; rewrite Hc; reflexivity | exact P | exact F]. }
        cbn [rev app]. split; [| exists (r_name r), w, ts'; reflexivity].
        apply (chain_cons tbl st stk r (c :: w) ts' stack'); auto.
        + discriminate.
        + unfold all_in in *. cbn [forallb]. rewrite Hc, Hw. reflexivity.
        + intros X; congruence.
      - destruct (apply_action (r_act r) (st :: stk)) as [stack'|] eqn:A; [|discriminate].
        destruct (lex_from tbl stack' None s) as [ts1|] eqn:E; [|discriminate].
        inversion H; subst ts. cbn [app]. destruct (IHn stack' ts1 E) as [Hch _].
        split; [| exists (r_name r), [], ts1; reflexivity].
        apply (chain_cons tbl st stk r [c] ts1 stack'); auto.
        + discriminate.
        + unfold all_in. cbn. rewrite Hc. reflexivity.
        + intros _. exists c. reflexivity.
        + intros X; congruence. }
    split; [exact NONE|].
    intros st stk r acc ts H (Hne & Hacc & P & F). cbn [lex_from] in H.
    destruct (in_cls c (r_cls r)) eqn:Hc.
    + destruct (IHp st stk r (c :: acc) ts H) as (w & ts' & stack' & -> & Hw & Hm & Ha & Hch).
      { repeat split; [discriminate | unfold all_in in *; cbn; rewrite Hc, Hacc; reflexivity | exact P |].
        cbn [rev]. destruct (rev acc) as [|a ra] eqn:Er; [apply (f_equal (@rev N)) in Er; rewrite rev_involutive in Er; cbn in Er; congruence|].
        cbn in *. exact F. }
      exists (c :: w), ts', stack'. cbn [rev]. rewrite <- app_assoc. cbn [app].
      repeat split; auto. unfold all_in in *. cbn. rewrite Hc, Hw. reflexivity.
    + destruct (apply_action (r_act r) (st :: stk)) as [stack'|] eqn:A; [|discriminate].
      rewrite start_with_pre in H.
      change (start_with tbl (fun stack0 p0 => lex_from tbl stack0 p0 s) c stack' []) with (lex_from tbl stack' None (c :: s)) in H.
      destruct (lex_from tbl stack' None (c :: s)) as [ts1|] eqn:E; [|discriminate]. cbn in H. inversion H; subst ts.
      destruct (NONE stack' ts1 E) as [Hch (n2 & v2 & ts2 & ->)].
      exists [], ((n2, c :: v2) :: ts2), stack'. rewrite app_nil_r.
      split; [reflexivity|]. split; [reflexivity|]. split; [exact Hc|]. split; [reflexivity | exact Hch].
Qed.

Theorem lex_chain s ts : lex tbl s = Some ts -> chain tbl [0] ts.
Proof. intros H. apply (proj1 (lex_from_chain s)) in H. exact (proj1 H). Qed.
End Chain.

(* inversion in a usable form *)
Lemma chain_inv tbl st stk t ts : chain tbl (st :: stk) (t :: ts) ->
  exists r, fst t = r_name r /\ first_rule (nth st tbl []) (first_byte (snd t)) = Some r /\
    snd t <> [] /\ all_in (r_cls r) (snd t) /\ (r_plus r = false -> exists c, snd t = [c]) /\
    (r_plus r = true -> match ts with t2 :: _ => not_start (r_cls r) (snd t2) | [] => True end) /\
    (ts = [] \/ exists stack', apply_action (r_act r) (st :: stk) = Some stack' /\ chain tbl stack' ts).
Proof.
  intros H. inversion H as [|? ? r v ? stack' F Hne Ha Hs Hm Hact Hch]; subst. exists r. cbn [fst snd].
  repeat split; auto. destruct ts as [|t2 ts2]; [left; reflexivity | right]. exists stack'. split; [apply Hact; discriminate | exact Hch].
Qed.

Lemma chain_empty_stack tbl t ts : ~ chain tbl [] (t :: ts).
Proof. intros H. inversion H. Qed.
