(* The lexer seen one token at a time: a single-byte rule emits its token and applies its action, a
   greedy rule takes the longest run over its class.  Then the instances for the rule table of
   internal/route/parser.go. *)
Require Import Base Lexer Route.

Lemma start_with_pre tbl rec c stack pre :
  start_with tbl rec c stack pre = option_map (app pre) (start_with tbl rec c stack []).
Proof.
  unfold start_with. destruct stack as [|st stk]; [reflexivity|].
  destruct (first_rule (nth st tbl []) c) as [r|]; [|reflexivity].
  destruct (r_plus r).
  - destruct (rec (st :: stk) (Some (r, [c]))); reflexivity.
  - destruct (apply_action (r_act r) (st :: stk)) as [stack'|]; [|reflexivity].
    destruct (rec stack' None); reflexivity.
Qed.

Definition all_in (k : list (N * N)) (w : str) : Prop := forallb (fun c => in_cls c k) w = true.
Definition not_start (k : list (N * N)) (s : str) : Prop := match s with [] => True | c :: _ => in_cls c k = false end.

Lemma lex_run_pending tbl stack r : r_act r = ANone -> forall w acc rest,
  all_in (r_cls r) w -> not_start (r_cls r) rest ->
  lex_from tbl stack (Some (r, acc)) (w ++ rest) =
  option_map (cons (r_name r, rev acc ++ w)) (lex_from tbl stack None rest).
Proof.
  intros Ha. induction w as [|a w IH]; intros acc rest Hw Hr.
  - cbn [app]. rewrite app_nil_r. destruct rest as [|d rest'].
    + reflexivity.
    + cbn [lex_from]. cbn in Hr. rewrite Hr, Ha. cbn [apply_action]. rewrite start_with_pre.
      destruct (start_with tbl _ d stack []); reflexivity.
  - unfold all_in in Hw. cbn [forallb] in Hw. apply andb_prop in Hw as [H1 H2].
    cbn [app lex_from]. rewrite H1. rewrite IH by assumption. cbn [rev]. rewrite <- app_assoc. reflexivity.
Qed.

Lemma lex_run tbl st stk r c w rest :
  first_rule (nth st tbl []) c = Some r -> r_plus r = true -> r_act r = ANone ->
  all_in (r_cls r) w -> not_start (r_cls r) rest ->
  lex_from tbl (st :: stk) None ((c :: w) ++ rest) =
  option_map (cons (r_name r, c :: w)) (lex_from tbl (st :: stk) None rest).
Proof.
  intros F P A Hw Hr. cbn [app lex_from]. unfold start_with. rewrite F, P. cbv beta.
  pose proof (lex_run_pending tbl (st :: stk) r A w [c] rest Hw Hr) as E. unfold str in *. rewrite E. cbn [rev app].
  match goal with |- match ?x with _ => _ end = _ => destruct x end; reflexivity.
Qed.

Lemma lex_single tbl st stk r c s stack' :
  first_rule (nth st tbl []) c = Some r -> r_plus r = false -> apply_action (r_act r) (st :: stk) = Some stack' ->
  lex_from tbl (st :: stk) None (c :: s) = option_map (cons (r_name r, [c])) (lex_from tbl stack' None s).
Proof.
  intros F P A. cbn [lex_from]. unfold start_with. rewrite F, P, A. cbv beta.
  destruct (lex_from tbl stack' None s); reflexivity.
Qed.

(* ---------------- the table of parser.go ---------------- *)
Notation L := (lex_from std_table).

Definition is_ident (s : str) : Prop := s <> [] /\ all_in ident_cls s.
Definition is_regex_text (s : str) : Prop := s <> [] /\ all_in regex_cls s.
Definition identst (st : nat) : Prop := st = 1 \/ st = 2 \/ st = 3.

Lemma first_rule_ident st c : identst st -> in_cls c ident_cls = true ->
  first_rule (nth st std_table []) c = Some (mkrule n_ident ident_cls true ANone).
Proof. intros [-> | [-> | ->]] H; unfold first_rule; cbn [nth std_table common app find r_cls]; rewrite H; reflexivity. Qed.

Lemma lex_ident st stk id rest : identst st -> is_ident id -> not_start ident_cls rest ->
  L (st :: stk) None (id ++ rest) = option_map (cons (n_ident, id)) (L (st :: stk) None rest).
Proof.
  intros S [Hne Ha] Hr. destruct id as [|c w]; [congruence|].
  unfold all_in in Ha. cbn [forallb] in Ha. apply andb_prop in Ha as [Hc Hw].
  apply (lex_run std_table st stk (mkrule n_ident ident_cls true ANone) c w rest); auto.
  apply first_rule_ident; assumption.
Qed.

Lemma lex_regex_text stk re rest : is_regex_text re -> not_start regex_cls rest ->
  L (4 :: stk) None (re ++ rest) = option_map (cons (n_regex, re)) (L (4 :: stk) None rest).
Proof.
  intros [Hne Ha] Hr. destruct re as [|c w]; [congruence|].
  unfold all_in in Ha. cbn [forallb] in Ha. apply andb_prop in Ha as [Hc Hw].
  apply (lex_run std_table 4 stk (mkrule n_regex regex_cls true ANone) c w rest); auto.
  unfold first_rule. cbn [nth std_table find r_cls]. rewrite Hc. reflexivity.
Qed.

Definition blanks (k : nat) : str := repeat c_space k.
Definition ws_tokens (k : nat) : list token := repeat (n_whitespace, [c_space]) k.

Lemma lex_blanks st stk k rest : identst st ->
  L (st :: stk) None (blanks k ++ rest) = option_map (app (ws_tokens k)) (L (st :: stk) None rest).
Proof.
  intros S. induction k as [|k IH]; cbn [blanks ws_tokens repeat app].
  - destruct (L (st :: stk) None rest); reflexivity.
  - rewrite (lex_single std_table st stk (mkrule n_whitespace ws_cls false ANone) c_space _ (st :: stk)).
    + fold (blanks k). rewrite IH. destruct (L (st :: stk) None rest); reflexivity.
    + destruct S as [-> | [-> | ->]]; reflexivity.
    + reflexivity.
    + reflexivity.
Qed.

(* single-byte tokens, by state *)
Ltac single r := match goal with |- L (?st :: ?stk) None (?c :: ?s) = _ =>
  rewrite (lex_single std_table st stk r c s _ eq_refl eq_refl eq_refl); reflexivity end.

Lemma lex_slash st stk s : st = 0 \/ st = 1 \/ st = 2 ->
  L (st :: stk) None (c_slash :: s) = option_map (cons (n_segment, [c_slash])) (L (1 :: st :: stk) None s).
Proof. intros [-> | [-> | ->]]; single (mkrule n_segment (one 47) false (APush st_segment)). Qed.

Lemma lex_qmark stk s :
  L (1 :: stk) None (c_qmark :: s) = option_map (cons (n_optional, [c_qmark])) (L (1 :: stk) None s).
Proof. single (mkrule n_optional (one 63) false ANone). Qed.

Lemma lex_lbrace st stk s : st = 1 \/ st = 2 ->
  L (st :: stk) None (c_lbrace :: s) = option_map (cons (n_bind, [c_lbrace])) (L (2 :: st :: stk) None s).
Proof. intros [-> | ->]; single (mkrule n_bind (one 123) false (APush st_bind)). Qed.

Lemma lex_rbrace_bind st stk s :
  L (2 :: st :: stk) None (c_rbrace :: s) = option_map (cons (n_bindend, [c_rbrace])) (L (st :: stk) None s).
Proof. single (mkrule n_bindend (one 125) false APop). Qed.

Lemma lex_colon stk s :
  L (2 :: stk) None (c_colon :: s) = option_map (cons (n_bindparameter, [c_colon])) (L (3 :: 2 :: stk) None s).
Proof. single (mkrule n_bindparameter (one 58) false (APush st_bindparam)). Qed.

Lemma lex_param_end st stk c s : c = c_comma \/ c = c_rbrace ->
  L (3 :: st :: stk) None (c :: s) = option_map (cons (n_bindparameterend, [c])) (L (st :: stk) None s).
Proof. intros [-> | ->]; single (mkrule n_bindparameterend [(44,44); (125,125)]%N false APop). Qed.

Lemma lex_regex_open stk s :
  L (3 :: stk) None (c_slash :: s) = option_map (cons (n_bpregexvalue, [c_slash])) (L (4 :: 3 :: stk) None s).
Proof. single (mkrule n_bpregexvalue (one 47) false (APush st_regexval)). Qed.

Lemma lex_regex_close st stk s :
  L (4 :: st :: stk) None (c_slash :: s) = option_map (cons (n_regexend, [c_slash])) (L (st :: stk) None s).
Proof. single (mkrule n_regexend (one 47) false APop). Qed.
