(* A generic first-match stateful lexer (the semantics of participle's lexer.New for the rule shapes
   used by internal/route/parser.go): a stack of states; in the state on top, the rules are tried in
   order; a rule is a byte class, matched once or greedily ("+"); it may push a state or pop. *)
Require Import Base.

Inductive action := ANone | APush (st : nat) | APop.

Record rule := mkrule { r_name : str; r_cls : list (N * N); r_plus : bool; r_act : action }.

Definition table := list (list rule).          (* indexed by state; includes already inlined *)

Definition token := (str * str)%type.            (* (type name, text) *)

Definition in_cls (c : N) (k : list (N * N)) : bool := existsb (fun r => N.leb (fst r) c && N.leb c (snd r)) k.

Definition first_rule (rs : list rule) (c : N) : option rule := find (fun r => in_cls c (r_cls r)) rs.

(* the greedy run of a "+" rule still open: (rule, bytes so far, reversed) *)
Definition pending := option (rule * str).

Definition flush (p : pending) : list token :=
  match p with Some (r, acc) => [(r_name r, rev acc)] | None => [] end.

Definition apply_action (a : action) (stack : list nat) : option (list nat) :=
  match a with
  | ANone => Some stack
  | APush st => Some (st :: stack)
  | APop => match stack with _ :: (_ :: _) as rest => Some rest | _ => None end
  end.

(* starting a token at byte c in the state on top of [stack]; [rec] is the lexer on the rest of the
   input; [pre] are tokens completed just before *)
Definition start_with (tbl : table) (rec : list nat -> pending -> option (list token)) (c : N)
           (stack : list nat) (pre : list token) : option (list token) :=
  match stack with
  | [] => None
  | st :: _ =>
      match first_rule (nth st tbl []) c with
      | None => None                                             (* invalid input text *)
      | Some r =>
          if r_plus r then
            match rec stack (Some (r, [c])) with Some ts => Some (pre ++ ts) | None => None end
          else
            match apply_action (r_act r) stack with
            | None => None
            | Some stack' =>
                match rec stack' None with
                | Some ts => Some (pre ++ (r_name r, [c]) :: ts)
                | None => None
                end
            end
      end
  end.

(* one byte at a time; the state only changes when a token is complete *)
Fixpoint lex_from (tbl : table) (stack : list nat) (p : pending) (s : str) {struct s} : option (list token) :=
  match s with
  | [] => Some (flush p)
  | c :: s' =>
      let rec := fun stack0 p0 => lex_from tbl stack0 p0 s' in
      match p with
      | Some (r, acc) =>
          if in_cls c (r_cls r) then lex_from tbl stack (Some (r, c :: acc)) s'
          else match apply_action (r_act r) stack with
               | Some stack' => start_with tbl rec c stack' [(r_name r, rev acc)]
               | None => None
               end
      | None => start_with tbl rec c stack []
      end
  end.

Definition lex (tbl : table) (s : str) : option (list token) := lex_from tbl [0] None s.

(* ---- the rule table of internal/route/parser.go, written by hand; gen/SourceFacts.v is regenerated
   from the Go source on every run and must be equal to it (Props/C06.v) ---- *)
Definition st_root := 0. Definition st_segment := 1. Definition st_bind := 2.
Definition st_bindparam := 3. Definition st_regexval := 4.

Definition n_ident : str := [73;100;101;110;116]%N.
Definition n_whitespace : str := [87;104;105;116;101;115;112;97;99;101]%N.
Definition n_segment : str := [83;101;103;109;101;110;116]%N.
Definition n_optional : str := [79;112;116;105;111;110;97;108]%N.
Definition n_bind : str := [66;105;110;100]%N.
Definition n_bindend : str := [66;105;110;100;69;110;100]%N.
Definition n_bindparameter : str := [66;105;110;100;80;97;114;97;109;101;116;101;114]%N.
Definition n_bindparameterend : str := n_bindparameter ++ [69;110;100]%N.
Definition n_bpregexvalue : str := n_bindparameter ++ [82;101;103;101;120;86;97;108;117;101]%N.
Definition n_regex : str := [82;101;103;101;120]%N.
Definition n_regexend : str := [82;101;103;101;120;69;110;100]%N.

(* [a-zA-Z0-9\-._~@!$&'()*+;%=] as sorted disjoint ranges *)
Definition ident_cls : list (N * N) :=
  [(33,33); (36,43); (45,46); (48,57); (59,59); (61,61); (64,90); (95,95); (97,122); (126,126)]%N.
(* [a-zA-Z0-9*\-+._,?()\[\]{} \\\|] *)
Definition regex_cls : list (N * N) :=
  [(32,32); (40,46); (48,57); (63,63); (65,93); (95,95); (97,125)]%N.
(* \s *)
Definition ws_cls : list (N * N) := [(9,10); (12,13); (32,32)]%N.

Definition one (c : N) : list (N * N) := [(c, c)].

Definition common : list rule :=
  [mkrule n_ident ident_cls true ANone; mkrule n_whitespace ws_cls false ANone].

Definition std_table : table :=
  [ (* Root *)          [mkrule n_segment (one 47) false (APush st_segment)];
    (* Segment *)       common ++ [mkrule n_optional (one 63) false ANone;
                                   mkrule n_bind (one 123) false (APush st_bind);
                                   mkrule n_segment (one 47) false (APush st_segment)];
    (* Bind *)          common ++ [mkrule n_bindparameter (one 58) false (APush st_bindparam);
                                   mkrule n_bind (one 123) false (APush st_bind);
                                   mkrule n_bindend (one 125) false APop;
                                   mkrule n_segment (one 47) false (APush st_segment)];
    (* BindParameter *) common ++ [mkrule n_bpregexvalue (one 47) false (APush st_regexval);
                                   mkrule n_bindparameterend [(44,44); (125,125)]%N false APop];
    (* BindParameterRegexValue *)
                        [mkrule n_regex regex_cls true ANone; mkrule n_regexend (one 47) false APop] ].
