(* Facts about the generic lexer: it only cuts the input into pieces. *)
Require Import Base Lexer.

Definition pending_text (p : pending) : str := match p with Some (_, acc) => rev acc | None => [] end.

Lemma lex_from_text tbl : forall s stack p ts,
  lex_from tbl stack p s = Some ts -> concat (map snd ts) = pending_text p ++ s.
Proof.
  induction s as [|c s IH]; intros stack p ts H; cbn [lex_from] in H.
  - inversion H; subst. destruct p as [[r acc]|]; cbn; rewrite ?app_nil_r; reflexivity.
  - assert (START : forall stack0 pre ts0,
      start_with tbl (fun stack1 p1 => lex_from tbl stack1 p1 s) c stack0 pre = Some ts0 ->
      concat (map snd ts0) = concat (map snd pre) ++ c :: s).
    { intros stack0 pre ts0 H0. unfold start_with in H0. destruct stack0 as [|st rest]; [discriminate|].
      destruct (first_rule (nth st tbl []) c) as [r|]; [|discriminate].
      destruct (r_plus r).
      - destruct (lex_from tbl (st :: rest) (Some (r, [c])) s) as [ts1|] eqn:E; [|discriminate].
        inversion H0; subst. rewrite map_app, concat_app. f_equal. apply IH in E. exact E.
      - destruct (apply_action (r_act r) (st :: rest)) as [stack'|]; [|discriminate].
        destruct (lex_from tbl stack' None s) as [ts1|] eqn:E; [|discriminate].
        inversion H0; subst. rewrite map_app, concat_app. f_equal. cbn. f_equal. apply IH in E. exact E. }
    destruct p as [[r acc]|].
    + destruct (in_cls c (r_cls r)).
      * apply IH in H. cbn [pending_text] in *. cbn [rev] in H. rewrite <- app_assoc in H. exact H.
      * destruct (apply_action (r_act r) stack) as [stack'|]; [|discriminate].
        apply START in H. cbn in H. rewrite app_nil_r in H. exact H.
    + apply START in H. exact H.
Qed.

(* the concatenation of the token texts is the input *)
Theorem lex_text tbl s ts : lex tbl s = Some ts -> concat (map snd ts) = s.
Proof. intros H. apply lex_from_text in H. exact H. Qed.
