(* Facts about the generic lexer: it only cuts the input into pieces. *)
Require Import Base Lexer.

Definition pending_text (p : pending) : str := match p with Some (_, acc) => rev acc | None => [] end.

Lemma lex_from_text tbl : forall s stack p ts,
  lex_from tbl stack p s = Some ts -> concat (map snd ts) = pending_text p ++ s.
Proof.
  induction s as [|c s IH]; intros stack p ts H; cbn [lex_from] in H.
  - inversion H; subst. destruct p as [[r acc]|]; cbn; rewrite ?app_nil_r; reflexivity.
  - assert (START : forall stack0 pre ts0,
      match stack0 with
      | [] => None
      | st :: _ =>
          match first_rule (nth st tbl []) c with
          | None => None
          | Some r =>
              if r_plus r then
                match lex_from tbl stack0 (Some (r, [c])) s with Some ts => Some (pre ++ ts) | None => None end
              else
                match apply_action (r_act r) stack0 with
                | None => None
                | Some stack' =>
                    match lex_from tbl stack' None s with
                    | Some ts => Some (pre ++ (r_name r, [c]) :: ts)
                    | None => None
                    end
                end
          end
      end = Some ts0 -> concat (map snd ts0) = concat (map snd pre) ++ c :: s).
    { intros stack0 pre ts0 H0. destruct stack0 as [|st rest]; [discriminate|].
      destruct (first_rule (nth st tbl []) c) as [r|]; [|discriminate].
      destruct (r_plus r).
      - destruct (lex_from tbl (st :: rest) (Some (r, [c])) s) as [ts1|] eqn:E; [|discriminate].
        inversion H0; subst. rewrite map_app, concat_app. f_equal. apply IH in E. exact E.
      - destruct (apply_action (r_act r) (st :: rest)) as [stack'|]; [|discriminate].
        destruct (lex_from tbl stack' None s) as [ts1|] eqn:E; [|discriminate].
        inversion H0; subst. rewrite map_app, concat_app. f_equal. cbn. f_equal. apply IH in E. exact E. }
    destruct p as [[r acc]|].
    + destruct (in_cls c (r_cls r)).
      * apply IH in H. cbn [pending_text] in *. cbn [rev] in H. rewrite <- app_assoc in H. exact H.
      * destruct (apply_action (r_act r) stack) as [stack'|]; [|discriminate].
        apply START in H. cbn in H. rewrite app_nil_r in H. exact H.
    + apply START in H. exact H.
Qed.

(* the concatenation of the token texts is the input *)
Theorem lex_text tbl s ts : lex tbl s = Some ts -> concat (map snd ts) = s.
Proof. intros H. apply lex_from_text in H. exact H. Qed.
