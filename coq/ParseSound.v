(* Soundness of the route parser for the documented grammar: whatever lexes and parses is the spelling
   of a derivation whose AST is the parser's result. *)
Require Import Base Route Lexer LexerProofs LexSteps LexChain Parser Unparse UnparseProofs.

Notation C := (chain std_table).
Definition V (ts : list token) : list str := map snd ts.

Lemma V_cons t ts : V (t :: ts) = snd t :: V ts.
Proof. reflexivity. Qed.
Lemma V_app a b : V (a ++ b) = V a ++ V b.
Proof. apply map_app. Qed.

Lemma is_val_eq t c : is_val t c = true -> snd t = [c].
Proof. unfold is_val, tval. apply str_eqb_eq. Qed.
Lemma is_type_eq t n : is_type t n = true -> fst t = n.
Proof. unfold is_type, ttype. apply str_eqb_eq. Qed.

Lemma chain_or (X : list nat) ts :
  (ts = [] \/ exists stack', Some X = Some stack' /\ C stack' ts) -> C X ts.
Proof. intros [-> | (s' & E & H)]; [constructor | inversion E; subst; exact H]. Qed.

(* a single-byte token whose byte is known *)
Lemma chain_val st stk t ts c r0 :
  C (st :: stk) (t :: ts) -> snd t = [c] -> first_rule (nth st std_table []) c = Some r0 ->
  ts = [] \/ exists stack', apply_action (r_act r0) (st :: stk) = Some stack' /\ C stack' ts.
Proof.
  intros H E F. apply chain_inv in H as (r & _ & F' & _ & _ & _ & _ & H). rewrite E in F'. unfold first_byte in F'. cbn [hd] in F'.
  rewrite F in F'. inversion F'; subst. exact H.
Qed.

Lemma chain_val_none st stk t ts c :
  C (st :: stk) (t :: ts) -> snd t = [c] -> first_rule (nth st std_table []) c = None -> False.
Proof.
  intros H E F. apply chain_inv in H as (r & _ & F' & _). rewrite E in F'. unfold first_byte in F'. cbn [hd] in F'. congruence.
Qed.

(* an Ident token *)
Lemma chain_ident st stk t ts : identst st -> C (st :: stk) (t :: ts) -> is_type t n_ident = true ->
  is_ident (snd t) /\ C (st :: stk) ts /\ match ts with t2 :: _ => not_start ident_cls (snd t2) | [] => True end.
Proof.
  intros S H T. apply is_type_eq in T. apply chain_inv in H as (r & N & F & Hne & Ha & _ & Hm & H).
  rewrite T in N. apply first_rule_in in F as [HIn _].
  assert (R : r = mkrule n_ident ident_cls true ANone).
  { destruct S as [-> | [-> | ->]]; cbn in HIn;
      repeat (destruct HIn as [<- | HIn]; [try reflexivity; cbn in N; discriminate|]); destruct HIn. }
  subst r. cbn in *. split; [split; assumption|]. split; [|apply Hm; reflexivity].
  apply chain_or. destruct H as [-> | (s' & E & H)]; [left; reflexivity | right; eauto].
Qed.

Lemma chain_regex stk t ts : C (4 :: stk) (t :: ts) -> is_type t n_regex = true ->
  is_regex_text (snd t) /\ C (4 :: stk) ts.
Proof.
  intros H T. apply is_type_eq in T. apply chain_inv in H as (r & N & F & Hne & Ha & _ & Hm & H).
  rewrite T in N. apply first_rule_in in F as [HIn _].
  assert (R : r = mkrule n_regex regex_cls true ANone).
  { cbn in HIn. repeat (destruct HIn as [<- | HIn]; [try reflexivity; cbn in N; discriminate|]). destruct HIn. }
  subst r. cbn in *. split; [split; assumption|].
  apply chain_or. destruct H as [-> | (s' & E & H)]; [left; reflexivity | right; eauto].
Qed.

Lemma V_ws k : V (ws_tokens k) = repeat [c_space] k.
Proof. induction k; cbn; [|rewrite <- IHk]; reflexivity. Qed.

Lemma skip_blanks_inv st stk : identst st -> forall ts, C (st :: stk) ts ->
  exists k, V ts = V (ws_tokens k) ++ V (skip_blanks ts) /\ C (st :: stk) (skip_blanks ts).
Proof.
  intros S. induction ts as [|t ts IH]; intros H.
  - exists 0. split; [reflexivity | exact H].
  - cbn [skip_blanks]. destruct (is_val t c_space) eqn:B.
    + apply is_val_eq in B.
      assert (H' : C (st :: stk) ts).
      { apply chain_or. eapply (chain_val st stk t ts c_space (mkrule n_whitespace ws_cls false ANone)); eauto.
        destruct S as [-> | [-> | ->]]; reflexivity. }
      destruct (IH H') as (k & E & Hc). exists (Datatypes.S k). split; [|exact Hc].
      cbn [ws_tokens repeat V map app]. rewrite B. f_equal. exact E.
    + exists 0. split; [reflexivity | exact H].
Qed.

(* ---------------- BindParameter ---------------- *)
Definition lit_next (v : pval) (rest : list token) : Prop :=
  match v with
  | VLit _ => match rest with t2 :: _ => not_start ident_cls (snd t2) | [] => True end
  | VRegex _ => True
  end.

Lemma parse_param_inv stk ts n v rest : parse_param ts = Some ((n, v), rest) -> C (2 :: stk) ts ->
  exists k, is_ident n /\ wf_pval v /\
    V ts = V (tokens_of_param_core (mksp n v k 0)) ++ V rest /\ C (3 :: 2 :: stk) rest /\ lit_next v rest.
Proof.
  intros P H. destruct ts as [|t1 [|t2 rest0]]; try discriminate. cbn [parse_param] in P.
  destruct (is_type t1 n_ident) eqn:T1; [|discriminate]. destruct (is_val t2 c_colon) eqn:V2; [|discriminate]. cbn [andb] in P.
  destruct (chain_ident 2 stk t1 (t2 :: rest0)) as (I1 & H1 & _); [right; left; reflexivity | exact H | exact T1 |].
  apply is_val_eq in V2.
  assert (H2 : C (3 :: 2 :: stk) rest0).
  { apply chain_or. exact (chain_val 2 stk t2 rest0 c_colon (mkrule n_bindparameter (one 58) false (APush st_bindparam)) H1 V2 eq_refl). }
  destruct (skip_blanks_inv 3 (2 :: stk) (or_intror (or_intror eq_refl)) rest0 H2) as (k & EV & H3).
  destruct (skip_blanks rest0) as [|v0 rest'] eqn:SB; [discriminate|].
  assert (HEAD : V (t1 :: t2 :: rest0) = [snd t1; [c_colon]] ++ V (ws_tokens k) ++ V (v0 :: rest')).
  { cbn [V map app]. rewrite V2. f_equal. f_equal. exact EV. }
  destruct (is_type v0 n_ident) eqn:T0.
  - inversion P; subst n v rest. exists k.
    destruct (chain_ident 3 (2 :: stk) v0 rest' (or_intror (or_intror eq_refl)) H3 T0) as (I0 & H4 & M).
    split; [exact I1|]. split; [exact I0|]. split; [|split; [exact H4 | exact M]].
    rewrite HEAD. unfold tokens_of_param_core. cbn [sp_name sp_val sp_colon tokens_of_pval]. unfold V. rewrite !map_app. cbn [map app snd tok].
    rewrite <- !app_assoc. reflexivity.
  - destruct (is_val v0 c_slash) eqn:V0; [|discriminate]. apply is_val_eq in V0.
    destruct rest' as [|re [|cl rest'']]; try discriminate.
    destruct (is_type re n_regex) eqn:TR; [|discriminate]. destruct (is_val cl c_slash) eqn:VC; [|discriminate]. cbn [andb] in P.
    inversion P; subst n v rest. exists k. apply is_val_eq in VC.
    assert (H4 : C (4 :: 3 :: 2 :: stk) (re :: cl :: rest'')).
    { apply chain_or. exact (chain_val 3 (2 :: stk) v0 _ c_slash (mkrule n_bpregexvalue (one 47) false (APush st_regexval)) H3 V0 eq_refl). }
    destruct (chain_regex _ re _ H4 TR) as (IR & H5).
    assert (H6 : C (3 :: 2 :: stk) rest'').
    { apply chain_or. exact (chain_val 4 (3 :: 2 :: stk) cl rest'' c_slash (mkrule n_regexend (one 47) false APop) H5 VC eq_refl). }
    split; [exact I1|]. split; [exact IR|]. split; [|split; [exact H6 | exact I]].
    rewrite HEAD. unfold tokens_of_param_core. cbn [sp_name sp_val sp_colon tokens_of_pval]. unfold V. rewrite !map_app. cbn [map app snd tok].
    rewrite V0, VC. rewrite <- !app_assoc. reflexivity.
Qed.

Lemma parse_param_state3 stk ts : C (3 :: stk) ts -> parse_param ts = None.
Proof.
  intros H. destruct ts as [|t1 [|t2 rest0]]; try reflexivity. cbn [parse_param].
  destruct (is_type t1 n_ident) eqn:T1; [|reflexivity]. destruct (is_val t2 c_colon) eqn:V2; [|reflexivity]. exfalso.
  destruct (chain_ident 3 stk t1 (t2 :: rest0)) as (_ & H1 & _); [right; right; reflexivity | exact H | exact T1 |].
  apply is_val_eq in V2. exact (chain_val_none 3 stk t2 rest0 c_colon H1 V2 eq_refl).
Qed.

Lemma more_params_inv stk : forall fuel ts ps r, more_params fuel ts = (ps, r) -> C (3 :: 2 :: stk) ts ->
  exists sps, map erase_param sps = ps /\ Forall wf_param ps /\
    V ts = V (tokens_of_more sps) ++ V r /\ C (3 :: 2 :: stk) r.
Proof.
  induction fuel as [|f IH]; intros ts ps r M H.
  - cbn in M. inversion M; subst. exists []. repeat split; auto.
  - cbn [more_params] in M. destruct ts as [|t rest]; [inversion M; subst; exists []; repeat split; auto|].
    destruct (is_val t c_comma) eqn:VC; [|inversion M; subst; exists []; repeat split; auto].
    apply is_val_eq in VC.
    assert (H1 : C (2 :: stk) rest).
    { apply chain_or. exact (chain_val 3 (2 :: stk) t rest c_comma (mkrule n_bindparameterend [(44,44); (125,125)]%N false APop) H VC eq_refl). }
    destruct (skip_blanks_inv 2 stk (or_intror (or_introl eq_refl)) rest H1) as (k & EV & H2).
    destruct (parse_param (skip_blanks rest)) as [[[n v] rest']|] eqn:PP; [|inversion M; subst; exists []; repeat split; auto].
    destruct (more_params f rest') as [ps1 r1] eqn:MP. inversion M; subst ps r.
    destruct (parse_param_inv stk _ n v rest' PP H2) as (kc & I1 & I2 & EV2 & H3 & _).
    destruct (IH rest' ps1 r1 MP H3) as (sps & Es & Ws & EV3 & H4).
    exists (mksp n v kc k :: sps). split; [cbn; rewrite Es; reflexivity|]. split; [constructor; [split; assumption | exact Ws]|].
    split; [|exact H4].
    cbn [V map]. rewrite VC. fold (V rest). rewrite EV, EV2, EV3.
    cbn [tokens_of_more]. unfold V. rewrite !map_app. cbn [map app snd tok sp_comma].
    unfold tokens_of_param_core. cbn [sp_name sp_val sp_colon]. rewrite <- !app_assoc. reflexivity.
Qed.

Lemma param_groups_state3 stk fuel ts : C (3 :: stk) ts -> param_groups fuel ts = ([], ts).
Proof. intros H. destruct fuel; [reflexivity|]. cbn [param_groups]. rewrite (parse_param_state3 stk ts H). reflexivity. Qed.

Lemma param_groups_inv stk fuel ts p ps r : param_groups fuel ts = (p :: ps, r) -> C (2 :: stk) ts ->
  exists sp sps, map erase_param (sp :: sps) = p :: ps /\ Forall wf_param (p :: ps) /\
    V ts = V (tokens_of_params (sp :: sps)) ++ V r /\ C (3 :: 2 :: stk) r.
Proof.
  intros G H. destruct fuel as [|f]; [discriminate|]. cbn [param_groups] in G.
  destruct (parse_param ts) as [[[n v] rest]|] eqn:PP; [|discriminate].
  destruct (more_params (length rest) rest) as [ps1 r1] eqn:MP.
  destruct (parse_param_inv stk ts n v rest PP H) as (kc & I1 & I2 & EV & H1 & _).
  destruct (more_params_inv stk _ _ _ _ MP H1) as (sps & Es & Ws & EV2 & H2).
  rewrite (param_groups_state3 (2 :: stk) f r1 H2) in G. rewrite app_nil_r in G. inversion G; subst p ps r.
  exists (mksp n v kc 0), sps. split; [cbn; rewrite Es; reflexivity|]. split; [constructor; [split; assumption | exact Ws]|].
  split; [|exact H2]. rewrite EV, EV2. cbn [tokens_of_params]. unfold V. rewrite !map_app. rewrite <- !app_assoc. reflexivity.
Qed.

(* ---------------- SegmentElement ---------------- *)
Definition ident_next (e : elem) (rest : list token) : Prop :=
  match e with
  | EIdent _ => match rest with t2 :: _ => not_start ident_cls (snd t2) | [] => True end
  | _ => True
  end.

Lemma parse_elem_inv stack ts e rest : parse_elem ts = Some (e, rest) -> C stack ts -> segtop stack ->
  exists se stack', erase_elem se = e /\ wf_elem e /\ V ts = V (tokens_of_elem se) ++ V rest /\
    C stack' rest /\ segtop stack' /\ ident_next e rest.
Proof.
  intros P H S. destruct stack as [|st stk]; [destruct S|]. cbn [segtop] in S.
  destruct ts as [|t rest0]; [discriminate|]. cbn [parse_elem] in P.
  destruct (is_type t n_ident) eqn:T.
  - inversion P; subst e rest.
    destruct (chain_ident st stk t rest0) as (I & H1 & M); [destruct S; [left | right; left]; assumption | exact H | exact T |].
    exists (SIdent (snd t)), (st :: stk). unfold tval. split; [reflexivity|]. split; [exact I|]. split; [reflexivity|]. split; [exact H1|]. split; [exact S | exact M].
  - destruct (is_val t c_lbrace) eqn:VB; [|discriminate]. apply is_val_eq in VB.
    assert (H1 : C (2 :: st :: stk) rest0).
    { apply chain_or. destruct S as [-> | ->];
        exact (chain_val _ stk t rest0 c_lbrace (mkrule n_bind (one 123) false (APush st_bind)) H VB eq_refl). }
    destruct rest0 as [|i [|cl rest']]; try discriminate.
    destruct (is_type i n_ident && is_val cl c_rbrace) eqn:BI.
    + apply andb_prop in BI as [TI VC]. inversion P; subst e rest. apply is_val_eq in VC.
      destruct (chain_ident 2 (st :: stk) i (cl :: rest')) as (I & H2 & _); [right; left; reflexivity | exact H1 | exact TI |].
      assert (H3 : C (st :: stk) rest').
      { apply chain_or. exact (chain_val 2 (st :: stk) cl rest' c_rbrace (mkrule n_bindend (one 125) false APop) H2 VC eq_refl). }
      exists (SBind (snd i)), (st :: stk). unfold tval. split; [reflexivity|]. split; [exact I|].
      split; [|split; [exact H3 | split; [exact S | exact Logic.I]]].
      cbn [V map tokens_of_elem tok snd app]. rewrite VB, VC. reflexivity.
    + destruct (param_groups (length (i :: cl :: rest')) (i :: cl :: rest')) as [[|p ps] r] eqn:G; [discriminate|].
      destruct r as [|c2 r']; [discriminate|]. destruct (is_val c2 c_rbrace) eqn:VC; [|discriminate].
      inversion P; subst e rest. apply is_val_eq in VC.
      destruct (param_groups_inv (st :: stk) _ _ p ps _ G H1) as (sp & sps & Es & Ws & EV & H2).
      assert (H3 : C (2 :: st :: stk) r').
      { apply chain_or. exact (chain_val 3 (2 :: st :: stk) c2 r' c_rbrace (mkrule n_bindparameterend [(44,44); (125,125)]%N false APop) H2 VC eq_refl). }
      exists (SParams (sp :: sps)), (2 :: st :: stk). split; [cbn [erase_elem]; rewrite Es; reflexivity|].
      split; [split; [discriminate | exact Ws]|]. split; [|split; [exact H3 | split; [right; reflexivity | exact I]]].
      rewrite (V_cons t), VB, EV. cbn [tokens_of_elem]. rewrite !V_app, (V_cons c2), VC. cbn [V map app snd tok].
      rewrite <- !app_assoc. reflexivity.
Qed.

Lemma V_cons_inv ts x xs : V ts = x :: xs -> exists t ts', ts = t :: ts' /\ snd t = x.
Proof. destruct ts as [|t ts']; [discriminate|]. cbn. intros E. inversion E. eauto. Qed.

Lemma parse_elems_inv : forall fuel ts es r stack, parse_elems fuel ts = (es, r) -> C stack ts -> segtop stack ->
  exists ses stack', map erase_elem ses = es /\ Forall wf_elem es /\ no_adjacent_idents es /\
    V ts = V (tokens_of_elems ses) ++ V r /\ C stack' r /\ segtop stack'.
Proof.
  induction fuel as [|f IH]; intros ts es r stack P H S.
  - cbn in P. inversion P; subst. exists [], stack. repeat split; auto.
  - cbn [parse_elems] in P. destruct (parse_elem ts) as [[e rest]|] eqn:PE; [|inversion P; subst; exists [], stack; repeat split; auto].
    destruct (parse_elems f rest) as [es1 r1] eqn:PS. inversion P; subst es r.
    destruct (parse_elem_inv stack ts e rest PE H S) as (se & stack1 & Ee & We & EV & H1 & S1 & NX).
    destruct (IH rest es1 r1 stack1 PS H1 S1) as (ses & stack2 & Es & Ws & NA & EV2 & H2 & S2).
    exists (se :: ses), stack2. split; [cbn; rewrite Ee, Es; reflexivity|]. split; [constructor; assumption|].
    split; [|split; [|split; assumption]].
    + (* two adjacent literals would be one Ident token *)
      destruct e as [x| |]; try exact NA. destruct es1 as [|[y| |] es2]; try exact NA. exfalso.
      destruct ses as [|[y'| |] ses2]; try discriminate. cbn [map erase_elem] in Es. inversion Es; subst y'.
      unfold tokens_of_elems in EV2. cbn [map concat tokens_of_elem app V snd] in EV2.
      apply V_cons_inv in EV2 as (t2 & ts2 & -> & Et2). unfold ident_next in NX. rewrite Et2 in NX.
      apply Forall_inv in Ws. cbn in Ws. destruct Ws as [Hne Hall]. destruct y as [|c y']; [congruence|].
      unfold not_start in NX. unfold all_in in Hall. cbn [forallb] in Hall. rewrite NX in Hall. discriminate.
    + rewrite EV, EV2. unfold tokens_of_elems. cbn [map concat]. unfold V. rewrite !map_app. rewrite <- !app_assoc. reflexivity.
Qed.

(* ---------------- Segment, Route ---------------- *)
Lemma parse_segment_inv stack ts s r : parse_segment ts = Some (s, r) -> C stack ts -> segstart stack ->
  exists ss stack', erase_seg ss = s /\ wf_segment s /\ V ts = V (tokens_of_seg ss) ++ V r /\ C stack' r /\ segstart stack'.
Proof.
  intros P H S. destruct stack as [|st stk]; [destruct S|]. cbn [segstart] in S.
  destruct ts as [|t rest]; [discriminate|]. cbn [parse_segment] in P.
  destruct (is_val t c_slash) eqn:VS; [|discriminate]. apply is_val_eq in VS.
  assert (H1 : C (1 :: st :: stk) rest).
  { apply chain_or. destruct S as [-> | [-> | ->]];
      exact (chain_val _ stk t rest c_slash (mkrule n_segment (one 47) false (APush st_segment)) H VS eq_refl). }
  set (pr := match rest with
             | q :: rest' => if is_val q c_qmark then (true, rest') else (false, rest)
             | [] => (false, rest)
             end) in P.
  assert (PR : exists opt rest1, pr = (opt, rest1) /\ C (1 :: st :: stk) rest1 /\
               V rest = V (if opt then [tok n_optional c_qmark] else []) ++ V rest1).
  { unfold pr. destruct rest as [|q rest']; [exists false, []; repeat split; auto|].
    destruct (is_val q c_qmark) eqn:VQ.
    - apply is_val_eq in VQ. exists true, rest'. split; [reflexivity|]. split.
      + apply chain_or. exact (chain_val 1 (st :: stk) q rest' c_qmark (mkrule n_optional (one 63) false ANone) H1 VQ eq_refl).
      + cbn. rewrite VQ. reflexivity.
    - exists false, (q :: rest'). repeat split; auto. }
  destruct PR as (opt & rest1 & Epr & H2 & EVq). rewrite Epr in P.
  destruct (parse_elems (length rest1) rest1) as [es r1] eqn:PS. inversion P; subst s r.
  destruct (parse_elems_inv _ _ _ _ _ PS H2 (or_introl eq_refl)) as (ses & stack2 & Es & Ws & NA & EV & H3 & S3).
  exists (mksseg opt ses), stack2. split; [unfold erase_seg; cbn; rewrite Es; reflexivity|].
  split; [split; assumption|]. split; [|split; [exact H3|]].
  - cbn [V map]. rewrite VS. fold (V rest). rewrite EVq, EV. unfold tokens_of_seg. cbn [s_opt s_elems].
    unfold V. rewrite !map_app. cbn [map app snd tok]. rewrite <- !app_assoc. reflexivity.
  - destruct stack2 as [|t2 ?]; [destruct S3|]. cbn in S3 |- *. tauto.
Qed.

Lemma parse_segments_inv : forall fuel ts ss r stack, parse_segments fuel ts = (ss, r) -> C stack ts -> segstart stack ->
  exists sr, erase sr = ss /\ Forall wf_segment ss /\ V ts = V (tokens_of sr) ++ V r.
Proof.
  induction fuel as [|f IH]; intros ts ss r stack P H S.
  - cbn in P. inversion P; subst. exists []. repeat split; auto.
  - cbn [parse_segments] in P. destruct (parse_segment ts) as [[s rest]|] eqn:PSg; [|inversion P; subst; exists []; repeat split; auto].
    destruct (parse_segments f rest) as [ss1 r1] eqn:PS. inversion P; subst ss r.
    destruct (parse_segment_inv stack ts s rest PSg H S) as (sg & stack1 & Es & Ws & EV & H1 & S1).
    destruct (IH rest ss1 r1 stack1 PS H1 S1) as (sr & Er & Wr & EV2).
    exists (sg :: sr). split; [cbn [erase map]; fold (erase sr); rewrite Es, Er; reflexivity|]. split; [constructor; assumption|].
    rewrite EV, EV2. unfold tokens_of. cbn [map concat]. unfold V. rewrite !map_app. rewrite <- !app_assoc. reflexivity.
Qed.

(* SOUNDNESS: an accepted string is the spelling of a derivation whose AST is the result *)
Theorem parse_sound s r : parse s = Some r ->
  wf_route r /\ exists sr, erase sr = r /\ unparse sr = s.
Proof.
  unfold parse, parse_with. destruct (lex std_table s) as [ts|] eqn:LX; [|discriminate]. intros P.
  unfold parse_tokens in P. destruct (parse_segments (length ts) ts) as [ss rr] eqn:PS.
  destruct ss as [|s0 ss]; [discriminate|]. destruct rr; [|discriminate]. inversion P; subst r.
  destruct (parse_segments_inv _ _ _ _ [0] PS (lex_chain std_table s ts LX) (or_introl eq_refl)) as (sr & Er & Wr & EV).
  split; [split; [discriminate | exact Wr]|]. exists sr. split; [exact Er|].
  rewrite app_nil_r in EV. rewrite <- Er in Wr.
  pose proof (lex_text _ _ _ (lex_unparse sr Wr)) as T1. pose proof (lex_text _ _ _ LX) as T2.
  unfold V in EV. rewrite <- T1, <- T2, EV. reflexivity.
Qed.

(* accepted iff derivable *)
Theorem parse_exact s r : parse s = Some r <-> (wf_route r /\ exists sr, erase sr = r /\ unparse sr = s).
Proof.
  split; [apply parse_sound|]. intros (W & sr & <- & <-). apply parse_complete. exact W.
Qed.
