(* The route grammar over tokens, with participle's semantics for this grammar: ordered alternatives,
   greedy repetitions, literal tokens matched by their text, @Ident / @Regex by type, all input must
   be consumed (internal/route/definition.go).  Structurally recursive on the token list via fuel-free
   helper loops: every loop consumes tokens. *)
Require Import Base Route Lexer.

Definition tval (t : token) : str := snd t.
Definition ttype (t : token) : str := fst t.

Definition is_val (t : token) (c : N) : bool := str_eqb (tval t) [c].
Definition is_type (t : token) (n : str) : bool := str_eqb (ttype t) n.

Fixpoint skip_blanks (ts : list token) : list token :=
  match ts with t :: ts' => if is_val t c_space then skip_blanks ts' else ts | [] => [] end.

(* BindParameter = @Ident ':' ' '* ( @Ident | '/' @Regex '/' ) *)
Definition parse_param (ts : list token) : option ((str * pval) * list token) :=
  match ts with
  | t1 :: t2 :: rest =>
      if is_type t1 n_ident && is_val t2 c_colon then
        match skip_blanks rest with
        | v :: rest' =>
            if is_type v n_ident then Some ((tval t1, VLit (tval v)), rest')
            else if is_val v c_slash then
              match rest' with
              | re :: cl :: rest'' =>
                  if is_type re n_regex && is_val cl c_slash then Some ((tval t1, VRegex (tval re)), rest'') else None
              | _ => None
              end
            else None
        | [] => None
        end
      else None
  | _ => None
  end.

(* ( ',' ' '* BindParameter )*  -- greedy, a failed continuation is not consumed *)
Fixpoint more_params (fuel : nat) (ts : list token) : list (str * pval) * list token :=
  match fuel with
  | O => ([], ts)
  | S f =>
      match ts with
      | t :: rest =>
          if is_val t c_comma then
            match parse_param (skip_blanks rest) with
            | Some (p, rest') => let '(ps, r) := more_params f rest' in (p :: ps, r)
            | None => ([], ts)
            end
          else ([], ts)
      | [] => ([], ts)
      end
  end.

(* BindParameters = ( BindParameter ( ',' ' '* BindParameter )* )+ *)
Fixpoint param_groups (fuel : nat) (ts : list token) : list (str * pval) * list token :=
  match fuel with
  | O => ([], ts)
  | S f =>
      match parse_param ts with
      | Some (p, rest) =>
          let '(ps, r) := more_params (length rest) rest in
          let '(qs, r') := param_groups f r in
          (p :: ps ++ qs, r')
      | None => ([], ts)
      end
  end.

(* SegmentElement = @Ident | '{' @Ident '}' | '{' BindParameters '}' *)
Definition parse_elem (ts : list token) : option (elem * list token) :=
  match ts with
  | t :: rest =>
      if is_type t n_ident then Some (EIdent (tval t), rest)
      else if is_val t c_lbrace then
        match rest with
        | i :: cl :: rest' =>
            if is_type i n_ident && is_val cl c_rbrace then Some (EBind (tval i), rest')
            else
              match param_groups (length rest) rest with
              | (p :: ps, r) =>
                  match r with
                  | c2 :: r' => if is_val c2 c_rbrace then Some (EParams (p :: ps), r') else None
                  | [] => None
                  end
              | ([], _) => None
              end
        | _ => None
        end
      else None
  | [] => None
  end.

Fixpoint parse_elems (fuel : nat) (ts : list token) : list elem * list token :=
  match fuel with
  | O => ([], ts)
  | S f =>
      match parse_elem ts with
      | Some (e, rest) => let '(es, r) := parse_elems f rest in (e :: es, r)
      | None => ([], ts)
      end
  end.

(* Segment = '/' '?'? SegmentElement* *)
Definition parse_segment (ts : list token) : option (segment * list token) :=
  match ts with
  | t :: rest =>
      if is_val t c_slash then
        let '(opt, rest1) := match rest with
                             | q :: rest' => if is_val q c_qmark then (true, rest') else (false, rest)
                             | [] => (false, rest)
                             end in
        let '(es, r) := parse_elems (length rest1) rest1 in
        Some (mkseg opt es, r)
      else None
  | [] => None
  end.

(* Route = Segment+ , then end of input *)
Fixpoint parse_segments (fuel : nat) (ts : list token) : list segment * list token :=
  match fuel with
  | O => ([], ts)
  | S f =>
      match parse_segment ts with
      | Some (s, rest) => let '(ss, r) := parse_segments f rest in (s :: ss, r)
      | None => ([], ts)
      end
  end.

Definition parse_tokens (ts : list token) : option route :=
  match parse_segments (length ts) ts with
  | (s :: ss, []) => Some (s :: ss)
  | _ => None
  end.

Definition parse_with (tbl : table) (s : str) : option route :=
  match lex tbl s with Some ts => parse_tokens ts | None => None end.

Definition parse (s : str) : option route := parse_with std_table s.
