(* C01 Dispatch: a route is chosen iff one admits the path, by the documented priority. *)
Require Import Base Regex RegexProofs Route Tree TreeProofs Router RouterProofs RouteSpec.

(* Proved (soundness half of "iff", for every tree whatsoever, every path, every header predicate):
   whatever the matcher returns is a registered root-to-leaf path of the tree that admits the
   request's segments - static segments equal, regex segments matched in full, a placeholder one
   segment, a match-all in the middle >= 1 segments within its capture limit and leaving >= 1, a final
   match-all all remaining segments within its limit - and whose header constraints hold. *)
Theorem C01_dispatch_sound : forall hdr_ok t segs rid ps,
  mtree hdr_ok t segs = Some (rid, ps) ->
  exists ks, In (ks, rid) (paths t) /\ adm ks segs ps /\ hdr_ok rid = true.
Proof. exact mtree_sound. Qed.

Theorem C01_serve_sound : forall st mi path hdrs rid ps,
  serve_tree st (Some mi) path hdrs = Found rid ps ->
  exists t ks raw, nth_error (trees st) mi = Some t /\ In (ks, rid) (paths t) /\
                   adm ks (segs_of path) raw /\ ps = map (fun p => (fst p, decode1 (snd p))) raw.
Proof. exact serve_tree_sound. Qed.

(* the regex layer is exact: the executable matcher accepts a segment iff the expression denotes it *)
Theorem C01_regex_exact : forall r s, full r s <> None <-> matches r s.
Proof. exact full_iff. Qed.

(* C01_dispatch_iff / C01_priority in full - "mtree (tree built by add_route from rs) (segs path) =
   spec_winner rs path" with spec_winner of RouteSpec.v (flat routes, all derivations, lexicographic key
   (fallback, rank, birth, captured) per depth) - is NOT proved yet: completeness needs the
   well-formedness invariant of add_route.  It is evaluated on every generated case by the
   correspondence check (model = implementation = spec_winner); see DESIGN.md. *)

Example C01_example :
  let r1 := [mkseg false [EIdent [97]%N]; mkseg false [EBind [120]%N]] in      (* /a/{x} *)
  let r2 := [mkseg false [EBind [121]%N]; mkseg false [EIdent [98]%N]] in      (* /{y}/b *)
  match add_route (fun _ => None) empty r1 0 with
  | Some t1 => match add_route (fun _ => None) t1 r2 1 with
               | Some t2 => mtree (fun _ => true) t2 [[97]%N; [98]%N] = Some (0, [([120]%N, [98]%N)]) /\
                            spec_winner (fun _ => None) [(0, r1); (1, r2)] (fun _ => true) [[97]%N; [98]%N] = Some 0
               | None => False end
  | None => False end.
Proof. vm_compute. split; reflexivity. Qed.

Redirect "assum/C01.1" Print Assumptions C01_dispatch_sound.
Redirect "assum/C01.2" Print Assumptions C01_serve_sound.
Redirect "assum/C01.3" Print Assumptions C01_regex_exact.
