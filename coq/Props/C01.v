(* C01 Dispatch: a route is chosen iff one admits the path, by the documented priority. *)
Require Import Base Regex RegexProofs Route Tree TreeProofs TreeWf TreeAdd TreeComplete TreeDispatch Router RouterProofs RouteSpec Parser GoodParsed TreeKeys TreeLive TreePriority TreeOrdered TreeCands TreePriorityTop RouterPriority SpecBirth SpecCands SpecPriority SourceFacts.

(* Proved (soundness half of "iff", for every tree whatsoever, every path, every header predicate):
   whatever the matcher returns is a registered root-to-leaf path of the tree that admits the
   request's segments - static segments equal, regex segments matched in full, a placeholder one
   segment, a match-all in the middle >= 1 segments within its capture limit and leaving >= 1, a final
   match-all all remaining segments within its limit - and whose header constraints hold. *)
Theorem C01_dispatch_sound : forall hdr_ok t segs rid ps,
  mtree hdr_ok t segs = Some (rid, ps) ->
  exists ks, In (ks, rid) (paths t) /\ adm ks segs ps /\ hdr_ok rid = true.
Proof. exact mtree_sound. Qed.

Theorem C01_serve_sound : forall st mi path hdrs rid ps,
  serve_tree st (Some mi) path hdrs = Found rid ps ->
  exists t ks raw, nth_error (trees st) mi = Some t /\ In (ks, rid) (paths t) /\
                   adm ks (segs_of path) raw /\ ps = map (fun p => (fst p, decode1 (snd p))) raw.
Proof. exact serve_tree_sound. Qed.

(* the regex layer is exact: the executable matcher accepts a segment iff the expression denotes it *)
Theorem C01_regex_exact : forall r s, full r s <> None <-> matches r s.
Proof. exact full_iff. Qed.

(* C01_dispatch_iff, for every list of registrations that were all accepted (reg_all = Some t: the tree
   is the one the code builds), every path and every header predicate: the matcher returns a route
   iff some registered route, in its long form or - when its last segment is optional - its short
   form, admits the segments and its header constraints hold.  A failure deeper in a preferred branch
   therefore falls back to the next alternative, never to not-found while an admitting route exists.
   [forms r] are the kind lists of the route, each segment classified in the context of the route's
   own earlier segments; [adm] is the declarative admits relation of TreeProofs.v.
   Hypothesis [good]: a class of segment-element lists containing every registered segment on which
   canonical rendering is injective - true of parser output (the parser's canonical form, C06). *)
Theorem C01_dispatch_iff : forall compile (good : list elem -> Prop),
  good [] -> (forall a b, good a -> good b -> render_elems a = render_elems b -> a = b) ->
  forall hdr_ok rs t segs,
  (forall rid r, In (rid, r) rs -> route_good good r) ->
  reg_all compile empty rs = Some t ->
  (mtree hdr_ok t segs <> None <->
   exists rid r l ks ps, In (rid, r) rs /\ forms compile r = Some l /\ In ks l /\ adm ks segs ps /\ hdr_ok rid = true).
Proof. intros compile good G0 Inj. exact (dispatch_iff compile good G0 Inj). Qed.

(* the same for routes the parser produced - no hypothesis left (the class of parser output, C06_exact,
   satisfies [good]) *)
Theorem C01_dispatch_iff_parsed : forall compile hdr_ok rs t segs,
  (forall rid r, In (rid, r) rs -> exists s, parse s = Some r) ->
  reg_all compile empty rs = Some t ->
  (mtree hdr_ok t segs <> None <->
   exists rid r l ks ps, In (rid, r) rs /\ forms compile r = Some l /\ In ks l /\ adm ks segs ps /\ hdr_ok rid = true).
Proof.
  intros compile hdr_ok rs t segs P. apply (dispatch_iff compile pgood pgood_nil pgood_inj).
  intros rid r HIn. destruct (P rid r HIn) as [s Hs]. exact (parsed_good s r Hs).
Qed.

(* ... and the route returned is one of the admitting ones, with the values its pattern captures *)
Theorem C01_dispatch_sound_registered : forall compile (good : list elem -> Prop),
  good [] -> (forall a b, good a -> good b -> render_elems a = render_elems b -> a = b) ->
  forall hdr_ok rs t segs rid ps,
  (forall rid r, In (rid, r) rs -> route_good good r) ->
  reg_all compile empty rs = Some t -> mtree hdr_ok t segs = Some (rid, ps) ->
  exists r l ks, In (rid, r) rs /\ forms compile r = Some l /\ In ks l /\ adm ks segs ps /\ hdr_ok rid = true.
Proof. intros compile good G0 Inj. exact (dispatch_sound compile good G0 Inj). Qed.

(* the invariants registration maintains (children sorted by rank with stable insertion, keys
   distinct, at most one match-all child and it is last) and the exact set of paths it adds *)
Theorem C01_registration_invariant : forall compile (good : list elem -> Prop),
  good [] -> (forall a b, good a -> good b -> render_elems a = render_elems b -> a = b) ->
  forall fuel root t anc aa segs rid t',
  wfo compile good anc aa t -> Forall (fun s => good (elems s)) segs ->
  add_segs compile fuel root t anc aa segs rid = Some t' ->
  wfo compile good anc aa t' /\
  exists l, news compile root anc aa segs = Some l /\
            forall p, In p (paths t') <-> In p (paths t) \/ In p (with_rid rid l).
Proof. intros compile good G0 Inj. exact (add_segs_ok compile good G0 Inj). Qed.

(* PRIORITY.  [cands hdr_ok t segs []] (TreePriority.v) lists every way the request can be matched by a
   route whose constraints hold, each with its priority key: one element per tree depth,
       (fallback, rank, birth, captured)
   - fallback = 1 only for a match-all that ends a route and takes the whole remainder (>= 2 segments): it
     comes after every alternative that continues with further segments;
   - rank: static 1 < regex 2 < placeholder 3 < match-all 4;
   - birth: the least route id registered below that alternative (for a leaf: the route's own id) - route
     ids are handed out in registration order ([increasing]), so among equally ranked alternatives the
     earlier-registered wins ([minrid_least]);
   - captured: the number of segments a match-all in the middle of a route took - fewest first.
   Keys are compared lexicographically from the left ([key_le]).
   For every list of accepted registrations, every path and header predicate:
   (1) a route has a candidate iff one of its registered forms admits the path and its constraints hold -
       the candidates are ALL matches of ALL registered routes;
   (2) the matcher answers with a candidate whose key is least; not-found only when there is none
       (a failure deeper in a preferred branch falls back to the next alternative). *)
Theorem C01_priority : forall compile (good : list elem -> Prop),
  good [] -> (forall a b, good a -> good b -> render_elems a = render_elems b -> a = b) ->
  forall hdr_ok rs t segs,
  (forall rid r, In (rid, r) rs -> route_good good r) -> increasing rs ->
  reg_all compile empty rs = Some t ->
  (forall rid, (exists k, In (k, rid) (cands hdr_ok t segs [])) <->
               exists r l ks ps, In (rid, r) rs /\ forms compile r = Some l /\ In ks l /\ adm ks segs ps /\ hdr_ok rid = true) /\
  match mtree hdr_ok t segs with
  | Some (rid, _) => exists k, In (k, rid) (cands hdr_ok t segs []) /\
                               forall c, In c (cands hdr_ok t segs []) -> key_le k (fst c)
  | None => cands hdr_ok t segs [] = []
  end.
Proof. intros compile good G0 Inj. exact (priority_full compile good G0 Inj). Qed.

(* the same for routes returned by the parser: no hypothesis on segments left *)
Theorem C01_priority_parsed : forall compile hdr_ok rs t segs,
  (forall rid r, In (rid, r) rs -> exists s, parse s = Some r) -> increasing rs ->
  reg_all compile empty rs = Some t ->
  match mtree hdr_ok t segs with
  | Some (rid, _) => exists k, In (k, rid) (cands hdr_ok t segs []) /\
                               forall c, In c (cands hdr_ok t segs []) -> key_le k (fst c)
  | None => forall rid, ~ exists r l ks ps, In (rid, r) rs /\ forms compile r = Some l /\ In ks l /\ adm ks segs ps /\ hdr_ok rid = true
  end.
Proof.
  intros compile hdr_ok rs t segs P Inc H.
  assert (G : forall rid r, In (rid, r) rs -> route_good pgood r).
  { intros rid r HIn. destruct (P rid r HIn) as [s Hs]. exact (parsed_good s r Hs). }
  destruct (priority_full compile pgood pgood_nil pgood_inj hdr_ok rs t segs G Inc H) as [A B].
  destruct (mtree hdr_ok t segs) as [[rid ps]|]; [exact B|].
  intros rid X. apply A in X as (k & Hk). rewrite B in Hk. destruct Hk.
Qed.

(* ... and at the router: in every state reachable by registrations (for distinct methods each) and Headers()
   calls, what is served for a known method is the match of least key among all matches of the routes
   registered for that method whose header constraints hold for this request; not-found only if none *)
Theorem C01_router_priority : forall compile (good : list elem -> Prop),
  good [] -> (forall a b, good a -> good b -> render_elems a = render_elems b -> a = b) ->
  forall st mi path hdrs, reachable_p compile good st ->
  forall t, nth_error (trees st) mi = Some t ->
  let hok := hdr_ok st hdrs in let segs := segs_of path in
  (forall rid, (exists k, In (k, rid) (cands hok t segs [])) <->
     exists r l ks ps, In (rid, r) (mroutes st mi) /\ forms compile r = Some l /\ In ks l /\ adm ks segs ps /\ hok rid = true) /\
  match serve_tree st (Some mi) path hdrs with
  | Found rid _ => exists k, In (k, rid) (cands hok t segs []) /\ forall c, In c (cands hok t segs []) -> key_le k (fst c)
  | NotFound => cands hok t segs [] = []
  end.
Proof. intros compile good G0 Inj. exact (router_priority compile good G0 Inj). Qed.

(* THE DOCUMENTED PRIORITY, READ OVER THE LIST OF ROUTES (independent of the tree).  [spec_winner] enumerates, for
   every registered route (long form, and short form when the last segment is optional) whose header constraints
   hold, every way it admits the path, and gives each the key [(fallback, rank, birth, captured)] per depth:
   fallback = 1 for a match-all ending the route that takes several segments (tried only after every alternative
   that continues), rank = static < regex < placeholder < match-all, birth = the least registration index among
   the routes that share the segment texts so far in the same role (earlier-registered wins among equals),
   captured = the segments a match-all in the middle took (fewest first); the lexicographically least key wins.
   For every list of accepted registrations (ids in registration order), every path and header predicate, that
   route is the one the tree matcher answers, and the matcher answers not-found iff no route admits. *)
Theorem C01_priority_over_routes : forall compile (good : list elem -> Prop),
  good [] -> (forall a b, good a -> good b -> render_elems a = render_elems b -> a = b) ->
  forall hdr_ok rs t segs,
  (forall rid r, In (rid, r) rs -> route_good good r) -> increasing rs ->
  reg_all compile empty rs = Some t ->
  spec_winner compile rs hdr_ok segs = match mtree hdr_ok t segs with Some (rid, _) => Some rid | None => None end.
Proof. intros compile good G0 Inj. exact (spec_priority compile good G0 Inj). Qed.

Theorem C01_priority_over_routes_parsed : forall compile hdr_ok rs t segs,
  (forall rid r, In (rid, r) rs -> exists s, parse s = Some r) -> increasing rs ->
  reg_all compile empty rs = Some t ->
  spec_winner compile rs hdr_ok segs = match mtree hdr_ok t segs with Some (rid, _) => Some rid | None => None end.
Proof.
  intros compile hdr_ok rs t segs P Inc H. apply (spec_priority compile pgood pgood_nil pgood_inj); auto.
  intros rid r HIn. destruct (P rid r HIn) as [s Hs]. exact (parsed_good s r Hs).
Qed.

(* ... and at the router, in every state reachable by registrations and Headers() calls, per method *)
Theorem C01_router_priority_over_routes : forall compile (good : list elem -> Prop),
  good [] -> (forall a b, good a -> good b -> render_elems a = render_elems b -> a = b) ->
  forall st mi path hdrs, reachable_p compile good st ->
  forall t, nth_error (trees st) mi = Some t ->
  spec_winner compile (mroutes st mi) (hdr_ok st hdrs) (segs_of path) =
  match serve_tree st (Some mi) path hdrs with Found rid _ => Some rid | NotFound => None end.
Proof. intros compile good G0 Inj. exact (router_spec_priority compile good G0 Inj). Qed.

(* non-vacuity: three routes admit "/a/b/c" - /{x}/b/c (registered first), /a/{**} and /a/b/c: the static first
   segment beats the earlier placeholder, and below "a" the static continuation beats the match-all *)
Example C01_priority_over_routes_example :
  let r0 := [mkseg false [EBind [120]%N]; mkseg false [EIdent [98]%N]; mkseg false [EIdent [99]%N]] in
  let r1 := [mkseg false [EIdent [97]%N]; mkseg false [EBind [42; 42]%N]] in
  let r2 := [mkseg false [EIdent [97]%N]; mkseg false [EIdent [98]%N]; mkseg false [EIdent [99]%N]] in
  let rs := [(0, r0); (1, r1); (2, r2)] in
  let segs := [[97]; [98]; [99]]%N in
  increasing rs /\
  (exists t, reg_all (fun _ => None) empty rs = Some t /\ option_map fst (mtree (fun _ => true) t segs) = Some 2) /\
  spec_winner (fun _ => None) rs (fun _ => true) segs = Some 2 /\
  spec_winner (fun _ => None) rs (fun rid => negb (Nat.eqb rid 2)) segs = Some 1 /\
  spec_winner (fun _ => None) rs (fun rid => Nat.eqb rid 0) segs = Some 0.
Proof.
  cbv zeta. split; [repeat constructor|]. split; [eexists; split; [vm_compute; reflexivity | vm_compute; reflexivity]|].
  vm_compute. repeat split.
Qed.

(* tie to the source, re-checked on every run against the regenerated gen/SourceFacts.v: the rank the model
   gives a segment style is the position of its matchStyle constant in internal/route/leaf.go *)
Definition style_name (k : kind) : str :=
  match k with
  | KStatic _ => [83; 116; 97; 116; 105; 99]%N
  | KRegex _ => [82; 101; 103; 101; 120]%N
  | KPlace _ => [80; 108; 97; 99; 101; 104; 111; 108; 100; 101; 114]%N
  | KAll _ _ => [65; 108; 108]%N
  end.
Theorem C01_source_styles : length src_match_styles = 5 /\ forall k, nth_error src_match_styles (rank k) = Some (style_name k).
Proof. split; [reflexivity | intros k; destruct k; reflexivity]. Qed.

(* what "birth" is: the least id among the routes registered below *)
Theorem C01_birth_is_least_id : forall t, kpaths t <> [] ->
  In (minrid t) (rids t) /\ forall r, In r (rids t) -> minrid t <= r.
Proof. exact minrid_spec. Qed.

(* the ordering invariant registration maintains: children sorted by (rank, birth), leaves by (rank, id) *)
Theorem C01_ordering_invariant : forall compile (good : list elem -> Prop),
  good [] -> (forall a b, good a -> good b -> render_elems a = render_elems b -> a = b) ->
  forall fuel root t anc aa segs rid t',
  wfo compile good anc aa t -> live t -> ordered t -> Forall (fun s => good (elems s)) segs ->
  (forall p, In p (kpaths t) -> snd p < rid) ->
  add_segs compile fuel root t anc aa segs rid = Some t' -> ordered t'.
Proof. intros compile good G0 Inj. exact (add_segs_ordered compile good G0 Inj). Qed.

(* The brute-force reading of the same order over the list of routes (RouteSpec.spec_winner) is a second,
   independent executable oracle applied to the implementation's answers; its agreement with [cands] is
   evaluated, not proved. *)

Example C01_example :
  let r1 := [mkseg false [EIdent [97]%N]; mkseg false [EBind [120]%N]] in      (* /a/{x} *)
  let r2 := [mkseg false [EBind [121]%N]; mkseg false [EIdent [98]%N]] in      (* /{y}/b *)
  match add_route (fun _ => None) empty r1 0 with
  | Some t1 => match add_route (fun _ => None) t1 r2 1 with
               | Some t2 => mtree (fun _ => true) t2 [[97]%N; [98]%N] = Some (0, [([120]%N, [98]%N)]) /\
                            spec_winner (fun _ => None) [(0, r1); (1, r2)] (fun _ => true) [[97]%N; [98]%N] = Some 0
               | None => False end
  | None => False end.
Proof. vm_compute. split; reflexivity. Qed.

Redirect "assum/C01.9" Print Assumptions C01_dispatch_iff_parsed.
Redirect "assum/C01.10" Print Assumptions C01_priority.
Redirect "assum/C01.11" Print Assumptions C01_priority_parsed.
Redirect "assum/C01.12" Print Assumptions C01_router_priority.
Redirect "assum/C01.13" Print Assumptions C01_priority_over_routes.
Redirect "assum/C01.14" Print Assumptions C01_priority_over_routes_parsed.
Redirect "assum/C01.16" Print Assumptions C01_source_styles.
Redirect "assum/C01.15" Print Assumptions C01_router_priority_over_routes.
Redirect "assum/C01.1" Print Assumptions C01_dispatch_sound.
Redirect "assum/C01.2" Print Assumptions C01_serve_sound.
Redirect "assum/C01.3" Print Assumptions C01_regex_exact.
Redirect "assum/C01.4" Print Assumptions C01_dispatch_iff.
Redirect "assum/C01.5" Print Assumptions C01_registration_invariant.
