(* C02 Bind parameters are exactly what the route pattern captured. *)
Require Import Base Regex RegexProofs Route Tree TreeProofs SegProofs Router RouterProofs TreeAdd UrlPath Inverse Parser ParseSound UnparseProofs.

(* a regex-style segment: the values are the parts of the segment matched by each bind's own
   expression in full, literal pieces match literally (byte for byte), the parts concatenate to the
   segment, and every bind gets the part at its own position (no value belongs to another bind) *)
Theorem C02_regex_segment_values : forall ps s vals,
  group_free ps -> seg_match (KRegex ps) s = Some vals ->
  exists parts, s = concat parts /\ Forall2 piece_adm ps parts /\ vals = part_values ps parts.
Proof. exact seg_values. Qed.

Theorem C02_regex_segment_accepts : forall ps parts,
  Forall2 piece_adm ps parts -> seg_match (KRegex ps) (concat parts) <> None.
Proof. exact seg_accepts. Qed.

(* a placeholder is exactly one segment; static binds nothing *)
Theorem C02_placeholder_value : forall b s, seg_match (KPlace b) s = Some [(b, s)].
Proof. reflexivity. Qed.

(* whole route: the delivered values are those of a derivation of the matched route (adm lists, per
   segment, exactly the values above; a match-all value is the "/"-join of the >= 1 segments it took,
   within its capture limit), percent-decoded once, raw when undecodable *)
Theorem C02_delivered_values : forall st mi path hdrs rid ps,
  serve_tree st (Some mi) path hdrs = Found rid ps ->
  exists t ks raw, nth_error (trees st) mi = Some t /\ In (ks, rid) (paths t) /\
                   adm ks (segs_of path) raw /\ ps = map (fun p => (fst p, decode1 (snd p))) raw.
Proof. exact serve_tree_sound. Qed.

(* consequently substituting the values back into the route reproduces the request path: for every form
   of a registered route and every derivation, with the optional segment iff the form has it *)
Theorem C02_roundtrip : forall compile, (forall src r, compile src = Some r -> gidx r = []) ->
  forall r l ks segs ps, news compile true [] false r = Some l -> In ks l -> adm ks segs ps -> nonfinal_plain r ->
  exists wo, fill ps (route_skel' r wo) = path_text segs.
Proof. exact inverse_own_params. Qed.

(* no value belongs to a different bind: the names along a form are pairwise distinct and are, in order,
   the binds of its kinds *)
Theorem C02_names : forall ks segs ps, adm ks segs ps -> map fst ps = rbinds ks.
Proof. exact adm_names. Qed.

(* the reserved parameter: in the map the handlers get, "route" is the canonical text of the matched route -
   the text that parses back to the route and is its own canonical form - and shadows a bind of that name;
   every other name has the captured value *)
Theorem C02_reserved_route : forall r ps,
  plookup (deliver r ps) s_route = Some (render_route r) /\
  (forall k, k <> s_route -> plookup (deliver r ps) k = plookup ps k) /\
  (forall s, parse s = Some r -> parse (render_route r) = Some r).
Proof.
  intros r ps. split; [apply deliver_route|]. split; [intros k; apply deliver_other|].
  intros s H. apply parse_render. exact (proj1 (parse_sound s r H)).
Qed.

Example C02_example :   (* /{a: /(x|y)z/}-{b: /w+/} on "xz-ww" gives a=xz, b=ww *)
  seg_match (KRegex [PBind [97]%N (Cat (Alt (lit_re [120]%N) (lit_re [121]%N)) (lit_re [122]%N));
                     PLit [45]%N; PBind [98]%N (plus (lit_re [119]%N))]) [120; 122; 45; 119; 119]%N
  = Some [([97]%N, [120; 122]%N); ([98]%N, [119; 119]%N)].
Proof. vm_compute. reflexivity. Qed.

Redirect "assum/C02.1" Print Assumptions C02_regex_segment_values.
Redirect "assum/C02.2" Print Assumptions C02_regex_segment_accepts.
Redirect "assum/C02.3" Print Assumptions C02_delivered_values.
Redirect "assum/C02.4" Print Assumptions C02_roundtrip.
Redirect "assum/C02.9" Print Assumptions C02_reserved_route.
