(* C03 Handler chain: ordered, at-most-once, onion nesting, stops on write or cancel. *)
Require Import Base Return Chain ChainProofs.
From Coq Require Import Sorted.

(* For every handler stack (hs = application middleware ++ group handlers outermost first ++ route
   handlers; optional action), every handler program over {WriteHeader, Write, Next, Cancel, panic,
   return values}, Recovery or an unresolvable handler anywhere, GET or HEAD, dev or prod:
   fuel n+2 suffices (the model never runs out of fuel, i.e. run() terminates) and the recorded trace
   of the whole request is accepted by the judge chain_spec_ok of Chain.v. *)
Theorem C03_trace_accepted : forall hs action head dev apprh,
  valid_cfg hs action = true ->
  match serve hs action head dev apprh with
  | Done s | Panicked _ s => chain_spec_ok hs action (trace s) = true
  | OutOfFuel => False
  end.
Proof. exact serve_accepted. Qed.

(* What acceptance means, for any trace (the model's by the theorem above, the implementation's as
   judged on every run of the check).  The trace records, per scripted handler, Enter (with the
   response status and cancellation it sees) / Exit / Unwind (a panic leaves it) / NextCall / NextRet,
   and Sent when the status line reaches the client (recorded by the wire, not by handlers). *)

(* handlers start strictly in chain order, each at most once *)
Theorem C03_order_at_most_once : forall hs action tr,
  chain_spec_ok hs action tr = true -> StronglySorted lt (enters tr).
Proof. exact accepted_increasing. Qed.

(* never skipping one: if handler i started, every scripted handler before it started too *)
Theorem C03_no_skip : forall hs action tr i k,
  chain_spec_ok hs action tr = true -> In i (enters tr) -> k < i -> scripted hs action k = true -> In k (enters tr).
Proof. exact accepted_no_skip. Qed.

(* the chain advances on its own (a handler starts right after another finished, Sent events aside)
   only if nothing has been written and the request is not cancelled; any other start is the direct
   effect of a Next() call *)
Theorem C03_auto_advance : forall hs action tr pre i st c post,
  chain_spec_ok hs action tr = true -> tr = pre ++ Enter i st c :: post ->
  match last_ctl pre None with
  | Some (Exit _) | Some (Unwind _) => st = 0%Z /\ c = false
  | Some (NextCall _) | None => c = false
  | _ => False
  end.
Proof. exact accepted_auto_advance. Qed.

(* "nothing has been written" is the truth: the status a handler sees is 0 iff no status line has
   reached the client (return values are rendered - and Sent - before the advance test) *)
Theorem C03_truthful_status : forall hs action tr pre i st c post,
  chain_spec_ok hs action tr = true -> tr = pre ++ Enter i st c :: post ->
  (st = 0%Z <-> existsb is_sent pre = false).
Proof. exact accepted_truthful_status. Qed.

(* a handler that calls Next() has the remainder of the chain run - as far as it gets - inside that
   call: once any Next() has returned, a handler can only start if the response has been written
   (so nothing that an unwritten, uncancelled chain still owes can start later); in particular
   further Next() calls do nothing once the chain is exhausted *)
Theorem C03_remainder_inside_next : forall hs action tr pre i st c post,
  chain_spec_ok hs action tr = true -> tr = pre ++ Enter i st c :: post ->
  existsb is_nextret pre = true -> st <> 0%Z.
Proof. exact accepted_remainder_inside_next. Qed.

Theorem C03_never_starts_cancelled : forall hs action tr i st c,
  chain_spec_ok hs action tr = true -> In (Enter i st c) tr -> c = false.
Proof. exact accepted_never_cancelled. Qed.

Theorem C03_one_status_line : forall hs action tr pre post,
  chain_spec_ok hs action tr = true -> tr = pre ++ Sent :: post -> existsb is_sent post = false.
Proof. exact accepted_one_status. Qed.

(* onion nesting is the stack discipline of the judge itself (jstk): Exit/Unwind/NextCall/NextRet of
   handler i are accepted only while i is the innermost running handler, a handler starts only deeper
   than the running one, and acceptance requires the stack to be empty at the end. *)

(* non-vacuity: the stack of finding F5 (h0 calls Next twice, h1 writes) *)
Example C03_example :
  serve [HNormal [ANext; ANext] []; HNormal [AWriteHeader 201] []; HNormal [] []; HNormal [] []] None false true None
  = Done (mkst 3 201 [] false
      [Enter 0 0 false; NextCall 0; Enter 1 0 false; Sent; Exit 1; NextRet 0; NextCall 0; Enter 2 201 false; Exit 2; NextRet 0; Exit 0] None false).
Proof. vm_compute. reflexivity. Qed.

(* a flush commits the status (200) like a write does, whatever the underlying writer can do: the chain does not
   advance past the handler that flushed *)
Example C03_flush_stops_the_chain :
  serve [HNormal [AFlush] []; HNormal [AWriteHeader 404] []] None false true None
  = Done (mkst 1 200 [] false [Enter 0 0 false; Sent; Exit 0] None false).
Proof. vm_compute. reflexivity. Qed.

Redirect "assum/C03.1" Print Assumptions C03_trace_accepted.
Redirect "assum/C03.2" Print Assumptions C03_order_at_most_once.
Redirect "assum/C03.3" Print Assumptions C03_no_skip.
Redirect "assum/C03.4" Print Assumptions C03_auto_advance.
Redirect "assum/C03.5" Print Assumptions C03_never_starts_cancelled.
Redirect "assum/C03.6" Print Assumptions C03_truthful_status.
Redirect "assum/C03.7" Print Assumptions C03_remainder_inside_next.
