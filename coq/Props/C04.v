(* C04 Dependency injection resolves every parameter by type, nearest scope first. *)
Require Import Base Inject InjectProofs.

(* for every type universe (is_iface / implements supplied by reflect), every chain of scopes: *)

(* an exact (valid) registration in a scope is what that scope answers, before any outer scope *)
Theorem C04_exact_nearest : forall is_iface implements s parents t v,
  exact s t = Some v -> value is_iface implements (s :: parents) t = [v].
Proof. exact value_exact_nearest. Qed.

(* no exact registration, interface type: values registered in THAT scope under implementing types,
   before outer scopes are consulted (Go picks any of them: the model answers the whole set) *)
Theorem C04_implementors_before_parent : forall is_iface implements s parents t,
  exact s t = None -> is_iface t = true -> impl_entries implements s t <> [] ->
  (forall e, In e (impl_entries implements s t) -> snd e <> None) ->
  value is_iface implements (s :: parents) t = implementors implements s t.
Proof. exact value_implementors. Qed.

Theorem C04_else_parent : forall is_iface implements s parents t,
  exact s t = None -> (is_iface t = false \/ impl_entries implements s t = []) ->
  value is_iface implements (s :: parents) t = value is_iface implements parents t.
Proof. exact value_falls_to_parent. Qed.

(* an entry that holds an invalid reflect.Value hides nothing in outer scopes ... *)
Theorem C04_invalid_is_absent : forall is_iface implements s parents t,
  lookup s t = Some None -> is_iface t = false ->
  value is_iface implements (s :: parents) t = value is_iface implements parents t.
Proof. exact invalid_is_absent. Qed.

(* ... and the admissible answers in general *)
Theorem C04_admissible : forall is_iface implements s parents t v,
  exact s t = None -> is_iface t = true -> impl_entries implements s t <> [] ->
  (In v (value is_iface implements (s :: parents) t) <->
   (exists e, In e (impl_entries implements s t) /\ snd e = Some v) \/
   ((exists e, In e (impl_entries implements s t) /\ snd e = None) /\ In v (value is_iface implements parents t))).
Proof. exact value_admissible. Qed.

(* a later registration for the same type in the same scope replaces the earlier *)
Theorem C04_replace : forall s k v1 v2, lookup (register (register s k v1) k v2) k = Some (Some v2).
Proof. exact replace_last. Qed.

(* values mapped during a request are visible to that request at once and to no other scope *)
Theorem C04_request_sees_own : forall is_iface implements s app k v,
  value is_iface implements [register s k v; app] k = [v].
Proof. exact request_sees_own. Qed.

Theorem C04_request_local : forall is_iface implements app reqs i k v j t,
  j <> i ->
  match nth_error (upd reqs i (fun s => register s k v)) j, nth_error reqs j with
  | Some s', Some s => value is_iface implements [s'; app] t = value is_iface implements [s; app] t
  | None, None => True
  | _, _ => False
  end /\ value is_iface implements [app] t = value is_iface implements [app] t.
Proof. exact request_local. Qed.

(* Invoke reports an error iff some parameter cannot be resolved, naming the first such type ... *)
Theorem C04_invoke_error : forall is_iface implements scopes params t,
  resolve is_iface implements scopes params = IError t <-> first_unresolved is_iface implements scopes params = Some t.
Proof. exact invoke_error_iff. Qed.

(* ... otherwise the body runs with, for each parameter, an admissible value of that parameter's type *)
Theorem C04_invoke_args : forall is_iface implements scopes params args,
  resolve is_iface implements scopes params = ICall args ->
  length args = length params /\
  forall i t, nth_error params i = Some t ->
    nth_error args i = Some (value is_iface implements scopes t) /\ value is_iface implements scopes t <> [].
Proof. exact invoke_call_args. Qed.

(* plain functions and fast invokers resolve identically *)
Theorem C04_fast_eq : forall is_iface implements scopes params,
  fast_invoke is_iface implements scopes params = call_invoke is_iface implements scopes params.
Proof. exact fast_eq_call. Qed.

Example C04_example :
  (* universe: 0 concrete implementing interface 1; request scope maps 0, application scope maps 1 exactly *)
  let ii := fun t => Nat.eqb t 1 in let im := fun k t => Nat.eqb k 0 && Nat.eqb t 1 in
  value ii im [[(0, Some 7)]; [(1, Some 9)]] 1 = [7] /\ value ii im [[]; [(1, Some 9)]] 1 = [9] /\
  value ii im [[(1, None)]; [(1, Some 9)]] 1 = [9] /\ value ii im [[(2, None)]; [(2, Some 5)]] 2 = [5] /\
  resolve ii im [[(0, Some 7)]] [0; 2; 1] = IError 2.
Proof. vm_compute. repeat split. Qed.

Redirect "assum/C04.1" Print Assumptions C04_implementors_before_parent.
Redirect "assum/C04.2" Print Assumptions C04_request_local.
Redirect "assum/C04.3" Print Assumptions C04_invoke_error.
Redirect "assum/C04.4" Print Assumptions C04_invoke_args.
Redirect "assum/C04.5" Print Assumptions C04_admissible.
