(* C05 Concurrent requests are isolated and free of data races (partial). *)
Require Import Base Conc.

(* For any number of requests and EVERY interleaving of their atomic steps: the private state of each
   request (hence its response) is exactly what it would be had the request been served alone, and
   every once-cell holds nothing or its canonical value (a function of the configuration only). *)
Theorem C05_isolation : forall (cfg local : Type) canonical next_action step_private step_once (c : cfg) init sched i l0,
  nth_error init i = Some l0 ->
  nth_error (snd (run_schedule cfg local canonical next_action step_private step_once c (no_cells, init) sched)) i
    = Some (run_alone cfg local canonical next_action step_private step_once c (count i sched) l0) /\
  cells_ok cfg canonical c (fst (run_schedule cfg local canonical next_action step_private step_once c (no_cells, init) sched)).
Proof. exact isolation_from_start. Qed.

(* This is the logic of "fresh context / params / handler slice / injector scope / writer per request,
   sync.Once-guarded caches".  What the model cannot exhibit: Go memory-model data races (an
   unsynchronised write, slice-capacity aliasing, a map written while serving).  Those are looked for on
   the implementation: every case serves its requests serially on one instance and concurrently (8
   goroutines released by a barrier, lazily initialised state first touched concurrently) on an
   identically built instance under the race detector; responses must be equal, no race reported. *)

Redirect "assum/C05.1" Print Assumptions C05_isolation.
