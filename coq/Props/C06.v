(* C06 Route parser: total, accepts exactly the grammar, canonical form is a fixpoint. *)
Require Import Base Route Lexer LexerProofs LexSteps Parser Grammar Unparse UnparseProofs SourceFacts.

(* --- tie to the source, re-checked on every run against the regenerated gen/SourceFacts.v --- *)
(* the lexer rule table extracted from internal/route/parser.go IS the table the model interprets *)
Theorem C06_source_table : src_table = std_table.
Proof. reflexivity. Qed.

(* the documented classes <char> and <any> of README.md are the lexer's Ident and Regex classes *)
Theorem C06_classes : doc_char_class = ident_cls /\ doc_any_class = regex_cls.
Proof. split; reflexivity. Qed.

(* --- totality: the model is a total function str -> option route (structural recursion, the fuel
   of the parser loops is the number of remaining tokens and every iteration consumes one) --- *)
Theorem C06_total : forall s, (exists r, parse s = Some r) \/ parse s = None.
Proof. intros s. destruct (parse s) as [r|]; [left; eauto | right; reflexivity]. Qed.

(* the lexer only cuts the input: the token texts concatenate to the input string *)
Theorem C06_lexer_preserves_text : forall tbl s ts, lex tbl s = Some ts -> concat (map snd ts) = s.
Proof. exact lex_text. Qed.

(* --- the grammar: derivations (Unparse.v).  A derivation is a route AST plus the number of blanks after
   each ':' and ','; [unparse] is the string it spells; [wf_route] says which ASTs are derivable
   (identifiers non-empty over <char>, regex text non-empty over <any>, non-empty parameter lists, at
   least one segment, no two adjacent literals). --- *)

(* COMPLETENESS: every string of the grammar is accepted, with any spacing, and the parsed structure
   is exactly the derivation's (segments, optional marker, literals, bind names, regex text, parameter
   lists in order) *)
Theorem C06_accepts_every_derivation : forall sr, wf_route (erase sr) -> parse (unparse sr) = Some (erase sr).
Proof. exact parse_complete. Qed.

(* the lexer half of it: a derivation lexes to its token list *)
Theorem C06_lexes_every_derivation : forall sr, Forall wf_segment (erase sr) -> lex std_table (unparse sr) = Some (tokens_of sr).
Proof. exact lex_unparse. Qed.

(* CANONICAL FORM: rendering a derivable AST spells the derivation with one blank after each ':' and
   ',', and parses back to the same AST - so rendering the re-parsed route gives the same string *)
Theorem C06_render_is_canonical_derivation : forall r, Forall wf_segment r -> render_route r = unparse (canon r).
Proof. exact render_is_unparse. Qed.
Theorem C06_canonical_fixpoint : forall r, wf_route r -> parse (render_route r) = Some r.
Proof. exact parse_render. Qed.

(* SOUNDNESS - "parse s = Some r -> wf_route r /\ exists sr, erase sr = r /\ unparse sr = s" - is NOT
   proved yet; it is evaluated on every generated string against the byte-level recogniser
   Grammar.bnf_parse (exhaustively up to a length bound over the token alphabet). *)

Example C06_example :
  let s := [47;123;97;58;32;32;47;120;47;44;98;58;32;42;42;125;47;63;99]%N in   (* "/{a:  /x/,b: **}/?c" *)
  parse s = bnf_parse s /\
  match parse s with
  | Some r => render_route r = [47;123;97;58;32;47;120;47;44;32;98;58;32;42;42;125;47;63;99]%N   (* spacing normalised *)
              /\ parse (render_route r) = Some r
  | None => False
  end.
Proof. vm_compute. repeat split. Qed.

Redirect "assum/C06.1" Print Assumptions C06_source_table.
Redirect "assum/C06.2" Print Assumptions C06_classes.
Redirect "assum/C06.3" Print Assumptions C06_lexer_preserves_text.
Redirect "assum/C06.4" Print Assumptions C06_accepts_every_derivation.
Redirect "assum/C06.5" Print Assumptions C06_canonical_fixpoint.
