(* C06 Route parser: total, accepts exactly the grammar, canonical form is a fixpoint. *)
Require Import Base Route Lexer LexerProofs LexSteps Parser Grammar Unparse UnparseProofs ParseSound GrammarProofs SourceFacts.

(* --- tie to the source, re-checked on every run against the regenerated gen/SourceFacts.v --- *)
(* the lexer rule table extracted from internal/route/parser.go IS the table the model interprets *)
Theorem C06_source_table : src_table = std_table.
Proof. reflexivity. Qed.

(* the documented classes <char> and <any> of README.md are the lexer's Ident and Regex classes *)
Theorem C06_classes : doc_char_class = ident_cls /\ doc_any_class = regex_cls.
Proof. split; reflexivity. Qed.

(* --- totality: the model is a total function str -> option route (structural recursion, the fuel
   of the parser loops is the number of remaining tokens and every iteration consumes one) --- *)
Theorem C06_total : forall s, (exists r, parse s = Some r) \/ parse s = None.
Proof. intros s. destruct (parse s) as [r|]; [left; eauto | right; reflexivity]. Qed.

(* the lexer only cuts the input: the token texts concatenate to the input string *)
Theorem C06_lexer_preserves_text : forall tbl s ts, lex tbl s = Some ts -> concat (map snd ts) = s.
Proof. exact lex_text. Qed.

(* --- the grammar: derivations (Unparse.v).  A derivation is a route AST plus the number of blanks after
   each ':' and ','; [unparse] is the string it spells; [wf_route] says which ASTs are derivable
   (identifiers non-empty over <char>, regex text non-empty over <any>, non-empty parameter lists, at
   least one segment, no two adjacent literals). --- *)

(* COMPLETENESS: every string of the grammar is accepted, with any spacing, and the parsed structure
   is exactly the derivation's (segments, optional marker, literals, bind names, regex text, parameter
   lists in order) *)
Theorem C06_accepts_every_derivation : forall sr, wf_route (erase sr) -> parse (unparse sr) = Some (erase sr).
Proof. exact parse_complete. Qed.

(* the lexer half of it: a derivation lexes to its token list *)
Theorem C06_lexes_every_derivation : forall sr, Forall wf_segment (erase sr) -> lex std_table (unparse sr) = Some (tokens_of sr).
Proof. exact lex_unparse. Qed.

(* CANONICAL FORM: rendering a derivable AST spells the derivation with one blank after each ':' and
   ',', and parses back to the same AST - so rendering the re-parsed route gives the same string *)
Theorem C06_render_is_canonical_derivation : forall r, Forall wf_segment r -> render_route r = unparse (canon r).
Proof. exact render_is_unparse. Qed.
Theorem C06_canonical_fixpoint : forall r, wf_route r -> parse (render_route r) = Some r.
Proof. exact parse_render. Qed.

(* SOUNDNESS: whatever is accepted is the spelling of a derivation whose AST is the result *)
Theorem C06_accepts_only_derivations : forall s r, parse s = Some r ->
  wf_route r /\ exists sr, erase sr = r /\ unparse sr = s.
Proof. exact parse_sound. Qed.

(* EXACTNESS: accepted iff derivable, and the result is the derivation's AST *)
Theorem C06_exact : forall s r, parse s = Some r <-> (wf_route r /\ exists sr, erase sr = r /\ unparse sr = s).
Proof. exact parse_exact. Qed.

(* for every accepted input: the rendering is the same derivation with every spacing set to one blank,
   it parses to the same structure, and so renders to itself *)
Theorem C06_canonical : forall s r, parse s = Some r ->
  (exists sr, unparse sr = s /\ render_route r = unparse (canon (erase sr))) /\
  parse (render_route r) = Some r.
Proof.
  intros s r H. destruct (parse_sound s r H) as (W & sr & E & U). split.
  - exists sr. split; [exact U|]. rewrite E. apply render_is_unparse. exact (proj2 W).
  - apply parse_render. exact W.
Qed.

(* what every run of the lexer looks like (LexChain.v): each token produced by the first rule of the
   current state accepting its first byte, greedy runs maximal, the rule's action giving the next state *)
Theorem C06_lexer_runs_are_chains : forall tbl s ts, lex tbl s = Some ts -> LexChain.chain tbl [0] ts.
Proof. exact LexChain.lex_chain. Qed.

(* Grammar.bnf_parse is the byte-level reading of the BNF (no lexer, no tokens: longest <ident> by [span], blanks
   skipped after ':' and ',') that judges the implementation's accept/reject and AST on every generated
   string.  It accepts exactly the derivations too, so it equals [parse] on every byte string. *)
Theorem C06_bnf_exact : forall s r, bnf_parse s = Some r <-> (wf_route r /\ exists sr, erase sr = r /\ unparse sr = s).
Proof.
  intros s r. split; [apply bnf_sound|]. intros (W & sr & <- & <-). apply bnf_complete. exact W.
Qed.

Theorem C06_parse_is_bnf : forall s, parse s = bnf_parse s.
Proof. exact parse_is_bnf. Qed.

Example C06_example :
  let s := [47;123;97;58;32;32;47;120;47;44;98;58;32;42;42;125;47;63;99]%N in   (* "/{a:  /x/,b: **}/?c" *)
  parse s = bnf_parse s /\
  match parse s with
  | Some r => render_route r = [47;123;97;58;32;47;120;47;44;32;98;58;32;42;42;125;47;63;99]%N   (* spacing normalised *)
              /\ parse (render_route r) = Some r
  | None => False
  end.
Proof. vm_compute. repeat split. Qed.

Redirect "assum/C06.1" Print Assumptions C06_source_table.
Redirect "assum/C06.2" Print Assumptions C06_classes.
Redirect "assum/C06.3" Print Assumptions C06_lexer_preserves_text.
Redirect "assum/C06.4" Print Assumptions C06_accepts_every_derivation.
Redirect "assum/C06.5" Print Assumptions C06_canonical_fixpoint.
Redirect "assum/C06.6" Print Assumptions C06_exact.
Redirect "assum/C06.7" Print Assumptions C06_canonical.
Redirect "assum/C06.8" Print Assumptions C06_parse_is_bnf.
