(* C06 Route parser: total, accepts exactly the grammar, canonical form is a fixpoint. *)
Require Import Base Route Lexer LexerProofs Parser Grammar SourceFacts.

(* --- tie to the source, re-checked on every run against the regenerated gen/SourceFacts.v --- *)
(* the lexer rule table extracted from internal/route/parser.go IS the table the model interprets *)
Theorem C06_source_table : src_table = std_table.
Proof. reflexivity. Qed.

(* the documented classes <char> and <any> of README.md are the lexer's Ident and Regex classes *)
Theorem C06_classes : doc_char_class = ident_cls /\ doc_any_class = regex_cls.
Proof. split; reflexivity. Qed.

(* --- totality: the model is a total function str -> option route (structural recursion, the fuel
   of the parser loops is the number of remaining tokens and every iteration consumes one) --- *)
Theorem C06_total : forall s, (exists r, parse s = Some r) \/ parse s = None.
Proof. intros s. destruct (parse s) as [r|]; [left; eauto | right; reflexivity]. Qed.

(* the lexer only cuts the input: the token texts concatenate to the input string *)
Theorem C06_lexer_preserves_text : forall tbl s ts, lex tbl s = Some ts -> concat (map snd ts) = s.
Proof. exact lex_text. Qed.

(* C06_exact in full - "parse s = bnf_parse s for every byte string s", with bnf_parse the byte-level
   recogniser of the documented BNF (Grammar.v), and C06_canonical "parse (render_route r) = Some r
   for every r in the image of parse" - are NOT proved yet; both are evaluated on every generated
   string (exhaustively up to a length bound over the token alphabet). *)

Example C06_example :
  let s := [47;123;97;58;32;32;47;120;47;44;98;58;32;42;42;125;47;63;99]%N in   (* "/{a:  /x/,b: **}/?c" *)
  parse s = bnf_parse s /\
  match parse s with
  | Some r => render_route r = [47;123;97;58;32;47;120;47;44;32;98;58;32;42;42;125;47;63;99]%N   (* spacing normalised *)
              /\ parse (render_route r) = Some r
  | None => False
  end.
Proof. vm_compute. repeat split. Qed.

Redirect "assum/C06.1" Print Assumptions C06_source_table.
Redirect "assum/C06.2" Print Assumptions C06_classes.
Redirect "assum/C06.3" Print Assumptions C06_lexer_preserves_text.
