(* C07 Serving is total: any request runs exactly one chain, never a routing panic. *)
Require Import Base Regex Route Tree Router RouterProofs TreeIdx SourceFacts.

(* The model of ServeHTTP is a total function from (router state, method, path, headers) to exactly
   one outcome - the chosen route's chain or the not-found chain - for every byte string as path and
   every method token; being a function, repeating a request gives the same outcome. *)
Theorem C07_one_outcome : forall st m path hdrs,
  (exists rid ps, serve st m path hdrs = Found rid ps) \/ serve st m path hdrs = NotFound.
Proof. intros. destruct (serve st m path hdrs) as [rid ps|]; [left; eauto | right; reflexivity]. Qed.

Theorem C07_unknown_method_not_found : forall st path hdrs, serve st None path hdrs = NotFound.
Proof. exact serve_unknown_method. Qed.

(* every path, even empty, has at least one segment, so the matcher's cursor arithmetic starts in range *)
Theorem C07_path_has_segments : forall path, segs_of path <> [].
Proof. exact segs_of_nonempty. Qed.

(* NEVER A ROUTING PANIC.  TreeIdx.v writes the matcher as tree.go / leaf.go do - over the request path and
   a byte index: i := Index(path[next:], "/"); matchLeaf(path[next:]); matchSubtree(path, path[next:next+i],
   next+i+1); the match-all loop extending segment by "/" + path[next:next+i]; the match-all leaf counting
   "/" in path[next-1:] - with every slice expression able to go out of range ([slice] returns None, the
   result is [Panic]).  For every tree whatsoever and every byte string as path it never does, and the
   answer is the one of the segment-level matcher on the split path, which all other theorems are about. *)
Theorem C07_matcher_never_panics : forall hdr_ok t path, match_idx hdr_ok t path <> Panic.
Proof. exact match_idx_no_panic. Qed.

Theorem C07_index_matcher_refines : forall hdr_ok t path,
  match_idx hdr_ok t path = Ok (mtree hdr_ok t (segs_of path)).
Proof. exact match_idx_refines. Qed.

(* at any position inside the path as well (the recursion of matchNextSegment) *)
Theorem C07_index_matcher_refines_at : forall hdr_ok t path next, next <= length path ->
  mnext_idx hdr_ok t path next = Ok (mtree hdr_ok t (split_slash [] (skipn next path))).
Proof. exact mnext_idx_refines. Qed.

(* Modelled rather than verified: that TreeIdx.v transcribes the index arithmetic of the Go code faithfully
   (it agrees with it on every generated request, including the hostile stream, and the implementation is run
   under recover()); type assertions and the regex engine are outside it. *)

(* tie to the source, re-checked on every run against the regenerated gen/SourceFacts.v: the model has one method tree
   per entry of router.go's httpMethods, and those are the nine standard tokens (in whatever order); any other
   token is an unknown method *)
Definition nine_methods : list str := [[71; 69; 84]%N; [80; 79; 83; 84]%N; [80; 85; 84]%N; [68; 69; 76; 69; 84; 69]%N; [80; 65; 84; 67; 72]%N; [79; 80; 84; 73; 79; 78; 83]%N; [72; 69; 65; 68]%N; [67; 79; 78; 78; 69; 67; 84]%N; [84; 82; 65; 67; 69]%N].
Theorem C07_source_methods :
  length src_http_methods = n_methods /\
  (forall m, In m src_http_methods <-> In m nine_methods).
Proof.
  split; [reflexivity|].
  assert (A : forallb (fun m => existsb (str_eqb m) nine_methods) src_http_methods = true) by reflexivity.
  assert (B : forallb (fun m => existsb (str_eqb m) src_http_methods) nine_methods = true) by reflexivity.
  rewrite forallb_forall in A, B. intros m. split; intros H.
  - apply A in H. apply existsb_exists in H as (x & Hx & E). apply str_eqb_eq in E. subst x. exact Hx.
  - apply B in H. apply existsb_exists in H as (x & Hx & E). apply str_eqb_eq in E. subst x. exact Hx.
Qed.

Redirect "assum/C07.1" Print Assumptions C07_one_outcome.
Redirect "assum/C07.2" Print Assumptions C07_path_has_segments.
Redirect "assum/C07.3" Print Assumptions C07_matcher_never_panics.
Redirect "assum/C07.9" Print Assumptions C07_source_methods.
