(* C07 Serving is total: any request runs exactly one chain, never a routing panic. *)
Require Import Base Regex Route Tree Router RouterProofs TreeIdx.

(* The model of ServeHTTP is a total function from (router state, method, path, headers) to exactly
   one outcome - the chosen route's chain or the not-found chain - for every byte string as path and
   every method token; being a function, repeating a request gives the same outcome. *)
Theorem C07_one_outcome : forall st m path hdrs,
  (exists rid ps, serve st m path hdrs = Found rid ps) \/ serve st m path hdrs = NotFound.
Proof. intros. destruct (serve st m path hdrs) as [rid ps|]; [left; eauto | right; reflexivity]. Qed.

Theorem C07_unknown_method_not_found : forall st path hdrs, serve st None path hdrs = NotFound.
Proof. exact serve_unknown_method. Qed.

(* every path, even empty, has at least one segment, so the matcher's cursor arithmetic starts in range *)
Theorem C07_path_has_segments : forall path, segs_of path <> [].
Proof. exact segs_of_nonempty. Qed.

(* NEVER A ROUTING PANIC.  TreeIdx.v writes the matcher as tree.go / leaf.go do - over the request path and
   a byte index: i := Index(path[next:], "/"); matchLeaf(path[next:]); matchSubtree(path, path[next:next+i],
   next+i+1); the match-all loop extending segment by "/" + path[next:next+i]; the match-all leaf counting
   "/" in path[next-1:] - with every slice expression able to go out of range ([slice] returns None, the
   result is [Panic]).  For every tree whatsoever and every byte string as path it never does, and the
   answer is the one of the segment-level matcher on the split path, which all other theorems are about. *)
Theorem C07_matcher_never_panics : forall hdr_ok t path, match_idx hdr_ok t path <> Panic.
Proof. exact match_idx_no_panic. Qed.

Theorem C07_index_matcher_refines : forall hdr_ok t path,
  match_idx hdr_ok t path = Ok (mtree hdr_ok t (segs_of path)).
Proof. exact match_idx_refines. Qed.

(* at any position inside the path as well (the recursion of matchNextSegment) *)
Theorem C07_index_matcher_refines_at : forall hdr_ok t path next, next <= length path ->
  mnext_idx hdr_ok t path next = Ok (mtree hdr_ok t (split_slash [] (skipn next path))).
Proof. exact mnext_idx_refines. Qed.

(* Modelled rather than verified: that TreeIdx.v transcribes the index arithmetic of the Go code faithfully
   (it agrees with it on every generated request, including the hostile stream, and the implementation is run
   under recover()); type assertions and the regex engine are outside it. *)

Redirect "assum/C07.1" Print Assumptions C07_one_outcome.
Redirect "assum/C07.2" Print Assumptions C07_path_has_segments.
Redirect "assum/C07.3" Print Assumptions C07_matcher_never_panics.
