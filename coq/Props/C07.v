(* C07 Serving is total: any request runs exactly one chain, never a routing panic. *)
Require Import Base Regex Route Tree Router RouterProofs.

(* The model of ServeHTTP is a total function from (router state, method, path, headers) to exactly
   one outcome - the chosen route's chain or the not-found chain - for every byte string as path and
   every method token; being a function, repeating a request gives the same outcome. *)
Theorem C07_one_outcome : forall st m path hdrs,
  (exists rid ps, serve st m path hdrs = Found rid ps) \/ serve st m path hdrs = NotFound.
Proof. intros. destruct (serve st m path hdrs) as [rid ps|]; [left; eauto | right; reflexivity]. Qed.

Theorem C07_unknown_method_not_found : forall st path hdrs, serve st None path hdrs = NotFound.
Proof. exact serve_unknown_method. Qed.

(* every path, even empty, has at least one segment, so the matcher's cursor arithmetic starts in range *)
Theorem C07_path_has_segments : forall path, segs_of path <> [].
Proof. exact segs_of_nonempty. Qed.

(* Not modelled: the byte-index arithmetic of tree.go (path[next:], path[next-1:]) - the model works on
   the list of segments; that no slice expression goes out of range is observed on the implementation
   (recover() around ServeHTTP over hostile paths), not proved.  This check is therefore partial. *)

Redirect "assum/C07.1" Print Assumptions C07_one_outcome.
Redirect "assum/C07.2" Print Assumptions C07_path_has_segments.
