(* C08 Registration validated up front. *)
Require Import Base Regex Route Tree TreeProofs TreeWf TreeAdd TreeKeys TreeLive TreeAccept TreeComplete TreeDispatch TreePriorityTop Router RouteSpec ValidSpec.

(* In the model a rejected registration is the value None: the router state is unchanged (nothing is
   half-registered), and acceptance is decided entirely at registration time. *)
Theorem C08_non_final_optional_rejected : forall compile fuel root t anc aa s s2 rest rid,
  optional s = true -> add_segs compile (S fuel) root t anc aa (s :: s2 :: rest) rid = None.
Proof. intros. destruct t. cbn. rewrite H. reflexivity. Qed.

Theorem C08_empty_route_rejected : forall compile t rid, add_route compile t [] rid = None.
Proof. intros. destruct t. reflexivity. Qed.

(* ACCEPTED IFF WELL-FORMED AND FREE OF COLLISIONS (TreeAccept.v).  For every tree that registration can
   have built (invariants [wfo], [live]), every route made of segments of the class [good], a fresh route
   id and enough fuel (add_route supplies length+1): the registration succeeds if and only if
   - every segment classifies in the context of the route's own earlier segments ([knews] is defined:
     each expression compiles, no non-regex value outside a match-all, no bind name reused along the
     route, no inner empty segment, no second match-all before the end),
   - no non-final segment is optional, and
   - none of its forms (the long one; the short one when the last segment is optional) has the segment
     texts of a registered path ([dupk]: same route already registered, incl. short forms), or a match-all
     segment where a registered path with the same texts before it has a DIFFERENT match-all in the same
     role ([clashk]). *)
Theorem C08_accept_iff : forall compile (good : list elem -> Prop),
  good [] -> (forall a b, good a -> good b -> render_elems a = render_elems b -> a = b) ->
  forall fuel root t anc aa segs rid,
  wfo compile good anc aa t -> live t -> Forall (fun s => good (elems s)) segs -> length segs <= fuel ->
  (forall p, In p (kpaths t) -> snd p <> rid) ->
  (add_segs compile (S fuel) root t anc aa segs rid <> None <->
   exists l, knews compile root anc aa segs = Some l /\ nonfinal_plain segs /\ forall f, In f l -> free_of t f).
Proof. intros compile good G0 Inj. exact (accept_iff compile good G0 Inj). Qed.

(* the two invariants are those of every tree built by registrations *)
Theorem C08_invariants_preserved : forall compile (good : list elem -> Prop),
  good [] -> (forall a b, good a -> good b -> render_elems a = render_elems b -> a = b) ->
  forall fuel root t anc aa segs rid t',
  wfo compile good anc aa t -> Forall (fun s => good (elems s)) segs -> live t ->
  add_segs compile fuel root t anc aa segs rid = Some t' ->
  wfo compile good anc aa t' /\ live t' /\
  exists l, knews compile root anc aa segs = Some l /\
            forall p, In p (kpaths t') <-> In p (kpaths t) \/ In p (kwith_rid rid l).
Proof.
  intros compile good G0 Inj fuel root t anc aa segs rid t' W G L H.
  destruct (add_segs_kok compile good G0 Inj _ _ _ _ _ _ _ _ W G H) as (W' & l & N & P).
  split; [exact W'|]. split; [exact (add_segs_live compile good G0 Inj _ _ _ _ _ _ _ _ W G L H)|]. eauto.
Qed.

(* ... and an accepted route is then reachable by its own instances: whatever any of its forms admits is
   dispatched (to it, or to a route of higher priority) *)
Theorem C08_accepted_reachable : forall compile (good : list elem -> Prop),
  good [] -> (forall a b, good a -> good b -> render_elems a = render_elems b -> a = b) ->
  forall hdr_ok fuel root t segs rid t' l ks path ps,
  wfo compile good [] false t -> Forall (fun s => good (elems s)) segs ->
  add_segs compile fuel root t [] false segs rid = Some t' ->
  news compile root [] false segs = Some l -> In ks l -> adm ks path ps -> hdr_ok rid = true ->
  mtree hdr_ok t' path <> None.
Proof.
  intros compile good G0 Inj hdr_ok fuel root t segs rid t' l ks path ps W G H N HIn A Hh.
  destruct (add_segs_ok compile good G0 Inj _ _ _ _ _ _ _ _ W G H) as (W' & l' & N' & P).
  rewrite N in N'. inversion N'; subst l'.
  apply (mtree_complete hdr_ok t' (wfo_wf compile good _ _ _ W') ks rid path ps); auto.
  apply P. right. apply (in_map (fun ks0 : list kind => (ks0, rid))). exact HIn.
Qed.

(* THE SAME ON THE LIST OF ROUTES (ValidSpec.v).  [RouteSpec.valid rs r] states the conditions without any
   tree: r is not empty; no non-final segment is optional or empty; every segment classifies on its own
   (kinds_of); bind names are pairwise distinct along the route; at most one match-all before the end; and
   no form of r (long; short if the last segment is optional) has the texts of a form of a registered route
   (same_texts) or a different match-all at a position where such a form has one in the same role
   (all_clash).  For every list of accepted registrations with ids in registration order and a fresh id:
   the registration is accepted iff [valid] says so.  [valid] is the executable judge applied to the
   implementation's accept/reject of every generated registration. *)
Theorem C08_accept_iff_valid : forall compile (good : list elem -> Prop),
  good [] -> (forall a b, good a -> good b -> render_elems a = render_elems b -> a = b) ->
  forall rs t r rid,
  (forall rid' r', In (rid', r') rs -> route_good good r') -> route_good good r ->
  increasing rs -> (forall rid', In rid' (map fst rs) -> rid' < rid) ->
  reg_all compile empty rs = Some t ->
  (add_route compile t r rid <> None <-> valid compile rs r = true).
Proof. intros compile good G0 Inj. exact (valid_iff_accept compile good G0 Inj). Qed.

Example C08_example :
  let cp := fun _ : str => @None re in
  valid cp [] [mkseg false [EBind [120]%N]; mkseg false [EBind [120]%N]] = false /\          (* bind reused *)
  valid cp [] [mkseg true [EIdent [97]%N]; mkseg false [EIdent [98]%N]] = false /\           (* non-final optional *)
  valid cp [(0, [mkseg false [EIdent [97]%N]; mkseg true [EIdent [98]%N]])] [mkseg false [EIdent [97]%N]] = false /\  (* short form taken *)
  valid cp [] [mkseg false [EIdent [97]%N]; mkseg true [EIdent [98]%N]] = true.
Proof. vm_compute. repeat split. Qed.

Redirect "assum/C08.1" Print Assumptions C08_non_final_optional_rejected.
Redirect "assum/C08.2" Print Assumptions C08_accept_iff.
Redirect "assum/C08.3" Print Assumptions C08_accepted_reachable.
Redirect "assum/C08.4" Print Assumptions C08_accept_iff_valid.
