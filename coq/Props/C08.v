(* C08 Registration validated up front. *)
Require Import Base Regex Route Tree Router RouteSpec.

(* In the model a rejected registration is the value None: the router state is unchanged (nothing is
   half-registered), and acceptance is decided entirely at registration time. *)
Theorem C08_non_final_optional_rejected : forall compile fuel root t anc aa s s2 rest rid,
  optional s = true -> add_segs compile (S fuel) root t anc aa (s :: s2 :: rest) rid = None.
Proof. intros. destruct t. cbn. rewrite H. reflexivity. Qed.

Theorem C08_empty_route_rejected : forall compile t rid, add_route compile t [] rid = None.
Proof. intros. destruct t. reflexivity. Qed.

(* The full statement - "add_route (tree of rs) r succeeds iff RouteSpec.valid rs r" - is NOT proved
   yet; valid (declarative, on the list of registered routes) is evaluated against the
   implementation's accept/reject on every generated registration. *)

Example C08_example :
  let cp := fun _ : str => @None re in
  valid cp [] [mkseg false [EBind [120]%N]; mkseg false [EBind [120]%N]] = false /\          (* bind reused *)
  valid cp [] [mkseg true [EIdent [97]%N]; mkseg false [EIdent [98]%N]] = false /\           (* non-final optional *)
  valid cp [(0, [mkseg false [EIdent [97]%N]; mkseg true [EIdent [98]%N]])] [mkseg false [EIdent [97]%N]] = false /\  (* short form taken *)
  valid cp [] [mkseg false [EIdent [97]%N]; mkseg true [EIdent [98]%N]] = true.
Proof. vm_compute. repeat split. Qed.

Redirect "assum/C08.1" Print Assumptions C08_non_final_optional_rejected.
