(* C09 Header constraints gate a route in every form it can be reached. *)
Require Import Base Regex Route Tree TreeProofs TreeDispatch TreePriority TreePriorityTop Router RouterProofs RouterInv RouterPriority.

(* whichever leaf reaches the route (long or short form of an optional segment, any method, static or
   not): tree matching returns a route only if its constraints hold for the request's headers *)
Theorem C09_gate : forall st m path hdrs rid ps,
  serve_tree st m path hdrs = Found rid ps -> hdr_ok st hdrs rid = true.
Proof. exact serve_tree_gated. Qed.

(* a constrained route is not reachable through the static shortcut *)
Theorem C09_constrained_leaves_shortcut : forall st rid h mi path,
  table_lookup (set_headers st rid h) mi path = Some rid -> nth_error (infos st) rid = None.
Proof. exact set_headers_evicts. Qed.

(* specifying constraints again replaces the previous set *)
Theorem C09_replace : forall st rid h1 h2,
  infos (set_headers (set_headers st rid h1) rid h2) = infos (set_headers st rid h2).
Proof. exact set_headers_replaces. Qed.

(* INVISIBLE WHEN THE CONSTRAINTS FAIL.  In every reachable router state the candidates for a request are
   exactly the matches by routes whose constraints hold for that request's headers - whichever form
   (long, short) and whichever method reaches the route - and the answer is the least of them; a route
   whose constraints fail is simply not among them, so lower-priority routes or not-found take over *)
Theorem C09_invisible : forall compile (good : list elem -> Prop),
  good [] -> (forall a b, good a -> good b -> render_elems a = render_elems b -> a = b) ->
  forall st mi path hdrs, reachable_p compile good st ->
  forall t, nth_error (trees st) mi = Some t ->
  let hok := hdr_ok st hdrs in let segs := segs_of path in
  (forall rid, (exists k, In (k, rid) (cands hok t segs [])) <->
     exists r l ks ps, In (rid, r) (mroutes st mi) /\ forms compile r = Some l /\ In ks l /\ adm ks segs ps /\ hok rid = true) /\
  match serve_tree st (Some mi) path hdrs with
  | Found rid _ => exists k, In (k, rid) (cands hok t segs []) /\ forall c, In c (cands hok t segs []) -> key_le k (fst c)
  | NotFound => cands hok t segs [] = []
  end.
Proof. intros compile good G0 Inj. exact (router_priority compile good G0 Inj). Qed.

(* ... and the shortcut table answers the same (C10), so this covers fully static routes too *)
Theorem C09_shortcut_too : forall compile (good : list elem -> Prop),
  good [] -> (forall a b, good a -> good b -> render_elems a = render_elems b -> a = b) ->
  (forall es s, good es -> In (EIdent s) es -> s <> [] /\ slash_free s) ->
  forall st m path hdrs, reachable compile good st -> serve st m path hdrs = serve_tree st m path hdrs.
Proof. intros compile good G0 Inj Gi. exact (unobservable compile good G0 Inj Gi). Qed.

(* the matcher consults the constraint of the route, not of a particular leaf: both forms of a route
   with an optional segment carry the same route id (model of the repaired code, finding F2) *)

(* a constraint names its header under any spelling: the name is looked up in its canonical form (what
   http.Header.Get does), so "x-k", "X-k" and "X-K" constrain the same header, and two of them in one
   Headers() call must both hold *)
Theorem C09_name_spelling : forall n r h hdrs,
  constraint_ok ((n, r) :: h) hdrs = constraint_ok ((canon_key n, r) :: h) hdrs.
Proof. exact constraint_spelling. Qed.

Theorem C09_canonical_name_idempotent : forall s, canon_key (canon_key s) = canon_key s.
Proof. exact canon_key_idem. Qed.

Example C09_spelling_example :
  canon_key [120; 45; 107]%N = [88; 45; 75]%N /\ canon_key [85; 83; 69; 82; 45; 97; 71; 69; 78; 84]%N = [85; 115; 101; 114; 45; 65; 103; 101; 110; 116]%N.
Proof. vm_compute. split; reflexivity. Qed.

Redirect "assum/C09.1" Print Assumptions C09_gate.
Redirect "assum/C09.2" Print Assumptions C09_constrained_leaves_shortcut.
Redirect "assum/C09.3" Print Assumptions C09_replace.
Redirect "assum/C09.4" Print Assumptions C09_invisible.
Redirect "assum/C09.9" Print Assumptions C09_name_spelling.
