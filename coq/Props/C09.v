(* C09 Header constraints gate a route in every form it can be reached. *)
Require Import Base Regex Route Tree TreeProofs Router RouterProofs.

(* whichever leaf reaches the route (long or short form of an optional segment, any method, static or
   not): tree matching returns a route only if its constraints hold for the request's headers *)
Theorem C09_gate : forall st m path hdrs rid ps,
  serve_tree st m path hdrs = Found rid ps -> hdr_ok st hdrs rid = true.
Proof. exact serve_tree_gated. Qed.

(* a constrained route is not reachable through the static shortcut *)
Theorem C09_constrained_leaves_shortcut : forall st rid h mi path,
  table_lookup (set_headers st rid h) mi path = Some rid -> nth_error (infos st) rid = None.
Proof. exact set_headers_evicts. Qed.

(* specifying constraints again replaces the previous set *)
Theorem C09_replace : forall st rid h1 h2,
  infos (set_headers (set_headers st rid h1) rid h2) = infos (set_headers st rid h2).
Proof. exact set_headers_replaces. Qed.

(* the matcher consults the constraint of the route, not of a particular leaf: both forms of a route
   with an optional segment carry the same route id (model of the repaired code, finding F2) *)

Redirect "assum/C09.1" Print Assumptions C09_gate.
Redirect "assum/C09.2" Print Assumptions C09_constrained_leaves_shortcut.
Redirect "assum/C09.3" Print Assumptions C09_replace.
