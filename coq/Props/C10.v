(* C10 The static-route shortcut is unobservable. *)
Require Import Base Regex Route Tree Router RouterProofs.

(* on a miss of the shortcut table, serving IS tree matching *)
Theorem C10_miss_is_tree : forall st mi path hdrs,
  table_lookup st mi path = None -> serve st (Some mi) path hdrs = serve_tree st (Some mi) path hdrs.
Proof. exact serve_miss_is_tree. Qed.

(* invariant over every history of registrations and Headers() calls: each entry of the table belongs
   to a registered, fully static route without optional segment and without header constraints,
   keyed by its canonical text, for a method it was registered for *)
Theorem C10_table_invariant_init : table_ok rinit.
Proof. exact table_ok_init. Qed.
Theorem C10_table_invariant_register : forall compile st ms r st',
  table_ok st -> register compile st ms r = Some st' -> table_ok st'.
Proof. exact table_ok_register. Qed.
Theorem C10_table_invariant_headers : forall st rid h, table_ok st -> table_ok (set_headers st rid h).
Proof. exact table_ok_set_headers. Qed.

(* The full statement C10_unobservable - serve st m p h = serve_tree st m p h for every reachable
   st - additionally needs "tree matching of a static route's own text returns that route", which
   rests on the tree invariants of add_route and is NOT proved yet; the equality is evaluated on every
   generated request (implementation's answer = model's serve_tree). *)

Redirect "assum/C10.1" Print Assumptions C10_miss_is_tree.
Redirect "assum/C10.2" Print Assumptions C10_table_invariant_register.
Redirect "assum/C10.3" Print Assumptions C10_table_invariant_headers.
