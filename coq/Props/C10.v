(* C10 The static-route shortcut is unobservable. *)
Require Import Base Regex Route Tree Router RouterProofs RouterInv Parser GoodParsed.

(* FULL STATEMENT. For every router state reachable from the empty router by any history of
   successful registrations and Headers() calls, every method, request path and header set:
   serving through the shortcut table gives exactly what full tree matching gives - same route,
   same (empty) parameters, same header gating.
   [good] is a class of segment-element lists containing every registered segment, on which the
   canonical text is injective and whose identifiers are non-empty and contain no "/" (what the
   route parser produces; C06). *)
Theorem C10_unobservable : forall compile (good : list elem -> Prop),
  good [] ->
  (forall a b, good a -> good b -> render_elems a = render_elems b -> a = b) ->
  (forall es s, good es -> In (EIdent s) es -> s <> [] /\ slash_free s) ->
  forall st m path hdrs, reachable compile good st -> serve st m path hdrs = serve_tree st m path hdrs.
Proof. intros compile good G0 Inj Gi. exact (unobservable compile good G0 Inj Gi). Qed.

(* the same over histories that register what the route parser returned - no hypothesis left *)
Inductive reachable_parsed (compile : str -> option re) : rstate -> Prop :=
| rp_init : reachable_parsed compile rinit
| rp_register st ms s r st' : reachable_parsed compile st -> parse s = Some r ->
    register compile st ms r = Some st' -> reachable_parsed compile st'
| rp_headers st rid h : reachable_parsed compile st -> reachable_parsed compile (set_headers st rid h).

Theorem C10_unobservable_parsed : forall compile st m path hdrs,
  reachable_parsed compile st -> serve st m path hdrs = serve_tree st m path hdrs.
Proof.
  intros compile st m path hdrs R. apply (unobservable compile pgood pgood_nil pgood_inj pgood_ident).
  induction R as [|st ms s r st' _ IH P Reg|st rid h _ IH].
  - apply reach_init.
  - eapply reach_register; [exact IH | exact (parsed_good s r P) | exact Reg].
  - apply reach_headers. exact IH.
Qed.

(* the invariant it rests on, and its preservation *)
Theorem C10_invariant : forall compile (good : list elem -> Prop),
  good [] ->
  (forall a b, good a -> good b -> render_elems a = render_elems b -> a = b) ->
  (forall es s, good es -> In (EIdent s) es -> s <> [] /\ slash_free s) ->
  forall st, reachable compile good st -> rinv compile good st.
Proof. intros compile good G0 Inj Gi. exact (reachable_rinv compile good G0 Inj Gi). Qed.

(* on a miss of the shortcut table, serving IS tree matching (no hypothesis at all) *)
Theorem C10_miss_is_tree : forall st mi path hdrs,
  table_lookup st mi path = None -> serve st (Some mi) path hdrs = serve_tree st (Some mi) path hdrs.
Proof. exact serve_miss_is_tree. Qed.

(* each entry of the table belongs to a registered, fully static route without optional segment and
   without header constraints, keyed by its canonical text, for a method it was registered for *)
Theorem C10_table_invariant_register : forall compile st ms r st',
  table_ok st -> register compile st ms r = Some st' -> table_ok st'.
Proof. exact table_ok_register. Qed.
Theorem C10_table_invariant_headers : forall st rid h, table_ok st -> table_ok (set_headers st rid h).
Proof. exact table_ok_set_headers. Qed.

(* non-vacuity: the hypotheses on [good] are satisfiable, and a reachable state exists in which the
   shortcut actually answers *)
Definition good0 (es : list elem) : Prop :=
  es = [] \/ exists s, es = [EIdent s] /\ s <> [] /\ slash_free s.
Example good0_ok :
  good0 [] /\
  (forall a b, good0 a -> good0 b -> render_elems a = render_elems b -> a = b) /\
  (forall es s, good0 es -> In (EIdent s) es -> s <> [] /\ slash_free s).
Proof.
  split; [left; reflexivity|]. split.
  - intros a b [->|(s & -> & Hs & _)] [->|(s' & -> & Hs' & _)]; cbn; rewrite ?app_nil_r; intros E; try congruence.
  - intros es s [->|(s' & -> & Hs & F)] H; [destruct H|]. destruct H as [H|[]]. inversion H; subst. auto.
Qed.
Definition r_ab : route := [mkseg false [EIdent [97%N]]; mkseg false [EIdent [98%N]]].
Example shortcut_hit : exists st,
  reachable (fun _ => None) good0 st /\ table_lookup st 0 [47;97;47;98]%N = Some 0 /\
  serve st (Some 0) [47;97;47;98]%N [] = Found 0 [].
Proof.
  destruct (register (fun _ => None) rinit [0] r_ab) as [st|] eqn:E; [|vm_compute in E; discriminate].
  exists st. split.
  - eapply reach_register; [apply reach_init | | exact E].
    assert (G : forall c, good0 [EIdent [c]] \/ c = c_slash).
    { intros c. destruct (N.eq_dec c c_slash) as [->|Ne]; [right; reflexivity|]. left. right. eexists.
      split; [reflexivity|]. split; [discriminate|]. intros [X|[]]. congruence. }
    constructor; [destruct (G 97%N) as [X|X]; [exact X | discriminate]|].
    constructor; [destruct (G 98%N) as [X|X]; [exact X | discriminate]|]. constructor.
  - vm_compute in E. inversion E. split; vm_compute; reflexivity.
Qed.

Redirect "assum/C10.6" Print Assumptions C10_unobservable_parsed.
Redirect "assum/C10.1" Print Assumptions C10_unobservable.
Redirect "assum/C10.2" Print Assumptions C10_invariant.
Redirect "assum/C10.3" Print Assumptions C10_miss_is_tree.
Redirect "assum/C10.4" Print Assumptions C10_table_invariant_register.
Redirect "assum/C10.5" Print Assumptions C10_table_invariant_headers.
