(* C11 Group/Combo/Routes/Any/AutoHead equal their flat expansion. *)
Require Import Base Groups GroupsProofs.

(* For every registration program (arbitrarily nested groups with group handlers, Combo, Routes with
   a comma list and further method strings, Any, AutoHead toggles) the model of router.go - which
   keeps the living groups on an explicit stack, as the code does - issues exactly the primitive
   registrations (method, concatenated path, concatenated handler list: outer group handlers first,
   then inner, then the route's own) of the flat expansion, in the same order; it refuses exactly
   when the expansion does (Combo with the same method twice, empty method list). *)
Theorem C11_flat : forall w0 p, exec w0 p = flatten w0 p.
Proof. exact exec_is_flatten. Qed.

(* leaving a group restores the enclosing scope *)
Theorem C11_group_scope_restored : forall s fuel g g' r,
  depth s <= fuel -> exec_stmt fuel g s = Some (g', r) -> groups g' = groups g.
Proof. exact stmt_restores_stack. Qed.

(* AutoHead affects only GET registered through Get / Combo.Get while it is on *)
(* ... and a .Headers(...) call on what Get returns constrains the GET route, never the HEAD twin *)
Theorem C11_autohead_get : forall g path hs hdr,
  get_in g path hs hdr = route_in g m_get path hs hdr :: (if autohead g then [route_in g m_head path hs false] else []).
Proof. reflexivity. Qed.

(* a ComboRoute held in a variable reads the AutoHead setting when .Get registers, not when Combo made it;
   a toggle in between counts from there on, also for the statements after the Combo *)
Theorem C11_combo_autohead_at_get : forall ah b pp ph path common added rest,
  combo_at ah pp ph path common added (CAuto b :: rest) = combo_at (set_ah b ah) pp ph path common added rest.
Proof. reflexivity. Qed.

(* .Headers(...) on what Routes returns constrains the route of the last method only *)
Theorem C11_headers_routes_last : forall hdr l r,
  mark_last hdr (l ++ [r]) = l ++ [mkfreg (fr_method r) (fr_path r) (fr_hs r) hdr (fr_wr r)].
Proof. exact mark_last_snoc. Qed.

(* handlers are validated and wrapped over the CONCATENATED list: a group handler that is not a function
   refuses the registration just as it would in the flat list, and with a HandlerWrapper installed the
   group handlers are wrapped exactly once like the route's own (what runs is wrapped(outer) ++
   wrapped(inner) ++ wrapped(own)) *)
Theorem C11_checked_flat : forall w0 p, checked (exec w0 p) = checked (flatten w0 p).
Proof. exact checked_exec_flatten. Qed.
(* ... by the HandlerWrapper in effect when the ROUTE is declared (fs), not when its group was opened *)
Theorem C11_group_handlers_wrapped : forall fs pp ph m path hs hdr,
  run_trace (reg_at fs pp ph m path hs hdr) = wrap_list (f_wr fs) ph ++ wrap_list (f_wr fs) hs.
Proof. exact run_trace_reg_at. Qed.
Theorem C11_group_handlers_validated : forall fs pp ph m path hs hdr,
  callable (reg_at fs pp ph m path hs hdr) = forallb (fun h => negb (Nat.eqb 0 h)) ph && forallb (fun h => negb (Nat.eqb 0 h)) hs.
Proof. exact callable_reg_at. Qed.

Example C11_example :
  exec false [SAutoHead true; SGroup [47;97]%N [1] [SGet [47;98]%N [2] true; SGroup [47;99]%N [3] [SRoute [80;79;83;84]%N [47;100]%N [4] false]]; SGet [47;101]%N [5] false]
  = Some [mkfreg m_get [47;97;47;98]%N [1;2] true false; mkfreg m_head [47;97;47;98]%N [1;2] false false;
          mkfreg [80;79;83;84]%N [47;97;47;99;47;100]%N [1;3;4] false false;
          mkfreg m_get [47;101]%N [5] false false; mkfreg m_head [47;101]%N [5] false false].
Proof. vm_compute. reflexivity. Qed.

(* a ComboRoute kept in a variable registers where its method is CALLED: a method added after the group that
   made the value has closed lands outside that group (no group path, no group handlers) *)
Theorem C11_held_combo_registers_where_called : forall fs pp ph id m hs path common added,
  find_combo id (f_cs fs) = Some (path, common, added) -> existsb (str_eqb m) added = false -> str_eqb m m_get = false ->
  flatten_stmt fs pp ph (SComboUse id m hs) =
    Some (add_combo id (path, common, m :: added) fs, [reg_at fs pp ph m path (common ++ hs) false]).
Proof. intros fs pp ph id m hs path common added F A G. cbn [flatten_stmt]. rewrite F, A, G. reflexivity. Qed.
(* ... and a second call for the same method is refused, in whatever scope it is made *)
Theorem C11_held_combo_refuses_same_method : forall fs pp ph id m hs path common added,
  find_combo id (f_cs fs) = Some (path, common, added) -> existsb (str_eqb m) added = true ->
  flatten_stmt fs pp ph (SComboUse id m hs) = None.
Proof. intros fs pp ph id m hs path common added F A. cbn [flatten_stmt]. rewrite F, A. reflexivity. Qed.

Example C11_example_combo_across_scopes :
  exec false [SGroup [47;103]%N [1] [SComboNew 7 [47;99]%N [2]; SComboUse 7 m_get [3]]; SComboUse 7 [80;85;84]%N [4];
              SGroup [47;104]%N [5] [SComboUse 7 [80;79;83;84]%N [6]]]
  = Some [mkfreg m_get [47;103;47;99]%N [1;2;3] false false; mkfreg [80;85;84]%N [47;99]%N [2;4] false false;
          mkfreg [80;79;83;84]%N [47;104;47;99]%N [5;2;6] false false] /\
  exec false [SComboNew 1 [47;99]%N []; SComboUse 1 m_get []; SGroup [47;103]%N [] [SComboUse 1 m_get []]] = None.
Proof. vm_compute. repeat split. Qed.

Example C11_example_combo_toggle :
  exec false [SCombo [47;99]%N [] [CAuto true; CUse m_get [1]]; SCombo [47;100]%N [] [CUse m_get [2]; CAuto false]; SGet [47;101]%N [3] false]
  = Some [mkfreg m_get [47;99]%N [1] false false; mkfreg m_head [47;99]%N [1] false false;
          mkfreg m_get [47;100]%N [2] false false; mkfreg m_head [47;100]%N [2] false false;
          mkfreg m_get [47;101]%N [3] false false].
Proof. vm_compute. reflexivity. Qed.

Example C11_example_headers_wrap :
  exec true [SRoutes [47;120]%N [71;69;84;44;80;85;84]%N [] [7] true] =
    Some [mkfreg m_get [47;120]%N [7] false true; mkfreg [80;85;84]%N [47;120]%N [7] true true] /\
  run_trace (mkfreg m_get [47]%N [1;3;4] false true) = [0;1;0;3;0;4] /\
  (* the wrapper is taken off inside the group: the group handler of the route declared after that is not wrapped *)
  exec true [SGroup [47;103]%N [1] [SGet [47;97]%N [2] false; SWrapper false; SGet [47;98]%N [3] false]] =
    Some [mkfreg m_get [47;103;47;97]%N [1;2] false true; mkfreg m_get [47;103;47;98]%N [1;3] false false] /\
  checked (exec false [SGroup [47;97]%N [0] [SGet [47;98]%N [2] false]]) = None.
Proof. vm_compute. repeat split. Qed.

Redirect "assum/C11.1" Print Assumptions C11_flat.
Redirect "assum/C11.2" Print Assumptions C11_group_scope_restored.
Redirect "assum/C11.3" Print Assumptions C11_checked_flat.
Redirect "assum/C11.4" Print Assumptions C11_headers_routes_last.
