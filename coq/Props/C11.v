(* C11 Group/Combo/Routes/Any/AutoHead equal their flat expansion. *)
Require Import Base Groups GroupsProofs.

(* For every registration program (arbitrarily nested groups with group handlers, Combo, Routes with
   a comma list and further method strings, Any, AutoHead toggles) the model of router.go - which
   keeps the living groups on an explicit stack, as the code does - issues exactly the primitive
   registrations (method, concatenated path, concatenated handler list: outer group handlers first,
   then inner, then the route's own) of the flat expansion, in the same order; it refuses exactly
   when the expansion does (Combo with the same method twice, empty method list). *)
Theorem C11_flat : forall p, exec p = flatten p.
Proof. exact exec_is_flatten. Qed.

(* leaving a group restores the enclosing scope *)
Theorem C11_group_scope_restored : forall s fuel g g' r,
  depth s <= fuel -> exec_stmt fuel g s = Some (g', r) -> groups g' = groups g.
Proof. exact stmt_restores_stack. Qed.

(* AutoHead affects only GET registered through Get / Combo.Get while it is on *)
Theorem C11_autohead_get : forall g path hs,
  get_in g path hs = route_in g m_get path hs :: (if autohead g then [route_in g m_head path hs] else []).
Proof. reflexivity. Qed.

Example C11_example :
  exec [SAutoHead true; SGroup [47;97]%N [1] [SGet [47;98]%N [2]; SGroup [47;99]%N [3] [SRoute [80;79;83;84]%N [47;100]%N [4]]]; SGet [47;101]%N [5]]
  = Some [mkfreg m_get [47;97;47;98]%N [1;2]; mkfreg m_head [47;97;47;98]%N [1;2];
          mkfreg [80;79;83;84]%N [47;97;47;99;47;100]%N [1;3;4];
          mkfreg m_get [47;101]%N [5]; mkfreg m_head [47;101]%N [5]].
Proof. vm_compute. reflexivity. Qed.

Redirect "assum/C11.1" Print Assumptions C11_flat.
Redirect "assum/C11.2" Print Assumptions C11_group_scope_restored.
