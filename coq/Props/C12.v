(* C12 URL building substitutes binds exactly and inverts matching. *)
Require Import Base Route UrlPath UrlPathProofs.

(* Substitution is simultaneous: for bind names and route literals without braces (the route grammar
   allows neither), Leaf.URLPath - strings.NewReplacer over "{name}" keys applied to the route's URL
   skeleton - equals filling every hole that has a value and leaving the others visible as {name};
   supplied values are never re-scanned (whatever braces or bind names they contain), unknown names
   are ignored, regex and capture annotations are not part of the skeleton, and the optional segment is
   in the skeleton only when asked. *)
Theorem C12_simultaneous : forall r vals with_opt,
  names_ok vals -> skel_ok (route_skel' r with_opt) = true ->
  url_path r vals with_opt = fill vals (route_skel' r with_opt).
Proof. exact url_path_is_fill. Qed.

Theorem C12_replacer_is_fill : forall vals sk,
  names_ok vals -> skel_ok sk = true -> replace (bpairs vals) (render_skel sk) = fill vals sk.
Proof. exact replace_is_fill. Qed.

(* C12_inverse (building with a dispatched request's parameters reproduces the request path) is NOT
   proved yet at route level; it is evaluated on every dispatched request of a named route by the
   correspondence check (paths without %-escapes must be reproduced exactly). *)

Example C12_example :   (* /a/{x}-{y}/?{z}  with x="{y}", y="1", unknown q *)
  let r := [mkseg false [EIdent [97]%N]; mkseg false [EBind [120]%N; EIdent [45]%N; EBind [121]%N]; mkseg true [EBind [122]%N]] in
  router_url_path r [[120]%N; [123;121;125]%N; [121]%N; [49]%N; [113]%N; [50]%N]
  = [47;97;47;123;121;125;45;49]%N /\
  router_url_path r [s_with_optional; s_true] = [47;97;47;123;120;125;45;123;121;125;47;123;122;125]%N.
Proof. vm_compute. split; reflexivity. Qed.

Redirect "assum/C12.1" Print Assumptions C12_simultaneous.
Redirect "assum/C12.2" Print Assumptions C12_replacer_is_fill.
