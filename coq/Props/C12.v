(* C12 URL building substitutes binds exactly and inverts matching. *)
Require Import Base Regex RegexProofs SegProofs Route Tree TreeProofs TreeAdd UrlPath UrlPathProofs Inverse.

(* Substitution is simultaneous: for bind names and route literals without braces (the route grammar
   allows neither), Leaf.URLPath - strings.NewReplacer over "{name}" keys applied to the route's URL
   skeleton - equals filling every hole that has a value and leaving the others visible as {name};
   supplied values are never re-scanned (whatever braces or bind names they contain), unknown names
   are ignored, regex and capture annotations are not part of the skeleton, and the optional segment is
   in the skeleton only when asked. *)
Theorem C12_simultaneous : forall r vals with_opt,
  names_ok vals -> skel_ok (route_skel' r with_opt) = true ->
  url_path r vals with_opt = fill vals (route_skel' r with_opt).
Proof. exact url_path_is_fill. Qed.

Theorem C12_replacer_is_fill : forall vals sk,
  names_ok vals -> skel_ok sk = true -> replace (bpairs vals) (render_skel sk) = fill vals sk.
Proof. exact replace_is_fill. Qed.

(* INVERSE of matching.  For every route whose non-final segments are not optional (C08), every form of
   it that registration puts into the tree ([news]: the long form, and the short form when the last
   segment is optional), every list of path segments that form admits and the parameters [ps] the
   matcher then delivers (raw, before the single percent-decoding): filling the route's URL skeleton with
   [ps] - with the optional segment exactly for the long form - spells the request path; and when bind
   names and literals are brace-free (the grammar, C06) that is what Leaf.URLPath returns.
   [compile] is the regex oracle; its results carry no capturing groups of their own (section 3). *)
Theorem C12_inverse : forall compile, (forall src r, compile src = Some r -> gidx r = []) ->
  forall r l ks segs ps, news compile true [] false r = Some l -> In ks l -> adm ks segs ps -> nonfinal_plain r ->
  exists wo, fill ps (route_skel' r wo) = path_text segs /\
             (names_ok ps -> skel_ok (route_skel' r wo) = true -> url_path r ps wo = path_text segs).
Proof.
  intros compile G r l ks segs ps N HIn A NP.
  destruct (inverse_own_params compile G r l ks segs ps N HIn A NP) as [wo E]. exists wo. split; [exact E|].
  intros Hn Hs. rewrite url_path_is_fill by assumption. exact E.
Qed.

(* the same for any supplied values that agree with the captured ones on the route's binds *)
Theorem C12_inverse_values : forall compile, (forall src r, compile src = Some r -> gidx r = []) ->
  forall r l ks segs ps vals, news compile true [] false r = Some l -> In ks l -> adm ks segs ps ->
  vals_cover vals ps -> nonfinal_plain r ->
  exists wo, fill vals (route_skel' r wo) = path_text segs.
Proof. exact inverse_route. Qed.

(* the binds along any form of a registered route are pairwise distinct, so each delivered value is
   looked up under its own name *)
Theorem C12_binds_distinct : forall compile r root anc aa l ks,
  news compile root anc aa r = Some l -> In ks l -> NoDup (rbinds ks) /\ forall x, In x (rbinds ks) -> ~ In x anc.
Proof. exact news_binds. Qed.

Example C12_example :   (* /a/{x}-{y}/?{z}  with x="{y}", y="1", unknown q *)
  let r := [mkseg false [EIdent [97]%N]; mkseg false [EBind [120]%N; EIdent [45]%N; EBind [121]%N]; mkseg true [EBind [122]%N]] in
  router_url_path r [[120]%N; [123;121;125]%N; [121]%N; [49]%N; [113]%N; [50]%N]
  = [47;97;47;123;121;125;45;49]%N /\
  router_url_path r [s_with_optional; s_true] = [47;97;47;123;120;125;45;123;121;125;47;123;122;125]%N.
Proof. vm_compute. split; reflexivity. Qed.

Redirect "assum/C12.1" Print Assumptions C12_simultaneous.
Redirect "assum/C12.2" Print Assumptions C12_replacer_is_fill.
Redirect "assum/C12.3" Print Assumptions C12_inverse.
Redirect "assum/C12.4" Print Assumptions C12_inverse_values.
