(* C13 ResponseWriter: one status first, truthful Status/Size/Written, hooks once.
   Only statements, each closed by an already proved lemma. *)
Require Import Base RW RWProofs RWStack.

(* The property is the judgement [spec_ok] on (operations, per-operation outputs): the
   first WriteHeader/Write/Flush makes every hook registered so far run once, in reverse
   order, each seeing status 0, then exactly one status line reach the underlying writer
   (the given code, 200 for Write/Flush); later operations send no status line and run no
   hook; a hook may panic: the operation then ends there with nothing sent, no hook ever
   runs again, and the next WriteHeader/Write/Flush sends the status line; Status/Written/Size answer what the underlying writer has actually seen (first
   status, sum of the byte counts it accepted); Write forwards its bytes unchanged unless
   the method is HEAD, in which case nothing is forwarded.
   For every method and every sequence of operations with non-zero status codes the model of
   response_writer.go is accepted by the judgement. *)
Theorem C13_model_meets_spec : forall head ops,
  forallb valid_op ops = true -> spec_ok head ops (run head ops) = true.
Proof. exact run_meets_spec. Qed.

(* What acceptance means in plain terms, for ANY outputs (model's or implementation's): *)
Theorem C13_at_most_one_status : forall head ops outs,
  spec_ok head ops outs = true -> count is_wh (concat outs) <= 1.
Proof. exact spec_one_status. Qed.

Theorem C13_status_before_body : forall head ops outs,
  spec_ok head ops outs = true -> status_first false (concat outs) = true.
Proof. exact spec_status_first. Qed.

Theorem C13_head_forwards_no_body : forall ops outs,
  spec_ok true ops outs = true -> forall bs n, ~ In (UWrite bs n) (concat outs).
Proof. intros ops outs H. exact (spec_head_no_body ops outs jinit H). Qed.

(* the before functions run during at most one operation *)
Theorem C13_hooks_in_one_operation : forall head ops outs,
  spec_ok head ops outs = true -> count has_hook outs <= 1.
Proof. exact spec_hooks_once. Qed.

(* A writer over a writer (an instance mounted on another, a handler that wraps the writer it was given):
   W1 = NewResponseWriter(m1, spy) lives through [pre], then W2 = NewResponseWriter(m2, W1) gets [ops].
   Over the whole life of the stack the spy still receives at most one status line, before any body byte,
   and every answer of W2 is that of a fresh one-writer machine on the operations as W2 meets them (its
   own status and byte count, never W1's). *)
Theorem C13_stack_one_status : forall head1 head2 pre ops,
  forallb valid_op pre = true -> forallb valid_op ops = true ->
  count is_wh (spy_trace head1 head2 pre ops) <= 1.
Proof. exact stack_one_status. Qed.

Theorem C13_stack_status_before_body : forall head1 head2 pre ops,
  forallb valid_op pre = true -> forallb valid_op ops = true ->
  status_first false (spy_trace head1 head2 pre ops) = true.
Proof. exact stack_status_first. Qed.

Theorem C13_stack_head_no_body : forall head2 pre ops bs n,
  forallb valid_op pre = true -> forallb valid_op ops = true ->
  ~ In (UWrite bs n) (spy_trace true head2 pre ops).
Proof. exact stack_head_no_body. Qed.

Theorem C13_stack_upper_answers : forall head1 head2 ops s1 s2,
  filter is_ans (concat (stack_run_from head1 head2 (s1, s2) ops)) =
  filter is_ans (concat (run_from head2 s2 (map (view head1) ops))).
Proof. exact stack_answers. Qed.

(* W1 has answered 404 already; W2 on top starts afresh: its before function runs, its Status is its own 201,
   the spy sees no second status line, the body goes through *)
Example C13_example_stack :
  stack_run false false [OWriteHeader 404] [OBefore 7 false; OStatus; OWriteHeader 201; OStatus; OWrite [104]%N 1%N; OSize]
  = [[]; [AStatus 0]; [EHook 7 0]; [AStatus 201]; [UWrite [104]%N 1%N]; [ASize 1]].
Proof. vm_compute. reflexivity. Qed.

(* non-vacuity: a concrete history with hooks, a late WriteHeader and a short write *)
Example C13_example :
  run false [OBefore 1 false; OBefore 2 false; OStatus; OWrite [104; 105]%N 1%N; OWriteHeader 404; OBefore 3 false; OSize; OStatus; OWritten]
  = [[]; []; [AStatus 0]; [EHook 2 0; EHook 1 0; UWriteHeader 200; UWrite [104; 105]%N 1%N]; []; []; [ASize 1]; [AStatus 200]; [AWritten true]].
Proof. vm_compute. reflexivity. Qed.

(* a before function that panics (finding F20): nothing is sent by that operation, Status stays 0,
   the newest hook ran, the older one never runs, and the next Write sends 200 and the body *)
Example C13_example_panicking_hook :
  run false [OBefore 1 false; OBefore 2 true; OWriteHeader 201; OStatus; OWrite [104]%N 1%N; OStatus]
  = [[]; []; [EHook 2 0; EPanic]; [AStatus 0]; [UWriteHeader 200; UWrite [104]%N 1%N]; [AStatus 200]].
Proof. vm_compute. reflexivity. Qed.

Redirect "assum/C13.1" Print Assumptions C13_model_meets_spec.
Redirect "assum/C13.2" Print Assumptions C13_at_most_one_status.
Redirect "assum/C13.3" Print Assumptions C13_status_before_body.
Redirect "assum/C13.4" Print Assumptions C13_head_forwards_no_body.
Redirect "assum/C13.5" Print Assumptions C13_hooks_in_one_operation.
Redirect "assum/C13.6" Print Assumptions C13_stack_one_status.
Redirect "assum/C13.7" Print Assumptions C13_stack_upper_answers.
