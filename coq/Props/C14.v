(* C14 Handler return values map to the response by a fixed table. *)
Require Import Base Return ReturnProofs Chain ChainProofs.

(* for every value of the supported shapes, the writes of the model of defaultReturnHandler on a
   fresh response produce exactly the response of the documented table *)
Theorem C14_table : forall vals, supported vals = true -> apply_wops (render vals) = table vals.
Proof. exact render_table. Qed.

(* nil, empty and zero results write nothing ... *)
Theorem C14_empty_writes_nothing : forall vals,
  supported vals = true -> table vals = None -> render vals = [].
Proof. exact empty_writes_nothing. Qed.

(* ... so the chain continues (the response state is untouched, Written() stays false) *)
Theorem C14_empty_continues : forall head vals s,
  supported vals = true -> table vals = None -> w_ops head (render vals) s = s.
Proof. intros head vals s S T. apply empty_return_continues. apply empty_writes_nothing; assumption. Qed.

(* a return handler registered in the injector replaces the table: the one mapped in the request
   scope, else the one mapped in the application scope, else the default table - which writes through
   the http.ResponseWriter found in the injector, so a writer re-mapped by a middleware receives the
   response (each of its Writes shows the wrapper's marker first); nothing is called when nothing was
   returned *)
Theorem C14_override : forall apprh s acts v r,
  rendering apprh s (HNormal acts (v :: r)) =
  match rh s with
  | Some k => custom_rh k
  | None => match apprh with
            | Some k => custom_rh k
            | None => if wrapped s then mark_ops (render (v :: r)) else render (v :: r)
            end
  end.
Proof. exact rendering_nearest. Qed.

Theorem C14_nothing_returned : forall apprh s acts, rendering apprh s (HNormal acts []) = [].
Proof. exact rendering_nothing_returned. Qed.

Theorem C14_response_is_written : forall vals r,
  supported vals = true -> table vals = Some r -> render vals <> [].
Proof. exact response_is_written. Qed.

Example C14_example :
  table [RInt 418; RErr (Some [111; 104]%N)] = Some (418%Z, [111; 104]%N) /\
  table [RBytes (Some [])] = None /\ table [RStr [104]%N; RErr (Some [101]%N)] = Some (500%Z, [101]%N).
Proof. repeat split. Qed.

(* a returned value reaches the client through the writer a middleware re-mapped: the marker of the wrapper
   precedes the body *)
Example C14_through_remapped_writer :
  serve [HNormal [AWrapRW] []; HNormal [] [RStr [104; 105]%N]] None false false None
  = Done (mkst 2 200 [CBytes [87]%N; CBytes [104; 105]%N] false
            [Enter 0 0 false; Exit 0; Enter 1 0 false; Exit 1; Sent] None true).
Proof. vm_compute. reflexivity. Qed.

Redirect "assum/C14.1" Print Assumptions C14_table.
Redirect "assum/C14.2" Print Assumptions C14_empty_continues.
Redirect "assum/C14.3" Print Assumptions C14_response_is_written.
