(* C15 Recovery contains every panic and leaves the application serving. *)
Require Import Base Return Chain ChainProofs.

(* Recovery at any position r; the handlers before it are scripted handlers that do not panic
   themselves and call Next at most once (hypothesis H1, see C15_contained_refuted); anything at all
   after it: panics of any value at any phase and depth, unresolvable handlers, an action.  Then the
   request ends normally: no panic escapes ServeHTTP. *)
Theorem C15_contained : forall hs action head dev apprh,
  valid_cfg hs action = true -> forall r,
  recov_cfg hs action r -> exists s, serve hs action head dev apprh = Done s.
Proof. exact serve_contained. Qed.

(* Without H1 the statement is false of the faithful model (and of the code: known finding F16):
   a middleware before Recovery that calls Next twice starts the panicking handler outside
   Recovery's frame. *)
Theorem C15_contained_refuted : exists hs action head dev r,
  hs <> [] /\ handler_at hs action r = Some HRecovery /\
  exists v s, serve hs action head dev None = Panicked v s.
Proof.
  exists [HNormal [ANext; ANext] []; HRecovery; HNormal [AWriteHeader 200] []; HNormal [APanic 1] []], None, false, true, 1.
  split; [discriminate|]. split; [reflexivity|]. eexists. eexists. vm_compute. reflexivity.
Qed.

(* what the client gets: 500 if no status had been sent yet (otherwise the status stands), the panic
   detail only in development mode; the handler index and the trace are left alone *)
Theorem C15_response : forall head dev v s,
  let s' := w_body head (CPanicPage v dev) (w_mark head (w_header 500 s)) in
  status s' = (if Z.eqb (status s) 0 then 500%Z else status s) /\
  (head = false -> body s' = body s ++ (if wrapped s then [CBytes marker] else []) ++ [CPanicPage v dev]) /\
  idx s' = idx s.
Proof. exact recovery_response. Qed.

(* and the trace of such a request is still accepted by the chain judge: every started handler
   finished (Exit or Unwind), in particular the code after Next() of outer middleware ran *)
Theorem C15_trace_accepted : forall hs action head dev apprh r,
  valid_cfg hs action = true -> recov_cfg hs action r ->
  exists s, serve hs action head dev apprh = Done s /\ chain_spec_ok hs action (trace s) = true.
Proof.
  intros hs action head dev apprh r V Rc. destruct (serve_contained hs action head dev apprh V r Rc) as (s & E).
  exists s. split; [exact E|]. pose proof (serve_accepted hs action head dev apprh V) as H. rewrite E in H. exact H.
Qed.

(* later requests: the model of a request has no state besides the configuration, so serving is a
   function of (hs, action, head, dev); the correspondence run serves up to 3 requests per instance. *)

Example C15_example :
  recov_cfg [HNormal [ANext; AWrite [120]%N] []; HRecovery; HNormal [AWrite [97]%N; APanic 3] []] None 1 /\
  serve [HNormal [ANext; AWrite [120]%N] []; HRecovery; HNormal [AWrite [97]%N; APanic 3] []] None false false None
  = Done (mkst 3 200 [CBytes [97]%N; CPanicPage 3 false; CBytes [120]%N] false
            [Enter 0 0 false; NextCall 0; Enter 2 0 false; Sent; Unwind 2; NextRet 0; Exit 0] None false).
Proof.
  split.
  - split; [reflexivity|]. intros p Hp. assert (p = 0) by lia. subst p. eexists. eexists. repeat split. cbn. lia.
  - vm_compute. reflexivity.
Qed.

Redirect "assum/C15.1" Print Assumptions C15_contained.
Redirect "assum/C15.2" Print Assumptions C15_contained_refuted.
Redirect "assum/C15.3" Print Assumptions C15_response.
Redirect "assum/C15.4" Print Assumptions C15_trace_accepted.
