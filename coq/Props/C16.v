(* C16 Static serves only files inside its directory and prefix, else stays silent. *)
Require Import Base Route Router Static StaticProofs.

(* path.Clean (component model): no "..", "." or empty component survives, for every byte string *)
Theorem C16_clean_no_dotdot : forall name, Forall plain_comp (clean_rooted name).
Proof. exact clean_no_dotdot. Qed.

Theorem C16_clean_no_slash : forall name, Forall (fun c => ~ In c_slash c) (clean_rooted name).
Proof. exact clean_no_slash. Qed.

(* whatever is served (200 or 304) is a regular file found by walking plain components down from the
   configured directory: never outside it, whatever "..", repeated slashes or odd bytes the path has *)
Theorem C16_contained : forall root dir o m p inm id rel,
  (static_decide root dir o m p inm = SServe id rel \/ static_decide root dir o m p inm = SNotModified id rel) ->
  lookup_node root (dir ++ rel) = Some (File id) /\ Forall plain_comp rel /\ Forall (fun c => ~ In c_slash c) rel.
Proof. exact served_is_inside. Qed.

(* only GET and HEAD are answered ... *)
Theorem C16_other_methods_silent : forall root dir o m p inm,
  str_eqb m s_get = false -> str_eqb m s_head = false -> static_decide root dir o m p inm = SPass.
Proof. exact other_methods_pass. Qed.

(* ... and only under the prefix at a segment boundary *)
Theorem C16_prefix_boundary : forall root dir o m p inm,
  so_prefix o <> [] -> static_decide root dir o m p inm <> SPass ->
  has_prefix (so_prefix o) p = true /\
  (skipn (length (so_prefix o)) p = [] \/ exists rest, skipn (length (so_prefix o)) p = c_slash :: rest).
Proof. exact prefix_boundary. Qed.

(* directories are redirected to their slash-terminated form *)
Theorem C16_redirect_slash : forall root dir o m p inm loc,
  static_decide root dir o m p inm = SRedirect loc -> ends_with_slash loc = true.
Proof. exact redirect_ends_with_slash. Qed.

(* the same holds whether the directory is opened through http.Dir (the name is cleaned) or through
   http.FS over os.DirFS (a name with an empty, "." or ".." element is refused): so_fs selects the kind *)

(* "writes nothing" is the result SPass: the model emits no writer operation on that branch.
   Modelled, not verified: http.Dir / os (symbolic links are not in the model's file tree),
   http.ServeContent (ranges, If-Modified-Since), request paths not starting with "/". *)

Example C16_example :
  let root := Dir [([115]%N, File 1); ([112]%N, Dir [([97]%N, File 3)])] in   (* /s (outside), /p/a *)
  static_decide root [[112]%N] (mkso [] [105]%N false false) s_get [47;46;46;47;115]%N false = SPass /\   (* GET /../s *)
  static_decide root [[112]%N] (mkso [] [105]%N false false) s_get [47;120;47;46;46;47;97]%N false = SServe 3 [[97]%N] /\
  (* through http.FS: "/a" is served, "/x/../a" and "/a//" are not valid fs paths, "/../s" neither *)
  static_decide root [[112]%N] (mkso [] [105]%N false true) s_get [47;97]%N false = SServe 3 [[97]%N] /\
  static_decide root [[112]%N] (mkso [] [105]%N false true) s_get [47;120;47;46;46;47;97]%N false = SPass /\
  static_decide root [[112]%N] (mkso [] [105]%N false true) s_get [47;97;47;47]%N false = SServe 3 [[97]%N] /\
  static_decide root [[112]%N] (mkso [] [105]%N false true) s_get [47;46;46;47;115]%N false = SPass.
Proof. vm_compute. repeat split. Qed.

Redirect "assum/C16.1" Print Assumptions C16_clean_no_dotdot.
Redirect "assum/C16.2" Print Assumptions C16_contained.
Redirect "assum/C16.3" Print Assumptions C16_prefix_boundary.
Redirect "assum/C16.4" Print Assumptions C16_redirect_slash.
