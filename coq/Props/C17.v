(* C17 Render sends the given status, the right content type and a faithful body. *)
Require Import Base Render RenderProofs Inject InjectProofs.

(* for every kind, charset, non-zero status and payload (the encoder's output for JSON/XML, the given
   bytes / string for Binary / PlainText): on a fresh response the client receives exactly that
   status, the matching Content-Type with the configured charset (in force when the status line is
   sent) and exactly the payload as body (nothing for HEAD) *)
Theorem C17_status_ct_body : forall k charset status payload head,
  status <> 0%Z ->
  let r := run_hops head fresh (render_ops k charset status payload) in
  r_status r = status /\
  get_hdr (r_sent_hdrs r) s_ct = Some (content_type k charset) /\
  r_body r = (if head then [] else [payload]).
Proof. exact render_fresh. Qed.

(* the Renderer middleware maps Render in the request scope: every later handler of the same request
   resolves it there (C04) *)
Theorem C17_available : forall is_iface implements s app render_ty r,
  value is_iface implements [register s render_ty r; app] render_ty = [r].
Proof. exact request_sees_own. Qed.

(* Not provable here: that encoding/json and encoding/xml produce a body that decodes back to the
   value - checked by the correspondence only (decode with the standard decoders and compare; compare
   with MarshalIndent for the configured indentation).  This check is therefore partial. *)

Redirect "assum/C17.1" Print Assumptions C17_status_ct_body.
Redirect "assum/C17.2" Print Assumptions C17_available.
