(* C18 Request accessors are total and cookies round-trip byte for byte. *)
Require Import Base Escape EscapeProofs Query QueryProofs.

(* a cookie value written with SetCookie (url.QueryEscape) and sent back by a client is read back
   (url.QueryUnescape) byte for byte, for every byte string *)
Theorem C18_cookie_roundtrip : forall s, Forall is_byte s -> cookie_roundtrip s = s.
Proof. exact cookie_roundtrip_id. Qed.

Theorem C18_unescape_escape : forall s, Forall is_byte s -> query_unescape (query_escape s) = Some s.
Proof. exact unescape_escape. Qed.

(* what SetCookie emits consists only of bytes net/http sends unquoted and unsanitised *)
Theorem C18_escaped_value_is_cookie_safe : forall s,
  Forall is_byte s -> forallb cookie_plain_byte (query_escape s) = true.
Proof. exact escape_is_cookie_plain. Qed.

(* one rule for every accessor: present (non-empty) -> the converted value; absent or empty -> the
   caller's default, or the zero value when none is given.  The accessors of the model are instances
   of with_default (Query, QueryTrim, QueryUnescape, QueryBool, QueryInt/QueryInt64). *)
Theorem C18_default_rule_present : forall (A : Type) v (conv : str -> A) d z, v <> [] -> with_default v conv d z = conv v.
Proof. exact @with_default_present. Qed.
Theorem C18_default_rule_absent : forall (A : Type) (conv : str -> A) d z,
  with_default [] conv d z = match d with Some x => x | None => z end.
Proof. exact @with_default_absent. Qed.

(* how the Query* accessors find their value in the raw query string (Request.URL.Query().Get(name): net/url.ParseQuery
   with the error dropped, then the first value): whatever pairs a client writes - any byte strings as keys and
   values, escaped and joined with '&' - are read back exactly, in order; so an accessor sees the first value
   written for its name, byte for byte, and "" (hence the default rule above) for a name that was not written *)
Theorem C18_query_parse_encode : forall l, Forall bytes_pair l -> parse_query (encode_pairs l) = l.
Proof. exact parse_encode. Qed.
Theorem C18_query_first_value : forall l name, Forall bytes_pair l ->
  query_get (encode_pairs l) name = match find (fun kv => str_eqb (fst kv) name) l with Some kv => snd kv | None => [] end.
Proof. exact query_get_encoded. Qed.
(* end to end for a name that was not written: the accessor answers with the caller's default, or "" *)
Theorem C18_query_absent_gives_default : forall l name d, Forall bytes_pair l ->
  find (fun kv => str_eqb (fst kv) name) l = None ->
  query (query_get (encode_pairs l) name) d = match d with Some x => x | None => [] end.
Proof.
  intros l name d H F. rewrite (query_get_encoded l name H), F. unfold query. apply with_default_absent.
Qed.
(* QueryStrings sees every value written for its name, in order *)
Theorem C18_query_all_values : forall l name, Forall bytes_pair l ->
  query_values (encode_pairs l) name = map snd (filter (fun kv => str_eqb (fst kv) name) l).
Proof. exact query_values_encoded. Qed.
(* a piece that does not parse (a ';' in it, a bad escape) is dropped and hides nothing behind it *)
Theorem C18_query_bad_piece_skipped : forall a b, free_of 38%N a = true ->
  parse_query (a ++ 38%N :: b) = (match parse_piece a with Some kv => [kv] | None => [] end) ++ parse_query b.
Proof. exact parse_query_app. Qed.

(* totality is structural: every accessor of the model is a total function of (value, default).
   QueryFloat64 (strconv.ParseFloat) is an oracle and is not modelled. *)

Example C18_example_query :
  query_get [113;61;37;122;122;38;97;61;49;59;113;61;50;38;113;61;97;43;98;38;113;61;51]%N [113]%N = [97;32;98]%N /\
  parse_query [61;118;38;38;113]%N = [([], [118]%N); ([113]%N, [])].
Proof. vm_compute. repeat split. Qed.

Example C18_example :
  cookie_roundtrip [97;32;59;34;200;37]%N = [97;32;59;34;200;37]%N /\
  query_escape [97;32;59;200]%N = [97;43;37;51;66;37;67;56]%N /\
  query_int [57;57;57;57;57;57;57;57;57;57;57;57;57;57;57;57;57;57;57;57]%N None = max_int64 /\
  query_trim [] (Some [32;100;32]%N) = [32;100;32]%N.
Proof. vm_compute. repeat split. Qed.

Redirect "assum/C18.1" Print Assumptions C18_cookie_roundtrip.
Redirect "assum/C18.2" Print Assumptions C18_escaped_value_is_cookie_safe.
Redirect "assum/C18.3" Print Assumptions C18_query_first_value.
