(* C18 Request accessors are total and cookies round-trip byte for byte. *)
Require Import Base Escape EscapeProofs.

(* a cookie value written with SetCookie (url.QueryEscape) and sent back by a client is read back
   (url.QueryUnescape) byte for byte, for every byte string *)
Theorem C18_cookie_roundtrip : forall s, Forall is_byte s -> cookie_roundtrip s = s.
Proof. exact cookie_roundtrip_id. Qed.

Theorem C18_unescape_escape : forall s, Forall is_byte s -> query_unescape (query_escape s) = Some s.
Proof. exact unescape_escape. Qed.

(* what SetCookie emits consists only of bytes net/http sends unquoted and unsanitised *)
Theorem C18_escaped_value_is_cookie_safe : forall s,
  Forall is_byte s -> forallb cookie_plain_byte (query_escape s) = true.
Proof. exact escape_is_cookie_plain. Qed.

(* one rule for every accessor: present (non-empty) -> the converted value; absent or empty -> the
   caller's default, or the zero value when none is given.  The accessors of the model are instances
   of with_default (Query, QueryTrim, QueryUnescape, QueryBool, QueryInt/QueryInt64). *)
Theorem C18_default_rule_present : forall (A : Type) v (conv : str -> A) d z, v <> [] -> with_default v conv d z = conv v.
Proof. exact @with_default_present. Qed.
Theorem C18_default_rule_absent : forall (A : Type) (conv : str -> A) d z,
  with_default [] conv d z = match d with Some x => x | None => z end.
Proof. exact @with_default_absent. Qed.

(* totality is structural: every accessor of the model is a total function of (value, default).
   QueryFloat64 (strconv.ParseFloat) is an oracle and is not modelled; url.Values decoding of the raw
   query is not modelled (the correspondence encodes values with url.Values.Encode). *)

Example C18_example :
  cookie_roundtrip [97;32;59;34;200;37]%N = [97;32;59;34;200;37]%N /\
  query_escape [97;32;59;200]%N = [97;43;37;51;66;37;67;56]%N /\
  query_int [57;57;57;57;57;57;57;57;57;57;57;57;57;57;57;57;57;57;57;57]%N None = max_int64 /\
  query_trim [] (Some [32;100;32]%N) = [32;100;32]%N.
Proof. vm_compute. repeat split. Qed.

Redirect "assum/C18.1" Print Assumptions C18_cookie_roundtrip.
Redirect "assum/C18.2" Print Assumptions C18_escaped_value_is_cookie_safe.
