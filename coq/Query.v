(* Model of how the Query* accessors of context.go find a value in the raw query string:
   Request.URL.Query() is net/url.ParseQuery with the error dropped, Get(name) is the first value. *)
Require Import Base Escape.
Local Open Scope N_scope.

(* strings.Cut / repeated strings.Cut on a separator byte *)
Fixpoint split_on (sep : N) (s : str) : list str :=
  match s with
  | [] => [[]]
  | c :: s' => match split_on sep s' with
               | p :: ps => if N.eqb c sep then [] :: p :: ps else (c :: p) :: ps
               | [] => [[]]
               end
  end.

Fixpoint cut (sep : N) (s : str) : str * str :=
  match s with
  | [] => ([], [])
  | c :: s' => if N.eqb c sep then ([], s') else let '(a, b) := cut sep s' in (c :: a, b)
  end.

(* one '&'-separated piece: dropped when it holds a ';', when it is empty, or when its key or its value does
   not unescape; otherwise key and value are cut at the first '=' and unescaped *)
Definition parse_piece (p : str) : option (str * str) :=
  if existsb (N.eqb 59) p then None
  else match p with
       | [] => None
       | _ => let '(k, v) := cut 61 p in
              match query_unescape k, query_unescape v with
              | Some k', Some v' => Some (k', v')
              | _, _ => None
              end
       end.

Definition parse_query (raw : str) : list (str * str) :=
  flat_map (fun p => match parse_piece p with Some kv => [kv] | None => [] end) (split_on 38 raw).

(* url.Values.Get: the first value of the key, "" when there is none *)
Definition query_get (raw : str) (name : str) : str :=
  match find (fun kv => str_eqb (fst kv) name) (parse_query raw) with Some kv => snd kv | None => [] end.

(* QueryStrings: every value of the key, in order; the default (or the empty list) when the key does not occur *)
Definition query_values (raw : str) (name : str) : list str :=
  map snd (filter (fun kv => str_eqb (fst kv) name) (parse_query raw)).
Definition query_strings (raw : str) (name : str) (d : option (list str)) : list str :=
  match query_values raw name with
  | [] => match d with Some x => x | None => [] end
  | vs => vs
  end.

(* how a client (or url.Values.Encode, up to the order of keys) writes pairs *)
Definition enc_pair (kv : str * str) : str := query_escape (fst kv) ++ 61 :: query_escape (snd kv).
Fixpoint encode_pairs (l : list (str * str)) : str :=
  match l with
  | [] => []
  | [kv] => enc_pair kv
  | kv :: l' => enc_pair kv ++ 38 :: encode_pairs l'
  end.
