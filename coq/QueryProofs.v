Require Import Base Escape EscapeProofs Query.
From Coq Require Import ZifyN ZifyBool.
Local Open Scope N_scope.

Definition free_of (sep : N) (s : str) : bool := forallb (fun c => negb (N.eqb c sep)) s.

Lemma split_on_nonempty sep s : split_on sep s <> [].
Proof. destruct s as [|c s]; cbn; [discriminate|]. destruct (split_on sep s); [discriminate|]. destruct (N.eqb c sep); discriminate. Qed.

Lemma split_free sep s : free_of sep s = true -> split_on sep s = [s].
Proof.
  induction s as [|c s IH]; intros H; [reflexivity|]. cbn in H. apply andb_true_iff in H as [H1 H2].
  cbn [split_on]. rewrite (IH H2). destruct (N.eqb c sep); [discriminate|reflexivity].
Qed.

Lemma split_app sep a b : free_of sep a = true -> split_on sep (a ++ sep :: b) = a :: split_on sep b.
Proof.
  induction a as [|c a IH]; intros H.
  - cbn [app split_on]. destruct (split_on sep b) eqn:E; [exfalso; exact (split_on_nonempty sep b E)|].
    rewrite N.eqb_refl. reflexivity.
  - cbn in H. apply andb_true_iff in H as [H1 H2]. cbn [app split_on]. rewrite (IH H2).
    destruct (N.eqb c sep); [discriminate|reflexivity].
Qed.

Lemma cut_app sep a b : free_of sep a = true -> cut sep (a ++ sep :: b) = (a, b).
Proof.
  induction a as [|c a IH]; intros H.
  - cbn. rewrite N.eqb_refl. reflexivity.
  - cbn in H. apply andb_true_iff in H as [H1 H2]. cbn [app cut]. rewrite (IH H2).
    destruct (N.eqb c sep); [discriminate|reflexivity].
Qed.

Lemma free_app sep a b : free_of sep (a ++ b) = free_of sep a && free_of sep b.
Proof. apply forallb_app. Qed.

(* QueryEscape emits none of the bytes the query syntax gives a meaning to *)
Lemma escape_free s : Forall is_byte s ->
  free_of 38 (query_escape s) = true /\ free_of 59 (query_escape s) = true /\ free_of 61 (query_escape s) = true.
Proof.
  induction 1 as [|c s Hc _ [I1 [I2 I3]]]; [repeat split; reflexivity|]. cbn [query_escape].
  assert (P : forall d, (d < 16)%N -> upper_hex d <> 38 /\ upper_hex d <> 59 /\ upper_hex d <> 61).
  { intros d Hd. unfold upper_hex. destruct (N.ltb d 10) eqn:E; lia. }
  destruct (unreserved c) eqn:U.
  - unfold free_of in *. cbn [forallb]. rewrite I1, I2, I3, !andb_true_r.
    unfold unreserved, is_alnum in U. lia.
  - destruct (N.eqb c 32) eqn:S.
    + unfold free_of in *. cbn [forallb]. rewrite I1, I2, I3. repeat split; reflexivity.
    + assert (H1 : (c / 16 < 16)%N) by (unfold is_byte in Hc; apply N.div_lt_upper_bound; lia).
      assert (H2 : (c mod 16 < 16)%N) by (apply N.mod_lt; lia).
      destruct (P _ H1) as [A1 [A2 A3]]. destruct (P _ H2) as [B1 [B2 B3]].
      unfold free_of in *. cbn [forallb]. rewrite I1, I2, I3, !andb_true_r.
      repeat split; lia.
Qed.

Lemma existsb_free sep s : free_of sep s = true -> existsb (N.eqb sep) s = false.
Proof.
  induction s as [|c s IH]; intros H; [reflexivity|]. cbn in H. apply andb_true_iff in H as [H1 H2].
  cbn [existsb]. rewrite (IH H2), orb_false_r. rewrite N.eqb_sym. destruct (N.eqb c sep); [discriminate|reflexivity].
Qed.

Definition bytes_pair (kv : str * str) : Prop := Forall is_byte (fst kv) /\ Forall is_byte (snd kv).

Lemma parse_enc_pair kv : bytes_pair kv -> parse_piece (enc_pair kv) = Some kv.
Proof.
  intros [Hk Hv]. destruct kv as [k v]. cbn [fst snd] in *. unfold parse_piece, enc_pair. cbn [fst snd].
  destruct (escape_free k Hk) as [_ [K59 K61]]. destruct (escape_free v Hv) as [_ [V59 _]].
  assert (S : existsb (N.eqb 59) (query_escape k ++ 61 :: query_escape v) = false).
  { apply existsb_free. rewrite free_app. cbn [free_of forallb]. fold (free_of 59 (query_escape v)). rewrite K59, V59. reflexivity. }
  rewrite S. rewrite (cut_app 61 _ _ K61), (unescape_escape k Hk), (unescape_escape v Hv).
  destruct (query_escape k ++ 61 :: query_escape v) eqn:E; [destruct (query_escape k); discriminate|reflexivity].
Qed.

Lemma enc_pair_free kv : bytes_pair kv -> free_of 38 (enc_pair kv) = true.
Proof.
  intros [Hk Hv]. unfold enc_pair. rewrite free_app. cbn [free_of forallb].
  destruct (escape_free _ Hk) as [K _]. destruct (escape_free _ Hv) as [V _].
  fold (free_of 38 (query_escape (snd kv))). rewrite K, V. reflexivity.
Qed.

(* ParseQuery reads back exactly the pairs that were written, in order - for all byte strings as keys and values *)
Theorem parse_encode l : Forall bytes_pair l -> parse_query (encode_pairs l) = l.
Proof.
  induction 1 as [|kv l Hkv Hl IH]; [reflexivity|].
  destruct l as [|kv' l'].
  - cbn [encode_pairs]. unfold parse_query. rewrite (split_free 38 _ (enc_pair_free kv Hkv)).
    cbn [flat_map]. rewrite (parse_enc_pair kv Hkv). reflexivity.
  - change (encode_pairs (kv :: kv' :: l')) with (enc_pair kv ++ 38 :: encode_pairs (kv' :: l')).
    unfold parse_query in *. rewrite (split_app 38 _ _ (enc_pair_free kv Hkv)).
    cbn [flat_map]. rewrite (parse_enc_pair kv Hkv), IH. reflexivity.
Qed.

(* hence every accessor sees the first value written for its name, byte for byte, and "" for a name that was not written *)
Theorem query_get_encoded l name : Forall bytes_pair l ->
  query_get (encode_pairs l) name =
  match find (fun kv => str_eqb (fst kv) name) l with Some kv => snd kv | None => [] end.
Proof. intros H. unfold query_get. rewrite (parse_encode l H). reflexivity. Qed.

(* pieces that do not parse hide nothing: a malformed piece between two good ones is skipped *)
Lemma parse_query_app a b : free_of 38 a = true ->
  parse_query (a ++ 38 :: b) = (match parse_piece a with Some kv => [kv] | None => [] end) ++ parse_query b.
Proof. intros H. unfold parse_query. rewrite (split_app 38 a b H). reflexivity. Qed.

Theorem query_values_encoded l name : Forall bytes_pair l ->
  query_values (encode_pairs l) name = map snd (filter (fun kv => str_eqb (fst kv) name) l).
Proof. intros H. unfold query_values. rewrite (parse_encode l H). reflexivity. Qed.
