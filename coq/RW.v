(* Model of response_writer.go: the ResponseWriter wrapper as a state machine.
   Mirrors WriteHeader / Write / Flush / Before / Status / Size / Written. *)
Require Import Base.

Inductive op :=
| OWriteHeader (c : Z)
| OWrite (bs : str) (acc : N)   (* acc: how many bytes the underlying writer accepts *)
| OFlush (f : bool)               (* f: the underlying writer is an http.Flusher *)
| OBefore (id : nat) (p : bool)   (* p: this before function panics when it runs *)
| OStatus
| OSize
| OWritten.

(* What an operation makes observable: calls reaching the underlying writer,
   hook executions (with the status the hook sees) and answers. *)
Inductive ev :=
| UWriteHeader (c : Z)
| UWrite (bs : str) (n : N)      (* n: count the underlying writer reported *)
| UFlush
| EHook (id : nat) (seen : Z)
| AStatus (z : Z)
| ASize (n : N)
| AWritten (b : bool)
| EPanic.                        (* a before function panicked: the operation ends there *)

Record st := mk { status : Z; size : N; hooks : list (nat * bool); once : bool }.

Definition init : st := mk 0 0 [] false.

(* callBefore on the before functions, newest first: stops at the first one that panics *)
Fixpoint call_before (seen : Z) (l : list (nat * bool)) : list ev * bool :=
  match l with
  | [] => ([], false)
  | (id, p) :: l' =>
      if p then ([EHook id seen; EPanic], true)
      else let '(es, b) := call_before seen l' in (EHook id seen :: es, b)
  end.

(* responseWriter.WriteHeader (as repaired by commit 4f6e53a):
     once.Do(callBefore); if CAS(status, 0, s) { underlying.WriteHeader(s) }
   a panic inside sync.Once.Do still spends the Once.  Result: state, events, "the call panicked". *)
Definition write_header (s : st) (c : Z) : st * list ev * bool :=
  let '(es, pan) := if once s then ([], false) else call_before (status s) (rev (hooks s)) in
  if pan then (mk (status s) (size s) (hooks s) true, es, true)
  else if Z.eqb (status s) 0 then (mk c (size s) (hooks s) true, es ++ [UWriteHeader c], false)
  else (mk (status s) (size s) (hooks s) true, es, false).

Definition ensure_header (s : st) : st * list ev * bool :=
  if Z.eqb (status s) 0 then write_header s 200 else (s, [], false).

Definition step (head : bool) (s : st) (o : op) : st * list ev :=
  match o with
  | OWriteHeader c => let '(s1, e1, _) := write_header s c in (s1, e1)
  | OWrite bs acc =>
      let '(s1, e1, pan) := ensure_header s in
      if pan || head then (s1, e1)
      else let n := N.min acc (slen bs) in
           (mk (status s1) (size s1 + n) (hooks s1) (once s1), e1 ++ [UWrite bs n])
  | OFlush f =>
      let '(s1, e1, pan) := ensure_header s in
      if pan then (s1, e1) else (s1, e1 ++ (if f then [UFlush] else []))
  | OBefore id p => (mk (status s) (size s) (hooks s ++ [(id, p)]) (once s), [])
  | OStatus => (s, [AStatus (status s)])
  | OSize => (s, [ASize (size s)])
  | OWritten => (s, [AWritten (negb (Z.eqb (status s) 0))])
  end.

(* per-operation outputs *)
Fixpoint run_from (head : bool) (s : st) (ops : list op) : list (list ev) :=
  match ops with
  | [] => []
  | o :: ops' => let '(s', e) := step head s o in e :: run_from head s' ops'
  end.

Definition run (head : bool) (ops : list op) : list (list ev) := run_from head init ops.

(* ------------------------------------------------------------------ *)
(* The property as an executable judgement on (operations, outputs).   *)

(* state of the judge: what the *outputs so far* say *)
Record judge := mkj {
  sent : option Z;       (* status line seen at the underlying writer *)
  fwd  : N;              (* body bytes seen at the underlying writer *)
  regs : list (nat * bool);   (* before functions registered so far *)
  fired : bool           (* a WriteHeader / first Write / first Flush has been attempted *)
}.

Definition jinit : judge := mkj None 0 [] false.

Definition is_trigger (o : op) : bool :=
  match o with OWriteHeader _ | OWrite _ _ | OFlush _ => true | _ => false end.

Definition trigger_code (o : op) : Z :=
  match o with OWriteHeader c => c | _ => 200 end.

Definition ev_eqb (a b : ev) : bool :=
  match a, b with
  | UWriteHeader x, UWriteHeader y => Z.eqb x y
  | UWrite x n, UWrite y m => str_eqb x y && N.eqb n m
  | UFlush, UFlush => true
  | EHook i x, EHook j y => Nat.eqb i j && Z.eqb x y
  | AStatus x, AStatus y => Z.eqb x y
  | ASize x, ASize y => N.eqb x y
  | AWritten x, AWritten y => Bool.eqb x y
  | EPanic, EPanic => true
  | _, _ => false
  end.

(* what the property demands of one operation, given what has been seen: the first attempt to send a
   status runs the before functions registered so far, newest first, each seeing status 0; if one of
   them panics the operation ends there with nothing sent (and they never run again); otherwise
   exactly one status line goes out as long as none has *)
Definition expected (head : bool) (j : judge) (o : op) : list ev :=
  let attempt := is_trigger o && match sent j with None => true | Some _ => false end in
  let '(pre, pan) := if attempt && negb (fired j) then call_before 0 (rev (regs j)) else ([], false) in
  if pan then pre
  else
    let first := if attempt then pre ++ [UWriteHeader (trigger_code o)] else [] in
    match o with
    | OWriteHeader _ => first
    | OWrite bs acc => first ++ (if head then [] else [UWrite bs (N.min acc (slen bs))])
    | OFlush f => first ++ (if f then [UFlush] else [])
    | OBefore _ _ => []
    | OStatus => [AStatus (match sent j with Some c => c | None => 0 end)]
    | OSize => [ASize (fwd j)]
    | OWritten => [AWritten (match sent j with Some _ => true | None => false end)]
    end.

(* the judge advances on the *observed* events only *)
Fixpoint observe (j : judge) (es : list ev) : judge :=
  match es with
  | [] => j
  | UWriteHeader c :: es' =>
      observe (mkj (match sent j with None => Some c | s => s end) (fwd j) (regs j) (fired j)) es'
  | UWrite _ n :: es' => observe (mkj (sent j) (fwd j + n) (regs j) (fired j)) es'
  | _ :: es' => observe j es'
  end.

Definition jstep (j : judge) (o : op) (es : list ev) : judge :=
  let j1 := observe j es in
  match o with
  | OBefore id p => mkj (sent j1) (fwd j1) (regs j1 ++ [(id, p)]) (fired j1)
  | OWriteHeader _ => mkj (sent j1) (fwd j1) (regs j1) true
  | OWrite _ _ | OFlush _ => mkj (sent j1) (fwd j1) (regs j1) (fired j1 || match sent j with None => true | Some _ => false end)
  | _ => j1
  end.

Fixpoint judge_from (head : bool) (j : judge) (ops : list op) (outs : list (list ev)) : bool :=
  match ops, outs with
  | [], [] => true
  | o :: ops', es :: outs' =>
      list_eqb ev_eqb es (expected head j o) && judge_from head (jstep j o es) ops' outs'
  | _, _ => false
  end.

Definition spec_ok (head : bool) (ops : list op) (outs : list (list ev)) : bool :=
  judge_from head jinit ops outs.

Definition valid_op (o : op) : bool :=
  match o with OWriteHeader c => negb (Z.eqb c 0) | _ => true end.
