(* Proofs about the response-writer model (C13). *)
Require Import Base RW.

Lemma ev_eqb_eq a b : ev_eqb a b = true <-> a = b.
Proof.
  destruct a as [x|x n| |i x|x|x|x|], b as [y|y m| |j y|y|y|y|]; cbn; split; intros H;
    try discriminate; try reflexivity.
  - apply Z.eqb_eq in H; congruence.
  - inversion H; subst; apply Z.eqb_refl.
  - apply andb_prop in H as [H1 H2]. apply str_eqb_eq in H1. apply N.eqb_eq in H2. congruence.
  - inversion H; subst. rewrite str_eqb_refl, N.eqb_refl. reflexivity.
  - apply andb_prop in H as [H1 H2]. apply Nat.eqb_eq in H1. apply Z.eqb_eq in H2. congruence.
  - inversion H; subst. rewrite Nat.eqb_refl, Z.eqb_refl. reflexivity.
  - apply Z.eqb_eq in H; congruence.
  - inversion H; subst; apply Z.eqb_refl.
  - apply N.eqb_eq in H; congruence.
  - inversion H; subst; apply N.eqb_refl.
  - apply Bool.eqb_prop in H; congruence.
  - inversion H; subst. destruct y; reflexivity.
Qed.

Lemma evs_eqb_refl es : list_eqb ev_eqb es es = true.
Proof. apply (list_eqb_eq ev_eqb ev_eqb_eq). reflexivity. Qed.

Lemma observe_app j a b : observe j (a ++ b) = observe (observe j a) b.
Proof.
  revert j; induction a as [|e a IH]; intros j; [reflexivity|].
  destruct e; cbn [app observe]; apply IH.
Qed.

Lemma observe_cb j z l : observe j (fst (call_before z l)) = j.
Proof.
  induction l as [|[id p] l IH]; [reflexivity|]. cbn [call_before]. destruct p; [reflexivity|].
  destruct (call_before z l) as [es b]. cbn [fst] in *. cbn [observe]. exact IH.
Qed.

(* the judge state is exactly what the model state says *)
Definition rel (s : st) (j : judge) : Prop :=
  sent j = (if Z.eqb (status s) 0 then None else Some (status s)) /\
  fwd j = size s /\ regs j = hooks s /\ fired j = once s /\
  (Z.eqb (status s) 0 = false -> once s = true).

Lemma rel_init : rel init jinit.
Proof. repeat split. intros H; discriminate. Qed.

Lemma step_ok head s j o :
  rel s j -> valid_op o = true ->
  snd (step head s o) = expected head j o /\
  rel (fst (step head s o)) (jstep j o (snd (step head s o))).
Proof.
  intros (Hs & Hf & Hr & Ho & Hi) V.
  destruct j as [sj fj rj fr]; cbn [sent fwd regs fired] in *.
  destruct s as [stt sz hk on]; cbn [status size hooks once] in *. subst fj rj fr.
  destruct (Z.eqb stt 0) eqn:E0; subst sj.
  - (* nothing sent yet *)
    apply Z.eqb_eq in E0. subst stt. clear Hi.
    pose proof (observe_cb (mkj None sz hk on) 0 (rev hk)) as OC.
    destruct o as [c|bs acc|fl|id p| | |]; try destruct fl;
      unfold step, ensure_header, write_header, expected, jstep;
      cbn [status size hooks once sent fwd regs fired is_trigger trigger_code andb negb Z.eqb valid_op] in *;
      try (destruct on; cbn [negb];
           [| destruct (call_before 0 (rev hk)) as [es pan]; cbn [fst] in OC; destruct pan]);
      try destruct head; cbn [orb fst snd status size hooks once];
      rewrite ?app_nil_r, <- ?app_assoc;
      (split; [reflexivity|]); unfold rel;
      rewrite ?observe_app, ?OC; cbn [observe sent fwd regs fired status size hooks once orb];
      try (destruct (Z.eqb c 0) eqn:Ec; [discriminate|]);
      repeat split; try reflexivity; try (intros X; discriminate).
  - (* a status has been sent *)
    specialize (Hi eq_refl). subst on.
    destruct o as [c|bs acc|fl|id p| | |]; try destruct fl; try destruct head;
      unfold step, ensure_header, write_header, expected, jstep, rel;
      cbn [status size hooks once sent fwd regs fired is_trigger fst snd negb andb orb];
      rewrite ?E0; cbn [negb fst snd app observe status size hooks once sent fwd regs fired orb];
      rewrite ?E0; repeat split; reflexivity.
Qed.

Lemma run_from_ok head : forall ops s j,
  rel s j -> forallb valid_op ops = true ->
  judge_from head j ops (run_from head s ops) = true.
Proof.
  induction ops as [|o ops IH]; intros s j R V; [reflexivity|].
  cbn [forallb] in V. apply andb_prop in V as [Vo V].
  cbn [run_from]. pose proof (step_ok head s j o R Vo) as H.
  destruct (step head s o) as [s' es]. cbn [fst snd] in H. destruct H as [-> R'].
  cbn [judge_from]. rewrite evs_eqb_refl. cbn. apply IH; assumption.
Qed.

Theorem run_meets_spec head ops :
  forallb valid_op ops = true -> spec_ok head ops (run head ops) = true.
Proof. intros V. apply run_from_ok; [apply rel_init | exact V]. Qed.

(* ---------------------------------------------------------------- *)
(* What being accepted by the judge implies, in plain terms.         *)

Definition is_wh (e : ev) : bool := match e with UWriteHeader _ => true | _ => false end.
Definition is_body (e : ev) : bool := match e with UWrite _ _ | UFlush => true | _ => false end.
Definition is_hook (e : ev) : bool := match e with EHook _ _ => true | _ => false end.

Fixpoint count {A} (p : A -> bool) (l : list A) : nat :=
  match l with [] => 0 | x :: l' => (if p x then 1 else 0) + count p l' end.

Lemma count_app {A} (p : A -> bool) a b : count p (a ++ b) = count p a + count p b.
Proof. induction a; cbn; lia. Qed.

Lemma count_cb p z l : (forall i, p (EHook i z) = false) -> p EPanic = false -> count p (fst (call_before z l)) = 0.
Proof.
  intros H HP. induction l as [|[id q] l IH]; [reflexivity|]. cbn [call_before]. destruct q.
  - cbn. rewrite H, HP. reflexivity.
  - destruct (call_before z l) as [es b]. cbn [fst] in *. cbn [count]. rewrite H. exact IH.
Qed.

Lemma no_uwrite_cb bs n z l : ~ In (UWrite bs n) (fst (call_before z l)).
Proof.
  induction l as [|[id q] l IH]; [intros []|]. cbn [call_before]. destruct q.
  - cbn. intuition discriminate.
  - destruct (call_before z l) as [es b]. cbn [fst] in *. intros [H|H]; [discriminate | exact (IH H)].
Qed.

(* events an accepted operation may produce: at most one status line, none once one has been seen;
   before functions only at the first attempt; nothing forwarded for HEAD *)
Lemma expected_shape head j o :
  let es := expected head j o in
  count is_wh es <= 1 /\
  (sent j <> None -> count is_wh es = 0) /\
  (sent j <> None \/ fired j = true -> count is_hook es = 0) /\
  (head = true -> forall bs n, ~ In (UWrite bs n) es).
Proof.
  cbv zeta. unfold expected.
  pose proof (count_cb is_wh 0 (rev (regs j)) (fun _ => eq_refl) eq_refl) as W.
  pose proof (no_uwrite_cb) as NU.
  destruct (sent j) as [c|] eqn:Es; cbn [andb].
  - (* a status has been seen: no attempt *)
    rewrite andb_false_r. cbn [andb].
    destruct o as [c'|bs acc|fl|id p| | |]; try destruct fl; destruct head; cbn;
      repeat split; try lia; try reflexivity; try (intros; congruence);
      intros _ bs' n' H; cbn in H; intuition discriminate.
  - rewrite andb_true_r.
    destruct (is_trigger o) eqn:T; cbn [andb].
    + destruct (fired j) eqn:Ef; cbn [negb].
      * destruct o as [c'|bs acc|fl|id p| | |]; try discriminate; try destruct fl; destruct head; cbn;
          repeat split; try lia; try reflexivity; try (intros [X|X]; congruence); try (intros; congruence);
          intros _ bs' n' H; cbn in H; intuition discriminate.
      * destruct (call_before 0 (rev (regs j))) as [pre pan] eqn:CB. cbn [fst] in W.
        specialize (NU) as NU'. 
        assert (NUp : forall bs n, ~ In (UWrite bs n) pre) by (intros bs n; specialize (NU bs n 0%Z (rev (regs j))); rewrite CB in NU; exact NU).
        destruct pan.
        -- repeat split; try lia; try (intros; congruence); try (intros [X|X]; congruence).
           intros _ bs n. apply NUp.
        -- destruct o as [c'|bs acc|fl|id p| | |]; try discriminate; try destruct fl; destruct head;
             rewrite ?app_nil_r, ?count_app, ?W; cbn;
             repeat split; try lia; try (intros; congruence); try (intros [X|X]; congruence);
             intros _ bs' n' H; repeat (apply in_app_or in H as [H|H]); try (apply NUp in H; exact H);
             cbn in H; intuition discriminate.
    + destruct o as [c'|bs acc|fl|id p| | |]; try discriminate; try destruct fl; cbn;
        repeat split; try lia; try reflexivity; try (intros; congruence);
        intros _ bs' n' H; cbn in H; intuition discriminate.
Qed.

Lemma observe_sent_some j es : sent j <> None -> sent (observe j es) = sent j.
Proof.
  revert j; induction es as [|e es IH]; intros j H; [reflexivity|].
  destruct e; cbn [observe]; try (apply IH; assumption).
  - destruct (sent j) eqn:E; [|congruence]. rewrite IH; cbn [sent]; [reflexivity | discriminate].
  - rewrite IH; cbn [sent]; [reflexivity | assumption].
Qed.

Lemma observe_sent_none j es : count is_wh es = 0 -> sent (observe j es) = sent j.
Proof.
  revert j; induction es as [|e es IH]; intros j H; [reflexivity|].
  destruct e; cbn [observe count is_wh] in *; try discriminate; try (apply IH; assumption).
  rewrite IH; [reflexivity | assumption].
Qed.

Lemma observe_sent_wh j es : count is_wh es <> 0 -> sent (observe j es) <> None.
Proof.
  revert j; induction es as [|e es IH]; intros j H; [cbn in H; congruence|].
  destruct e; cbn [observe count is_wh] in *; try (apply IH; assumption).
  rewrite observe_sent_some; cbn; destruct (sent j); congruence.
Qed.

Lemma jstep_sent j o es : sent (jstep j o es) = sent (observe j es).
Proof. unfold jstep. destruct o; reflexivity. Qed.

(* at most one status line reaches the underlying writer *)
Lemma judge_one_status head : forall ops outs j,
  judge_from head j ops outs = true ->
  count is_wh (concat outs) <= (match sent j with None => 1 | Some _ => 0 end).
Proof.
  induction ops as [|o ops IH]; intros [|es outs] j H; cbn [judge_from] in H; try discriminate.
  - cbn. destruct (sent j); lia.
  - apply andb_prop in H as [He H]. apply (list_eqb_eq ev_eqb ev_eqb_eq) in He. subst es.
    cbn [concat]. rewrite count_app. apply IH in H. rewrite jstep_sent in H.
    destruct (expected_shape head j o) as (H1 & H0 & _ & _).
    destruct (sent j) eqn:Ej.
    + rewrite observe_sent_some in H by congruence. rewrite Ej in H. rewrite H0 by congruence. lia.
    + destruct (Nat.eq_dec (count is_wh (expected head j o)) 0) as [Z|NZ].
      * rewrite Z. rewrite observe_sent_none in H by exact Z. rewrite Ej in H. lia.
      * apply (observe_sent_wh j) in NZ as NS.
        destruct (sent (observe j (expected head j o))); [lia | congruence].
Qed.

Theorem spec_one_status head ops outs :
  spec_ok head ops outs = true -> count is_wh (concat outs) <= 1.
Proof. intros H. apply (judge_one_status head ops outs jinit H). Qed.

(* the status line precedes every body byte / flush *)
Fixpoint status_first (seen : bool) (tr : list ev) : bool :=
  match tr with
  | [] => true
  | e :: t =>
      if is_wh e then status_first true t
      else if is_body e then seen && status_first seen t
      else status_first seen t
  end.

Lemma status_first_app seen a b :
  status_first seen (a ++ b) = status_first seen a && status_first (seen || negb (Nat.eqb (count is_wh a) 0)) b.
Proof.
  revert seen; induction a as [|e a IH]; intros seen; cbn [app status_first count].
  - cbn. rewrite orb_false_r. reflexivity.
  - destruct (is_wh e) eqn:W.
    + rewrite IH. cbn. rewrite !orb_true_r. reflexivity.
    + destruct (is_body e); rewrite IH; cbn; [rewrite andb_assoc|]; reflexivity.
Qed.

Lemma status_first_cb seen z l : status_first seen (fst (call_before z l)) = true.
Proof.
  induction l as [|[id q] l IH]; [reflexivity|]. cbn [call_before]. destruct q; [reflexivity|].
  destruct (call_before z l) as [es b]. cbn [fst] in *. exact IH.
Qed.

Lemma expected_status_first head j o :
  status_first (match sent j with Some _ => true | None => false end) (expected head j o) = true.
Proof.
  unfold expected.
  pose proof (status_first_cb false 0 (rev (regs j))) as SF.
  pose proof (count_cb is_wh 0 (rev (regs j)) (fun _ => eq_refl) eq_refl) as W.
  destruct (sent j) as [c|] eqn:Es.
  - rewrite andb_false_r. cbn [andb]. destruct o as [c'|bs acc|fl|id p| | |]; try destruct fl; cbn; try reflexivity; destruct head; reflexivity.
  - rewrite andb_true_r. destruct (is_trigger o) eqn:T; cbn [andb].
    + destruct (fired j); cbn [negb].
      * destruct o as [c'|bs acc|fl|id p| | |]; try discriminate; try destruct fl; destruct head; reflexivity.
      * destruct (call_before 0 (rev (regs j))) as [pre pan]. cbn [fst] in SF, W. destruct pan; [exact SF|].
        destruct o as [c'|bs acc|fl|id p| | |]; try discriminate; try destruct fl; try destruct head;
          rewrite ?app_nil_r, ?status_first_app, ?count_app, ?SF, ?W; cbn; reflexivity.
    + destruct o; try discriminate; reflexivity.
Qed.

Lemma judge_status_first head : forall ops outs j,
  judge_from head j ops outs = true ->
  status_first (match sent j with Some _ => true | None => false end) (concat outs) = true.
Proof.
  induction ops as [|o ops IH]; intros [|es outs] j H; cbn [judge_from] in H; try discriminate.
  - reflexivity.
  - apply andb_prop in H as [He H]. apply (list_eqb_eq ev_eqb ev_eqb_eq) in He. subst es.
    cbn [concat]. rewrite status_first_app, expected_status_first. cbn [andb].
    apply IH in H. rewrite jstep_sent in H.
    destruct (sent j) eqn:Ej.
    + rewrite observe_sent_some in H by congruence. rewrite Ej in H. exact H.
    + cbn [orb]. destruct (Nat.eqb (count is_wh (expected head j o)) 0) eqn:E0.
      * apply Nat.eqb_eq in E0. rewrite observe_sent_none in H by exact E0. rewrite Ej in H. exact H.
      * apply Nat.eqb_neq in E0. apply (observe_sent_wh j) in E0.
        destruct (sent (observe j (expected head j o))); [exact H | congruence].
Qed.

Theorem spec_status_first head ops outs :
  spec_ok head ops outs = true -> status_first false (concat outs) = true.
Proof. intros H. apply (judge_status_first head ops outs jinit H). Qed.

(* HEAD requests forward no body bytes *)
Theorem spec_head_no_body ops : forall outs j,
  judge_from true j ops outs = true -> forall bs n, ~ In (UWrite bs n) (concat outs).
Proof.
  induction ops as [|o ops IH]; intros [|es outs] j H bs n; cbn [judge_from] in H; try discriminate.
  - intros [].
  - apply andb_prop in H as [He H]. apply (list_eqb_eq ev_eqb ev_eqb_eq) in He. subst es.
    cbn [concat]. intros HIn. apply in_app_or in HIn as [HIn|HIn].
    + destruct (expected_shape true j o) as (_ & _ & _ & Hh). exact (Hh eq_refl bs n HIn).
    + exact (IH _ _ H bs n HIn).
Qed.

(* the before functions run during at most one operation (the first attempt to send a status) *)
Definition has_hook (es : list ev) : bool := negb (Nat.eqb (count is_hook es) 0).

Lemma jstep_fired j o es : fired j = true -> fired (jstep j o es) = true.
Proof.
  intros F. assert (O : fired (observe j es) = true).
  { clear o. revert j F. induction es as [|e es IH]; intros j F; [exact F|]. destruct e; cbn [observe]; apply IH; exact F. }
  unfold jstep. destruct o; cbn [fired]; rewrite ?O; reflexivity.
Qed.

Lemma observe_fired j es : fired (observe j es) = fired j.
Proof. revert j. induction es as [|e es IH]; intros j; [reflexivity|]. destruct e; cbn [observe]; rewrite IH; reflexivity. Qed.

Lemma judge_hooks_once head : forall ops outs j,
  judge_from head j ops outs = true ->
  count has_hook outs <= (if fired j then 0 else 1).
Proof.
  induction ops as [|o ops IH]; intros [|es outs] j H; cbn [judge_from] in H; try discriminate.
  - cbn. destruct (fired j); lia.
  - apply andb_prop in H as [He H]. apply (list_eqb_eq ev_eqb ev_eqb_eq) in He. subst es.
    apply IH in H. cbn [count].
    destruct (expected_shape head j o) as (_ & _ & HK & _).
    destruct (fired j) eqn:Ef.
    + rewrite jstep_fired in H by exact Ef. unfold has_hook at 1. rewrite HK by (right; reflexivity). cbn. lia.
    + unfold has_hook at 1. destruct (Nat.eqb (count is_hook (expected head j o)) 0) eqn:E0; cbn [negb].
      * destruct (fired (jstep j o (expected head j o))); lia.
      * (* before functions ran: this operation was an attempt, so the judge marks it *)
        assert (F : fired (jstep j o (expected head j o)) = true).
        { apply Nat.eqb_neq in E0. unfold jstep. rewrite !observe_fired.
          destruct (sent j) eqn:Es; [exfalso; apply E0, HK; left; congruence|].
          destruct o; cbn [fired]; rewrite ?orb_true_r; try reflexivity;
            exfalso; apply E0; unfold expected; rewrite Es; reflexivity. }
        rewrite F in H. lia.
Qed.

Theorem spec_hooks_once head ops outs : spec_ok head ops outs = true -> count has_hook outs <= 1.
Proof. intros H. apply (judge_hooks_once head ops outs jinit H). Qed.
