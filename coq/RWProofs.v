(* Proofs about the response-writer model (C13). *)
Require Import Base RW.

Lemma ev_eqb_eq a b : ev_eqb a b = true <-> a = b.
Proof.
  destruct a as [x|x n| |i x|x|x|x], b as [y|y m| |j y|y|y|y]; cbn; split; intros H;
    try discriminate; try reflexivity.
  - apply Z.eqb_eq in H; congruence.
  - inversion H; subst; apply Z.eqb_refl.
  - apply andb_prop in H as [H1 H2]. apply str_eqb_eq in H1. apply N.eqb_eq in H2. congruence.
  - inversion H; subst. rewrite str_eqb_refl, N.eqb_refl. reflexivity.
  - apply andb_prop in H as [H1 H2]. apply Nat.eqb_eq in H1. apply Z.eqb_eq in H2. congruence.
  - inversion H; subst. rewrite Nat.eqb_refl, Z.eqb_refl. reflexivity.
  - apply Z.eqb_eq in H; congruence.
  - inversion H; subst; apply Z.eqb_refl.
  - apply N.eqb_eq in H; congruence.
  - inversion H; subst; apply N.eqb_refl.
  - apply Bool.eqb_prop in H; congruence.
  - inversion H; subst. destruct y; reflexivity.
Qed.

Lemma evs_eqb_refl es : list_eqb ev_eqb es es = true.
Proof. apply (list_eqb_eq ev_eqb ev_eqb_eq). reflexivity. Qed.

Lemma observe_app j a b : observe j (a ++ b) = observe (observe j a) b.
Proof.
  revert j; induction a as [|e a IH]; intros j; [reflexivity|].
  destruct e; cbn [app observe]; apply IH.
Qed.

Lemma observe_hooks j ids z : observe j (map (fun id => EHook id z) ids) = j.
Proof. induction ids as [|i ids IH]; cbn; auto. Qed.

(* the judge state is exactly what the model state says *)
Definition rel (s : st) (j : judge) : Prop :=
  sent j = (if Z.eqb (status s) 0 then None else Some (status s)) /\
  fwd j = size s /\ regs j = hooks s /\ once s = negb (Z.eqb (status s) 0).

Lemma rel_init : rel init jinit.
Proof. repeat split. Qed.

Lemma step_ok head s j o :
  rel s j -> valid_op o = true ->
  snd (step head s o) = expected head j o /\
  rel (fst (step head s o)) (jstep j o (snd (step head s o))).
Proof.
  intros (Hs & Hf & Hr & Ho) V.
  destruct j as [sj fj rj]; cbn [sent fwd regs] in *.
  destruct s as [stt sz hk on]; cbn [status size hooks once] in *. subst fj rj on.
  destruct (Z.eqb stt 0) eqn:E0; subst sj.
  - (* nothing sent yet *)
    apply Z.eqb_eq in E0. subst stt.
    destruct o as [c|bs acc| |id| | |]; try destruct head;
      cbn [step ensure_header write_header status size hooks once negb Z.eqb fst snd
           expected is_trigger trigger_code sent fwd regs valid_op] in *;
      rewrite ?app_nil_r;
      (split; [reflexivity|]); unfold jstep, rel;
      rewrite ?observe_app, ?observe_hooks; cbn;
      try (destruct (Z.eqb c 0); [discriminate|]); repeat split; reflexivity.
  - (* a status has been sent *)
    destruct o as [c|bs acc| |id| | |]; try destruct head;
      unfold step, ensure_header, write_header, expected, jstep, rel;
      cbn [status size hooks once sent fwd regs is_trigger fst snd negb];
      rewrite ?E0; cbn [negb fst snd app observe status size hooks once sent fwd regs];
      rewrite ?E0; repeat split; reflexivity.
Qed.

Lemma run_from_ok head : forall ops s j,
  rel s j -> forallb valid_op ops = true ->
  judge_from head j ops (run_from head s ops) = true.
Proof.
  induction ops as [|o ops IH]; intros s j R V; [reflexivity|].
  cbn [forallb] in V. apply andb_prop in V as [Vo V].
  cbn [run_from]. pose proof (step_ok head s j o R Vo) as H.
  destruct (step head s o) as [s' es]. cbn [fst snd] in H. destruct H as [-> R'].
  cbn [judge_from]. rewrite evs_eqb_refl. cbn. apply IH; assumption.
Qed.

Theorem run_meets_spec head ops :
  forallb valid_op ops = true -> spec_ok head ops (run head ops) = true.
Proof. intros V. apply run_from_ok; [apply rel_init | exact V]. Qed.

(* ---------------------------------------------------------------- *)
(* What being accepted by the judge implies, in plain terms.         *)

Definition is_wh (e : ev) : bool := match e with UWriteHeader _ => true | _ => false end.
Definition is_body (e : ev) : bool := match e with UWrite _ _ | UFlush => true | _ => false end.
Definition is_hook (e : ev) : bool := match e with EHook _ _ => true | _ => false end.

Fixpoint count {A} (p : A -> bool) (l : list A) : nat :=
  match l with [] => 0 | x :: l' => (if p x then 1 else 0) + count p l' end.

Lemma count_app {A} (p : A -> bool) a b : count p (a ++ b) = count p a + count p b.
Proof. induction a; cbn; lia. Qed.

Lemma count_hooks p ids z : (forall i, p (EHook i z) = false) -> count p (map (fun id => EHook id z) ids) = 0.
Proof. intros H. induction ids; cbn; rewrite ?H; auto. Qed.

(* events an accepted operation may produce *)
Lemma no_uwrite_hooks bs n ids z : ~ In (UWrite bs n) (map (fun id => EHook id z) ids).
Proof. intros H. apply in_map_iff in H as (? & ? & _). discriminate. Qed.

Lemma expected_shape head j o :
  let es := expected head j o in
  count is_wh es = (match sent j with None => if is_trigger o then 1 else 0 | Some _ => 0 end) /\
  (sent j <> None -> count is_hook es = 0) /\
  (head = true -> forall bs n, ~ In (UWrite bs n) es).
Proof.
  destruct j as [[c|] f r]; destruct o as [c'|bs acc| |id| | |]; destruct head; cbn [expected sent regs is_trigger trigger_code];
    (split; [|split]); try (intros; congruence);
    rewrite ?count_app, ?count_hooks by reflexivity; cbn; try reflexivity; try lia;
    intros _ bs' n' H; rewrite ?app_nil_r in H;
    repeat (apply in_app_or in H as [H|H]); try (apply no_uwrite_hooks in H); cbn in H;
    intuition discriminate.
Qed.

Lemma observe_sent_some j es : sent j <> None -> sent (observe j es) = sent j.
Proof.
  revert j; induction es as [|e es IH]; intros j H; [reflexivity|].
  destruct e; cbn [observe]; try (apply IH; assumption).
  - destruct (sent j) eqn:E; [|congruence]. rewrite IH; cbn [sent]; [reflexivity | discriminate].
  - rewrite IH; cbn [sent]; [reflexivity | assumption].
Qed.

Lemma observe_sent_none j es : count is_wh es = 0 -> sent (observe j es) = sent j.
Proof.
  revert j; induction es as [|e es IH]; intros j H; [reflexivity|].
  destruct e; cbn [observe count is_wh] in *; try discriminate; try (apply IH; assumption).
  rewrite IH; [reflexivity | assumption].
Qed.

Lemma observe_sent_wh j es : count is_wh es <> 0 -> sent (observe j es) <> None.
Proof.
  revert j; induction es as [|e es IH]; intros j H; [cbn in H; congruence|].
  destruct e; cbn [observe count is_wh] in *; try (apply IH; assumption).
  rewrite observe_sent_some; cbn; destruct (sent j); congruence.
Qed.

(* at most one status line reaches the underlying writer *)
Lemma judge_one_status head : forall ops outs j,
  judge_from head j ops outs = true ->
  count is_wh (concat outs) <= (match sent j with None => 1 | Some _ => 0 end).
Proof.
  induction ops as [|o ops IH]; intros [|es outs] j H; cbn [judge_from] in H; try discriminate.
  - cbn. destruct (sent j); lia.
  - apply andb_prop in H as [He H]. apply (list_eqb_eq ev_eqb ev_eqb_eq) in He. subst es.
    cbn [concat]. rewrite count_app. apply IH in H.
    destruct (expected_shape head j o) as (Hc & _ & _). rewrite Hc.
    assert (S : sent (jstep j o (expected head j o)) = sent (observe j (expected head j o))).
    { unfold jstep. destruct o; reflexivity. }
    rewrite S in H. clear S.
    destruct (sent j) eqn:Ej.
    + rewrite observe_sent_some in H by congruence. rewrite Ej in H. lia.
    + destruct (is_trigger o).
      * destruct (sent (observe j (expected head j o))) eqn:E2; [lia|].
        exfalso. revert E2. apply observe_sent_wh. rewrite Hc. discriminate.
      * destruct (sent (observe j (expected head j o))); lia.
Qed.

Theorem spec_one_status head ops outs :
  spec_ok head ops outs = true -> count is_wh (concat outs) <= 1.
Proof. intros H. apply (judge_one_status head ops outs jinit H). Qed.

(* the status line precedes every body byte / flush *)
Fixpoint status_first (seen : bool) (tr : list ev) : bool :=
  match tr with
  | [] => true
  | e :: t =>
      if is_wh e then status_first true t
      else if is_body e then seen && status_first seen t
      else status_first seen t
  end.

Lemma status_first_app seen a b :
  status_first seen (a ++ b) = status_first seen a && status_first (seen || negb (Nat.eqb (count is_wh a) 0)) b.
Proof.
  revert seen; induction a as [|e a IH]; intros seen; cbn [app status_first count].
  - cbn. rewrite orb_false_r. reflexivity.
  - destruct (is_wh e) eqn:W.
    + rewrite IH. cbn. rewrite !orb_true_r. reflexivity.
    + destruct (is_body e); rewrite IH; cbn; [rewrite andb_assoc|]; reflexivity.
Qed.

Lemma status_first_hooks seen ids z : status_first seen (map (fun id => EHook id z) ids) = true.
Proof. induction ids; cbn; auto. Qed.

Lemma expected_status_first head j o :
  status_first (match sent j with Some _ => true | None => false end) (expected head j o) = true.
Proof.
  destruct j as [[c|] f r]; destruct o; cbn; try reflexivity;
    try (destruct head; reflexivity).
  all: rewrite ?status_first_app, ?status_first_hooks, ?count_app, ?count_hooks by reflexivity; cbn;
       try (destruct head; cbn; rewrite ?status_first_app, ?status_first_hooks; reflexivity);
       reflexivity.
Qed.

Lemma judge_status_first head : forall ops outs j,
  judge_from head j ops outs = true ->
  status_first (match sent j with Some _ => true | None => false end) (concat outs) = true.
Proof.
  induction ops as [|o ops IH]; intros [|es outs] j H; cbn [judge_from] in H; try discriminate.
  - reflexivity.
  - apply andb_prop in H as [He H]. apply (list_eqb_eq ev_eqb ev_eqb_eq) in He. subst es.
    cbn [concat]. rewrite status_first_app, expected_status_first. cbn [andb].
    apply IH in H.
    assert (S : sent (jstep j o (expected head j o)) = sent (observe j (expected head j o))).
    { unfold jstep. destruct o; reflexivity. }
    rewrite S in H. clear S.
    destruct (expected_shape head j o) as (Hc & _ & _).
    destruct (sent j) eqn:Ej.
    + rewrite observe_sent_some in H by congruence. rewrite Ej in H. exact H.
    + cbn [orb]. destruct (Nat.eqb (count is_wh (expected head j o)) 0) eqn:E0.
      * apply Nat.eqb_eq in E0. rewrite observe_sent_none in H by exact E0. rewrite Ej in H. exact H.
      * apply Nat.eqb_neq in E0. apply (observe_sent_wh j) in E0.
        destruct (sent (observe j (expected head j o))); [exact H | congruence].
Qed.

Theorem spec_status_first head ops outs :
  spec_ok head ops outs = true -> status_first false (concat outs) = true.
Proof. intros H. apply (judge_status_first head ops outs jinit H). Qed.

(* HEAD requests forward no body bytes *)
Theorem spec_head_no_body ops : forall outs j,
  judge_from true j ops outs = true -> forall bs n, ~ In (UWrite bs n) (concat outs).
Proof.
  induction ops as [|o ops IH]; intros [|es outs] j H bs n; cbn [judge_from] in H; try discriminate.
  - intros [].
  - apply andb_prop in H as [He H]. apply (list_eqb_eq ev_eqb ev_eqb_eq) in He. subst es.
    cbn [concat]. intros HIn. apply in_app_or in HIn as [HIn|HIn].
    + destruct (expected_shape true j o) as (_ & _ & Hh). exact (Hh eq_refl bs n HIn).
    + exact (IH _ _ H bs n HIn).
Qed.
