(* A flamego ResponseWriter whose underlying writer is another flamego ResponseWriter (an instance mounted
   on another one, a handler that wraps the writer it was given): W2 = NewResponseWriter(m2, W1),
   W1 = NewResponseWriter(m1, spy).  Each level is the machine of RW.v; the stack is their composition.
   Here the before functions of the lower writer W1 do not panic (a panic below would unwind through W2 in
   the middle of its operation; the one-writer model covers panics of the writer's own before functions). *)
Require Import Base RW RWProofs.

Definition is_u (e : ev) : bool := match e with UWriteHeader _ | UWrite _ _ | UFlush => true | _ => false end.

(* a call W2 makes on its underlying writer, as an operation on W1; acc and f describe the spy below W1 *)
Definition lower (acc : N) (f : bool) (e : ev) : option op :=
  match e with
  | UWriteHeader c => Some (OWriteHeader c)
  | UWrite bs _ => Some (OWrite bs acc)
  | UFlush => Some (OFlush f)
  | _ => None
  end.

(* what W1.Write(bs) hands back to its caller *)
Definition w1_accepts (head1 : bool) (acc : N) (bs : str) : N := if head1 then 0%N else N.min acc (slen bs).

(* the operation as W2 meets it: its underlying writer W1 accepts what W1.Write returns and is always an http.Flusher *)
Definition view (head1 : bool) (o : op) : op :=
  match o with
  | OWrite bs acc => OWrite bs (w1_accepts head1 acc bs)
  | OFlush _ => OFlush true
  | _ => o
  end.
Definition acc_of (o : op) : N := match o with OWrite _ acc => acc | _ => 0%N end.
Definition fl_of (o : op) : bool := match o with OFlush f => f | _ => true end.

(* push the events of one W2 operation through W1: calls become W1 operations, the rest stays in place *)
Fixpoint through (head1 : bool) (acc : N) (f : bool) (s1 : st) (es : list ev) : st * list ev :=
  match es with
  | [] => (s1, [])
  | e :: es' =>
      match lower acc f e with
      | Some o => let '(s1', out) := step head1 s1 o in
                  let '(s1'', rest) := through head1 acc f s1' es' in (s1'', out ++ rest)
      | None => let '(s1'', rest) := through head1 acc f s1 es' in (s1'', e :: rest)
      end
  end.

Definition stack_step (head1 head2 : bool) (ss : st * st) (o : op) : (st * st) * list ev :=
  let '(s2', e2) := step head2 (snd ss) (view head1 o) in
  let '(s1', es) := through head1 (acc_of o) (fl_of o) (fst ss) e2 in
  ((s1', s2'), es).

Fixpoint stack_run_from (head1 head2 : bool) (ss : st * st) (ops : list op) : list (list ev) :=
  match ops with
  | [] => []
  | o :: ops' => let '(ss', e) := stack_step head1 head2 ss o in e :: stack_run_from head1 head2 ss' ops'
  end.

(* the state of a writer after a run *)
Definition exec_from (head : bool) (s : st) (ops : list op) : st := fold_left (fun s o => fst (step head s o)) ops s.

(* W1 first lives through [pre] on its own, then W2 is put on top of it and [ops] go to W2 *)
Definition stack_run (head1 head2 : bool) (pre ops : list op) : list (list ev) :=
  stack_run_from head1 head2 (exec_from head1 init pre, init) ops.

(* the calls W1 receives while [ops] go to W2 *)
Definition lowered (acc : N) (f : bool) (es : list ev) : list op :=
  flat_map (fun e => match lower acc f e with Some o => [o] | None => [] end) es.

Fixpoint lower_ops (head1 head2 : bool) (s2 : st) (ops : list op) : list op :=
  match ops with
  | [] => []
  | o :: ops' => let '(s2', e2) := step head2 s2 (view head1 o) in
                 lowered (acc_of o) (fl_of o) e2 ++ lower_ops head1 head2 s2' ops'
  end.

(* ------------------------------------------------------------------ *)

Lemma run_from_app head : forall a b s,
  run_from head s (a ++ b) = run_from head s a ++ run_from head (exec_from head s a) b.
Proof.
  induction a as [|o a IH]; intros b s; [reflexivity|].
  cbn [app run_from exec_from fold_left]. destruct (step head s o) as [s' e] eqn:E. cbn [fst].
  rewrite IH. reflexivity.
Qed.

Lemma filter_app_u (a b : list ev) : filter is_u (a ++ b) = filter is_u a ++ filter is_u b.
Proof. apply filter_app. Qed.

Lemma lower_none_not_u acc f e : lower acc f e = None -> is_u e = false.
Proof. destruct e; cbn; intros H; try discriminate; reflexivity. Qed.

(* what reaches the spy during one W2 operation is what W1 sends when it is given the lowered calls *)
Lemma through_spec head1 acc f : forall es s1,
  fst (through head1 acc f s1 es) = exec_from head1 s1 (lowered acc f es) /\
  filter is_u (snd (through head1 acc f s1 es)) = filter is_u (concat (run_from head1 s1 (lowered acc f es))).
Proof.
  induction es as [|e es IH]; intros s1; [split; reflexivity|].
  cbn [through lowered flat_map]. destruct (lower acc f e) as [o|] eqn:L.
  - destruct (step head1 s1 o) as [s1' out] eqn:E.
    destruct (through head1 acc f s1' es) as [s1'' rest] eqn:T. cbn [fst snd app].
    destruct (IH s1') as [I1 I2]. rewrite T in I1, I2. cbn [fst snd] in I1, I2.
    cbn [exec_from fold_left run_from]. rewrite E. cbn [fst concat]. split.
    + exact I1.
    + rewrite !filter_app_u, I2. reflexivity.
  - destruct (through head1 acc f s1 es) as [s1'' rest] eqn:T. cbn [fst snd app].
    destruct (IH s1) as [I1 I2]. rewrite T in I1, I2. cbn [fst snd] in I1, I2. split.
    + exact I1.
    + cbn [filter]. rewrite (lower_none_not_u _ _ _ L). exact I2.
Qed.

Theorem stack_spy head1 head2 : forall ops s1 s2,
  filter is_u (concat (stack_run_from head1 head2 (s1, s2) ops)) =
  filter is_u (concat (run_from head1 s1 (lower_ops head1 head2 s2 ops))).
Proof.
  induction ops as [|o ops IH]; intros s1 s2; [reflexivity|].
  cbn [stack_run_from lower_ops]. unfold stack_step. cbn [fst snd].
  destruct (step head2 s2 (view head1 o)) as [s2' e2] eqn:E2.
  destruct (through head1 (acc_of o) (fl_of o) s1 e2) as [s1' es] eqn:T.
  destruct (through_spec head1 (acc_of o) (fl_of o) e2 s1) as [I1 I2]. rewrite T in I1, I2. cbn [fst snd] in I1, I2.
  cbn [concat]. rewrite run_from_app, concat_app, !filter_app_u, I2, IH, I1. reflexivity.
Qed.

(* the calls W2 makes carry valid status codes when the operations given to W2 do *)
Lemma cb_no_u z l : filter is_u (fst (call_before z l)) = [].
Proof.
  induction l as [|[id p] l IH]; [reflexivity|]. cbn [call_before]. destruct p; [reflexivity|].
  destruct (call_before z l) as [es b]. cbn [fst] in *. cbn [filter is_u]. exact IH.
Qed.

Lemma lowered_app acc f a b : lowered acc f (a ++ b) = lowered acc f a ++ lowered acc f b.
Proof. unfold lowered. apply flat_map_app. Qed.

Lemma lowered_cb acc f z l : lowered acc f (fst (call_before z l)) = [].
Proof.
  induction l as [|[id p] l IH]; [reflexivity|]. cbn [call_before]. destruct p; [reflexivity|].
  destruct (call_before z l) as [es b]. cbn [fst] in *. exact IH.
Qed.

Lemma write_header_lowered_valid acc f s c : c <> 0%Z ->
  forallb valid_op (lowered acc f (snd (fst (write_header s c)))) = true.
Proof.
  intros Hc. unfold write_header.
  destruct (once s); cbn [fst snd].
  - destruct (Z.eqb (status s) 0); cbn; [|reflexivity]. destruct (Z.eqb_spec c 0); [contradiction|reflexivity].
  - destruct (call_before (status s) (rev (hooks s))) as [es pan] eqn:C.
    assert (L : lowered acc f es = []) by (pose proof (lowered_cb acc f (status s) (rev (hooks s))) as H; rewrite C in H; exact H).
    destruct pan; cbn [fst snd]; [rewrite L; reflexivity|].
    destruct (Z.eqb (status s) 0); cbn [fst snd]; [|rewrite L; reflexivity].
    rewrite lowered_app, L. cbn. destruct (Z.eqb_spec c 0); [contradiction|reflexivity].
Qed.

Lemma step_lowered_valid head acc f s o : valid_op o = true ->
  forallb valid_op (lowered acc f (snd (step head s o))) = true.
Proof.
  intros V. destruct o as [c|bs a|fl|id p| | |]; cbn [step].
  - pose proof (write_header_lowered_valid acc f s c) as H.
    destruct (write_header s c) as [[s1 e1] pan]. cbn [fst snd] in *. apply H.
    cbn in V. destruct (Z.eqb_spec c 0); [discriminate|assumption].
  - unfold ensure_header. destruct (Z.eqb (status s) 0).
    + pose proof (write_header_lowered_valid acc f s 200 ltac:(discriminate)) as H.
      destruct (write_header s 200) as [[s1 e1] pan]. cbn [fst snd] in *.
      destruct (pan || head); cbn [snd]; [exact H|]. rewrite lowered_app, forallb_app, H. reflexivity.
    + destruct (false || head); reflexivity.
  - unfold ensure_header. destruct (Z.eqb (status s) 0).
    + pose proof (write_header_lowered_valid acc f s 200 ltac:(discriminate)) as H.
      destruct (write_header s 200) as [[s1 e1] pan]. cbn [fst snd] in *.
      destruct pan; cbn [snd]; [exact H|]. rewrite lowered_app, forallb_app, H. destruct fl; reflexivity.
    + cbn. destruct fl; reflexivity.
  - reflexivity.
  - reflexivity.
  - reflexivity.
  - reflexivity.
Qed.

Lemma view_valid head1 o : valid_op o = true -> valid_op (view head1 o) = true.
Proof. destruct o; cbn; auto. Qed.

Lemma lower_ops_valid head1 head2 : forall ops s2,
  forallb valid_op ops = true -> forallb valid_op (lower_ops head1 head2 s2 ops) = true.
Proof.
  induction ops as [|o ops IH]; intros s2 V; [reflexivity|].
  cbn [forallb] in V. apply andb_true_iff in V as [Vo V]. cbn [lower_ops].
  pose proof (step_lowered_valid head2 (acc_of o) (fl_of o) s2 (view head1 o) (view_valid head1 o Vo)) as H.
  destruct (step head2 s2 (view head1 o)) as [s2' e2]. cbn [snd] in H.
  rewrite forallb_app, H, IH by exact V. reflexivity.
Qed.

Lemma count_filter_u (l : list ev) : count is_wh (filter is_u l) = count is_wh l.
Proof. induction l as [|e l IH]; [reflexivity|]. destruct e; cbn; rewrite ?IH; reflexivity. Qed.

Lemma status_first_filter_u (l : list ev) : forall seen, status_first seen (filter is_u l) = status_first seen l.
Proof. induction l as [|e l IH]; intros seen; [reflexivity|]. destruct e; cbn; rewrite ?IH; reflexivity. Qed.

(* Whatever W1 went through before ([pre]) and whatever is done to W2 afterwards: over the whole life of the
   stack the spy receives at most one status line, and receives it before any body byte or flush; when W1
   serves a HEAD request no body byte reaches the spy. *)
Definition spy_trace (head1 head2 : bool) (pre ops : list op) : list ev :=
  filter is_u (concat (run head1 pre)) ++ filter is_u (concat (stack_run head1 head2 pre ops)).

Lemma spy_trace_is_w1_run head1 head2 pre ops :
  spy_trace head1 head2 pre ops = filter is_u (concat (run head1 (pre ++ lower_ops head1 head2 init ops))).
Proof.
  unfold spy_trace, stack_run, run. rewrite stack_spy, run_from_app, concat_app, filter_app_u. reflexivity.
Qed.

Theorem stack_one_status head1 head2 pre ops :
  forallb valid_op pre = true -> forallb valid_op ops = true ->
  count is_wh (spy_trace head1 head2 pre ops) <= 1.
Proof.
  intros Vp Vo. rewrite spy_trace_is_w1_run, count_filter_u.
  apply (spec_one_status head1 (pre ++ lower_ops head1 head2 init ops)).
  apply run_meets_spec. rewrite forallb_app, Vp, lower_ops_valid by exact Vo. reflexivity.
Qed.

Theorem stack_status_first head1 head2 pre ops :
  forallb valid_op pre = true -> forallb valid_op ops = true ->
  status_first false (spy_trace head1 head2 pre ops) = true.
Proof.
  intros Vp Vo. rewrite spy_trace_is_w1_run, status_first_filter_u.
  apply (spec_status_first head1 (pre ++ lower_ops head1 head2 init ops)).
  apply run_meets_spec. rewrite forallb_app, Vp, lower_ops_valid by exact Vo. reflexivity.
Qed.

(* the upper writer keeps its own books: W2 over W1 answers Status/Size/Written and runs its before functions
   exactly as the one-writer machine does on the operations as W2 meets them *)
Lemma through_keeps_non_u head1 acc f : forall es s1,
  Forall (fun e => is_u e = false) es -> snd (through head1 acc f s1 es) = es.
Proof.
  induction es as [|e es IH]; intros s1 H; [reflexivity|]. inversion H as [|? ? He Hes]; subst.
  cbn [through]. destruct e; cbn in He; try discriminate; cbn [lower];
    specialize (IH s1 Hes); destruct (through head1 acc f s1 es) as [s1'' rest]; cbn [snd] in *; rewrite IH; reflexivity.
Qed.

(* ---- the upper writer keeps its own books ---- *)
Definition is_ans (e : ev) : bool := match e with AStatus _ | ASize _ | AWritten _ => true | _ => false end.

Lemma cb_no_ans z l : filter is_ans (fst (call_before z l)) = [].
Proof.
  induction l as [|[id p] l IH]; [reflexivity|]. cbn [call_before]. destruct p; [reflexivity|].
  destruct (call_before z l) as [es b]. cbn [fst] in *. cbn [filter is_ans]. exact IH.
Qed.

Lemma write_header_no_ans s c : filter is_ans (snd (fst (write_header s c))) = [].
Proof.
  unfold write_header. destruct (once s); cbn [fst snd].
  - destruct (Z.eqb (status s) 0); reflexivity.
  - pose proof (cb_no_ans (status s) (rev (hooks s))) as H.
    destruct (call_before (status s) (rev (hooks s))) as [es pan]. cbn [fst] in H.
    destruct pan; cbn [fst snd]; [exact H|].
    destruct (Z.eqb (status s) 0); cbn [fst snd]; [|exact H]. rewrite filter_app, H. reflexivity.
Qed.

Lemma lowered_step_no_ans head acc f s e o : lower acc f e = Some o -> filter is_ans (snd (step head s o)) = [].
Proof.
  intros L. destruct e; cbn in L; inversion L; subst; cbn [step].
  - pose proof (write_header_no_ans s c) as H. destruct (write_header s c) as [[s1 e1] pan]. exact H.
  - unfold ensure_header. destruct (Z.eqb (status s) 0).
    + pose proof (write_header_no_ans s 200) as H. destruct (write_header s 200) as [[s1 e1] pan]. cbn [fst snd] in *.
      destruct (pan || head); cbn [snd]; [exact H|]. rewrite filter_app, H. reflexivity.
    + destruct (false || head); reflexivity.
  - unfold ensure_header. destruct (Z.eqb (status s) 0).
    + pose proof (write_header_no_ans s 200) as H. destruct (write_header s 200) as [[s1 e1] pan]. cbn [fst snd] in *.
      destruct pan; cbn [snd]; [exact H|]. rewrite filter_app, H. destruct f; reflexivity.
    + cbn. destruct f; reflexivity.
Qed.

Lemma through_ans head1 acc f : forall es s1,
  filter is_ans (snd (through head1 acc f s1 es)) = filter is_ans es.
Proof.
  induction es as [|e es IH]; intros s1; [reflexivity|]. cbn [through].
  destruct (lower acc f e) as [o|] eqn:L.
  - pose proof (lowered_step_no_ans head1 acc f s1 e o L) as N.
    destruct (step head1 s1 o) as [s1' out]. cbn [snd] in N.
    specialize (IH s1'). destruct (through head1 acc f s1' es) as [s1'' rest]. cbn [snd] in *.
    rewrite filter_app, N, IH. destruct e; cbn in L; try discriminate; reflexivity.
  - specialize (IH s1). destruct (through head1 acc f s1 es) as [s1'' rest]. cbn [snd] in *.
    cbn [filter]. rewrite IH. reflexivity.
Qed.

(* every answer W2 gives (Status, Size, Written) is the answer of the one-writer machine on the operations as
   W2 meets them: a fresh status of its own, its own count of forwarded bytes - never those of W1 *)
Theorem stack_answers head1 head2 : forall ops s1 s2,
  filter is_ans (concat (stack_run_from head1 head2 (s1, s2) ops)) =
  filter is_ans (concat (run_from head2 s2 (map (view head1) ops))).
Proof.
  induction ops as [|o ops IH]; intros s1 s2; [reflexivity|].
  cbn [stack_run_from map run_from]. unfold stack_step. cbn [fst snd].
  destruct (step head2 s2 (view head1 o)) as [s2' e2].
  pose proof (through_ans head1 (acc_of o) (fl_of o) e2 s1) as T.
  destruct (through head1 (acc_of o) (fl_of o) s1 e2) as [s1' es]. cbn [snd] in T.
  cbn [concat]. rewrite !filter_app, T, IH. reflexivity.
Qed.

(* when the lower writer serves a HEAD request no body byte reaches the spy, whatever the upper writer is given *)
Theorem stack_head_no_body head2 pre ops bs n :
  forallb valid_op pre = true -> forallb valid_op ops = true ->
  ~ In (UWrite bs n) (spy_trace true head2 pre ops).
Proof.
  intros Vp Vo H. rewrite spy_trace_is_w1_run in H. apply filter_In in H as [H _].
  assert (S : spec_ok true (pre ++ lower_ops true head2 init ops) (run true (pre ++ lower_ops true head2 init ops)) = true).
  { apply run_meets_spec. rewrite forallb_app, Vp, lower_ops_valid by exact Vo. reflexivity. }
  exact (spec_head_no_body _ _ jinit S bs n H).
Qed.
