(* Regular expressions of the modelled fragment of Go's regexp (RE2 syntax, leftmost-first
   semantics): byte classes, concatenation, alternation, greedy star, capturing groups.
   [matches] is the denotational semantics, [m] the executable backtracking matcher in
   continuation-passing style (same preference order as Go: left alternative first, star greedy). *)
Require Import Base.

(* a byte class: union of inclusive ranges; [CAny] is "." (any byte but newline) *)
Inductive cls := CRanges (rs : list (N * N)) | CAny.

Definition in_ranges (rs : list (N * N)) (c : N) : bool :=
  existsb (fun r => N.leb (fst r) c && N.leb c (snd r)) rs.

Definition cls_mem (k : cls) (c : N) : bool :=
  match k with CRanges rs => in_ranges rs c | CAny => negb (N.eqb c 10) end.

Inductive re :=
| Eps
| Chr (k : cls)
| Cat (a b : re)
| Alt (a b : re)
| Star (a : re)          (* greedy; the body must not match the empty string *)
| Grp (i : nat) (a : re).

Inductive matches : re -> str -> Prop :=
| m_eps : matches Eps []
| m_chr k c : cls_mem k c = true -> matches (Chr k) [c]
| m_cat a b s1 s2 : matches a s1 -> matches b s2 -> matches (Cat a b) (s1 ++ s2)
| m_altl a b s : matches a s -> matches (Alt a b) s
| m_altr a b s : matches b s -> matches (Alt a b) s
| m_star0 a : matches (Star a) []
| m_star1 a s1 s2 : s1 <> [] -> matches a s1 -> matches (Star a) s2 -> matches (Star a) (s1 ++ s2)
| m_grp i a s : matches a s -> matches (Grp i a) s.

Definition caps := list (nat * str).

Section M.
Context {R : Type}.

Section Loop.
Variable ma : str -> caps -> (str -> caps -> option R) -> option R.
Variable k : str -> caps -> option R.
Fixpoint loop (n : nat) (s : str) (c : caps) {struct n} : option R :=
  match n with
  | O => k s c
  | S n' =>
      match ma s c (fun s' c' => if Nat.ltb (length s') (length s) then loop n' s' c' else None) with
      | Some x => Some x
      | None => k s c
      end
  end.
End Loop.

Fixpoint m (r : re) (s : str) (c : caps) (k : str -> caps -> option R) {struct r} : option R :=
  match r with
  | Eps => k s c
  | Chr p => match s with x :: s' => if cls_mem p x then k s' c else None | [] => None end
  | Cat a b => m a s c (fun s' c' => m b s' c' k)
  | Alt a b => match m a s c k with Some x => Some x | None => m b s c k end
  | Star a => loop (m a) k (length s) s c
  | Grp i a => m a s c (fun s' c' => k s' ((i, firstn (length s - length s') s) :: c'))
  end.
End M.

(* anchored match of the whole subject (the segment regexps are "^...$") *)
Definition full (r : re) (s : str) : option caps :=
  m r s [] (fun s' c => match s' with [] => Some c | _ => None end).

Fixpoint lookup (i : nat) (c : caps) : option str :=
  match c with [] => None | (j, v) :: c' => if Nat.eqb i j then Some v else lookup i c' end.

(* unanchored search (header constraints use regexp.MatchString): some suffix has a matching prefix *)
Definition prefix_match (r : re) (s : str) : bool :=
  match m r s [] (fun _ _ => Some tt) with Some _ => true | None => false end.

Fixpoint search (r : re) (s : str) : bool :=
  prefix_match r s || match s with [] => false | _ :: s' => search r s' end.

(* literals *)
Fixpoint lit_re (l : str) : re :=
  match l with [] => Eps | x :: l' => Cat (Chr (CRanges [(x, x)])) (lit_re l') end.

Definition plus (a : re) : re := Cat a (Star a).
Definition opt (a : re) : re := Alt a Eps.
