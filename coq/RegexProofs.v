Require Import Base Regex.

Section S.
Context {R : Type}.

Lemma m_sound r : forall s c (k : str -> caps -> option R) x,
  m r s c k = Some x ->
  exists s1 s2 c', s = s1 ++ s2 /\ matches r s1 /\ k s2 c' = Some x.
Proof.
  induction r as [|p|a IHa b IHb|a IHa b IHb|a IHa|i a IHa]; intros s c k x H.
  - exists [], s, c. repeat split; [constructor | exact H].
  - destruct s as [|y s']; [discriminate|]. cbn [m] in H. destruct (cls_mem p y) eqn:E; [|discriminate].
    exists [y], s', c. repeat split; [constructor; exact E | exact H].
  - cbn [m] in H. apply IHa in H as (s1 & s2 & c1 & -> & Ma & H).
    apply IHb in H as (s3 & s4 & c2 & -> & Mb & H).
    exists (s1 ++ s3), s4, c2. rewrite app_assoc. repeat split; [constructor; assumption | exact H].
  - cbn [m] in H. destruct (m a s c k) eqn:E.
    + inversion H; subst. apply IHa in E as (s1 & s2 & c1 & -> & Ma & E).
      exists s1, s2, c1. repeat split; [apply m_altl; assumption | exact E].
    + apply IHb in H as (s1 & s2 & c1 & -> & Mb & H).
      exists s1, s2, c1. repeat split; [apply m_altr; assumption | exact H].
  - cbn [m] in H. remember (length s) as n eqn:Hn. clear Hn.
    revert s c H. induction n as [|n IHn]; intros s c H; cbn [loop] in H.
    + exists [], s, c. repeat split; [constructor | exact H].
    + destruct (m a s c _) eqn:E.
      * inversion H; subst. apply IHa in E as (s1 & s2 & c1 & -> & Ma & E).
        cbv beta in E.
        destruct (Nat.ltb (length s2) (length (s1 ++ s2))) eqn:L; [|discriminate].
        apply IHn in E as (s3 & s4 & c2 & -> & Ms & E).
        exists (s1 ++ s3), s4, c2. rewrite app_assoc. repeat split; [|exact E].
        apply m_star1; try assumption.
        intros ->. apply Nat.ltb_lt in L. cbn in L. lia.
      * exists [], s, c. repeat split; [constructor | exact H].
  - cbn [m] in H. apply IHa in H as (s1 & s2 & c1 & -> & Ma & H).
    exists s1, s2, ((i, firstn (length (s1 ++ s2) - length s2) (s1 ++ s2)) :: c1).
    repeat split; [constructor; assumption | exact H].
Qed.

Lemma m_complete r : forall s1, matches r s1 -> forall s2 c (k : str -> caps -> option R),
  (forall c', k s2 c' <> None) -> m r (s1 ++ s2) c k <> None.
Proof.
  induction r as [|p|a IHa b IHb|a IHa b IHb|a IHa|i a IHa]; intros s1 M t c k K.
  - inversion M; subst. cbn. apply K.
  - inversion M; subst. cbn. rewrite H0. apply K.
  - inversion M; subst. cbn [m]. rewrite <- app_assoc. apply IHa; [assumption|].
    intros c'. apply IHb; assumption.
  - cbn [m]. inversion M; subst.
    + destruct (m a (s1 ++ t) c k) eqn:E; [discriminate|]. exfalso. eapply IHa; eauto.
    + destruct (m a (s1 ++ t) c k) eqn:E; [discriminate|]. apply IHb; assumption.
  - cbn [m].
    assert (G : forall u, matches (Star a) u -> forall n c0, length (u ++ t) <= n ->
                loop (m a) k n (u ++ t) c0 <> None).
    { clear M s1 c. intros u Mu. remember (Star a) as r0 eqn:Hr.
      induction Mu as [| | | | | a0 | a0 u1 u2 Hne Mu1 _ Mu2 IH2 | ]; try discriminate;
        inversion Hr; subst a0; intros n c0 Hn.
      - destruct n as [|n]; cbn [loop app]; [apply K|].
        destruct (m a t c0 _); [discriminate | apply K].
      - destruct n as [|n].
        + destruct u1; [congruence | cbn in Hn; lia].
        + cbn [loop]. rewrite <- app_assoc.
          match goal with |- match ?X with _ => _ end <> None => destruct X eqn:E; [discriminate|] end.
          exfalso. revert E. apply IHa; [assumption|]. intros c'.
          assert (L : Nat.ltb (length (u2 ++ t)) (length (u1 ++ u2 ++ t)) = true).
          { apply Nat.ltb_lt. rewrite (app_length u1). destruct u1; [congruence | cbn; lia]. }
          rewrite L. apply IH2; [reflexivity|].
          rewrite <- app_assoc, (app_length u1) in Hn. destruct u1; [congruence | cbn in Hn; lia]. }
    apply G; [assumption | lia].
  - inversion M; subst. cbn [m]. apply IHa; [assumption|]. intros c'. apply K.
Qed.
End S.

Theorem full_iff r s : full r s <> None <-> matches r s.
Proof.
  unfold full. split.
  - destruct (m r s [] _) eqn:E; [|congruence]. intros _.
    apply m_sound in E as (s1 & s2 & c' & -> & M & E).
    destruct s2; [|discriminate]. rewrite app_nil_r. exact M.
  - intros M. rewrite <- (app_nil_r s). apply m_complete; [assumption|]. intros c'. discriminate.
Qed.
