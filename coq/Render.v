(* Model of render.go: what JSON / XML / Binary / PlainText do to the response (C17).  The encoders
   (encoding/json, encoding/xml) are oracles: the model is parametric in the encoded payload. *)
Require Import Base.

Inductive rkind := KJSON | KXML | KBinary | KText.

Definition s_ct : str := [67;111;110;116;101;110;116;45;84;121;112;101]%N.              (* Content-Type *)
Definition ct_json : str := [97;112;112;108;105;99;97;116;105;111;110;47;106;115;111;110]%N.   (* application/json *)
Definition ct_xml : str := [116;101;120;116;47;120;109;108]%N.                              (* text/xml *)
Definition ct_bin : str := [97;112;112;108;105;99;97;116;105;111;110;47;111;99;116;101;116;45;115;116;114;101;97;109]%N.
Definition ct_text : str := [116;101;120;116;47;112;108;97;105;110]%N.                       (* text/plain *)
Definition s_charset : str := [59;32;99;104;97;114;115;101;116;61]%N.                       (* "; charset=" *)
Definition s_utf8 : str := [117;116;102;45;56]%N.

(* parseRenderOptions: the default charset *)
Definition charset_of (opt : str) : str := match opt with [] => s_utf8 | c => c end.

Definition content_type (k : rkind) (charset : str) : str :=
  match k with
  | KJSON => ct_json ++ s_charset ++ charset
  | KXML => ct_xml ++ s_charset ++ charset
  | KBinary => ct_bin
  | KText => ct_text ++ s_charset ++ charset
  end.

(* operations on the response writer, in program order *)
Inductive hop := HSet (name value : str) | HWriteHeader (status : Z) | HWrite (payload : str).

Definition render_ops (k : rkind) (charset : str) (status : Z) (payload : str) : list hop :=
  [HSet s_ct (content_type k charset); HWriteHeader status; HWrite payload].

(* the response as the client sees it: the header map is frozen when the status line is sent *)
Record resp := mkresp { r_hdrs : list (str * str); r_status : Z; r_sent_hdrs : list (str * str); r_body : list str }.

Definition fresh : resp := mkresp [] 0 [] [].

Definition set_hdr (h : list (str * str)) (n v : str) : list (str * str) :=
  (n, v) :: filter (fun p => negb (str_eqb (fst p) n)) h.

Definition hstep (head : bool) (r : resp) (o : hop) : resp :=
  match o with
  | HSet n v => mkresp (set_hdr (r_hdrs r) n v) (r_status r) (r_sent_hdrs r) (r_body r)
  | HWriteHeader s =>
      if Z.eqb (r_status r) 0 then mkresp (r_hdrs r) s (r_hdrs r) (r_body r) else r
  | HWrite b =>
      let r1 := if Z.eqb (r_status r) 0 then mkresp (r_hdrs r) 200 (r_hdrs r) (r_body r) else r in
      if head then r1 else mkresp (r_hdrs r1) (r_status r1) (r_sent_hdrs r1) (r_body r1 ++ [b])
  end.

Definition run_hops (head : bool) (r : resp) (ops : list hop) : resp := fold_left (hstep head) ops r.

Definition get_hdr (h : list (str * str)) (n : str) : option str :=
  match find (fun p => str_eqb (fst p) n) h with Some p => Some (snd p) | None => None end.
