Require Import Base Render.

(* on a fresh response: exactly the given status, the matching Content-Type (already set when the
   status line goes out) and the payload as the whole body *)
Theorem render_fresh k charset status payload head :
  status <> 0%Z ->
  let r := run_hops head fresh (render_ops k charset status payload) in
  r_status r = status /\
  get_hdr (r_sent_hdrs r) s_ct = Some (content_type k charset) /\
  r_body r = (if head then [] else [payload]).
Proof.
  intros Hs. unfold run_hops, render_ops. cbn [fold_left hstep fresh r_status r_hdrs r_sent_hdrs r_body].
  cbn [Z.eqb]. cbn [r_status r_hdrs r_sent_hdrs r_body].
  destruct (Z.eqb status 0) eqn:E; [apply Z.eqb_eq in E; contradiction|].
  assert (G : get_hdr (set_hdr [] s_ct (content_type k charset)) s_ct = Some (content_type k charset)).
  { unfold get_hdr, set_hdr. cbn [filter find fst snd]. rewrite str_eqb_refl. reflexivity. }
  destruct head; cbn [r_status r_hdrs r_sent_hdrs r_body app]; rewrite ?E; cbn [r_status r_hdrs r_sent_hdrs r_body app];
    repeat split; try reflexivity; exact G.
Qed.

(* the charset defaults to utf-8 *)
Theorem charset_default : charset_of [] = s_utf8.
Proof. reflexivity. Qed.
