(* Model of return_handler.go (defaultReturnHandler): what a handler returns -> writer operations (C14). *)
Require Import Base.
Local Open Scope Z_scope.

(* the supported return shapes (any other Go value is ROther) *)
Inductive rv :=
| RStr (s : str)                 (* string *)
| RBytes (b : option str)        (* []byte: None = nil slice, Some [] = empty non-nil slice *)
| RErr (e : option str)          (* error: None = nil, Some msg = non-nil with Error() = msg *)
| RInt (n : Z)                   (* int *)
| RPtr (p : option str)          (* *string: None = nil pointer *)
| RPtrB (p : option str)         (* *[]byte, or an interface{} holding a []byte: None = nil *)
| ROther.                        (* anything else with a non-zero value (struct, bool true, ...) *)

(* operations on the http.ResponseWriter the return handler performs, in order *)
Inductive wop := WHeader (c : Z) | WBody (bs : str).

(* Value.IsZero *)
Definition is_zero (v : rv) : bool :=
  match v with
  | RStr [] => true
  | RBytes None => true
  | RErr None => true
  | RInt 0 => true
  | RPtr None => true
  | RPtrB None => true
  | _ => false
  end.

(* the tail of the handler once respVal is chosen *)
Definition render_val (v : rv) : list wop :=
  match v with
  | RErr (Some msg) => [WHeader 500; WBody msg]
  | _ =>
      if is_zero v then []
      else match v with
           | RStr s => [WBody s]
           | RBytes (Some b) => match b with [] => [] | _ => [WBody b] end
           | RPtr (Some s) => [WBody s]            (* canDeref -> Elem -> String *)
           | RPtrB (Some b) => match b with [] => [] | _ => [WBody b] end   (* canDeref -> Elem -> a byte slice *)
           | _ => []                               (* not a supported shape: modelled as nothing *)
           end
  end.

Definition is_str_or_bytes (v : rv) : bool :=
  match v with RStr _ | RBytes _ => true | _ => false end.

Definition render (vals : list rv) : list wop :=
  match vals with
  | [v] => render_val v
  | [RInt n; v] => WHeader n :: render_val v
  | [v0; v1] =>
      if is_str_or_bytes v0 then
        match v1 with
        | RErr (Some _) => render_val v1
        | _ => render_val v0
        end
      else []
  | _ => []
  end.

(* ---------------------------------------------------------------- *)
(* The documented table, stated independently: the response (status, body) a return value
   stands for, None = "writes nothing, the chain continues". *)
Definition body_of (v : rv) : option str :=
  match v with
  | RStr s => Some s
  | RBytes (Some b) => Some b
  | RBytes None => Some []
  | _ => None
  end.

Definition table (vals : list rv) : option (Z * str) :=
  match vals with
  | [RErr (Some msg)] => Some (500, msg)
  | [RErr None] => None
  | [v] => match body_of v with Some [] => None | Some b => Some (200, b) | None => None end
  | [RInt n; RErr (Some msg)] => Some (n, msg)
  | [RInt n; RErr None] => Some (n, [])
  | [RInt n; v] => match body_of v with Some b => Some (n, b) | None => None end
  | [v; RErr (Some msg)] => match body_of v with Some _ => Some (500, msg) | None => None end
  | [v; RErr None] => match body_of v with Some [] => None | Some b => Some (200, b) | None => None end
  | _ => None
  end.

(* a fresh response: first status wins, a body write implies 200 *)
Definition apply_wops (ops : list wop) : option (Z * str) :=
  fold_left (fun acc o =>
    match o, acc with
    | WHeader c, None => Some (c, [])
    | WHeader _, Some r => Some r
    | WBody b, None => Some (200, b)
    | WBody b, Some (c, b0) => Some (c, b0 ++ b)
    end) ops None.

(* shapes the table speaks about *)
Definition supported (vals : list rv) : bool :=
  match vals with
  | [RStr _] | [RBytes _] | [RErr _] => true
  | [RInt n; RStr _] | [RInt n; RBytes _] | [RInt n; RErr _] => negb (Z.eqb n 0)
  | [RStr _; RErr _] | [RBytes _; RErr _] => true
  | _ => false
  end.
