Require Import Base Return.
Local Open Scope Z_scope.

(* C14: for every value of the supported shapes the handler's writes produce exactly the table's response. *)
Theorem render_table vals : supported vals = true -> apply_wops (render vals) = table vals.
Proof.
  destruct vals as [|v0 [|v1 [|v2 vals]]]; try discriminate.
  - destruct v0 as [s|[b|]|[e|]|n|p|pb|]; try discriminate; intros _; cbn.
    + destruct s; reflexivity.
    + destruct b; reflexivity.
    + reflexivity.
    + reflexivity.
    + reflexivity.
  - destruct v0 as [s|[b|]|[e|]|n|p|pb|]; try discriminate;
      destruct v1 as [s1|[b1|]|[e1|]|n1|p1|pb1|]; try discriminate; intros H; cbn in *;
      try reflexivity;
      try (destruct s; reflexivity); try (destruct b; reflexivity);
      try (destruct s1; reflexivity); try (destruct b1; reflexivity).
  - intros H. exfalso. destruct v0 as [s|[b|]|[e|]|n|p|pb|], v1 as [s1|[b1|]|[e1|]|n1|p1|pb1|]; discriminate.
Qed.

(* nil / empty / zero results write nothing *)
Theorem empty_writes_nothing vals :
  supported vals = true -> table vals = None -> render vals = [].
Proof.
  intros S T.
  destruct vals as [|v0 [|v1 [|v2 vals]]]; try discriminate.
  - destruct v0 as [s|[b|]|[e|]|n|p|pb|]; try discriminate; cbn in *; try reflexivity.
    + destruct s; [reflexivity | discriminate].
    + destruct b; [reflexivity | discriminate].
  - destruct v0 as [s|[b|]|[e|]|n|p|pb|]; try discriminate;
      destruct v1 as [s1|[b1|]|[e1|]|n1|p1|pb1|]; try discriminate; cbn in *;
      try discriminate; try reflexivity;
      try (destruct s; [reflexivity | discriminate]); try (destruct b; [reflexivity | discriminate]).
  - exfalso. destruct v0 as [s|[b|]|[e|]|n|p|pb|], v1 as [s1|[b1|]|[e1|]|n1|p1|pb1|]; discriminate.
Qed.

(* and conversely anything the table maps to a response is written *)
Theorem response_is_written vals r :
  supported vals = true -> table vals = Some r -> render vals <> [].
Proof.
  intros S T E. pose proof (render_table vals S) as H. rewrite E, T in H. discriminate.
Qed.
