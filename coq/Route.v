(* Route AST (internal/route/definition.go) and its canonical rendering (Segment.String / Route.String). *)
Require Import Base.

Inductive pval := VLit (s : str) | VRegex (src : str).
Inductive elem :=
| EIdent (s : str)
| EBind (name : str)
| EParams (ps : list (str * pval)).
Record segment := mkseg { optional : bool; elems : list elem }.
Definition route := list segment.

Definition c_slash : N := 47.   (* / *)
Definition c_qmark : N := 63.   (* ? *)
Definition c_lbrace : N := 123. (* { *)
Definition c_rbrace : N := 125. (* } *)
Definition c_colon : N := 58.   (* : *)
Definition c_comma : N := 44.   (* , *)
Definition c_space : N := 32.
Definition c_star : N := 42.    (* * *)

Definition render_pval (v : pval) : str :=
  match v with VLit s => s | VRegex src => [c_slash] ++ src ++ [c_slash] end.

Fixpoint render_params (ps : list (str * pval)) : str :=
  match ps with
  | [] => []
  | [(n, v)] => n ++ [c_colon; c_space] ++ render_pval v
  | (n, v) :: ps' => n ++ [c_colon; c_space] ++ render_pval v ++ [c_comma; c_space] ++ render_params ps'
  end.

Definition render_elem (e : elem) : str :=
  match e with
  | EIdent s => s
  | EBind b => [c_lbrace] ++ b ++ [c_rbrace]
  | EParams ps => [c_lbrace] ++ render_params ps ++ [c_rbrace]
  end.

Definition render_elems (es : list elem) : str := concat (map render_elem es).

Definition render_segment (s : segment) : str :=
  [c_slash] ++ (if optional s then [c_qmark] else []) ++ render_elems (elems s).

Definition render_route (r : route) : str := concat (map render_segment r).
