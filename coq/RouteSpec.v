(* The routing properties stated independently of the tree (C01, C08): flat routes, the "admits"
   relation as an enumeration of derivations, the documented priority as a lexicographic key, and the
   validity of a registration as a predicate on the list of routes registered so far. *)
Require Import Base Regex Route Tree.

Section Spec.
Variable compile : str -> option re.

(* a route as registered for one method, flattened: its long form, and its short form when the last
   segment is optional.  Kinds are those of the segments taken in isolation. *)
Record flat := mkflat { f_rid : nat; f_texts : list str; f_kinds : list kind }.

Definition seg_kind (as_leaf : bool) (s : segment) : option kind := classify compile as_leaf [] false (elems s).

Fixpoint kinds_of (r : route) : option (list kind) :=
  match r with
  | [] => Some []
  | [s] => match seg_kind true s with Some k => Some [k] | None => None end
  | s :: r' => match seg_kind false s, kinds_of r' with Some k, Some l => Some (k :: l) | _, _ => None end
  end.

Definition last_optional (r : route) : bool :=
  match rev r with s :: _ => optional s | [] => false end.

Definition short_form (r : route) : route :=
  match rev r with
  | _ :: [] => [mkseg false []]
  | _ :: rest => rev rest
  | [] => []
  end.

Definition flats_of (rid : nat) (r : route) : list flat :=
  let mk (q : route) := match kinds_of q with
                        | Some ks => [mkflat rid (map seg_key q) ks]
                        | None => []
                        end in
  mk r ++ (if last_optional r then mk (short_form r) else []).

Definition all_flats (rs : list (nat * route)) : list flat :=
  flat_map (fun p => flats_of (fst p) (snd p)) rs.

(* ---------------- validity of a registration (C08) ---------------- *)
Definition route_binds (ks : list kind) : list str := flat_map kind_binds ks.

Fixpoint prefix_eq (a b : list str) (i : nat) : bool :=
  match i, a, b with
  | O, _, _ => true
  | S i', x :: a', y :: b' => str_eqb x y && prefix_eq a' b' i'
  | _, _, _ => false
  end.

Definition is_final {A} (l : list A) (i : nat) : bool := Nat.eqb (S i) (length l).

(* two flat routes put different match-all segments at the same position in the same role *)
Definition all_clash (f g : flat) : bool :=
  existsb (fun i =>
    prefix_eq (f_texts f) (f_texts g) i &&
    match nth_error (f_kinds f) i, nth_error (f_kinds g) i, nth_error (f_texts f) i, nth_error (f_texts g) i with
    | Some kf, Some kg, Some tf, Some tg =>
        is_all kf && is_all kg && negb (str_eqb tf tg) &&
        Bool.eqb (is_final (f_texts f) i) (is_final (f_texts g) i)
    | _, _, _, _ => false
    end) (seq 0 (length (f_texts f))).

Definition same_texts (f g : flat) : bool := list_eqb str_eqb (f_texts f) (f_texts g).

Fixpoint init_segs {A} (l : list A) : list A :=
  match l with [] => [] | [_] => [] | x :: l' => x :: init_segs l' end.

Definition valid (rs : list (nat * route)) (r : route) : bool :=
  match r with [] => false | _ => true end &&
  forallb (fun s => negb (optional s) && negb (match elems s with [] => true | _ => false end)) (init_segs r) &&
  match kinds_of r with
  | None => false
  | Some ks =>
      nodup_str (route_binds ks) &&
      Nat.leb (length (filter is_all (init_segs ks))) 1 &&
      (if last_optional r then match kinds_of (short_form r) with Some _ => true | None => false end else true) &&
      let fs := all_flats rs in
      forallb (fun g => forallb (fun f => negb (all_clash f g) && negb (same_texts f g)) fs) (flats_of 0 r)
  end.

(* ---------------- admits + priority (C01) ---------------- *)
(* one step of the priority key: (fallback, rank, birth, captured) *)
Definition keyel := (nat * nat * nat * nat)%type.
Definition key := list keyel.

Definition keyel_cmp (a b : keyel) : comparison :=
  let '(a1, a2, a3, a4) := a in let '(b1, b2, b3, b4) := b in
  match Nat.compare a1 b1 with
  | Eq => match Nat.compare a2 b2 with
          | Eq => match Nat.compare a3 b3 with Eq => Nat.compare a4 b4 | c => c end
          | c => c end
  | c => c end.

Fixpoint key_cmp (a b : key) : comparison :=
  match a, b with
  | [], [] => Eq
  | [], _ => Lt
  | _, [] => Gt
  | x :: a', y :: b' => match keyel_cmp x y with Eq => key_cmp a' b' | c => c end
  end.

(* least registration index among flat routes sharing the first d+1 texts in the same role *)
Definition birth (fs : list flat) (f : flat) (d : nat) : nat :=
  fold_left (fun best g =>
      if prefix_eq (f_texts f) (f_texts g) (S d) && Bool.eqb (is_final (f_texts f) d) (is_final (f_texts g) d)
      then Nat.min best (f_rid g) else best) fs (f_rid f).

Definition seg_adm (k : kind) (s : str) : bool :=
  match seg_match k s with Some _ => true | None => false end.

(* all derivations of flat route f (from depth d) on the remaining segments: their keys *)
Fixpoint derivs (fs : list flat) (f : flat) (ks : list kind) (d : nat) (path : list str) (acc : key) {struct ks} : list key :=
  match ks with
  | [] => []
  | [k] =>                                               (* final segment *)
      match path with
      | [] => []
      | [s] => if seg_adm k s then [acc ++ [(0, rank k, birth fs f d, 0)]] else []
      | _ => match k with
             | KAll _ cap => if cap_ok cap (length path) then [acc ++ [(1, rank k, birth fs f d, length path)]] else []
             | _ => []
             end
      end
  | k :: ks' =>
      match path with
      | [] | [_] => []
      | s :: rest =>
          match k with
          | KAll _ cap =>
              flat_map (fun n => if cap_ok cap n && Nat.ltb n (length path)
                                 then derivs fs f ks' (S d) (skipn n path) (acc ++ [(0, rank k, birth fs f d, n)])
                                 else []) (seq 1 (length path))
          | _ => if seg_adm k s then derivs fs f ks' (S d) rest (acc ++ [(0, rank k, birth fs f d, 0)]) else []
          end
      end
  end.

Definition best_of (cands : list (key * nat)) : option nat :=
  match cands with
  | [] => None
  | c :: cs => Some (snd (fold_left (fun b x => match key_cmp (fst x) (fst b) with Lt => x | _ => b end) cs c))
  end.

(* the route the documented priority designates, among routes whose header constraints hold *)
Definition spec_winner (rs : list (nat * route)) (hdr_ok : nat -> bool) (path : list str) : option nat :=
  let fs := all_flats rs in
  best_of (flat_map (fun f => if hdr_ok (f_rid f)
                              then map (fun k => (k, f_rid f)) (derivs fs f (f_kinds f) 0 path [])
                              else []) fs).

Definition admitted (rs : list (nat * route)) (hdr_ok : nat -> bool) (path : list str) : bool :=
  match spec_winner rs hdr_ok path with Some _ => true | None => false end.
End Spec.
