(* Model of router.go: per-method trees, the static-route shortcut, header constraints, serving. *)
Require Import Base Regex Route Tree.

(* net/url.PathUnescape: %XX decoded once; any malformed escape makes the whole call fail *)
Definition hex_val (c : N) : option N :=
  (if N.leb 48 c && N.leb c 57 then Some (c - 48)
   else if N.leb 97 c && N.leb c 102 then Some (c - 87)
   else if N.leb 65 c && N.leb c 70 then Some (c - 55)
   else None)%N.

Fixpoint path_unescape (s : str) : option str :=
  match s with
  | [] => Some []
  | 37%N :: rest =>
      match rest with
      | h :: l :: rest' =>
          match hex_val h, hex_val l, path_unescape rest' with
          | Some a, Some b, Some r => Some ((a * 16 + b)%N :: r)
          | _, _, _ => None
          end
      | _ => None
      end
  | c :: rest => match path_unescape rest with Some r => Some (c :: r) | None => None end
  end.

Definition decode1 (v : str) : str := match path_unescape v with Some d => d | None => v end.

(* strings.TrimLeft(path, "/") then split on "/" *)
Fixpoint trim_slashes (s : str) : str :=
  match s with c :: s' => if N.eqb c c_slash then trim_slashes s' else s | [] => [] end.

Fixpoint split_slash (cur : str) (s : str) : list str :=
  match s with
  | [] => [rev cur]
  | c :: s' => if N.eqb c c_slash then rev cur :: split_slash [] s' else split_slash (c :: cur) s'
  end.

Definition segs_of (path : str) : list str := split_slash [] (trim_slashes path).

(* the nine methods of httpMethods, in order: GET POST PUT DELETE PATCH OPTIONS HEAD CONNECT TRACE *)
Definition n_methods : nat := 9.

Definition is_static_route (r : route) : bool :=
  forallb (fun s => negb (optional s) && match elems s with [] | [EIdent _] => true | _ => false end) r
  && negb (match r with [] => true | _ => false end).

(* one header constraint: header name -> regex (unanchored search), value must be non-empty *)
Definition hconstraint := list (str * re).

Record rinfo := mkri { ri_route : route; ri_methods : list nat; ri_hdr : option hconstraint }.

Record rstate := mkrs {
  trees : list tree;                         (* one per method, indexed 0..8 *)
  table : list (nat * str * nat);            (* (method, route text) -> route id: staticRoutes *)
  infos : list rinfo                         (* route id -> registration info *)
}.

Definition rinit : rstate := mkrs (repeat empty n_methods) [] [].

Section Router.
Variable compile : str -> option re.

Fixpoint add_methods (ts : list tree) (ms : list nat) (r : route) (rid : nat) : option (list tree) :=
  match ms with
  | [] => Some ts
  | m :: ms' =>
      match nth_error ts m with
      | None => None
      | Some t =>
          match add_route compile t r rid with
          | None => None
          | Some t' => add_methods (firstn m ts ++ t' :: skipn (S m) ts) ms' r rid
          end
      end
  end.

(* router.addRoute for a parsed route and a list of (valid) method indices; None = panic *)
Definition register (st : rstate) (ms : list nat) (r : route) : option rstate :=
  let rid := length (infos st) in
  match ms with
  | [] => None                                   (* unknown HTTP method *)
  | _ =>
    match add_methods (trees st) ms r rid with
    | None => None
    | Some ts =>
        let text := render_route r in
        let tab := if is_static_route r
                   then map (fun m => (m, text, rid)) ms ++ filter (fun e => negb (existsb (Nat.eqb (fst (fst e))) ms && str_eqb (snd (fst e)) text)) (table st)
                   else table st in
        Some (mkrs ts tab (infos st ++ [mkri r ms None]))
    end
  end.

(* Route.Headers: replaces the constraint; the route leaves the fast path *)
Definition set_headers (st : rstate) (rid : nat) (h : hconstraint) : rstate :=
  match nth_error (infos st) rid with
  | None => st
  | Some ri =>
      mkrs (trees st)
           (filter (fun e => negb (Nat.eqb (snd e) rid)) (table st))
           (firstn rid (infos st) ++ mkri (ri_route ri) (ri_methods ri) (Some h) :: skipn (S rid) (infos st))
  end.

Definition header_get (hdrs : list (str * str)) (name : str) : str :=
  match find (fun p => str_eqb (fst p) name) hdrs with Some p => snd p | None => [] end.

(* http.Header.Get canonicalises the name it is asked for (first letter and letters after '-' upper case, the rest
   lower case); the request's own keys are canonical already *)
Definition up_c (c : N) : N := if N.leb 97 c && N.leb c 122 then c - 32 else c.
Definition low_c (c : N) : N := if N.leb 65 c && N.leb c 90 then c + 32 else c.
Fixpoint canon_go (up : bool) (s : str) : str :=
  match s with
  | [] => []
  | c :: r => (if up then up_c c else low_c c) :: canon_go (N.eqb c 45) r
  end.
Definition canon_key (s : str) : str := canon_go true s.

Definition constraint_ok (h : hconstraint) (hdrs : list (str * str)) : bool :=
  forallb (fun c => let v := header_get hdrs (canon_key (fst c)) in
                    negb (match v with [] => true | _ => false end) && search (snd c) v) h.

Definition hdr_ok (st : rstate) (hdrs : list (str * str)) (rid : nat) : bool :=
  match nth_error (infos st) rid with
  | Some ri => match ri_hdr ri with Some h => constraint_ok h hdrs | None => true end
  | None => true
  end.

Inductive outcome := Found (rid : nat) (ps : params) | NotFound.

Definition serve_tree (st : rstate) (m : option nat) (path : str) (hdrs : list (str * str)) : outcome :=
  match m with
  | None => NotFound                                        (* unknown method *)
  | Some mi =>
      match nth_error (trees st) mi with
      | None => NotFound
      | Some t =>
          match mtree (hdr_ok st hdrs) t (segs_of path) with
          | Some (rid, ps) => Found rid (map (fun p => (fst p, decode1 (snd p))) ps)
          | None => NotFound
          end
      end
  end.

(* router.go, ServeHTTP: the handler's parameter map is the captured values with the reserved parameter
   "route" set last to leaf.Route(), the canonical text of the matched route (a bind of that name is shadowed) *)
Definition s_route : str := [114; 111; 117; 116; 101]%N.
Definition deliver (r : route) (ps : params) : params :=
  (s_route, render_route r) :: filter (fun p => negb (str_eqb (fst p) s_route)) ps.
Definition plookup (ps : params) (k : str) : option str :=
  match find (fun p => str_eqb (fst p) k) ps with Some p => Some (snd p) | None => None end.

Definition table_lookup (st : rstate) (mi : nat) (path : str) : option nat :=
  match find (fun e => Nat.eqb (fst (fst e)) mi && str_eqb (snd (fst e)) path) (table st) with
  | Some e => Some (snd e)
  | None => None
  end.

(* router.ServeHTTP *)
Definition serve (st : rstate) (m : option nat) (path : str) (hdrs : list (str * str)) : outcome :=
  match m with
  | Some mi =>
      match table_lookup st mi path with
      | Some rid => Found rid []
      | None => serve_tree st m path hdrs
      end
  | None => serve_tree st m path hdrs
  end.
End Router.
