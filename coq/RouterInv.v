(* C10: over every history of registrations and Headers() calls, serving through the static shortcut
   gives exactly what full tree matching gives. *)
Require Import Base Regex Route Tree TreeProofs TreeWf TreeAdd TreeStatic Router RouterProofs.

(* ---------- splitting the canonical text of a static route ---------- *)
Definition slash_free (s : str) : Prop := ~ In c_slash s.

Lemma split_slash_app_free l : forall cur rest, slash_free l ->
  split_slash cur (l ++ rest) = match rest with
                                | [] => [rev cur ++ l]
                                | c :: rest' => if N.eqb c c_slash then (rev cur ++ l) :: split_slash [] rest'
                                                else split_slash (c :: rev l ++ cur) rest'
                                end.
Proof.
  induction l as [|x l IH]; intros cur rest F; cbn [app].
  - destruct rest as [|c rest']; cbn [split_slash]; rewrite ?app_nil_r; [reflexivity|].
    destruct (N.eqb c c_slash); reflexivity.
  - cbn [split_slash]. destruct (N.eqb x c_slash) eqn:E; [apply N.eqb_eq in E; subst; exfalso; apply F; left; reflexivity|].
    rewrite IH by (intros X; apply F; right; exact X). cbn [rev]. rewrite <- !app_assoc. cbn [app].
    destruct rest as [|c rest']; [reflexivity|]. destruct (N.eqb c c_slash); reflexivity.
Qed.

Lemma split_join lits : Forall slash_free lits -> lits <> [] -> split_slash [] (join_slash lits) = lits.
Proof.
  induction lits as [|l lits IH]; intros F Hne; [congruence|].
  inversion F; subst. destruct lits as [|l2 lits'].
  - cbn [join_slash]. rewrite <- (app_nil_r l) at 1. rewrite split_slash_app_free by assumption. reflexivity.
  - cbn [join_slash]. rewrite split_slash_app_free by assumption. unfold c_slash_s. cbn [app].
    rewrite N.eqb_refl. cbn [rev app]. f_equal. apply IH; [assumption | discriminate].
Qed.

Lemma trim_slashes_nonslash s : (match s with c :: _ => c <> c_slash | [] => True end) -> trim_slashes s = s.
Proof. destruct s as [|c s]; [reflexivity|]. intros H. cbn. apply N.eqb_neq in H. rewrite H. reflexivity. Qed.

(* the literals of a static route *)
Definition seg_lit (s : segment) : str := match elems s with [EIdent l] => l | _ => [] end.

Lemma render_static r : is_static_route r = true -> render_route r = concat (map (fun s => c_slash :: seg_lit s) r).
Proof.
  unfold is_static_route. intros H. apply andb_prop in H as [H _]. unfold render_route.
  induction r as [|s r IH]; [reflexivity|]. cbn [forallb] in H. apply andb_prop in H as [Hs H].
  cbn [map concat]. rewrite IH by exact H. f_equal.
  apply andb_prop in Hs as [O E]. unfold render_segment, seg_lit. destruct (optional s); [discriminate|].
  destruct (elems s) as [|[l|b|ps] [|e2 es]]; try discriminate; cbn; rewrite ?app_nil_r; reflexivity.
Qed.

Lemma concat_slash_join lits : lits <> [] -> concat (map (fun l => c_slash :: l) lits) = c_slash :: join_slash lits.
Proof.
  induction lits as [|l lits IH]; intros H; [congruence|]. destruct lits as [|l2 lits'].
  - cbn. rewrite app_nil_r. reflexivity.
  - specialize (IH ltac:(discriminate)). cbn [map concat] in *. rewrite IH. cbn [join_slash]. unfold c_slash_s. cbn. reflexivity.
Qed.

(* the shape of static routes that registration accepts: literals without "/", and only a single
   segment may be empty *)
Definition static_shape (lits : list str) : Prop :=
  Forall slash_free lits /\ lits <> [] /\ (match lits with l :: _ :: _ => l <> [] | _ => True end).

Lemma segs_of_static lits : static_shape lits -> segs_of (c_slash :: join_slash lits) = lits.
Proof.
  intros (F & Hne & H1). unfold segs_of. cbn [trim_slashes]. rewrite N.eqb_refl.
  rewrite trim_slashes_nonslash; [apply split_join; assumption|].
  destruct lits as [|l [|l2 lits']]; [congruence| |].
  - cbn. destruct l as [|c l]; [exact I|]. inversion F as [|? ? Fl ?]; subst. intros ->. apply Fl. left. reflexivity.
  - cbn [join_slash]. destruct l as [|c l]; [congruence|]. cbn. inversion F as [|? ? Fl ?]; subst. intros ->. apply Fl. left. reflexivity.
Qed.

Section Inv.
Variable compile : str -> option re.
Variable good : list elem -> Prop.
Hypothesis good_nil : good [].
Hypothesis render_inj : forall a b, good a -> good b -> render_elems a = render_elems b -> a = b.
(* identifiers of the grammar are non-empty and contain no "/" *)
Hypothesis good_ident : forall es s, good es -> In (EIdent s) es -> s <> [] /\ slash_free s.

Definition route_good (r : route) : Prop := Forall (fun s => good (elems s)) r.

(* kinds of a static route as registration classifies them *)
Lemma news_static : forall r anc aa root l, is_static_route r = true -> news compile root anc aa r = Some l ->
  l = [map (fun s => KStatic (seg_lit s)) r].
Proof.
  induction r as [|s r IH]; intros anc aa root l H N; [discriminate|].
  unfold is_static_route in H. apply andb_prop in H as [H _]. cbn [forallb] in H. apply andb_prop in H as [Hs H].
  apply andb_prop in Hs as [O E]. destruct (optional s) eqn:Os; [discriminate|].
  destruct r as [|s2 rest2].
  - cbn [news] in N. rewrite Os in N. cbn [andb] in N. cbn [map]. unfold seg_lit.
    destruct (elems s) as [|[lt|b|ps] [|e2 es]]; try discriminate; cbn in N; inversion N; reflexivity.
  - rewrite news_cons2 in N.
    assert (Hr : is_static_route (s2 :: rest2) = true) by (unfold is_static_route; rewrite H; reflexivity).
    destruct (classify compile false anc aa (elems s)) as [k|] eqn:C; [|discriminate].
    destruct (news compile false (ctx_anc anc k) (ctx_aa aa k) (s2 :: rest2)) as [l0|] eqn:N0; [|discriminate].
    rewrite (IH _ _ _ _ Hr N0) in N.
    assert (O2 : optional s2 = false).
    { cbn [forallb] in H. apply andb_prop in H as [H2 _]. apply andb_prop in H2 as [O2 _]. destruct (optional s2); [discriminate | reflexivity]. }
    assert (Sh : (match rest2 with
                  | [] => if optional s2 then match classify compile true anc false (elems s) with Some kl => Some [[kl]] | None => None end else Some []
                  | _ :: _ => Some []
                  end) = Some (@nil (list kind))) by (destruct rest2; [rewrite O2|]; reflexivity).
    cbv zeta in N. rewrite Sh in N. inversion N; subst. cbn [map app]. f_equal. f_equal.
    unfold seg_lit. destruct (elems s) as [|[lt|b|ps] [|e2 es]]; try discriminate; cbn in C; try discriminate.
    inversion C. reflexivity.
Qed.

Lemma static_lits_shape r l anc aa root : route_good r -> is_static_route r = true -> news compile root anc aa r = Some l ->
  static_shape (map seg_lit r).
Proof.
  intros G H N. split; [|split].
  - apply Forall_forall. intros lit Hl. apply in_map_iff in Hl as (s & <- & Hs).
    unfold route_good in G. rewrite Forall_forall in G. specialize (G s Hs). unfold seg_lit.
    destruct (elems s) as [|[lt|b|ps] [|e2 es]] eqn:Ee; try (intros []).
    destruct (good_ident _ lt G) as [_ F]; [left; reflexivity | exact F].
  - destruct r; [discriminate | discriminate].
  - destruct r as [|s [|s2 rest2]]; cbn [map]; auto.
    (* the first of several segments is classified as a tree: it cannot be empty *)
    rewrite news_cons2 in N. destruct (classify compile false anc aa (elems s)) as [k|] eqn:C; [|discriminate].
    unfold is_static_route in H. apply andb_prop in H as [H _]. cbn [forallb] in H. apply andb_prop in H as [H _].
    apply andb_prop in H as [_ H].
    unfold seg_lit. destruct (elems s) as [|[lt|b|ps] [|e2 es]] eqn:Ee; cbn in C; try discriminate.
    unfold route_good in G. inversion G as [|? ? Gs ?]; subst. destruct (good_ident _ lt Gs) as [Hn _]; [rewrite Ee; left; reflexivity | exact Hn].
Qed.

(* the invariant of reachable router states *)
Definition rinv (st : rstate) : Prop :=
  table_ok st /\
  (forall m t, nth_error (trees st) m = Some t -> wfo compile good [] false t) /\
  (forall m text rid, In (m, text, rid) (table st) ->
     exists t ri, nth_error (trees st) m = Some t /\ nth_error (infos st) rid = Some ri /\
                  In (map (fun s => KStatic (seg_lit s)) (ri_route ri), rid) (paths t) /\
                  static_shape (map seg_lit (ri_route ri))).

Lemma rinv_init : rinv rinit.
Proof.
  split; [apply table_ok_init|]. split.
  - intros m t H. unfold rinit in H. cbn [trees] in H. apply nth_error_In in H. apply repeat_spec in H. subst. apply wfo_empty.
  - intros m text rid [].
Qed.

Lemma nth_error_replace {A} (l : list A) m x : m < length l ->
  forall j, nth_error (firstn m l ++ x :: skipn (S m) l) j = if Nat.eqb j m then Some x else nth_error l j.
Proof.
  intros L j. assert (Lf : length (firstn m l) = m) by (apply firstn_length_le; lia).
  destruct (Nat.eqb_spec j m) as [->|Ne].
  - rewrite nth_error_app2 by lia. rewrite Lf, Nat.sub_diag. reflexivity.
  - destruct (Nat.lt_ge_cases j m).
    + rewrite nth_error_app1 by lia. apply nth_error_firstn_lt. exact H.
    + rewrite nth_error_app2 by lia. rewrite Lf. destruct (j - m) as [|k] eqn:D; [lia|]. cbn [nth_error].
      rewrite nth_error_skipn_add. f_equal. lia.
Qed.

(* registering for a list of methods: every tree stays well-formed, old paths stay, and the trees of
   the methods concerned gain the forms of the route *)
Lemma add_methods_ok r rid : route_good r -> forall ms ts ts',
  (forall m t, nth_error ts m = Some t -> wfo compile good [] false t) ->
  add_methods compile ts ms r rid = Some ts' ->
  (forall m t', nth_error ts' m = Some t' -> wfo compile good [] false t') /\
  (forall m t p, nth_error ts m = Some t -> In p (paths t) -> exists t', nth_error ts' m = Some t' /\ In p (paths t')) /\
  (forall m, In m ms -> exists t' l, nth_error ts' m = Some t' /\ news compile true [] false r = Some l /\
                                      forall ks, In ks l -> In (ks, rid) (paths t')).
Proof.
  intros G. induction ms as [|m ms IH]; intros ts ts' W H; cbn [add_methods] in H.
  - inversion H; subst. split; [exact W|]. split; [intros m t p Hm Hp; exists t; auto | intros m []].
  - destruct (nth_error ts m) as [t|] eqn:Em; [|discriminate].
    destruct (add_route compile t r rid) as [t1|] eqn:A; [|discriminate]. unfold add_route in A.
    destruct (add_segs_ok compile good good_nil render_inj _ _ _ _ _ _ _ _ (W m t Em) G A) as (W1 & l & Nl & P1).
    assert (Lm : m < length ts) by (apply nth_error_Some; congruence).
    set (ts1 := firstn m ts ++ t1 :: skipn (S m) ts) in *.
    assert (N1 : forall j, nth_error ts1 j = if Nat.eqb j m then Some t1 else nth_error ts j) by (apply nth_error_replace; exact Lm).
    assert (W1' : forall j tj, nth_error ts1 j = Some tj -> wfo compile good [] false tj).
    { intros j tj Hj. rewrite N1 in Hj. destruct (Nat.eqb j m); [inversion Hj; subst; exact W1 | apply (W j tj Hj)]. }
    destruct (IH ts1 ts' W1' H) as (Wf & Mono & New).
    split; [exact Wf|]. split.
    + intros j tj p Hj Hp.
      destruct (Nat.eqb_spec j m) as [->|Ne].
      * rewrite Em in Hj. inversion Hj; subst tj. apply (Mono m t1 p); [rewrite N1, Nat.eqb_refl; reflexivity | apply P1; left; exact Hp].
      * apply (Mono j tj p); [rewrite N1; destruct (Nat.eqb_spec j m); [congruence | exact Hj] | exact Hp].
    + intros j [<-|Hj].
      * assert (X : forall ks, In ks l -> exists t', nth_error ts' m = Some t' /\ In (ks, rid) (paths t')).
        { intros ks Hks. apply (Mono m t1); [rewrite N1, Nat.eqb_refl; reflexivity|]. apply P1. right.
          unfold with_rid. apply in_map_iff. exists ks. auto. }
        destruct (nth_error ts' m) as [t'|] eqn:Et'.
        -- exists t', l. repeat split; auto. intros ks Hks. destruct (X ks Hks) as (t2 & E2 & H2). inversion E2; subst. exact H2.
        -- exfalso. destruct l as [|ks l']; [|destruct (X ks (or_introl eq_refl)) as (? & E2 & _); discriminate].
           (* a route always has at least its long form *)
           clear - Nl. destruct r as [|s [|s2 rest2]]; [discriminate| |].
           ++ cbn [news] in Nl. destruct (classify compile true [] false (elems s)); [|discriminate].
              destruct (optional s && true); discriminate.
           ++ rewrite news_cons2 in Nl. destruct (classify compile false [] false (elems s)); [|discriminate].
              destruct (news compile false _ _ (s2 :: rest2)) as [l0|] eqn:N0; [|discriminate]. cbv zeta in Nl.
              destruct (match rest2 with [] => _ | _ :: _ => _ end); [|discriminate].
              inversion Nl as [E]. apply app_eq_nil in E as [E _]. destruct l0; [|discriminate].
              clear - N0. exfalso. revert N0. generalize (ctx_anc [] k) (ctx_aa false k) s2.
              induction rest2 as [|s3 rest3 IHr]; intros anc aa sx N0.
              ** cbn [news] in N0. destruct (classify compile true anc false (elems sx)); [|discriminate]. destruct (optional sx && false); discriminate.
              ** rewrite news_cons2 in N0. destruct (classify compile false anc aa (elems sx)); [|discriminate].
                 destruct (news compile false _ _ (s3 :: rest3)) as [l1|] eqn:N1; [|discriminate]. cbv zeta in N0.
                 destruct (match rest3 with [] => _ | _ :: _ => _ end); [|discriminate].
                 inversion N0 as [E]. apply app_eq_nil in E as [E _]. destruct l1; [|discriminate]. eapply IHr. exact N1.
      * apply New. exact Hj.
Qed.

Lemma rinv_register st ms r st' : route_good r -> rinv st -> register compile st ms r = Some st' -> rinv st'.
Proof.
  intros G (T & W & P) H. pose proof (table_ok_register compile st ms r st' T H) as T'.
  unfold register in H. destruct ms as [|m0 ms0]; [discriminate|].
  remember (m0 :: ms0) as ms eqn:Ems. clear Ems m0 ms0.
  destruct (add_methods compile (trees st) ms r (length (infos st))) as [ts|] eqn:A; [|discriminate].
  inversion H; subst; clear H.
  destruct (add_methods_ok r (length (infos st)) G ms (trees st) ts W A) as (Wf & Mono & New).
  split; [exact T'|]. split; [exact Wf|].
  intros m text rid HIn. cbn [table trees infos] in *.
  assert (OLD : In (m, text, rid) (table st) -> exists t ri, nth_error ts m = Some t /\
            nth_error (infos st ++ [mkri r ms None]) rid = Some ri /\
            In (map (fun s => KStatic (seg_lit s)) (ri_route ri), rid) (paths t) /\ static_shape (map seg_lit (ri_route ri))).
  { intros HI. destruct (P m text rid HI) as (t & ri & Et & Ei & Hp & Sh).
    destruct (Mono m t _ Et Hp) as (t' & Et' & Hp'). exists t', ri.
    split; [exact Et'|]. split; [|split; [exact Hp' | exact Sh]].
    rewrite nth_error_app1; [exact Ei | apply nth_error_Some; congruence]. }
  destruct (is_static_route r) eqn:S; [|apply OLD; exact HIn].
  apply in_app_or in HIn as [HIn|HIn].
  - apply in_map_iff in HIn as (m' & E & Hm). inversion E; subst.
    destruct (New m Hm) as (t' & l & Et' & Nl & Hl).
    pose proof (news_static r [] false true l S Nl) as El. subst l.
    exists t', (mkri r ms None). rewrite nth_error_app2 by lia. rewrite Nat.sub_diag. cbn [nth_error ri_route].
    split; [exact Et'|]. split; [reflexivity|]. split.
    + apply Hl. left. reflexivity.
    + eapply static_lits_shape; eauto.
  - apply filter_In in HIn as [HIn _]. apply OLD; exact HIn.
Qed.

Lemma rinv_set_headers st rid h : rinv st -> rinv (set_headers st rid h).
Proof.
  intros (T & W & P). pose proof (table_ok_set_headers st rid h T) as T'.
  unfold set_headers in *. destruct (nth_error (infos st) rid) as [ri0|] eqn:E; [|split; auto].
  split; [exact T'|]. split; [exact W|].
  intros m text rid' HIn. cbn [table trees infos] in *. apply filter_In in HIn as [HIn Ne].
  destruct (P m text rid' HIn) as (t & ri & Et & Ei & Hp & Sh). exists t, ri.
  split; [exact Et|]. split; [|split; [exact Hp | exact Sh]].
  assert (rid' <> rid) by (intros ->; cbn in Ne; rewrite Nat.eqb_refl in Ne; discriminate).
  assert (L : rid < length (infos st)) by (apply nth_error_Some; congruence).
  rewrite nth_error_replace by exact L. destruct (Nat.eqb_spec rid' rid); [congruence | exact Ei].
Qed.

(* the shortcut is unobservable in every state satisfying the invariant *)
Theorem serve_is_tree st m path hdrs : rinv st -> serve st m path hdrs = serve_tree st m path hdrs.
Proof.
  intros (T & W & P). unfold serve. destruct m as [mi|]; [|reflexivity].
  destruct (table_lookup st mi path) as [rid|] eqn:L; [|reflexivity].
  unfold table_lookup in L. destruct (find _ (table st)) as [[[m' text] rid']|] eqn:F; [|discriminate]. inversion L; subst rid'.
  apply find_some in F as [HIn Hc]. cbn [fst snd] in Hc. apply andb_prop in Hc as [Hm Ht].
  apply Nat.eqb_eq in Hm. apply str_eqb_eq in Ht. subst m' text.
  destruct (T mi path rid HIn) as (ri & Ei & St & Rt & Hh & _).
  destruct (P mi path rid HIn) as (t & ri' & Et & Ei' & Hp & Sh). rewrite Ei in Ei'. inversion Ei'; subst ri'.
  unfold serve_tree. rewrite Et.
  assert (Hok : hdr_ok st hdrs rid = true) by (unfold hdr_ok; rewrite Ei, Hh; reflexivity).
  assert (Esegs : segs_of path = map seg_lit (ri_route ri)).
  { rewrite <- Rt, (render_static _ St).
    replace (map (fun s => c_slash :: seg_lit s) (ri_route ri)) with (map (fun l => c_slash :: l) (map seg_lit (ri_route ri))) by (rewrite map_map; reflexivity).
    destruct Sh as (F & Hne & H1). rewrite concat_slash_join by exact Hne. apply segs_of_static. repeat split; assumption. }
  rewrite Esegs.
  assert (Hp' : In (map KStatic (map seg_lit (ri_route ri)), rid) (paths t)) by (rewrite map_map; exact Hp).
  rewrite (static_lookup (hdr_ok st hdrs) _ t rid (wfo_wf compile good t [] false (W mi t Et)) (proj1 (proj2 Sh)) Hp' Hok).
  reflexivity.
Qed.

(* reachable states: any history of registrations (of good routes) and Headers() calls *)
Inductive reachable : rstate -> Prop :=
| reach_init : reachable rinit
| reach_register st ms r st' : reachable st -> route_good r -> register compile st ms r = Some st' -> reachable st'
| reach_headers st rid h : reachable st -> reachable (set_headers st rid h).

Theorem reachable_rinv st : reachable st -> rinv st.
Proof.
  induction 1; [apply rinv_init | eapply rinv_register; eauto | apply rinv_set_headers; assumption].
Qed.

Theorem unobservable st m path hdrs : reachable st -> serve st m path hdrs = serve_tree st m path hdrs.
Proof. intros R. apply serve_is_tree. apply reachable_rinv. exact R. Qed.
End Inv.
