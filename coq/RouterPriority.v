(* C01/C09 at the level of the router: in every state reachable by registrations and Headers() calls,
   the tree of each method is the tree of the routes registered for that method in registration order,
   so the priority theorem applies to what Router.serve answers. *)
Require Import Base Regex Route Tree TreeProofs TreeWf TreeAdd TreeKeys TreeLive TreePriority TreeOrdered
               TreeComplete TreeDispatch TreeCands TreePriorityTop Router RouterProofs RouterInv.
From Coq Require Import Sorted.

(* the routes registered for method m, with their ids (= positions in the registration log) *)
Fixpoint mroutes_from (i : nat) (l : list rinfo) (m : nat) : list (nat * route) :=
  match l with
  | [] => []
  | ri :: l' => (if existsb (Nat.eqb m) (ri_methods ri) then [(i, ri_route ri)] else []) ++ mroutes_from (S i) l' m
  end.
Definition mroutes (st : rstate) (m : nat) : list (nat * route) := mroutes_from 0 (infos st) m.

Lemma mroutes_from_app l1 : forall i l2 m, mroutes_from i (l1 ++ l2) m = mroutes_from i l1 m ++ mroutes_from (i + length l1) l2 m.
Proof.
  induction l1 as [|ri l1 IH]; intros i l2 m; cbn [app mroutes_from length].
  - rewrite Nat.add_0_r. reflexivity.
  - rewrite IH, <- app_assoc. do 3 f_equal. lia.
Qed.

Lemma mroutes_from_bounds l : forall i m rid r, In (rid, r) (mroutes_from i l m) -> i <= rid < i + length l.
Proof.
  induction l as [|ri l IH]; intros i m rid r H; [destruct H|]. cbn [mroutes_from length] in *.
  apply in_app_or in H as [H|H].
  - destruct (existsb _ _); [|destruct H]. destruct H as [E|[]]. inversion E; subst. lia.
  - apply IH in H. lia.
Qed.

Lemma mroutes_from_increasing l : forall i m, increasing (mroutes_from i l m).
Proof.
  unfold increasing. induction l as [|ri l IH]; intros i m; cbn [mroutes_from]; [constructor|].
  destruct (existsb _ _); cbn [app map fst]; [|apply IH]. constructor; [apply IH|].
  apply Forall_forall. intros x Hx. apply in_map_iff in Hx as ([rid r] & <- & Hin). apply mroutes_from_bounds in Hin. cbn. lia.
Qed.

Lemma mroutes_from_routes l : forall i m rid r, In (rid, r) (mroutes_from i l m) -> exists ri, In ri l /\ ri_route ri = r.
Proof.
  induction l as [|ri l IH]; intros i m rid r H; [destruct H|]. cbn [mroutes_from] in H. apply in_app_or in H as [H|H].
  - destruct (existsb _ _); [|destruct H]. destruct H as [E|[]]. inversion E; subst. exists ri. split; [left|]; reflexivity.
  - destruct (IH _ _ _ _ H) as (ri' & Hin & E). exists ri'. split; [right; exact Hin | exact E].
Qed.

Lemma in_firstn {A} (x : A) : forall n l, In x (firstn n l) -> In x l.
Proof. induction n as [|n IH]; intros l H; [destruct H|]. destruct l as [|y l]; [destruct H|]. cbn in H. destruct H as [->|H]; [left; reflexivity | right; apply IH; exact H]. Qed.
Lemma in_skipn {A} (x : A) : forall n l, In x (skipn n l) -> In x l.
Proof. induction n as [|n IH]; intros l H; [exact H|]. destruct l as [|y l]; [destruct H|]. right. apply IH. exact H. Qed.

Lemma skipn_S_tl {A} (l : list A) : forall n, skipn (S n) l = tl (skipn n l).
Proof. induction l as [|x l IH]; intros n; [destruct n; reflexivity|]. destruct n; [reflexivity|]. cbn [skipn]. apply IH. Qed.

Section RP.
Variable compile : str -> option re.
Variable good : list elem -> Prop.
Hypothesis good_nil : good [].
Hypothesis render_inj : forall a b, good a -> good b -> render_elems a = render_elems b -> a = b.

Lemma reg_all_app a : forall t b, reg_all compile t (a ++ b) =
  match reg_all compile t a with Some t1 => reg_all compile t1 b | None => None end.
Proof.
  induction a as [|[rid r] a IH]; intros t b; cbn [app reg_all]; [reflexivity|].
  destruct (add_route compile t r rid); [apply IH | reflexivity].
Qed.

Lemma add_methods_nth r rid : forall ms ts ts', NoDup ms -> add_methods compile ts ms r rid = Some ts' ->
  forall m, nth_error ts' m = if existsb (Nat.eqb m) ms
                              then match nth_error ts m with Some t => add_route compile t r rid | None => None end
                              else nth_error ts m.
Proof.
  induction ms as [|m0 ms IH]; intros ts ts' ND H m; cbn [add_methods] in H.
  - inversion H; subst. reflexivity.
  - destruct (nth_error ts m0) as [t0|] eqn:E0; [|discriminate].
    destruct (add_route compile t0 r rid) as [t1|] eqn:A; [|discriminate].
    inversion ND as [|? ? Nm ND']; subst.
    assert (L0 : m0 < length ts) by (apply nth_error_Some; congruence).
    rewrite (IH _ _ ND' H m). cbn [existsb]. rewrite (nth_error_replace ts m0 t1 L0 m).
    destruct (Nat.eqb_spec m m0) as [->|Ne].
    + cbn [orb]. assert (X : existsb (Nat.eqb m0) ms = false).
      { destruct (existsb (Nat.eqb m0) ms) eqn:Ex; [|reflexivity]. apply existsb_exists in Ex as (x & Hx & Ex). apply Nat.eqb_eq in Ex. subst x. contradiction. }
      rewrite X, E0, A. reflexivity.
    + cbn [orb]. reflexivity.
Qed.

(* the invariant: each method tree is the tree of that method's routes, registered in order *)
Definition tinv (st : rstate) : Prop :=
  (forall ri, In ri (infos st) -> route_good good (ri_route ri)) /\
  forall m t, nth_error (trees st) m = Some t -> reg_all compile empty (mroutes st m) = Some t.

Lemma tinv_init : tinv rinit.
Proof.
  split; [intros ri []|]. intros m t H. unfold rinit in H. cbn [trees] in H. apply nth_error_In in H. apply repeat_spec in H. subst. reflexivity.
Qed.

Lemma tinv_register st ms r st' : NoDup ms -> route_good good r -> tinv st -> register compile st ms r = Some st' -> tinv st'.
Proof.
  intros ND G (GI & T) H. unfold register in H. destruct ms as [|m0 ms0]; [discriminate|].
  remember (m0 :: ms0) as ms eqn:Ems. clear Ems m0 ms0.
  destruct (add_methods compile (trees st) ms r (length (infos st))) as [ts|] eqn:A; [|discriminate].
  inversion H; subst; clear H. split; cbn [infos trees].
  - intros ri Hri. apply in_app_or in Hri as [Hri|[<-|[]]]; [apply GI; exact Hri | exact G].
  - intros m t Ht. unfold mroutes. cbn [infos]. rewrite mroutes_from_app. cbn [mroutes_from ri_methods ri_route Nat.add]. rewrite app_nil_r, reg_all_app.
    rewrite (add_methods_nth r _ ms (trees st) ts ND A m) in Ht.
    destruct (existsb (Nat.eqb m) ms).
    + destruct (nth_error (trees st) m) as [t0|] eqn:E0; [|discriminate]. fold (mroutes st m). rewrite (T m t0 E0). cbn [reg_all]. rewrite Ht. reflexivity.
    + fold (mroutes st m). rewrite (T m t Ht). reflexivity.
Qed.

Lemma mroutes_set_headers st rid h m : mroutes (set_headers st rid h) m = mroutes st m.
Proof.
  unfold set_headers. destruct (nth_error (infos st) rid) as [ri0|] eqn:E; [|reflexivity]. unfold mroutes. cbn [infos].
  assert (L : rid < length (infos st)) by (apply nth_error_Some; congruence).
  rewrite <- (firstn_skipn rid (infos st)) at 3. rewrite !mroutes_from_app. f_equal.
  destruct (skipn rid (infos st)) as [|x rest] eqn:Sk.
  - exfalso. assert (length (skipn rid (infos st)) = length (infos st) - rid) by apply skipn_length. rewrite Sk in H. cbn in H. lia.
  - assert (x = ri0).
    { rewrite <- (firstn_skipn rid (infos st)) in E. rewrite nth_error_app2 in E by (rewrite firstn_length_le; lia).
      rewrite firstn_length_le in E by lia. rewrite Nat.sub_diag, Sk in E. cbn in E. congruence. }
    subst x. replace (skipn (S rid) (infos st)) with rest.
    + cbn [mroutes_from ri_methods ri_route]. reflexivity.
    + rewrite skipn_S_tl, Sk. reflexivity.
Qed.

Lemma tinv_set_headers st rid h : tinv st -> tinv (set_headers st rid h).
Proof.
  intros (GI & T). split.
  - intros ri Hri. unfold set_headers in Hri. destruct (nth_error (infos st) rid) as [ri0|] eqn:E; [|apply GI; exact Hri].
    cbn [infos] in Hri. apply in_app_or in Hri as [Hri|[<-|Hri]].
    + apply GI. eapply in_firstn. exact Hri.
    + cbn [ri_route]. apply GI. eapply nth_error_In. exact E.
    + apply GI. eapply in_skipn. exact Hri.
  - intros m t Ht. rewrite mroutes_set_headers. apply T. unfold set_headers in Ht. destruct (nth_error (infos st) rid); exact Ht.
Qed.

Inductive reachable_p : rstate -> Prop :=
| rp_init : reachable_p rinit
| rp_register st ms r st' : reachable_p st -> NoDup ms -> route_good good r -> register compile st ms r = Some st' -> reachable_p st'
| rp_headers st rid h : reachable_p st -> reachable_p (set_headers st rid h).

Lemma reachable_tinv st : reachable_p st -> tinv st.
Proof. induction 1; [apply tinv_init | eapply tinv_register; eauto | apply tinv_set_headers; assumption]. Qed.

(* PRIORITY at the router: what is served for a known method is the match of least key among all
   matches of the routes registered for that method whose header constraints hold for this request *)
Theorem router_priority st mi path hdrs : reachable_p st ->
  forall t, nth_error (trees st) mi = Some t ->
  let hok := hdr_ok st hdrs in let segs := segs_of path in
  (forall rid, (exists k, In (k, rid) (cands hok t segs [])) <->
     exists r l ks ps, In (rid, r) (mroutes st mi) /\ forms compile r = Some l /\ In ks l /\ adm ks segs ps /\ hok rid = true) /\
  match serve_tree st (Some mi) path hdrs with
  | Found rid _ => exists k, In (k, rid) (cands hok t segs []) /\ forall c, In c (cands hok t segs []) -> key_le k (fst c)
  | NotFound => cands hok t segs [] = []
  end.
Proof.
  intros R t Et hok segs. destruct (reachable_tinv st R) as (GI & T).
  assert (G : forall rid r, In (rid, r) (mroutes st mi) -> route_good good r).
  { intros rid r H. unfold mroutes in H. apply mroutes_from_routes in H as (ri & Hri & <-). apply GI. exact Hri. }
  destruct (priority_full compile good good_nil render_inj hok (mroutes st mi) t segs G (mroutes_from_increasing _ _ _) (T mi t Et)) as [A B].
  split; [exact A|]. unfold serve_tree. rewrite Et. fold hok segs.
  destruct (mtree hok t segs) as [[rid ps]|]; exact B.
Qed.
End RP.
