(* Router-level facts (C07, C09, C10). *)
Require Import Base Regex Route Tree TreeProofs Router.

Section R.
Variable compile : str -> option re.

(* a path always has at least one segment: the matcher's "no segments" case is unreachable *)
Lemma split_slash_nonempty cur s : split_slash cur s <> [].
Proof. revert cur; induction s as [|c s IH]; intros cur; cbn; [discriminate|]. destruct (N.eqb c c_slash); [discriminate | apply IH]. Qed.

Lemma segs_of_nonempty path : segs_of path <> [].
Proof. apply split_slash_nonempty. Qed.

(* C09: a route is only ever chosen by tree matching if its header constraints hold *)
Theorem serve_tree_gated st m path hdrs rid ps :
  serve_tree st m path hdrs = Found rid ps -> hdr_ok st hdrs rid = true.
Proof.
  unfold serve_tree. destruct m as [mi|]; [|discriminate].
  destruct (nth_error (trees st) mi) as [t|]; [|discriminate].
  destruct (mtree (hdr_ok st hdrs) t (segs_of path)) as [[r q]|] eqn:M; [|discriminate].
  intros X; inversion X; subst. apply mtree_sound in M as (ks & _ & _ & H). exact H.
Qed.

(* C01/C02: what tree matching returns is a registered path of that method's tree admitting the
   request's segments, and the delivered values are its captures, percent-decoded once *)
Theorem serve_tree_sound st mi path hdrs rid ps :
  serve_tree st (Some mi) path hdrs = Found rid ps ->
  exists t ks raw, nth_error (trees st) mi = Some t /\ In (ks, rid) (paths t) /\
                   adm ks (segs_of path) raw /\ ps = map (fun p => (fst p, decode1 (snd p))) raw.
Proof.
  unfold serve_tree. destruct (nth_error (trees st) mi) as [t|]; [|discriminate].
  destruct (mtree (hdr_ok st hdrs) t (segs_of path)) as [[r q]|] eqn:M; [|discriminate].
  intros X; inversion X; subst. apply mtree_sound in M as (ks & HIn & Ad & _).
  exists t, ks, q. auto.
Qed.

Lemma nth_error_firstn_lt {A} (l : list A) : forall n i, i < n -> nth_error (firstn n l) i = nth_error l i.
Proof.
  induction l as [|x l IH]; intros n i H; [destruct n, i; reflexivity|].
  destruct n; [lia|]. destruct i; [reflexivity|]. cbn. apply IH. lia.
Qed.

Lemma nth_error_skipn_add {A} (l : list A) : forall n i, nth_error (skipn n l) i = nth_error l (n + i).
Proof.
  induction l as [|x l IH]; intros n i; [destruct n, i; reflexivity|].
  destruct n; [reflexivity|]. cbn. apply IH.
Qed.

(* C09: specifying constraints again replaces the previous set *)
Lemma nth_error_update {A} (l : list A) i x y :
  nth_error l i = Some y -> nth_error (firstn i l ++ x :: skipn (S i) l) i = Some x.
Proof.
  intros H. assert (L : i < length l) by (apply nth_error_Some; congruence).
  rewrite nth_error_app2; rewrite firstn_length_le by lia; [|lia]. rewrite Nat.sub_diag. reflexivity.
Qed.

Lemma update_update {A} (l : list A) i x y :
  i < length l ->
  firstn i (firstn i l ++ x :: skipn (S i) l) ++ y :: skipn (S i) (firstn i l ++ x :: skipn (S i) l)
  = firstn i l ++ y :: skipn (S i) l.
Proof.
  intros L.
  assert (Lf : length (firstn i l) = i) by (apply firstn_length_le; lia).
  f_equal.
  - rewrite firstn_app, Lf, Nat.sub_diag. cbn. rewrite app_nil_r. rewrite firstn_firstn, Nat.min_id. reflexivity.
  - f_equal. rewrite skipn_app, Lf. replace (S i - i) with 1 by lia.
    rewrite (skipn_all2 (n := S i) (firstn i l)) by lia. reflexivity.
Qed.

Theorem set_headers_replaces st rid h1 h2 :
  infos (set_headers (set_headers st rid h1) rid h2) = infos (set_headers st rid h2).
Proof.
  unfold set_headers. destruct (nth_error (infos st) rid) as [ri|] eqn:E; cbn [infos]; [|rewrite E; reflexivity].
  rewrite (nth_error_update _ _ _ _ E). cbn [infos ri_route ri_methods].
  apply update_update. apply nth_error_Some. congruence.
Qed.

(* C09/C10: a route given header constraints leaves the static shortcut *)
Theorem set_headers_evicts st rid h mi path :
  table_lookup (set_headers st rid h) mi path = Some rid -> nth_error (infos st) rid = None.
Proof.
  unfold set_headers, table_lookup. destruct (nth_error (infos st) rid) as [ri|] eqn:E; [|reflexivity].
  cbn [table]. intros H.
  destruct (find _ (filter _ (table st))) as [e|] eqn:F; [|discriminate]. inversion H; subst.
  apply find_some in F as [F _]. apply filter_In in F as [_ F]. rewrite Nat.eqb_refl in F. discriminate.
Qed.

(* C10: the shortcut is only consulted for its own entries; on a miss serving IS tree matching *)
Theorem serve_miss_is_tree st mi path hdrs :
  table_lookup st mi path = None -> serve st (Some mi) path hdrs = serve_tree st (Some mi) path hdrs.
Proof. unfold serve. intros ->. reflexivity. Qed.

Theorem serve_unknown_method st path hdrs : serve st None path hdrs = NotFound.
Proof. reflexivity. Qed.

(* every entry of the shortcut table belongs to a registered, fully static, unconstrained route whose
   canonical text is the key *)
Definition table_ok (st : rstate) : Prop :=
  forall m text rid, In (m, text, rid) (table st) ->
    exists ri, nth_error (infos st) rid = Some ri /\ is_static_route (ri_route ri) = true /\
               render_route (ri_route ri) = text /\ ri_hdr ri = None /\ In m (ri_methods ri).

Lemma table_ok_init : table_ok rinit.
Proof. intros m text rid []. Qed.

Lemma table_ok_register st ms r st' : table_ok st -> register compile st ms r = Some st' -> table_ok st'.
Proof.
  intros T H. unfold register in H. destruct ms as [|m0 ms0]; [discriminate|].
  remember (m0 :: ms0) as ms' eqn:Ems. clear Ems m0 ms0.
  destruct (add_methods compile (trees st) ms' r (length (infos st))) as [ts|]; [|discriminate].
  inversion H; subst; clear H. intros m text rid HIn. cbn [table infos] in *.
  assert (OLD : In (m, text, rid) (table st) ->
    exists ri, nth_error (infos st ++ [mkri r ms' None]) rid = Some ri /\ is_static_route (ri_route ri) = true /\
               render_route (ri_route ri) = text /\ ri_hdr ri = None /\ In m (ri_methods ri)).
  { intros HI. destruct (T m text rid HI) as (ri & E & ?). exists ri. split; [|assumption].
    rewrite nth_error_app1; [exact E | apply nth_error_Some; congruence]. }
  destruct (is_static_route r) eqn:S; [|apply OLD; exact HIn].
  apply in_app_or in HIn as [HIn|HIn].
  - apply in_map_iff in HIn as (m' & E & Hm). inversion E; subst.
    exists (mkri r ms' None). rewrite nth_error_app2 by lia. rewrite Nat.sub_diag. cbn. auto.
  - apply filter_In in HIn as [HIn _]. apply OLD; exact HIn.
Qed.

Lemma table_ok_set_headers st rid h : table_ok st -> table_ok (set_headers st rid h).
Proof.
  intros T. unfold set_headers. destruct (nth_error (infos st) rid) as [ri0|] eqn:E; [|exact T].
  intros m text rid' HIn. cbn [table infos] in *. apply filter_In in HIn as [HIn Ne].
  destruct (T m text rid' HIn) as (ri & E' & ?). exists ri. split; [|assumption].
  assert (rid' <> rid) by (intros ->; rewrite Nat.eqb_refl in Ne; discriminate).
  assert (L : rid < length (infos st)) by (apply nth_error_Some; congruence).
  assert (Lf : length (firstn rid (infos st)) = rid) by (apply firstn_length_le; lia).
  destruct (Nat.lt_ge_cases rid' rid) as [Lt|Ge].
  - rewrite nth_error_app1 by lia. rewrite nth_error_firstn_lt by lia. exact E'.
  - rewrite nth_error_app2 by lia. rewrite Lf. destruct (rid' - rid) as [|k] eqn:D; [lia|]. cbn [nth_error].
    rewrite nth_error_skipn_add. replace (S rid + k) with rid' by lia. exact E'.
Qed.
End R.

(* the reserved parameter *)
Lemma deliver_route r ps : plookup (deliver r ps) s_route = Some (render_route r).
Proof. unfold plookup, deliver. cbn [find fst]. rewrite str_eqb_refl. reflexivity. Qed.

Lemma deliver_other r ps k : k <> s_route -> plookup (deliver r ps) k = plookup ps k.
Proof.
  intros Ne. unfold plookup, deliver. cbn [find fst].
  assert (E : str_eqb s_route k = false) by (apply str_eqb_neq; congruence). rewrite E.
  induction ps as [|[a b] ps IH]; [reflexivity|]. cbn [filter fst find].
  destruct (str_eqb a s_route) eqn:Ea; cbn [negb].
  - apply str_eqb_eq in Ea. subst a. rewrite E. exact IH.
  - cbn [find fst]. destruct (str_eqb a k); [reflexivity | exact IH].
Qed.

(* header names are looked up in their canonical form: canonicalising is idempotent, so a constraint behaves the same
   under every spelling of its header's name *)
Lemma up_c_idem c : up_c (up_c c) = up_c c.
Proof.
  unfold up_c. destruct (N.leb 97 c && N.leb c 122) eqn:E; [|rewrite E; reflexivity].
  apply andb_prop in E as [A B]. apply N.leb_le in A, B.
  destruct (N.leb 97 (c - 32) && N.leb (c - 32) 122) eqn:E2; [|reflexivity].
  apply andb_prop in E2 as [A2 B2]. apply N.leb_le in A2, B2. lia.
Qed.

Lemma low_c_idem c : low_c (low_c c) = low_c c.
Proof.
  unfold low_c. destruct (N.leb 65 c && N.leb c 90) eqn:E; [|rewrite E; reflexivity].
  apply andb_prop in E as [A B]. apply N.leb_le in A, B.
  destruct (N.leb 65 (c + 32) && N.leb (c + 32) 90) eqn:E2; [|reflexivity].
  apply andb_prop in E2 as [A2 B2]. apply N.leb_le in A2, B2. lia.
Qed.

Lemma up_c_dash c : N.eqb (up_c c) 45 = N.eqb c 45.
Proof.
  unfold up_c. destruct (N.leb 97 c && N.leb c 122) eqn:E; [|reflexivity].
  apply andb_prop in E as [A B]. apply N.leb_le in A, B.
  destruct (N.eqb_spec (c - 32) 45), (N.eqb_spec c 45); try reflexivity; lia.
Qed.

Lemma low_c_dash c : N.eqb (low_c c) 45 = N.eqb c 45.
Proof.
  unfold low_c. destruct (N.leb 65 c && N.leb c 90) eqn:E; [|reflexivity].
  apply andb_prop in E as [A B]. apply N.leb_le in A, B.
  destruct (N.eqb_spec (c + 32) 45), (N.eqb_spec c 45); try reflexivity; lia.
Qed.

Lemma canon_go_idem : forall s up, canon_go up (canon_go up s) = canon_go up s.
Proof.
  induction s as [|c s IH]; intros up; [reflexivity|]. cbn [canon_go]. destruct up.
  - rewrite up_c_idem, up_c_dash, IH. reflexivity.
  - rewrite low_c_idem, low_c_dash, IH. reflexivity.
Qed.

Lemma canon_key_idem s : canon_key (canon_key s) = canon_key s.
Proof. apply canon_go_idem. Qed.

Lemma constraint_spelling n r h hdrs :
  constraint_ok ((n, r) :: h) hdrs = constraint_ok ((canon_key n, r) :: h) hdrs.
Proof. unfold constraint_ok. cbn [forallb fst snd]. rewrite canon_key_idem. reflexivity. Qed.
