(* C02 core: the values a regex-style segment binds are exactly the parts of the segment matched by
   each bind's own expression; literal pieces match literally; the parts concatenate to the segment. *)
Require Import Base Regex RegexProofs Route Tree.

Fixpoint gidx (r : re) : list nat :=
  match r with
  | Eps | Chr _ => []
  | Cat a b | Alt a b => gidx a ++ gidx b
  | Star a => gidx a
  | Grp i a => i :: gidx a
  end.

Definition ext (r : re) (c c' : caps) : Prop :=
  exists d, c' = d ++ c /\ Forall (fun e => In (fst e) (gidx r)) d.

Lemma ext_refl r c : ext r c c.
Proof. exists []. split; [reflexivity | constructor]. Qed.

Lemma ext_weaken (r r' : re) c c' : incl (gidx r) (gidx r') -> ext r c c' -> ext r' c c'.
Proof.
  intros I (d & -> & F). exists d. split; [reflexivity|].
  eapply Forall_impl; [|exact F]. intros e He. apply I, He.
Qed.

Lemma ext_trans r c1 c2 c3 : ext r c1 c2 -> ext r c2 c3 -> ext r c1 c3.
Proof.
  intros (d1 & -> & F1) (d2 & -> & F2). exists (d2 ++ d1). split; [apply app_assoc|].
  apply Forall_app; split; assumption.
Qed.

Section S.
Context {R : Type}.

Lemma m_sound_caps r : forall s c (k : str -> caps -> option R) x,
  m r s c k = Some x ->
  exists s1 s2 c', s = s1 ++ s2 /\ matches r s1 /\ ext r c c' /\ k s2 c' = Some x.
Proof.
  induction r as [|p|a IHa b IHb|a IHa b IHb|a IHa|i a IHa]; intros s c k x H.
  - exists [], s, c. repeat split; [constructor | apply ext_refl | exact H].
  - destruct s as [|y s']; [discriminate|]. cbn [m] in H. destruct (cls_mem p y) eqn:E; [|discriminate].
    exists [y], s', c. repeat split; [constructor; exact E | apply ext_refl | exact H].
  - cbn [m] in H. apply IHa in H as (s1 & s2 & c1 & -> & Ma & X1 & H).
    apply IHb in H as (s3 & s4 & c2 & -> & Mb & X2 & H).
    exists (s1 ++ s3), s4, c2. rewrite app_assoc. repeat split; [constructor; assumption | | exact H].
    eapply ext_trans; (eapply ext_weaken; [|eassumption]); cbn; intros z Hz; apply in_or_app; auto.
  - cbn [m] in H. destruct (m a s c k) eqn:E.
    + inversion H; subst. apply IHa in E as (s1 & s2 & c1 & -> & Ma & X1 & E).
      exists s1, s2, c1. repeat split; [apply m_altl; assumption | | exact E].
      eapply ext_weaken; [|eassumption]. cbn; intros z Hz; apply in_or_app; auto.
    + apply IHb in H as (s1 & s2 & c1 & -> & Mb & X1 & H).
      exists s1, s2, c1. repeat split; [apply m_altr; assumption | | exact H].
      eapply ext_weaken; [|eassumption]. cbn; intros z Hz; apply in_or_app; auto.
  - cbn [m] in H. remember (length s) as n eqn:Hn. clear Hn.
    revert s c H. induction n as [|n IHn]; intros s c H; cbn [loop] in H.
    + exists [], s, c. repeat split; [constructor | apply ext_refl | exact H].
    + destruct (m a s c _) eqn:E.
      * inversion H; subst. apply IHa in E as (s1 & s2 & c1 & -> & Ma & X1 & E).
        cbv beta in E.
        destruct (Nat.ltb (length s2) (length (s1 ++ s2))) eqn:L; [|discriminate].
        apply IHn in E as (s3 & s4 & c2 & -> & Ms & X2 & E).
        exists (s1 ++ s3), s4, c2. rewrite app_assoc. repeat split; [| |exact E].
        -- apply m_star1; try assumption.
           intros ->. apply Nat.ltb_lt in L. cbn in L. lia.
        -- eapply ext_trans; [|exact X2]. exact X1.
      * exists [], s, c. repeat split; [constructor | apply ext_refl | exact H].
  - cbn [m] in H. apply IHa in H as (s1 & s2 & c1 & -> & Ma & X1 & H).
    exists s1, s2, ((i, s1) :: c1).
    repeat split; [constructor; assumption | | ].
    + destruct X1 as (d & -> & F). exists ((i, s1) :: d). split; [reflexivity|].
      constructor; [left; reflexivity|]. eapply Forall_impl; [|exact F]. intros e He. right. exact He.
    + replace (firstn (length (s1 ++ s2) - length s2) (s1 ++ s2)) with s1 in H; [exact H|].
      rewrite app_length, Nat.add_sub, firstn_app, Nat.sub_diag, firstn_all. cbn. now rewrite app_nil_r.
Qed.

Lemma m_grp_sound i a s c (k : str -> caps -> option R) x :
  m (Grp i a) s c k = Some x ->
  exists s1 s2 c1, s = s1 ++ s2 /\ matches a s1 /\ ext a c c1 /\ k s2 ((i, s1) :: c1) = Some x.
Proof.
  intros H. cbn [m] in H. apply m_sound_caps in H as (s1 & s2 & c1 & -> & Ma & X1 & H).
  exists s1, s2, c1. repeat split; try assumption.
  replace (firstn (length (s1 ++ s2) - length s2) (s1 ++ s2)) with s1 in H; [exact H|].
  rewrite app_length, Nat.add_sub, firstn_app, Nat.sub_diag, firstn_all. cbn. now rewrite app_nil_r.
Qed.
End S.

Lemma m_cat_eq {R} a b s c (k : str -> caps -> option R) : m (Cat a b) s c k = m a s c (fun s' c' => m b s' c' k).
Proof. reflexivity. Qed.

(* what a piece admits *)
Definition piece_adm (p : piece) (part : str) : Prop :=
  match p with PLit l => part = l | PBind _ e => matches e part end.

(* the user's expressions carry no capturing group of their own (inner groups are not modelled as
   capturing: their captures are never delivered) *)
Definition group_free (ps : list piece) : Prop :=
  Forall (fun p => match p with PBind _ r => gidx r = [] | PLit _ => True end) ps.

Lemma lit_re_matches l s : matches (lit_re l) s -> s = l.
Proof.
  revert s. induction l as [|x l IH]; intros s M; cbn in M.
  - inversion M; reflexivity.
  - inversion M; subst. inversion H1; subst. cbn in H0. rewrite orb_false_r in H0.
    apply andb_prop in H0 as [A B]. apply N.leb_le in A. apply N.leb_le in B.
    assert (c = x) by lia. subst. cbn. f_equal. apply IH, H3.
Qed.

Lemma lit_re_gidx l : gidx (lit_re l) = [].
Proof. induction l; cbn; auto. Qed.

Lemma lookup_skip i d c : Forall (fun e => fst e <> i) d -> lookup i (d ++ c) = lookup i c.
Proof.
  induction 1 as [|[j v] d Hj _ IH]; [reflexivity|]. cbn in *.
  destruct (Nat.eqb_spec i j); [congruence | exact IH].
Qed.

Lemma seg_re_gidx ps : group_free ps -> forall i x, In x (gidx (seg_re ps i)) -> i <= x.
Proof.
  induction 1 as [|p ps Hp _ IH]; intros i x Hx; cbn in Hx; [contradiction|].
  destruct p as [l|nm r]; cbn in Hx.
  - rewrite lit_re_gidx in Hx. cbn in Hx. apply IH in Hx. exact Hx.
  - rewrite Hp in Hx. cbn in Hx. destruct Hx as [<-|Hx]; [lia|]. apply IH in Hx. lia.
Qed.

(* the values delivered for the bind pieces, given the parts *)
Fixpoint part_values (ps : list piece) (parts : list str) : params :=
  match ps, parts with
  | PLit _ :: ps', _ :: parts' => part_values ps' parts'
  | PBind n _ :: ps', v :: parts' => (n, v) :: part_values ps' parts'
  | _, _ => []
  end.

Lemma seg_sound_gen ps : group_free ps -> forall i s c0 cf,
  m (seg_re ps i) s c0 (fun s' c => match s' with [] => Some c | _ => None end) = Some cf ->
  exists parts, s = concat parts /\ Forall2 piece_adm ps parts /\
    ext (seg_re ps i) c0 cf /\ bind_values ps i cf = part_values ps parts.
Proof.
  induction 1 as [|p ps Hp Hps IH]; intros i s c0 cf H.
  - cbn in H. destruct s; [|discriminate]. inversion H; subst.
    exists []. repeat split; [constructor | apply ext_refl].
  - cbn [seg_re] in H. destruct p as [l|nm e].
    + rewrite m_cat_eq in H.
      apply m_sound_caps in H as (s1 & s2 & c1 & -> & Mp & X1 & H).
      apply IH in H as (parts & -> & F & X2 & L).
      exists (s1 :: parts). repeat split.
      * constructor; [|exact F]. cbn. apply lit_re_matches, Mp.
      * eapply ext_trans; (eapply ext_weaken; [|eassumption]); cbn; intros z Hz; apply in_or_app; auto.
      * cbn. exact L.
    + rewrite m_cat_eq in H.
      apply m_grp_sound in H as (s1 & s2 & c1 & -> & Me & X1 & H).
      apply IH in H as (parts & -> & F & X2 & L).
      exists (s1 :: parts). repeat split.
      * constructor; [|exact F]. exact Me.
      * destruct X1 as (d1 & -> & F1). destruct X2 as (d2 & -> & F2).
        exists (d2 ++ (i, s1) :: d1). split; [rewrite <- app_assoc; reflexivity|].
        apply Forall_app; split.
        -- eapply Forall_impl; [|exact F2]. intros z Hz. cbn. right. apply in_or_app. auto.
        -- constructor; [left; reflexivity|]. eapply Forall_impl; [|exact F1].
           intros z Hz. cbn. right. apply in_or_app. auto.
      * cbn [bind_values part_values]. f_equal; [|exact L].
        destruct X2 as (d2 & -> & F2).
        rewrite lookup_skip.
        2:{ eapply Forall_impl; [|exact F2]. intros [j v] Hj Heq. cbn in *. subst.
            apply (seg_re_gidx ps Hps) in Hj. lia. }
        cbn. now rewrite Nat.eqb_refl.
Qed.

(* C02 for one regex-style segment *)
Theorem seg_values ps s vals : group_free ps -> seg_match (KRegex ps) s = Some vals ->
  exists parts, s = concat parts /\ Forall2 piece_adm ps parts /\ vals = part_values ps parts.
Proof.
  intros G H. cbn [seg_match] in H. unfold full in H.
  destruct (m (seg_re ps 0) s [] _) as [cf|] eqn:E; [|discriminate]. inversion H; subst.
  apply (seg_sound_gen ps G) in E as (parts & ? & ? & _ & ?). eauto.
Qed.

(* ... and conversely a segment made of admitted parts is matched *)
Lemma seg_re_complete ps : forall i parts, Forall2 piece_adm ps parts -> matches (seg_re ps i) (concat parts).
Proof.
  induction ps as [|p ps IH]; intros i parts F; inversion F; subst; cbn.
  - constructor.
  - destruct p as [l|nm e]; cbn in *.
    + subst. constructor; [|apply IH; assumption].
      clear. induction l as [|x l IHl]; cbn; [constructor|].
      change (x :: l) with ([x] ++ l). constructor; [|exact IHl]. constructor. cbn.
      rewrite N.leb_refl. reflexivity.
    + constructor; [constructor; assumption | apply IH; assumption].
Qed.

Theorem seg_accepts ps parts : Forall2 piece_adm ps parts -> seg_match (KRegex ps) (concat parts) <> None.
Proof.
  intros F. cbn [seg_match]. destruct (full (seg_re ps 0) (concat parts)) eqn:E; [discriminate|].
  exfalso. revert E. apply full_iff. apply seg_re_complete. exact F.
Qed.
