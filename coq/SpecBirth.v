(* Bridge between the route-list reading of the priority (RouteSpec.spec_winner) and the tree (part 1):
   the birth of a flat route at a depth, read off the tree. *)
Require Import Base Regex Route Tree TreeProofs TreeWf TreeKeys TreeAccept TreePriority TreeOrdered RouteSpec.

(* [derivs] with the births given by a function of the depth *)
Fixpoint dv (b : nat -> nat) (ks : list kind) (d : nat) (path : list str) (acc : key) {struct ks} : list key :=
  match ks with
  | [] => []
  | [k] =>
      match path with
      | [] => []
      | [s] => if seg_adm k s then [acc ++ [(0, rank k, b d, 0)]] else []
      | _ => match k with
             | KAll _ cap => if cap_ok cap (length path) then [acc ++ [(1, rank k, b d, length path)]] else []
             | _ => []
             end
      end
  | k :: ks' =>
      match path with
      | [] | [_] => []
      | s :: rest =>
          match k with
          | KAll _ cap =>
              flat_map (fun n => if cap_ok cap n && Nat.ltb n (length path)
                                 then dv b ks' (S d) (skipn n path) (acc ++ [(0, rank k, b d, n)])
                                 else []) (seq 1 (length path))
          | _ => if seg_adm k s then dv b ks' (S d) rest (acc ++ [(0, rank k, b d, 0)]) else []
          end
      end
  end.

Lemma dv_cons2 b k k2 ks d path acc :
  dv b (k :: k2 :: ks) d path acc =
  match path with
  | [] | [_] => []
  | s :: rest =>
      match k with
      | KAll _ cap =>
          flat_map (fun n => if cap_ok cap n && Nat.ltb n (length path)
                             then dv b (k2 :: ks) (S d) (skipn n path) (acc ++ [(0, rank k, b d, n)])
                             else []) (seq 1 (length path))
      | _ => if seg_adm k s then dv b (k2 :: ks) (S d) rest (acc ++ [(0, rank k, b d, 0)]) else []
      end
  end.
Proof. reflexivity. Qed.

Lemma derivs_cons2 fs f k k2 ks d path acc :
  derivs fs f (k :: k2 :: ks) d path acc =
  match path with
  | [] | [_] => []
  | s :: rest =>
      match k with
      | KAll _ cap =>
          flat_map (fun n => if cap_ok cap n && Nat.ltb n (length path)
                             then derivs fs f (k2 :: ks) (S d) (skipn n path) (acc ++ [(0, rank k, birth fs f d, n)])
                             else []) (seq 1 (length path))
      | _ => if seg_adm k s then derivs fs f (k2 :: ks) (S d) rest (acc ++ [(0, rank k, birth fs f d, 0)]) else []
      end
  end.
Proof. reflexivity. Qed.

Lemma dv_one b k d path acc :
  dv b [k] d path acc =
  match path with
  | [] => []
  | [s] => if seg_adm k s then [acc ++ [(0, rank k, b d, 0)]] else []
  | _ => match k with
         | KAll _ cap => if cap_ok cap (length path) then [acc ++ [(1, rank k, b d, length path)]] else []
         | _ => []
         end
  end.
Proof. reflexivity. Qed.

Lemma derivs_dv fs f : forall ks d path acc, derivs fs f ks d path acc = dv (birth fs f) ks d path acc.
Proof.
  induction ks as [|k ks IH]; intros d path acc; [reflexivity|].
  destruct ks as [|k2 ks]; [reflexivity|].
  rewrite derivs_cons2, dv_cons2. destruct path as [|s [|s2 rest]]; try reflexivity.
  destruct k; try (rewrite IH; reflexivity).
  apply flat_map_ext. intros n. rewrite IH. reflexivity.
Qed.

Lemma dv_ext b b' : forall ks d path acc, (forall i, d <= i -> b i = b' i) -> dv b ks d path acc = dv b' ks d path acc.
Proof.
  induction ks as [|k ks IH]; intros d path acc E; [reflexivity|].
  destruct ks as [|k2 ks].
  - rewrite !dv_one. rewrite (E d (le_n d)). reflexivity.
  - rewrite !dv_cons2. destruct path as [|s [|s2 rest]]; try reflexivity. rewrite (E d (le_n d)).
    assert (E' : forall i, S d <= i -> b i = b' i) by (intros i Hi; apply E; lia).
    destruct k; try (rewrite (IH (S d) _ _ E'); reflexivity).
    apply flat_map_ext. intros n. rewrite (IH (S d) _ _ E'). reflexivity.
Qed.

Lemma dv_shift b : forall ks d path acc, dv b ks (S d) path acc = dv (fun i => b (S i)) ks d path acc.
Proof.
  induction ks as [|k ks IH]; intros d path acc; [reflexivity|].
  destruct ks as [|k2 ks]; [reflexivity|].
  rewrite !dv_cons2. destruct path as [|s [|s2 rest]]; try reflexivity.
  destruct k; try (rewrite IH; reflexivity).
  apply flat_map_ext. intros n. rewrite IH. reflexivity.
Qed.

Lemma dv_path_nil b ks d acc : dv b ks d [] acc = [].
Proof. destruct ks as [|k [|k2 ks]]; reflexivity. Qed.

(* ---------------- birth, characterised ---------------- *)
Definition share (f : flat) (d : nat) (g : flat) : bool :=
  prefix_eq (f_texts f) (f_texts g) (S d) && Bool.eqb (is_final (f_texts f) d) (is_final (f_texts g) d).

Definition is_birth (fs : list flat) (f : flat) (d m : nat) : Prop :=
  (m = f_rid f \/ exists g, In g fs /\ share f d g = true /\ f_rid g = m) /\
  m <= f_rid f /\ (forall g, In g fs -> share f d g = true -> m <= f_rid g).

Lemma birth_fold f d : forall fs init,
  let m := fold_left (fun best g => if share f d g then Nat.min best (f_rid g) else best) fs init in
  (m = init \/ exists g, In g fs /\ share f d g = true /\ f_rid g = m) /\
  m <= init /\ (forall g, In g fs -> share f d g = true -> m <= f_rid g).
Proof.
  induction fs as [|g fs IH]; intros init; cbn [fold_left].
  - split; [left; reflexivity|]. split; [lia | intros g []].
  - cbv zeta in IH. destruct (share f d g) eqn:Sh.
    + destruct (IH (Nat.min init (f_rid g))) as (A & B & C). split; [|split].
      * destruct A as [A|(g' & Hg' & Sg' & E)].
        -- destruct (Nat.min_dec init (f_rid g)) as [M|M]; rewrite M in *; [left; exact A|].
           right. exists g. split; [left; reflexivity|]. split; [exact Sh | symmetry; exact A].
        -- right. exists g'. split; [right; exact Hg'|]. split; assumption.
      * lia.
      * intros g' [<-|Hg'] Sg'; [lia | exact (C g' Hg' Sg')].
    + destruct (IH init) as (A & B & C). split; [|split].
      * destruct A as [A|(g' & Hg' & Sg' & E)]; [left; exact A|]. right. exists g'. split; [right; exact Hg'|]. split; assumption.
      * exact B.
      * intros g' [<-|Hg'] Sg'; [congruence | exact (C g' Hg' Sg')].
Qed.

Lemma birth_is fs f d : is_birth fs f d (birth fs f d).
Proof. unfold is_birth, birth. exact (birth_fold f d fs (f_rid f)). Qed.

Lemma is_birth_unique fs f d m m' : is_birth fs f d m -> is_birth fs f d m' -> m = m'.
Proof.
  intros (A & B & C) (A' & B' & C').
  assert (m <= m') by (destruct A' as [->|(g & Hg & Sg & <-)]; [exact B | exact (C g Hg Sg)]).
  assert (m' <= m) by (destruct A as [->|(g & Hg & Sg & <-)]; [exact B' | exact (C' g Hg Sg)]).
  lia.
Qed.

Lemma birth_eq fs f d m : is_birth fs f d m -> birth fs f d = m.
Proof. intros H. exact (is_birth_unique fs f d _ _ (birth_is fs f d) H). Qed.

(* birth depends on the set of flats only *)
Lemma birth_set fs fs' f d : (forall g, In g fs <-> In g fs') -> birth fs f d = birth fs' f d.
Proof.
  intros E. apply birth_eq. destruct (birth_is fs' f d) as (A & B & C). split; [|split].
  - destruct A as [A|(g & Hg & Sg & Eg)]; [left; exact A|]. right. exists g. split; [apply E; exact Hg|]. split; assumption.
  - exact B.
  - intros g Hg. apply C. apply E. exact Hg.
Qed.

(* ---------------- the flats of a tree ---------------- *)
Definition flat_of (p : list kstep * nat) : flat := mkflat (snd p) (texts (fst p)) (map snd (fst p)).
Definition tflats (t : tree) : list flat := map flat_of (kpaths t).

Lemma in_tflats t g : In g (tflats t) <-> exists p, In p (kpaths t) /\ g = flat_of p.
Proof. unfold tflats. rewrite in_map_iff. split; intros (p & A & B); exists p; auto. Qed.

Lemma str_eqb_true a b : str_eqb a b = true <-> a = b.
Proof. split; [apply str_eqb_eq | intros ->; apply str_eqb_refl]. Qed.

(* ---------------- sharing, on paths of a tree ---------------- *)
Lemma prefix_eq_0 a b : prefix_eq a b 0 = true.
Proof. destruct a; destruct b; reflexivity. Qed.
Lemma prefix_eq_S x a y b i : prefix_eq (x :: a) (y :: b) (S i) = str_eqb x y && prefix_eq a b i.
Proof. reflexivity. Qed.
Lemma prefix_eq_nil_r a i : prefix_eq a [] (S i) = false.
Proof. destruct a; reflexivity. Qed.
Lemma share_cons tx k q r tx' k' q' r' i :
  share (flat_of ((tx, k) :: q, r)) (S i) (flat_of ((tx', k') :: q', r')) =
  str_eqb tx tx' && share (flat_of (q, r)) i (flat_of (q', r')).
Proof.
  unfold share, flat_of, texts, is_final. cbn [f_texts fst snd map length Nat.eqb].
  rewrite prefix_eq_S, andb_assoc. reflexivity.
Qed.

Lemma share_short tx k q r y ky r' i :
  share (flat_of ((tx, k) :: q, r)) (S i) (flat_of ([(y, ky)], r')) = false.
Proof.
  unfold share, flat_of, texts. cbn [f_texts fst snd map].
  rewrite prefix_eq_S, prefix_eq_nil_r, andb_false_r. reflexivity.
Qed.

Lemma share_zero p r p' r' :
  share (flat_of (p, r)) 0 (flat_of (p', r')) = true <->
  exists tx k q tx' k' q', p = (tx, k) :: q /\ p' = (tx', k') :: q' /\ tx = tx' /\ (q = [] <-> q' = []).
Proof.
  unfold share, flat_of, texts, is_final. cbn [f_texts fst snd]. split.
  - intros H. apply andb_prop in H as [P F].
    destruct p as [|[tx k] q]; [discriminate|]. destruct p' as [|[tx' k'] q']; [cbn in P; discriminate|].
    cbn [map fst] in P. rewrite prefix_eq_S, prefix_eq_0, andb_true_r in P. apply str_eqb_eq in P.
    exists tx, k, q, tx', k', q'. repeat split; auto; cbn [map length] in F; apply eqb_prop in F; intros ->; cbn in F.
    + destruct q'; [reflexivity | cbn in F; discriminate].
    + destruct q; [reflexivity | cbn in F; discriminate].
  - intros (tx & k & q & tx' & k' & q' & -> & -> & -> & Q). cbn [map fst length]. rewrite prefix_eq_S, prefix_eq_0, str_eqb_refl. cbn [andb].
    destruct q as [|x q]; destruct q' as [|x' q']; try reflexivity; exfalso.
    + destruct Q as [Q _]. specialize (Q eq_refl). discriminate.
    + destruct Q as [_ Q]. specialize (Q eq_refl). discriminate.
Qed.

Section OnTree.
Variable subs : list (str * kind * tree).
Variable leaves : list leaf.
Hypothesis W : wf (Node subs leaves).
Notation t := (Node subs leaves).

Lemma subs_nodup : NoDup (map skey subs).
Proof. apply wf_node in W as ((_ & N & _ & _) & _ & _). exact N. Qed.

(* a final step: the leaf's own route *)
Lemma birth_leaf l : In l leaves -> birth (tflats t) (flat_of (kleafpath l)) 0 = lroute l.
Proof.
  intros Hl. apply birth_eq. unfold is_birth. cbn [flat_of kleafpath f_rid snd]. split; [left; reflexivity|]. split; [lia|].
  intros g Hg Sh. apply in_tflats in Hg as ([p r] & Hp & ->). cbn [flat_of f_rid snd fst].
  unfold kleafpath in Sh. apply share_zero in Sh as (tx & k & q & tx' & k' & q' & E1 & E2 & Et & Q).
  inversion E1; subst tx k q. assert (q' = []) by (apply Q; reflexivity). subst q' p tx'.
  assert (X : kleafpath l = ([(ltext l, k')], r)).
  { apply (kpaths_unique t W); [apply kpaths_in; left; exists l; auto | exact Hp | reflexivity]. }
  inversion X; subst. lia.
Qed.

(* a non-final step: the least route below the child *)
Lemma birth_child e q rid : In e subs -> In (q, rid) (kpaths (stree e)) ->
  birth (tflats t) (flat_of ((skey e, skind e) :: q, rid)) 0 = minrid (stree e).
Proof.
  intros He Hq. assert (Hne : kpaths (stree e) <> []) by (intros X; rewrite X in Hq; destruct Hq).
  assert (Qne : q <> []) by (exact (kpaths_nonempty _ _ Hq)).
  destruct (minrid_spec (stree e) Hne) as [Min Mle]. unfold rids in Min. apply in_map_iff in Min as ([q0 r0] & E0 & Hq0). cbn [snd] in E0.
  apply birth_eq. unfold is_birth. cbn [flat_of f_rid snd]. split; [|split].
  - right. exists (flat_of ((skey e, skind e) :: q0, r0)). split; [|split].
    + apply in_tflats. exists ((skey e, skind e) :: q0, r0). split; [|reflexivity]. apply kpaths_in. right. exists e, (q0, r0). auto.
    + apply share_zero. exists (skey e), (skind e), q, (skey e), (skind e), q0. repeat split; auto; intros X; exfalso.
      * exact (Qne X).
      * exact (kpaths_nonempty _ _ Hq0 X).
    + cbn [flat_of f_rid snd]. exact E0.
  - apply Mle. unfold rids. apply in_map_iff. exists (q, rid). auto.
  - intros g Hg Sh. apply in_tflats in Hg as ([p r] & Hp & ->). cbn [flat_of f_rid snd fst].
    apply share_zero in Sh as (tx & k & q1 & tx' & k' & q' & E1 & E2 & Et & Q). inversion E1; subst tx k q1. subst p tx'.
    apply kpaths_in in Hp as [(l & Hl & X)|(e' & q2 & He' & Hq2 & X)].
    + exfalso. unfold kleafpath in X. inversion X; subst. apply Qne. apply Q. reflexivity.
    + inversion X as [[Ek Ekk Eq Er]]. pose proof (nodup_map_inj skey subs e e' subs_nodup He He' Ek) as <-.
      apply Mle. unfold rids. apply in_map_iff. exists q2. auto.
Qed.

(* deeper steps: the same question inside the child *)
Lemma birth_below e q rid i : In e subs -> In (q, rid) (kpaths (stree e)) ->
  birth (tflats t) (flat_of ((skey e, skind e) :: q, rid)) (S i) = birth (tflats (stree e)) (flat_of (q, rid)) i.
Proof.
  intros He Hq. apply birth_eq. destruct (birth_is (tflats (stree e)) (flat_of (q, rid)) i) as (A & B & C).
  set (m := birth (tflats (stree e)) (flat_of (q, rid)) i) in *. unfold is_birth. cbn [flat_of f_rid snd] in *. split; [|split].
  - destruct A as [A|(g & Hg & Sg & Eg)]; [left; exact A|]. right.
    apply in_tflats in Hg as ([q' r'] & Hq' & ->). exists (flat_of ((skey e, skind e) :: q', r')). split; [|split].
    + apply in_tflats. exists ((skey e, skind e) :: q', r'). split; [|reflexivity]. apply kpaths_in. right. exists e, (q', r'). auto.
    + rewrite share_cons, str_eqb_refl. exact Sg.
    + exact Eg.
  - exact B.
  - intros g Hg Sh. apply in_tflats in Hg as ([p r] & Hp & ->).
    apply kpaths_in in Hp as [(l & Hl & X)|(e' & [q2 r2] & He' & Hq2 & X)].
    + exfalso. unfold kleafpath in X. inversion X; subst. rewrite share_short in Sh. discriminate.
    + inversion X; subst p r. cbn [fst snd] in Sh |- *. rewrite share_cons in Sh. apply andb_prop in Sh as [Ek Sh].
      apply str_eqb_eq in Ek. pose proof (nodup_map_inj skey subs e e' subs_nodup He He' Ek) as <-.
      apply (C (flat_of (q2, r2))); [apply in_tflats; exists (q2, r2); auto | exact Sh].
Qed.
End OnTree.
