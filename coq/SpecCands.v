(* Bridge between the route-list reading of the priority and the tree (part 2): the candidates of the tree,
   with their keys, are the derivations of the tree's flat routes with the keys RouteSpec gives them. *)
Require Import Base Regex Route Tree TreeProofs TreeWf TreeKeys TreeAccept TreePriority TreeOrdered TreeComplete TreeCands RouteSpec SpecBirth.

Ltac rw_birth0 prf := match goal with |- context [birth ?a ?b 0] => rewrite (prf : birth a b 0 = _) end.
Ltac rw_birth0_in H prf := match type of H with context [birth ?a ?b 0] => rewrite (prf : birth a b 0 = _) in H end.
Ltac rw_child prf := match goal with |- context [dv ?b ?ks 1 ?p ?a] => rewrite (prf p a : dv b ks 1 p a = _) end.
Ltac rw_child_in H prf := match type of H with context [dv ?b ?ks 1 ?p ?a] => rewrite (prf p a : dv b ks 1 p a = _) in H end.

Section SC.
Variable hdr_ok : nat -> bool.
Notation cands := (TreePriority.cands hdr_ok).
Notation leaf_cands := (TreePriority.leaf_cands hdr_ok).
Notation fallback_cands := (TreePriority.fallback_cands hdr_ok).

Lemma seg_adm_some k s : seg_adm k s = true <-> exists ps, seg_match k s = Some ps.
Proof. unfold seg_adm. destruct (seg_match k s) as [ps|]; split; try discriminate; eauto. intros [ps H]. discriminate. Qed.

Lemma leaf_cands_iff ls s acc k rid :
  In (k, rid) (leaf_cands ls s acc) <->
  exists l, In l ls /\ lroute l = rid /\ seg_adm (lkind l) s = true /\ hdr_ok rid = true /\
            k = acc ++ [(0, rank (lkind l), rid, 0)].
Proof.
  split.
  - intros H. destruct (leaf_cands_sound hdr_ok ls s acc (k, rid) H) as (l & ps & Hl & E & M & Hd). cbn [snd] in E. subst rid.
    clear Hl. induction ls as [|a ls IH]; [destruct H|]. cbn [TreePriority.leaf_cands] in H. apply in_app_or in H as [H|H].
    + destruct (seg_match (lkind a) s) as [q|] eqn:Ma; [|destruct H]. destruct (hdr_ok (lroute a)) eqn:Ha; [|destruct H].
      destruct H as [H|[]]. inversion H as [[E1 E2]]. exists a.
      split; [left; reflexivity|]. split; [reflexivity|]. split; [apply seg_adm_some; eauto|]. split; [exact Ha | reflexivity].
    + destruct (IH H) as (l' & Hl' & R). exists l'. split; [right; exact Hl' | exact R].
  - intros (l & Hl & <- & A & Hd & ->). apply seg_adm_some in A as [ps M].
    exact (leaf_cands_complete hdr_ok ls s acc l ps Hl M Hd).
Qed.

Lemma fallback_iff ls segs acc k rid : leaves_ok ls ->
  (In (k, rid) (fallback_cands ls segs acc) <->
   exists l b cap, In l ls /\ lkind l = KAll b cap /\ lroute l = rid /\ cap_ok cap (length segs) = true /\
                   hdr_ok rid = true /\ k = acc ++ [(1, 4, rid, length segs)]).
Proof.
  intros (_ & _ & Tl & _). split.
  - unfold TreePriority.fallback_cands. destruct (rev ls) as [|l r] eqn:R; [intros []|].
    destruct (lkind l) as [| | |b cap] eqn:K; try (intros []).
    destruct (cap_ok cap (length segs) && hdr_ok (lroute l)) eqn:C; [|intros []]. apply andb_prop in C as [C1 C2].
    intros [H|[]]. inversion H; subst. exists l, b, cap. repeat split; auto. apply in_rev. rewrite R. left. reflexivity.
  - intros (l & b & cap & Hl & K & <- & C & Hd & ->). unfold TreePriority.fallback_cands.
    destruct (rev_last_in ls l) as (r & Er); [|exact Hl|].
    + intros pre a post Ep ->. apply (Tl pre l post Ep). unfold is_top, lrank. rewrite K. reflexivity.
    + rewrite Er, K, C, Hd. left. reflexivity.
Qed.

Section Multi.
Variable leaves : list leaf.
Variable s : str.
Variable rest : list str.
Variable acc : key.

Definition go_cands : list (str * kind * tree) -> list (key * nat) :=
  fix go (l : list (str * kind * tree)) : list (key * nat) :=
    match l with
    | [] => fallback_cands leaves (s :: rest) acc
    | (_, KAll b cap, st) :: _ =>
        grow_all (cands st) cap (minrid st) acc (length rest) [s] rest ++ fallback_cands leaves (s :: rest) acc
    | (_, k, st) :: l' =>
        (match seg_match k s with
         | Some _ => cands st rest (acc ++ [(0, rank k, minrid st, 0)])
         | None => []
         end) ++ go l'
    end.

Definition sub_cands (e : str * kind * tree) : list (key * nat) :=
  match skind e with
  | KAll b cap => grow_all (cands (stree e)) cap (minrid (stree e)) acc (length rest) [s] rest
  | k => match seg_match k s with
         | Some _ => cands (stree e) rest (acc ++ [(0, rank k, minrid (stree e), 0)])
         | None => []
         end
  end.

Lemma go_cands_iff c : forall l, top_is_last srank 4 l ->
  (In c (go_cands l) <-> In c (fallback_cands leaves (s :: rest) acc) \/ exists e, In e l /\ In c (sub_cands e)).
Proof.
  induction l as [|[[tx k] st] l IH]; intros T.
  - cbn [go_cands]. split; [intros H; left; exact H | intros [H|(e & [] & _)]; exact H].
  - assert (T' : top_is_last srank 4 l).
    { intros pre a post Ep Ea. apply (T ((tx, k, st) :: pre) a post); [cbn; f_equal; exact Ep | exact Ea]. }
    destruct (is_all k) eqn:A.
    + assert (X : l = []) by (apply (T [] (tx, k, st) l eq_refl); unfold is_top, srank; cbn [skind fst snd]; rewrite rank4_all; exact A).
      subst l. destruct k as [| | |b cap]; try discriminate. cbn [go_cands]. rewrite in_app_iff. split.
      * intros [H|H]; [right; exists (tx, KAll b cap, st); split; [left; reflexivity | exact H] | left; exact H].
      * intros [H|(e & [<-|[]] & H)]; [right; exact H | left; exact H].
    + specialize (IH T').
      assert (E : go_cands ((tx, k, st) :: l) = sub_cands (tx, k, st) ++ go_cands l) by (destruct k; try discriminate; reflexivity).
      rewrite E, in_app_iff, IH. split.
      * intros [H|[H|(e & He & H)]]; [right; exists (tx, k, st); split; [left; reflexivity | exact H] | left; exact H | right; exists e; split; [right; exact He | exact H]].
      * intros [H|(e & [<-|He] & H)]; [right; left; exact H | left; exact H | right; right; exists e; auto].
Qed.
End Multi.

Lemma cands_multi subs leaves s s2 r acc :
  cands (Node subs leaves) (s :: s2 :: r) acc = go_cands leaves s (s2 :: r) acc subs.
Proof. reflexivity. Qed.

Lemma grow_all_iff (mc : list str -> key -> list (key * nat)) cap bk acc c s rest :
  (forall a, mc [] a = []) ->
  (In c (grow_all mc cap bk acc (length rest) [s] rest) <->
   exists n, 1 <= n /\ n < length (s :: rest) /\ cap_ok cap n = true /\ In c (mc (skipn n (s :: rest)) (acc ++ [(0, 4, bk, n)]))).
Proof.
  intros Mn. split.
  - intros H. apply grow_all_sound in H as (more & rem & E & C & Hc). rewrite app_length in C, Hc. cbn [length] in C, Hc.
    exists (S (length more)). assert (rem <> []) by (intros ->; rewrite Mn in Hc; destruct Hc).
    split; [lia|]. split; [subst rest; cbn [length]; rewrite app_length; destruct rem; [congruence | cbn; lia]|]. split; [exact C|].
    cbn [skipn]. subst rest. rewrite skipn_app, skipn_all, Nat.sub_diag. cbn [skipn app]. exact Hc.
  - intros (n & H1 & H2 & C & Hc). destruct n as [|m]; [lia|]. cbn [skipn length] in *.
    rewrite <- (firstn_skipn m rest) at 2.
    assert (Lm : length (firstn m rest) = m) by (rewrite firstn_length; lia).
    apply grow_all_complete.
    + intros X. apply (f_equal (@length str)) in X. rewrite skipn_length in X. cbn in X. lia.
    + rewrite app_length, Lm. cbn [length]. exact C.
    + rewrite Lm. lia.
    + rewrite app_length, Lm. cbn [length]. exact Hc.
Qed.

Lemma dv_all_iff b bb cap k2 ks d path acc key :
  2 <= length path ->
  (In key (dv b (KAll bb cap :: k2 :: ks) d path acc) <->
   exists n, 1 <= n /\ n < length path /\ cap_ok cap n = true /\
             In key (dv b (k2 :: ks) (S d) (skipn n path) (acc ++ [(0, 4, b d, n)]))).
Proof.
  intros L. rewrite dv_cons2. destruct path as [|s [|s2 r]]; [cbn in L; lia | cbn in L; lia |].
  rewrite in_flat_map. split.
  - intros (n & Hn & H). apply in_seq in Hn. destruct (cap_ok cap n) eqn:C; [|destruct H].
    destruct (Nat.ltb n (length (s :: s2 :: r))) eqn:Lt; [|destruct H]. apply Nat.ltb_lt in Lt.
    exists n. repeat split; auto; lia.
  - intros (n & H1 & H2 & C & H). exists n. split; [apply in_seq; lia|]. rewrite C.
    apply Nat.ltb_lt in H2. rewrite H2. exact H.
Qed.

Lemma dv_one_multi b k d s s2 r acc :
  dv b [k] d (s :: s2 :: r) acc =
  match k with
  | KAll _ cap => if cap_ok cap (length (s :: s2 :: r)) then [acc ++ [(1, rank k, b d, length (s :: s2 :: r))]] else []
  | _ => []
  end.
Proof. reflexivity. Qed.
Lemma dv_one_single b k d s acc :
  dv b [k] d [s] acc = if seg_adm k s then [acc ++ [(0, rank k, b d, 0)]] else [].
Proof. reflexivity. Qed.

Lemma cands_nil_segs t acc : cands t [] acc = [].
Proof. destruct t. reflexivity. Qed.

(* THE KEYS.  Candidate (k, rid) of the tree <-> a path of route rid in the tree, its constraints holding, of which
   k is the key of a derivation - births being those RouteSpec computes over the flats of the tree. *)
Theorem cands_keys : forall t, wf t -> forall segs acc k rid,
  In (k, rid) (cands t segs acc) <->
  exists p, In (p, rid) (kpaths t) /\ hdr_ok rid = true /\
            In k (dv (birth (tflats t) (flat_of (p, rid))) (map snd p) 0 segs acc).
Proof.
  induction t as [subs leaves IH] using tree_ind2. intros W segs acc k rid.
  pose proof W as W0. apply wf_node in W0 as ((Ss & Ns & Ts & Ks) & LOK & Wr).
  (* the step into a child, in both directions *)
  assert (CHILD : forall e q path acc', In e subs -> In (q, rid) (kpaths (stree e)) ->
            dv (birth (tflats (Node subs leaves)) (flat_of ((skey e, skind e) :: q, rid))) (map snd q) 1 path acc' =
            dv (birth (tflats (stree e)) (flat_of (q, rid))) (map snd q) 0 path acc').
  { intros e q path acc' He Hq. rewrite dv_shift. apply dv_ext. intros i _. apply (birth_below subs leaves W e q rid i He Hq). }
  assert (IHe : forall e, In e subs -> forall segs acc k,
            In (k, rid) (cands (stree e) segs acc) <->
            exists p, In (p, rid) (kpaths (stree e)) /\ hdr_ok rid = true /\
                      In k (dv (birth (tflats (stree e)) (flat_of (p, rid))) (map snd p) 0 segs acc)).
  { intros e He segs' acc' k'. rewrite Forall_forall in IH. apply (IH e He).
    unfold all_wf in Wr. rewrite Forall_forall in Wr. exact (Wr e He). }
  destruct segs as [|s [|s2 r]].
  - rewrite cands_nil_segs. split; [intros [] | intros (p & _ & _ & H); rewrite dv_path_nil in H; destruct H].
  - (* one segment: the leaves *)
    change (cands (Node subs leaves) [s] acc) with (leaf_cands leaves s acc). rewrite leaf_cands_iff. split.
    + intros (l & Hl & <- & A & Hd & ->). exists [(ltext l, lkind l)]. split; [apply kpaths_in; left; exists l; auto|]. split; [exact Hd|].
      cbn [map snd]. rewrite dv_one_single, A. left.
      pose proof (birth_leaf subs leaves W l Hl) as BL; unfold kleafpath in BL; match goal with |- context [birth ?a ?b 0] => replace (birth a b 0) with (lroute l) by (symmetry; exact BL) end. reflexivity.
    + intros (p & Hp & Hd & H). apply kpaths_in in Hp as [(l & Hl & X)|(e & [q r'] & He & Hq & X)].
      * unfold kleafpath in X. inversion X; subst p rid. cbn [map snd] in H. rewrite dv_one_single in H.
        destruct (seg_adm (lkind l) s) eqn:A; [|destruct H]. destruct H as [<-|[]].
        exists l. pose proof (birth_leaf subs leaves W l Hl) as BL; unfold kleafpath in BL; match goal with |- context [birth ?a ?b 0] => replace (birth a b 0) with (lroute l) by (symmetry; exact BL) end. repeat split; auto.
      * exfalso. cbn [fst snd] in X. inversion X; subst p r'. assert (Q := kpaths_nonempty _ _ Hq). cbn [fst] in Q.
        destruct q as [|[t0 k0] q]; [congruence|]. cbn [map snd] in H. rewrite dv_cons2 in H. destruct H.
  - (* several segments: the children in order, then the trailing match-all leaf *)
    rewrite cands_multi. rewrite (go_cands_iff leaves s (s2 :: r) acc (k, rid) subs Ts). split.
    + intros [H|(e & He & H)].
      * apply (fallback_iff leaves (s :: (s2 :: r)) acc k rid LOK) in H as (l & b & cap & Hl & K & <- & C & Hd & ->).
        exists [(ltext l, lkind l)]. split; [apply kpaths_in; left; exists l; auto|]. split; [exact Hd|].
        cbn [map snd]. rewrite dv_one_multi, K.
        rewrite C. left. cbn [rank]. rewrite <- K.
        pose proof (birth_leaf subs leaves W l Hl) as BL; unfold kleafpath in BL; match goal with |- context [birth ?a ?b 0] => replace (birth a b 0) with (lroute l) by (symmetry; exact BL) end. reflexivity.
      * unfold sub_cands in H. destruct e as [[tx ke] st]. cbn [skind stree fst snd] in H.
        assert (STEP : forall kk q, ke = kk -> In (q, rid) (kpaths st) -> exists q0 qs, q = q0 :: qs) .
        { intros kk q _ Hq. assert (Q := kpaths_nonempty _ _ Hq). cbn [fst] in Q. destruct q as [|q0 qs]; [congruence | eauto]. }
        destruct ke as [lit|pcs|bd|b cap].
        1-3: (match type of H with In _ (match seg_match ?kk _ with _ => _ end) => destruct (seg_match kk s) as [ps0|] eqn:M; [|destruct H];
                apply (IHe (tx, kk, st) He) in H as (q & Hq & Hd & H);
                exists ((tx, kk) :: q); split; [apply kpaths_in; right; exists (tx, kk, st), (q, rid); auto|]; split; [exact Hd|];
                destruct (STEP kk q eq_refl Hq) as (q0 & qs & ->); cbn [map snd]; rewrite dv_cons2;
                assert (A : seg_adm kk s = true) by (apply seg_adm_some; eauto); rewrite A;
                rw_birth0 (birth_child subs leaves W (tx, kk, st) (q0 :: qs) rid He Hq);
                change (snd q0 :: map snd qs) with (map snd (q0 :: qs));
                rw_child (fun p a => CHILD (tx, kk, st) (q0 :: qs) p a He Hq); exact H end).
        apply grow_all_iff in H; [|intros a; apply cands_nil_segs]. destruct H as (n & H1 & H2 & C & H).
        apply (IHe (tx, KAll b cap, st) He) in H as (q & Hq & Hd & H).
        exists ((tx, KAll b cap) :: q). split; [apply kpaths_in; right; exists (tx, KAll b cap, st), (q, rid); auto|]. split; [exact Hd|].
        destruct (STEP _ q eq_refl Hq) as (q0 & qs & ->). cbn [map snd].
        apply dv_all_iff; [cbn; lia|]. exists n. repeat split; auto.
        rw_birth0 (birth_child subs leaves W (tx, KAll b cap, st) (q0 :: qs) rid He Hq).
        change (snd q0 :: map snd qs) with (map snd (q0 :: qs)).
        rw_child (fun p a => CHILD (tx, KAll b cap, st) (q0 :: qs) p a He Hq). exact H.
    + intros (p & Hp & Hd & H). apply kpaths_in in Hp as [(l & Hl & X)|(e & [q r'] & He & Hq & X)].
      * left. unfold kleafpath in X. inversion X; subst p rid. cbn [map snd] in H. rewrite dv_one_multi in H.
        destruct (lkind l) as [| | |b cap] eqn:K; try (destruct H).
        destruct (cap_ok cap (length (s :: s2 :: r))) eqn:C; [|destruct H]. destruct H as [<-|[]].
        apply (fallback_iff leaves (s :: (s2 :: r)) acc _ _ LOK). exists l, b, cap. rewrite <- K.
        pose proof (birth_leaf subs leaves W l Hl) as BL; unfold kleafpath in BL; match goal with |- context [birth ?a ?b 0] => replace (birth a b 0) with (lroute l) by (symmetry; exact BL) end. rewrite K. repeat split; auto.
      * right. cbn [fst snd] in X. inversion X; subst p r'. exists e. split; [exact He|].
        assert (Q := kpaths_nonempty _ _ Hq). cbn [fst] in Q. destruct q as [|q0 qs]; [congruence|].
        destruct e as [[tx ke] st]. cbn [skey skind stree fst snd] in *. unfold sub_cands. cbn [skind stree fst snd].
        cbn [map snd] in H. change (snd q0 :: map snd qs) with (map snd (q0 :: qs)) in H.
        destruct ke as [lit|pcs|bd|b cap].
        1-3: (cbn [map] in H; rewrite dv_cons2 in H; idtac;
              match type of H with In _ (if seg_adm ?kk _ then _ else _) => destruct (seg_adm kk s) eqn:A; [|destruct H];
                apply seg_adm_some in A as [ps0 M]; rewrite M;
                apply (IHe (tx, kk, st) He); exists (q0 :: qs); split; [exact Hq|]; split; [exact Hd|];
                rw_birth0_in H (birth_child subs leaves W (tx, kk, st) (q0 :: qs) rid He Hq);
                change (snd q0 :: map snd qs) with (map snd (q0 :: qs)) in H;
                rw_child_in H (fun p a => CHILD (tx, kk, st) (q0 :: qs) p a He Hq); exact H end).
        cbn [map] in H. apply dv_all_iff in H; [|cbn; lia]. destruct H as (n & H1 & H2 & C & H).
        apply grow_all_iff; [intros a; apply cands_nil_segs|]. exists n. repeat split; auto.
        apply (IHe (tx, KAll b cap, st) He). exists (q0 :: qs). split; [exact Hq|]. split; [exact Hd|].
        rw_birth0_in H (birth_child subs leaves W (tx, KAll b cap, st) (q0 :: qs) rid He Hq).
        change (snd q0 :: map snd qs) with (map snd (q0 :: qs)) in H.
        rw_child_in H (fun p a => CHILD (tx, KAll b cap, st) (q0 :: qs) p a He Hq). exact H.
Qed.
End SC.
