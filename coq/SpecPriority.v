(* The documented priority, read over the LIST of registered routes (RouteSpec.spec_winner: every
   derivation of every flat route gets the key (fallback, rank, birth, captured) per depth, birth being the
   least registration index among the routes sharing the texts so far in the same role; the least key wins),
   is what the tree matcher answers. *)
Require Import Base Regex Route Tree TreeProofs TreeWf TreeAdd TreeKeys TreeLive TreeAccept TreePriority TreeOrdered
  TreeComplete TreeDispatch TreeCands TreePriorityTop RouteSpec ValidSpec SpecBirth SpecCands.
From Coq Require Import Sorted.

(* ---------------- the comparison used by best_of, and key_lt ---------------- *)
Lemma keyel_cmp_refl x : keyel_cmp x x = Eq.
Proof. destruct x as [[[a b] c] d]. cbn. rewrite !Nat.compare_refl. reflexivity. Qed.

Lemma kel_lt_cmp x y : kel_lt x y -> keyel_cmp x y = Lt.
Proof.
  destruct x as [[[a1 a2] a3] a4], y as [[[b1 b2] b3] b4]. cbn.
  intros [H|(-> & [H|(-> & [H|(-> & H)])])]; rewrite ?Nat.compare_refl;
    apply Nat.compare_lt_iff in H; rewrite H; reflexivity.
Qed.

Lemma keyel_cmp_antisym x y : keyel_cmp y x = CompOpp (keyel_cmp x y).
Proof.
  destruct x as [[[a1 a2] a3] a4], y as [[[b1 b2] b3] b4]. cbn.
  rewrite (Nat.compare_antisym a1 b1). destruct (Nat.compare a1 b1); cbn; try reflexivity.
  rewrite (Nat.compare_antisym a2 b2). destruct (Nat.compare a2 b2); cbn; try reflexivity.
  rewrite (Nat.compare_antisym a3 b3). destruct (Nat.compare a3 b3); cbn; try reflexivity.
  apply Nat.compare_antisym.
Qed.

Lemma key_cmp_refl a : key_cmp a a = Eq.
Proof. induction a as [|x a IH]; [reflexivity|]. cbn [key_cmp]. rewrite keyel_cmp_refl. exact IH. Qed.

Lemma key_lt_cmp a b : key_lt a b -> key_cmp a b = Lt.
Proof.
  induction 1 as [x y a b H|x a b H IH]; cbn [key_cmp].
  - rewrite (kel_lt_cmp x y H). reflexivity.
  - rewrite keyel_cmp_refl. exact IH.
Qed.

Lemma key_cmp_antisym : forall a b, key_cmp b a = CompOpp (key_cmp a b).
Proof.
  induction a as [|x a IH]; intros [|y b]; try reflexivity. cbn [key_cmp].
  rewrite (keyel_cmp_antisym x y). destruct (keyel_cmp x y); cbn; try reflexivity. apply IH.
Qed.

Definition bstep (b x : key * nat) : key * nat := match key_cmp (fst x) (fst b) with Lt => x | _ => b end.

Lemma best_fold k0 r0 : forall cs b,
  (forall c, In c (b :: cs) -> key_le k0 (fst c)) -> (fst b = k0 \/ In (k0, r0) cs) ->
  fst (fold_left bstep cs b) = k0 /\ In (fold_left bstep cs b) (b :: cs).
Proof.
  induction cs as [|x cs IH]; intros b Le Has.
  - destruct Has as [E|[]]. split; [exact E | left; reflexivity].
  - cbn [fold_left]. destruct b as [kb rb]. destruct x as [kx rx].
    assert (Lb : key_le k0 (fst (kb, rb))) by (apply Le; left; reflexivity).
    assert (Lx : key_le k0 (fst (kx, rx))) by (apply Le; right; left; reflexivity).
    cbn [fst] in Lb, Lx. set (b := (kb, rb)) in *. set (x := (kx, rx)) in *.
    assert (Sub : forall y, (y = b \/ y = x) -> (forall c, In c (y :: cs) -> key_le k0 (fst c))).
    { intros y Hy c [<-|Hc]; [destruct Hy as [->| ->]; assumption | apply Le; right; right; exact Hc]. }
    assert (Wk : forall y, (y = b \/ y = x) -> In (fold_left bstep cs y) (y :: cs) -> In (fold_left bstep cs y) (b :: x :: cs)).
    { intros y Hy [E|Hin]; [rewrite <- E; destruct Hy as [->| ->]; [left | right; left]; reflexivity | right; right; exact Hin]. }
    assert (Keep : kb = k0 -> bstep b x = b).
    { intros E. unfold bstep, b, x. cbn [fst]. rewrite E. destruct Lx as [Lt|Eq].
      - rewrite key_cmp_antisym, (key_lt_cmp _ _ Lt). reflexivity.
      - rewrite <- Eq, key_cmp_refl. reflexivity. }
    destruct Has as [E|[Ex|Hin]].
    + cbn [fst] in E. rewrite (Keep E). destruct (IH b (Sub b (or_introl eq_refl)) (or_introl E)) as [A B]. split; [exact A | apply (Wk b); auto].
    + assert (Ekx : kx = k0) by (unfold x in Ex; inversion Ex; reflexivity).
      destruct Lb as [Lt|Eq].
      * assert (Eb : bstep b x = x) by (unfold bstep, b, x; cbn [fst]; rewrite Ekx, (key_lt_cmp _ _ Lt); reflexivity).
        rewrite Eb. destruct (IH x (Sub _ (or_intror eq_refl)) (or_introl Ekx)) as [A B]. split; [exact A | apply (Wk x); auto].
      * rewrite (Keep (eq_sym Eq)). destruct (IH b (Sub b (or_introl eq_refl)) (or_introl (eq_sym Eq))) as [A B]. split; [exact A | apply (Wk b); auto].
    + assert (Hy : bstep b x = b \/ bstep b x = x) by (unfold bstep; match goal with |- context [key_cmp ?u ?v] => destruct (key_cmp u v) end; auto).
      destruct (IH (bstep b x) (Sub _ Hy) (or_intror Hin)) as [A B]. split; [exact A | apply (Wk _ Hy); exact B].
Qed.

Lemma best_of_least L k0 r0 :
  In (k0, r0) L -> (forall c, In c L -> key_le k0 (fst c)) -> (forall c, In c L -> fst c = k0 -> snd c = r0) ->
  best_of L = Some r0.
Proof.
  intros Hin Le Det. destruct L as [|c cs]; [destruct Hin|]. unfold best_of. fold bstep.
  destruct (best_fold k0 r0 cs c Le) as [A B].
  - destruct Hin as [->|Hin]; [left; reflexivity | right; exact Hin].
  - f_equal. exact (Det _ B A).
Qed.

(* ---------------- every candidate's key ends with the route it stands for ---------------- *)
Lemma cands_last hdr_ok : forall t, wf t -> forall segs acc c, In c (cands hdr_ok t segs acc) ->
  exists pre a b n, fst c = pre ++ [(a, b, snd c, n)].
Proof.
  induction t as [subs leaves IH] using tree_ind2. intros W segs acc [k rid] H. cbn [fst snd].
  apply wf_node in W as ((_ & _ & Ts & _) & LOK & Wr).
  destruct segs as [|s [|s2 r]].
  - rewrite cands_nil_segs in H. destruct H.
  - change (cands hdr_ok (Node subs leaves) [s] acc) with (leaf_cands hdr_ok leaves s acc) in H.
    apply leaf_cands_iff in H as (l & _ & _ & _ & _ & ->). eauto.
  - rewrite cands_multi in H. apply (go_cands_iff hdr_ok leaves s (s2 :: r) acc (k, rid) subs Ts) in H as [H|(e & He & H)].
    + apply (fallback_iff hdr_ok leaves (s :: s2 :: r) acc k rid LOK) in H as (l & b & cap & _ & _ & _ & _ & _ & ->). eauto.
    + rewrite Forall_forall in IH. unfold all_wf in Wr. rewrite Forall_forall in Wr.
      pose proof (IH e He (Wr e He)) as IHe. unfold sub_cands in H.
      destruct (skind e) as [lit|pcs|bd|b cap].
      1-3: (match type of H with In _ (match ?m with _ => _ end) => destruct m; [|destruct H] end; exact (IHe _ _ _ H)).
      apply grow_all_iff in H; [|intros a; apply cands_nil_segs]. destruct H as (n & _ & _ & _ & H). exact (IHe _ _ _ H).
Qed.

Lemma app_last_inj {A} (a b : list A) x y : a ++ [x] = b ++ [y] -> x = y.
Proof. intros H. apply app_inj_tail in H. exact (proj2 H). Qed.

Section Top.
Variable compile : str -> option re.
Variable good : list elem -> Prop.
Hypothesis good_nil : good [].
Hypothesis render_inj : forall a b, good a -> good b -> render_elems a = render_elems b -> a = b.

Lemma flat_of_steps f : flat_wf f -> flat_of (flat_steps f, f_rid f) = f.
Proof.
  destruct f as [rid txs ks]. unfold flat_wf, flat_of, flat_steps, texts. cbn [f_rid f_texts f_kinds fst snd]. intros L.
  f_equal.
  - revert ks L. induction txs as [|x txs IH]; intros [|k ks] L; try discriminate; [reflexivity|]. cbn. f_equal. apply IH. cbn in L. lia.
  - revert ks L. induction txs as [|x txs IH]; intros [|k ks] L; try discriminate; [reflexivity|]. cbn. f_equal. apply IH. cbn in L. lia.
Qed.

Lemma all_flats_wf rs f : In f (all_flats compile rs) -> flat_wf f.
Proof. unfold all_flats. intros H. apply in_flat_map in H as ([rid r] & _ & Hf). exact (proj1 (flats_of_wf compile _ _ _ Hf)). Qed.

(* THE PRIORITY OVER THE ROUTE LIST.  For every list of accepted registrations (ids in registration order),
   every request path and header predicate, the route the tree matcher answers is the one RouteSpec designates
   (and not-found iff RouteSpec finds no admitting route). *)
Theorem spec_priority hdr_ok rs t segs :
  (forall rid r, In (rid, r) rs -> route_good good r) -> increasing rs ->
  reg_all compile empty rs = Some t ->
  spec_winner compile rs hdr_ok segs =
  match mtree hdr_ok t segs with Some (rid, _) => Some rid | None => None end.
Proof.
  intros G Inc H.
  destruct (reg_all_ordered compile good good_nil render_inj rs empty t (wfo_empty compile good [] false) live_empty) as (W & L & _); auto.
  { apply ordered_node. repeat split; constructor. }
  { intros p rid' []. }
  assert (WF : wf t) by exact (wfo_wf compile good _ _ _ W).
  assert (KP : forall p, In p (kpaths t) <-> exists f, In f (all_flats compile rs) /\ p = (flat_steps f, f_rid f)).
  { apply (kpaths_are_flats compile good good_nil render_inj rs [] empty t (wfo_empty compile good [] false) G); [|exact H].
    intros p. split; [intros [] | intros (f & [] & _)]. }
  set (fs := all_flats compile rs).
  assert (SET : forall g, In g (tflats t) <-> In g fs).
  { intros g. rewrite in_tflats. split.
    - intros (p & Hp & ->). apply KP in Hp as (f & Hf & ->). rewrite (flat_of_steps f (all_flats_wf rs f Hf)). exact Hf.
    - intros Hg. exists (flat_steps g, f_rid g). split; [apply KP; exists g; auto | symmetry; exact (flat_of_steps g (all_flats_wf rs g Hg))]. }
  set (S := flat_map (fun f => if hdr_ok (f_rid f)
                               then map (fun k => (k, f_rid f)) (derivs fs f (f_kinds f) 0 segs [])
                               else []) fs).
  assert (SAME : forall k rid, In (k, rid) S <-> In (k, rid) (cands hdr_ok t segs [])).
  { intros k rid. rewrite (cands_keys hdr_ok t WF segs [] k rid). unfold S. rewrite in_flat_map. split.
    - intros (f & Hf & Hk). destruct (hdr_ok (f_rid f)) eqn:Hd; [|destruct Hk].
      apply in_map_iff in Hk as (k' & E & Hk). inversion E; subst k' rid.
      exists (flat_steps f). split; [apply KP; exists f; auto|]. split; [exact Hd|].
      rewrite (flat_of_steps f (all_flats_wf rs f Hf)).
      replace (map snd (flat_steps f)) with (f_kinds f)
        by (pose proof (flat_of_steps f (all_flats_wf rs f Hf)) as X; apply (f_equal f_kinds) in X; cbn in X; symmetry; exact X).
      rewrite derivs_dv in Hk. rewrite (dv_ext _ (birth fs f)); [exact Hk|]. intros i _. apply birth_set. exact SET.
    - intros (p & Hp & Hd & Hk). apply KP in Hp as (f & Hf & E). inversion E; subst p rid.
      exists f. split; [exact Hf|]. rewrite Hd. apply in_map_iff. exists k. split; [reflexivity|].
      rewrite (flat_of_steps f (all_flats_wf rs f Hf)) in Hk.
      replace (map snd (flat_steps f)) with (f_kinds f) in Hk
        by (pose proof (flat_of_steps f (all_flats_wf rs f Hf)) as X; apply (f_equal f_kinds) in X; cbn in X; symmetry; exact X).
      rewrite derivs_dv. rewrite (dv_ext _ (birth (tflats t) f)); [exact Hk|]. intros i _. symmetry. apply birth_set. exact SET. }
  change (spec_winner compile rs hdr_ok segs) with (best_of S).
  pose proof (priority compile good good_nil render_inj hdr_ok rs t segs G Inc H) as P.
  destruct (mtree hdr_ok t segs) as [[rid ps]|].
  - destruct P as (k & rest & E & Hl).
    assert (Hin : forall c, In c S <-> In c (cands hdr_ok t segs [])) by (intros [k' r']; apply SAME).
    apply (best_of_least S k rid).
    + apply Hin. rewrite E. left. reflexivity.
    + intros c Hc. apply Hin in Hc. rewrite E in Hc. destruct Hc as [<-|Hc]; [right; reflexivity | exact (Hl c Hc)].
    + intros c Hc Ek. apply Hin in Hc.
      destruct (cands_last hdr_ok t WF segs [] c Hc) as (pre & a & b & n & Ec).
      assert (Hc0 : In (k, rid) (cands hdr_ok t segs [])) by (rewrite E; left; reflexivity).
      destruct (cands_last hdr_ok t WF segs [] (k, rid) Hc0) as (pre' & a' & b' & n' & Ec'). cbn [fst snd] in Ec'.
      rewrite Ek, Ec' in Ec. apply app_last_inj in Ec. inversion Ec. reflexivity.
  - destruct S as [|[k r] S'] eqn:ES; [reflexivity|]. exfalso.
    assert (X : In (k, r) (cands hdr_ok t segs [])) by (apply SAME; left; reflexivity). rewrite P in X. destruct X.
Qed.
End Top.

(* ... and at the router, in every state reachable by registrations and Headers() calls: what is served for a
   known method is the route RouteSpec designates among the routes registered for that method, judged with
   this request's headers *)
Require Import Router RouterProofs RouterPriority.

Section RouterTop.
Variable compile : str -> option re.
Variable good : list elem -> Prop.
Hypothesis good_nil : good [].
Hypothesis render_inj : forall a b, good a -> good b -> render_elems a = render_elems b -> a = b.

Theorem router_spec_priority st mi path hdrs : reachable_p compile good st ->
  forall t, nth_error (trees st) mi = Some t ->
  spec_winner compile (mroutes st mi) (hdr_ok st hdrs) (segs_of path) =
  match serve_tree st (Some mi) path hdrs with Found rid _ => Some rid | NotFound => None end.
Proof.
  intros R t Et. destruct (reachable_tinv compile good st R) as (GI & T).
  assert (G : forall rid r, In (rid, r) (mroutes st mi) -> route_good good r).
  { intros rid r H. unfold mroutes in H. apply mroutes_from_routes in H as (ri & Hri & <-). apply GI. exact Hri. }
  rewrite (spec_priority compile good good_nil render_inj (hdr_ok st hdrs) (mroutes st mi) t (segs_of path) G
             (mroutes_from_increasing _ _ _) (T mi t Et)).
  unfold serve_tree. rewrite Et. destruct (mtree (hdr_ok st hdrs) t (segs_of path)) as [[rid ps]|]; reflexivity.
Qed.
End RouterTop.
