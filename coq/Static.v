(* Model of static.go (the Static middleware) over a model of path.Clean, http.Dir.Open and a file
   tree (C16). *)
Require Import Base Route Router.

(* path.Clean("/" + name), as the list of surviving components *)
Definition dot : str := [46]%N.
Definition dotdot : str := [46; 46]%N.

Fixpoint clean_acc (stack : list str) (comps : list str) : list str :=   (* stack is reversed *)
  match comps with
  | [] => rev stack
  | c :: rest =>
      if match c with [] => true | _ => false end || str_eqb c dot then clean_acc stack rest
      else if str_eqb c dotdot then clean_acc (tl stack) rest
      else clean_acc (c :: stack) rest
  end.

Definition clean_rooted (name : str) : list str := clean_acc [] (split_slash [] name).

Definition join_path (comps : list str) : str := concat (map (fun c => c_slash :: c) comps).

(* path.Clean of a rooted path, as a string *)
Definition clean_string (p : str) : str :=
  match clean_rooted p with [] => [c_slash] | cs => join_path cs end.

(* a file tree: regular files carry an identity *)
Inductive node := File (id : nat) | Dir (entries : list (str * node)).

Fixpoint lookup_node (n : node) (comps : list str) : option node :=
  match comps with
  | [] => Some n
  | c :: rest =>
      match n with
      | File _ => None
      | Dir es =>
          (fix find_entry (l : list (str * node)) : option node :=
             match l with
             | [] => None
             | (nm, child) :: l' => if str_eqb nm c then lookup_node child rest else find_entry l'
             end) es
      end
  end.

(* http.Dir(dir).Open(name): no component may contain a NUL byte *)
Definition has_nul (c : str) : bool := existsb (N.eqb 0) c.

Definition dir_open (root : node) (dir : list str) (name : str) : option node :=
  let comps := clean_rooted name in
  if existsb has_nul comps then None else lookup_node root (dir ++ comps).

(* options after parseStaticOptions *)
Record sopts := mkso { so_prefix : str;   (* "" or "/" ++ trimmed *)
                       so_index : str;
                       so_etag : bool;
                       so_fs : bool }.    (* FileSystem: http.FS(os.DirFS(dir)) instead of http.Dir(dir) *)

(* what Open(name) resolves relative to the directory: None = error.
   http.Dir: path.Clean("/" + name), no component with a NUL byte.
   http.FS over os.DirFS: "/" is ".", one leading slash is dropped, and the rest must be a valid fs path - no
   empty, "." or ".." element (so no doubled or trailing slash) - or "." itself *)
Definition dir_rel (name : str) : option (list str) :=
  let comps := clean_rooted name in if existsb has_nul comps then None else Some comps.

Definition valid_comp (c : str) : bool :=
  negb (match c with [] => true | _ => false end || str_eqb c dot || str_eqb c dotdot).

Definition fs_rel (name : str) : option (list str) :=
  if str_eqb name [c_slash] then Some []
  else
    let n := match name with c :: r => if N.eqb c c_slash then r else name | [] => [] end in
    if str_eqb n dot then Some []
    else let comps := split_slash [] n in
         if forallb valid_comp comps && negb (existsb has_nul comps) then Some comps else None.

Definition open_rel (fs : bool) (name : str) : option (list str) := if fs then fs_rel name else dir_rel name.

Fixpoint trim_right_slash_rev (r : str) : str :=
  match r with c :: r' => if N.eqb c c_slash then trim_right_slash_rev r' else r | [] => [] end.
Definition trim_right_slash (s : str) : str := rev (trim_right_slash_rev (rev s)).
Definition trim_both_slash (s : str) : str := trim_right_slash (trim_slashes s).

Definition normalize_prefix (p : str) : str :=
  match p with [] => [] | _ => c_slash :: trim_both_slash p end.

Fixpoint has_prefix (p s : str) : bool :=
  match p, s with
  | [], _ => true
  | x :: p', y :: s' => N.eqb x y && has_prefix p' s'
  | _ :: _, [] => false
  end.

Definition ends_with_slash (s : str) : bool := match rev s with c :: _ => N.eqb c c_slash | [] => false end.

Inductive sresult :=
| SPass                            (* writes nothing: the rest of the chain handles the request *)
| SRedirect (loc : str)            (* 302 to the slash-terminated form *)
| SServe (id : nat) (rel : list str)   (* the regular file found at dir ++ rel *)
| SNotModified (id : nat) (rel : list str).

Definition s_get : str := [71;69;84]%N.
Definition s_head : str := [72;69;65;68]%N.

(* path.Join(file, index) then Open: clean components of file ++ "/" ++ index (path.Join has cleaned the name
   before Open sees it, so both kinds of file system resolve it alike) *)
Definition static_decide (root : node) (dir : list str) (o : sopts) (method path : str) (inm_matches : bool) : sresult :=
  if negb (str_eqb method s_get || str_eqb method s_head) then SPass
  else
    let after_prefix :=
      match so_prefix o with
      | [] => Some path
      | pre => if has_prefix pre path
               then let file := skipn (length pre) path in
                    match file with
                    | [] => Some file
                    | c :: _ => if N.eqb c c_slash then Some file else None
                    end
               else None
      end in
    match after_prefix with
    | None => SPass
    | Some file0 =>
        let file := if str_eqb file0 [c_slash] then dot else trim_right_slash file0 in
        match open_rel (so_fs o) file with
        | None => SPass
        | Some rel =>
        match lookup_node root (dir ++ rel) with
        | None => SPass
        | Some (File id) => if so_etag o && inm_matches then SNotModified id rel else SServe id rel
        | Some (Dir _) =>
            let redir := clean_string path in
            let redir' := if ends_with_slash path && negb (ends_with_slash redir) then redir ++ [c_slash] else redir in
            if negb (ends_with_slash redir') then SRedirect (redir' ++ [c_slash])
            else
              let ifile := file ++ [c_slash] ++ so_index o in
              match dir_open root dir ifile with
              | Some (File id) => if so_etag o && inm_matches then SNotModified id (clean_rooted ifile) else SServe id (clean_rooted ifile)
              | _ => SPass
              end
        end
        end
    end.
