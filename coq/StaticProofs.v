Require Import Base Route Router Static.

(* no ".", ".." or empty component survives cleaning, for every byte string *)
Definition plain_comp (c : str) : Prop := c <> [] /\ c <> dot /\ c <> dotdot.

Lemma clean_acc_plain : forall comps stack, Forall plain_comp stack -> Forall plain_comp (clean_acc stack comps).
Proof.
  induction comps as [|c rest IH]; intros stack H; cbn [clean_acc].
  - apply Forall_rev. exact H.
  - destruct c as [|x c'] eqn:Ec; cbn [orb].
    + apply IH. exact H.
    + destruct (str_eqb (x :: c') dot) eqn:E1; cbn [orb]; [apply IH; exact H|].
      destruct (str_eqb (x :: c') dotdot) eqn:E2.
      * apply IH. destruct stack; [constructor | inversion H; assumption].
      * apply IH. constructor; [|exact H]. repeat split.
        -- discriminate.
        -- apply str_eqb_neq. exact E1.
        -- apply str_eqb_neq. exact E2.
Qed.

Theorem clean_no_dotdot name : Forall plain_comp (clean_rooted name).
Proof. apply clean_acc_plain. constructor. Qed.

(* components never contain a slash *)
Lemma split_slash_no_slash : forall s cur, ~ In c_slash cur -> Forall (fun c => ~ In c_slash c) (split_slash cur s).
Proof.
  induction s as [|c s IH]; intros cur H; cbn [split_slash].
  - constructor; [|constructor]. intros X. apply in_rev in X. exact (H X).
  - destruct (N.eqb c c_slash) eqn:E.
    + constructor; [intros X; apply in_rev in X; exact (H X) | apply IH; intros []].
    + apply IH. intros [X|X]; [subst; rewrite N.eqb_refl in E; discriminate | exact (H X)].
Qed.

Lemma clean_acc_subset : forall comps stack (P : str -> Prop), Forall P stack -> Forall P comps -> Forall P (clean_acc stack comps).
Proof.
  induction comps as [|c rest IH]; intros stack P Hs Hc; cbn [clean_acc].
  - apply Forall_rev. exact Hs.
  - inversion Hc; subst.
    destruct (match c with [] => true | _ => false end || str_eqb c dot); [apply IH; assumption|].
    destruct (str_eqb c dotdot).
    + apply IH; [destruct stack; [constructor | inversion Hs; assumption] | assumption].
    + apply IH; [constructor; assumption | assumption].
Qed.

Theorem clean_no_slash name : Forall (fun c => ~ In c_slash c) (clean_rooted name).
Proof. apply clean_acc_subset; [constructor | apply split_slash_no_slash; intros []]. Qed.

(* what is opened lies under the configured directory: the looked-up path is dir ++ plain components *)
Theorem open_inside root dir name n :
  dir_open root dir name = Some n ->
  exists rel, lookup_node root (dir ++ rel) = Some n /\ Forall plain_comp rel /\ Forall (fun c => ~ In c_slash c) rel.
Proof.
  unfold dir_open. destruct (existsb has_nul (clean_rooted name)); [discriminate|]. intros H.
  exists (clean_rooted name). split; [exact H|]. split; [apply clean_no_dotdot | apply clean_no_slash].
Qed.

(* whatever the middleware serves is a regular file inside the directory, reached by plain components *)
(* whatever Open resolves - through http.Dir or through http.FS - is a list of plain components *)
Lemma valid_comp_plain c : valid_comp c = true -> plain_comp c.
Proof.
  unfold valid_comp, plain_comp. intros H. apply negb_true_iff in H. apply orb_false_iff in H as [H D2]. apply orb_false_iff in H as [E D1].
  split; [intros ->; discriminate|]. split; intros ->; [rewrite str_eqb_refl in D1 | rewrite str_eqb_refl in D2]; discriminate.
Qed.

Lemma open_rel_plain fs name rel : open_rel fs name = Some rel ->
  Forall plain_comp rel /\ Forall (fun c => ~ In c_slash c) rel.
Proof.
  unfold open_rel. destruct fs.
  - unfold fs_rel. destruct (str_eqb name [c_slash]); [intros H; inversion H; split; constructor|].
    set (n := match name with c :: r => if N.eqb c c_slash then r else name | [] => [] end).
    destruct (str_eqb n dot); [intros H; inversion H; split; constructor|].
    destruct (forallb valid_comp (split_slash [] n) && negb (existsb has_nul (split_slash [] n))) eqn:V; [|discriminate].
    intros H. inversion H; subst. apply andb_prop in V as [V _]. split.
    + apply Forall_forall. intros c Hc. apply valid_comp_plain. rewrite forallb_forall in V. exact (V c Hc).
    + apply split_slash_no_slash. intros [].
  - unfold dir_rel. destruct (existsb has_nul (clean_rooted name)); [discriminate|]. intros H. inversion H; subst.
    split; [apply clean_no_dotdot | apply clean_no_slash].
Qed.

Theorem served_is_inside root dir o m p inm id rel :
  (static_decide root dir o m p inm = SServe id rel \/ static_decide root dir o m p inm = SNotModified id rel) ->
  lookup_node root (dir ++ rel) = Some (File id) /\ Forall plain_comp rel /\ Forall (fun c => ~ In c_slash c) rel.
Proof.
  unfold static_decide.
  destruct (negb (str_eqb m s_get || str_eqb m s_head)); [intros [H|H]; discriminate|].
  match goal with |- context [match ?X with Some _ => _ | None => SPass end] => destruct X as [file0|] end; [|intros [H|H]; discriminate].
  set (file := if str_eqb file0 [c_slash] then dot else trim_right_slash file0).
  assert (G : forall f id' rel', dir_open root dir f = Some (File id') -> rel' = clean_rooted f ->
              lookup_node root (dir ++ rel') = Some (File id') /\ Forall plain_comp rel' /\ Forall (fun c => ~ In c_slash c) rel').
  { intros f id' rel' H ->. unfold dir_open in H. destruct (existsb has_nul (clean_rooted f)); [discriminate|].
    split; [exact H|]. split; [apply clean_no_dotdot | apply clean_no_slash]. }
  destruct (open_rel (so_fs o) file) as [rel0|] eqn:OR; [|intros [H|H]; discriminate].
  destruct (lookup_node root (dir ++ rel0)) as [[fid|es]|] eqn:O; [| |intros [H|H]; discriminate].
  - destruct (open_rel_plain _ _ _ OR) as [P1 P2].
    destruct (so_etag o && inm); intros [H|H]; inversion H; subst; auto.
  - match goal with |- context [if negb (ends_with_slash ?R) then _ else _] => destruct (negb (ends_with_slash R)) end;
      [intros [H|H]; discriminate|].
    destruct (dir_open root dir (file ++ [c_slash] ++ so_index o)) as [[fid|es2]|] eqn:O2; try (intros [H|H]; discriminate).
    destruct (so_etag o && inm); intros [H|H]; inversion H; subst; apply (G (file ++ [c_slash] ++ so_index o)); auto.
Qed.

(* only GET and HEAD are answered *)
Theorem other_methods_pass root dir o m p inm :
  str_eqb m s_get = false -> str_eqb m s_head = false -> static_decide root dir o m p inm = SPass.
Proof. intros H1 H2. unfold static_decide. rewrite H1, H2. reflexivity. Qed.

(* the prefix must match at a segment boundary *)
Theorem prefix_boundary root dir o m p inm :
  so_prefix o <> [] -> static_decide root dir o m p inm <> SPass ->
  has_prefix (so_prefix o) p = true /\
  (skipn (length (so_prefix o)) p = [] \/ exists rest, skipn (length (so_prefix o)) p = c_slash :: rest).
Proof.
  intros Hp H. unfold static_decide in H.
  destruct (negb (str_eqb m s_get || str_eqb m s_head)); [congruence|].
  destruct (so_prefix o) as [|x pre] eqn:E; [congruence|].
  destruct (has_prefix (x :: pre) p) eqn:HP; [|congruence]. split; [reflexivity|].
  destruct (skipn (length (x :: pre)) p) as [|c rest] eqn:S; [left; reflexivity|].
  destruct (N.eqb c c_slash) eqn:Ec; [|congruence]. apply N.eqb_eq in Ec. subst. right. eauto.
Qed.

(* a directory is redirected to a slash-terminated location *)
Theorem redirect_ends_with_slash root dir o m p inm loc :
  static_decide root dir o m p inm = SRedirect loc -> ends_with_slash loc = true.
Proof.
  unfold static_decide.
  destruct (negb (str_eqb m s_get || str_eqb m s_head)); [discriminate|].
  match goal with |- context [match ?X with Some _ => _ | None => SPass end] => destruct X as [file0|] end; [|discriminate].
  match goal with |- context [open_rel ?B ?F] => destruct (open_rel B F) as [rel0|] end; [|discriminate].
  destruct (lookup_node root (dir ++ rel0)) as [[fid|es]|]; try discriminate.
  - destruct (so_etag o && inm); discriminate.
  - match goal with |- context [if negb (ends_with_slash ?R) then _ else _] => destruct (negb (ends_with_slash R)) eqn:E end.
    + intros H; inversion H. unfold ends_with_slash. rewrite rev_app_distr. reflexivity.
    + match goal with |- context [dir_open root dir ?F] => destruct (dir_open root dir F) as [[fid|es2]|] end; try discriminate.
      destruct (so_etag o && inm); discriminate.
Qed.
