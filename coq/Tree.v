(* Model of internal/route/tree.go and leaf.go: segment classification (newTree/newLeaf), route
   insertion (AddRoute/addNextSegment/addSubtree/addLeaf) and matching (Match/matchNextSegment/
   matchSubtree/matchLeaf/matchAll), at the level of path segments. *)
Require Import Base Regex Route.

Inductive piece := PLit (l : str) | PBind (name : str) (r : re).

Inductive kind :=
| KStatic (lit : str)
| KRegex (ps : list piece)
| KPlace (bind : str)
| KAll (bind : str) (cap : Z).

(* the order of the matchStyle* constants decides matching priority *)
Definition rank (k : kind) : nat :=
  match k with KStatic _ => 1 | KRegex _ => 2 | KPlace _ => 3 | KAll _ _ => 4 end.

Definition is_all (k : kind) : bool := match k with KAll _ _ => true | _ => false end.

Definition star2 : str := [c_star; c_star].
Definition s_capture : str := [99; 97; 112; 116; 117; 114; 101]%N.

(* strconv.Atoi restricted to what matters (sign, decimal digits); a syntax error gives 0 *)
Definition is_digit (c : N) : bool := N.leb 48 c && N.leb c 57.
Fixpoint digits_val (acc : Z) (s : str) : option Z :=
  match s with
  | [] => Some acc
  | c :: s' => if is_digit c then digits_val (acc * 10 + Z.of_N (c - 48)) s' else None
  end.
Definition atoi (s : str) : Z :=
  match s with
  | [] => 0
  | 45%N :: d :: s' => match digits_val 0 (d :: s') with Some v => (- v)%Z | None => 0%Z end
  | 43%N :: d :: s' => match digits_val 0 (d :: s') with Some v => v | None => 0%Z end
  | _ => match digits_val 0 s with Some v => v | None => 0%Z end
  end.

Section Tree.
(* regexp.Compile as an oracle on the regex sources that occur: None = does not compile *)
Variable compile : str -> option re.

Definition any_plus : re := plus (Chr CAny).    (* "(.+)" *)

(* constructMatchStyleRegex: pieces of a regex-style segment, None on error *)
Fixpoint params_pieces (ps : list (str * pval)) : option (list piece) :=
  match ps with
  | [] => Some []
  | (n, VRegex src) :: ps' =>
      match compile src, params_pieces ps' with
      | Some r, Some l => Some (PBind n r :: l)
      | _, _ => None
      end
  | (_, VLit _) :: _ => None            (* segment has non-regex literal *)
  end.

Fixpoint regex_pieces (es : list elem) : option (list piece) :=
  match es with
  | [] => Some []
  | EIdent s :: es' => match regex_pieces es' with Some l => Some (PLit s :: l) | None => None end
  | EBind b :: es' => match regex_pieces es' with Some l => Some (PBind b any_plus :: l) | None => None end
  | EParams ps :: es' =>
      match params_pieces ps, regex_pieces es' with
      | Some l1, Some l2 => Some (l1 ++ l2)
      | _, _ => None
      end
  end.

Definition piece_binds (ps : list piece) : list str :=
  flat_map (fun p => match p with PBind n _ => [n] | PLit _ => [] end) ps.

Definition kind_binds (k : kind) : list str :=
  match k with
  | KStatic _ => []
  | KRegex ps => piece_binds ps
  | KPlace b => [b]
  | KAll b _ => [b]
  end.

(* checkMatchStyleAll *)
Definition match_all_of (es : list elem) : option (str * Z) :=
  match es with
  | [EBind b] => if str_eqb b star2 then Some (star2, 0%Z) else None
  | [EParams ((b, VLit v) :: rest)] =>
      if str_eqb v star2 && forallb (fun p => match snd p with VRegex _ => false | VLit _ => true end) rest then
        Some (b, match rest with
                 | (c, VLit cv) :: _ => if str_eqb c s_capture then atoi cv else 0%Z
                 | _ => 0%Z
                 end)
      else None
  | _ => None
  end.

Fixpoint mem_str (x : str) (l : list str) : bool :=
  match l with [] => false | y :: l' => str_eqb x y || mem_str x l' end.

Fixpoint nodup_str (l : list str) : bool :=
  match l with [] => true | x :: l' => negb (mem_str x l') && nodup_str l' end.

Fixpoint disjoint_str (a b : list str) : bool :=
  match a with [] => true | x :: a' => negb (mem_str x b) && disjoint_str a' b end.

(* newTree (as_leaf = false) / newLeaf (as_leaf = true): [anc] are the binds of the ancestors,
   [anc_all] tells whether an ancestor is a match-all tree *)
Definition classify (as_leaf : bool) (anc : list str) (anc_all : bool) (es : list elem) : option kind :=
  match es with
  | [] => if as_leaf then Some (KStatic []) else None          (* empty segment *)
  | [EIdent s] => Some (KStatic s)
  | _ =>
      match es, match_all_of es with
      | [EBind b], None => if mem_str b anc then None else Some (KPlace b)
      | _, Some (b, cap) =>
          if mem_str b anc then None
          else if negb as_leaf && anc_all then None             (* duplicated match all style *)
          else Some (KAll b cap)
      | _, None =>
          match regex_pieces es with
          | Some ps =>
              let bs := piece_binds ps in
              if disjoint_str bs anc && nodup_str bs then Some (KRegex ps) else None
          | None => None
          end
      end
  end.

Record leaf := mkleaf { ltext : str; lkind : kind; lroute : nat }.

Inductive tree := Node (subs : list (str * kind * tree)) (leaves : list leaf).

Definition empty : tree := Node [] [].

Definition t_subs (t : tree) := match t with Node s _ => s end.
Definition t_leaves (t : tree) := match t with Node _ l => l end.

(* stable insertion by rank: before the first entry of strictly greater rank *)
Fixpoint ins_leaf (x : leaf) (l : list leaf) : list leaf :=
  match l with
  | [] => [x]
  | y :: l' => if Nat.ltb (rank (lkind x)) (rank (lkind y)) then x :: l else y :: ins_leaf x l'
  end.

Fixpoint ins_sub (x : str * kind * tree) (l : list (str * kind * tree)) : list (str * kind * tree) :=
  match l with
  | [] => [x]
  | y :: l' => if Nat.ltb (rank (snd (fst x))) (rank (snd (fst y))) then x :: l else y :: ins_sub x l'
  end.

Definition has_all_leaf (l : list leaf) : bool :=
  match rev l with x :: _ => is_all (lkind x) | [] => false end.
Definition has_all_sub (l : list (str * kind * tree)) : bool :=
  match rev l with x :: _ => is_all (snd (fst x)) | [] => false end.

(* replace the sub-tree of the first child with the given key (the code mutates it in place) *)
Fixpoint upd_sub (text : str) (st' : tree) (l : list (str * kind * tree)) : list (str * kind * tree) :=
  match l with
  | [] => []
  | e :: l' => if str_eqb (fst (fst e)) text then (fst (fst e), snd (fst e), st') :: l' else e :: upd_sub text st' l'
  end.

(* addLeaf without the optional part *)
(* the key of a segment: its text without the optional marker *)
Definition seg_key (s : segment) : str := render_segment (mkseg false (elems s)).

Definition add_leaf (anc : list str) (ls : list leaf) (s : segment) (rid : nat) : option (list leaf) :=
  let text := seg_key s in
  if existsb (fun l => str_eqb (ltext l) text) ls then None                 (* duplicated route *)
  else match classify true anc false (elems s) with
       | None => None
       | Some k =>
           if is_all k && has_all_leaf ls then None                         (* duplicated match all *)
           else Some (ins_leaf (mkleaf text k rid) ls)
       end.

(* the short form of a route whose last segment is optional: the previous segment as a leaf *)
Definition short_segment (prev : option segment) : segment :=
  match prev with Some p => p | None => mkseg false [] end.

(* addNextSegment / addSubtree / addLeaf.  [prev] is the segment the current node was derived from. *)
Fixpoint add_segs (fuel : nat) (root : bool) (t : tree) (anc : list str) (anc_all : bool) (segs : list segment) (rid : nat)
  {struct fuel} : option tree :=
  match fuel with
  | O => None
  | S fuel' =>
  match t, segs with
  | _, [] => None
  | Node sb ls, [s] =>
      if optional s && root then
        (* only segment of the route is optional: short form "/" lives in the same node.  The code checks
           the long form against the leaves present BEFORE the short one is added, so "/?" alone is
           accepted: its two forms are the same leaf "/" (the code keeps two identical leaves, of which
           only the first is ever reached; the model keeps one) *)
        if str_eqb (seg_key s) (seg_key (mkseg false [])) then
          match add_leaf anc ls (mkseg false []) rid with Some ls1 => Some (Node sb ls1) | None => None end
        else
        match add_leaf anc ls (mkseg false []) rid with
        | Some ls1 => match add_leaf anc ls1 s rid with Some ls2 => Some (Node sb ls2) | None => None end
        | None => None
        end
      else match add_leaf anc ls s rid with Some ls' => Some (Node sb ls') | None => None end
  | Node sb ls, s :: ((s2 :: rest2) as rest) =>
      if optional s then None                                   (* only the last segment can be optional *)
      else
        let text := render_segment s in
        let last_opt := match rest2 with [] => optional s2 | _ => false end in
        (* the grandparent part of an optional last segment: [s] also becomes a leaf of this node *)
        let with_short (ls0 : list leaf) : option (list leaf) :=
          if last_opt then add_leaf anc ls0 s rid else Some ls0 in
        match find (fun e => str_eqb (fst (fst e)) text) sb with
        | Some (_, k, st) =>
            match add_segs fuel' false st (kind_binds k ++ anc) (anc_all || is_all k) rest rid with
            | Some st' =>
                match with_short ls with
                | Some ls' => Some (Node (upd_sub text st' sb) ls')
                | None => None
                end
            | None => None
            end
        | None =>
            match classify false anc anc_all (elems s) with
            | None => None
            | Some k =>
                if is_all k && has_all_sub sb then None          (* duplicated match all *)
                else
                  match add_segs fuel' false empty (kind_binds k ++ anc) (anc_all || is_all k) rest rid with
                  | Some st' =>
                      match with_short ls with
                      | Some ls' => Some (Node (ins_sub (text, k, st') sb) ls')
                      | None => None
                      end
                  | None => None
                  end
            end
        end
  end
  end.

Definition add_route (t : tree) (r : route) (rid : nat) : option tree :=
  add_segs (S (length r)) true t [] false r rid.

(* ------------------------------------------------------------------ *)
(* matching *)
Definition params := list (str * str).

Definition c_slash_s : str := [c_slash].

Fixpoint join_slash (l : list str) : str :=
  match l with [] => [] | [x] => x | x :: l' => x ++ c_slash_s ++ join_slash l' end.

Fixpoint seg_re (ps : list piece) (i : nat) : re :=
  match ps with
  | [] => Eps
  | PLit l :: ps' => Cat (lit_re l) (seg_re ps' i)
  | PBind _ r :: ps' => Cat (Grp i r) (seg_re ps' (S i))
  end.

Fixpoint bind_values (ps : list piece) (i : nat) (c : caps) : params :=
  match ps with
  | [] => []
  | PLit _ :: ps' => bind_values ps' i c
  | PBind n _ :: ps' => (n, match lookup i c with Some v => v | None => [] end) :: bind_values ps' (S i) c
  end.

(* does a (non match-all) kind admit one segment, and with which values *)
Definition seg_match (k : kind) (s : str) : option params :=
  match k with
  | KStatic lit => if str_eqb lit s then Some [] else None
  | KRegex ps => match full (seg_re ps 0) s with Some c => Some (bind_values ps 0 c) | None => None end
  | KPlace b => Some [(b, s)]
  | KAll b _ => Some [(b, s)]
  end.

Variable hdr_ok : nat -> bool.          (* header constraints of the route, for the request at hand *)

Definition cap_ok (cap : Z) (taken : nat) : bool := Z.leb cap 0 || Z.leb (Z.of_nat taken) cap.

Fixpoint first_leaf (ls : list leaf) (s : str) : option (nat * params) :=
  match ls with
  | [] => None
  | l :: ls' =>
      match seg_match (lkind l) s with
      | Some ps => if hdr_ok (lroute l) then Some (lroute l, ps) else first_leaf ls' s
      | None => first_leaf ls' s
      end
  end.

(* the trailing match-all leaf takes all remaining (>= 2) segments *)
Definition all_leaf_fallback (ls : list leaf) (segs : list str) : option (nat * params) :=
  match rev ls with
  | l :: _ =>
      match lkind l with
      | KAll b cap => if cap_ok cap (length segs) && hdr_ok (lroute l) then Some (lroute l, [(b, join_slash segs)]) else None
      | _ => None
      end
  | [] => None
  end.

Section Grow.
Variable mt : list str -> option (nat * params).
Variable b : str.
Variable cap : Z.
(* matchAllTree.matchAll: capture 1, 2, ... segments while the limit allows and a segment remains *)
Fixpoint grow (fuel : nat) (taken : list str) (r : list str) {struct fuel} : option (nat * params) :=
  match fuel with
  | O => None
  | S fuel' =>
      if cap_ok cap (length taken) then
        match mt r with
        | Some (id, ps) => Some (id, ps ++ [(b, join_slash taken)])
        | None => match r with
                  | x :: ((_ :: _) as r') => grow fuel' (taken ++ [x]) r'
                  | _ => None
                  end
        end
      else None
  end.
End Grow.

Fixpoint mtree (t : tree) (segs : list str) {struct t} : option (nat * params) :=
  match t with
  | Node subs leaves =>
      match segs with
      | [] => None
      | [s] => first_leaf leaves s
      | s :: rest =>
          let fix go (l : list (str * kind * tree)) : option (nat * params) :=
              match l with
              | [] => all_leaf_fallback leaves segs
              | (_, KAll b cap, st) :: _ =>
                  match grow (mtree st) b cap (length rest) [s] rest with
                  | Some x => Some x
                  | None => all_leaf_fallback leaves segs           (* "break" *)
                  end
              | (_, k, st) :: l' =>
                  match seg_match k s with
                  | Some ps =>
                      match mtree st rest with
                      | Some (id, ps') => Some (id, ps' ++ ps)
                      | None => go l'
                      end
                  | None => go l'
                  end
              end in
          go subs
      end
  end.
End Tree.
