(* C08 at the level of the tree: a registration is accepted if and only if the route is well-formed in
   itself and none of its forms collides with a registered path - the same segment texts, or a different
   match-all segment at a position where a registered path has one in the same role. *)
Require Import Base Regex Route Tree TreeProofs TreeWf TreeAdd TreeKeys TreeLive.

Definition texts (f : list kstep) : list str := map fst f.

Definition dupk (t : tree) (f : list kstep) : Prop := exists p, In p (kpaths t) /\ texts (fst p) = texts f.

(* position i: equal texts before it, two different match-all segments at it, both final or both not *)
Definition clash_at (g f : list kstep) (i : nat) : Prop :=
  firstn i (texts g) = firstn i (texts f) /\
  exists tg kg tf kf, nth_error g i = Some (tg, kg) /\ nth_error f i = Some (tf, kf) /\
    is_all kg = true /\ is_all kf = true /\ tg <> tf /\ (S i = length g <-> S i = length f).

Definition clashk (t : tree) (f : list kstep) : Prop := exists p i, In p (kpaths t) /\ clash_at (fst p) f i.

Lemma kpaths_nonempty : forall t p, In p (kpaths t) -> fst p <> [].
Proof.
  intros [subs leaves] p H. apply kpaths_in in H as [(l & _ & ->)|(e & q & _ & _ & ->)]; discriminate.
Qed.

Lemma NoDup_app_l {A} (a b : list A) : NoDup (a ++ b) -> NoDup a.
Proof.
  induction a as [|x a IH]; intros H; [constructor|]. cbn in H. inversion H; subst.
  constructor; [intros X; apply H2; apply in_or_app; left; exact X | apply IH; exact H3].
Qed.

Section Accept.
Variable compile : str -> option re.
Variable good : list elem -> Prop.
Hypothesis good_nil : good [].
Hypothesis render_inj : forall a b, good a -> good b -> render_elems a = render_elems b -> a = b.

Notation wfo := (wfo compile good).

Lemma knews_forms_nonempty : forall segs root anc aa l f, knews compile root anc aa segs = Some l -> In f l -> f <> [].
Proof.
  induction segs as [|s segs IH]; intros root anc aa l f N HIn; [discriminate|]. destruct segs as [|s2 rest2].
  - cbn [knews] in N. destruct (classify compile true anc false (elems s)); [|discriminate]. inversion N; subst.
    destruct (optional s && root); cbn in HIn; intuition (subst; discriminate).
  - rewrite knews_cons2 in N. destruct (classify compile false anc aa (elems s)) as [k|]; [|discriminate].
    destruct (knews compile false _ _ (s2 :: rest2)) as [l0|] eqn:N0; [|discriminate]. cbv zeta in N.
    destruct (match rest2 with [] => _ | _ :: _ => _ end) as [sh|] eqn:S; [|discriminate]. inversion N; subst.
    apply in_app_or in HIn as [HIn|HIn].
    + apply in_map_iff in HIn as (? & <- & _). discriminate.
    + destruct rest2; [|inversion S; subst; destruct HIn]. destruct (optional s2); [|inversion S; subst; destruct HIn].
      destruct (classify compile true anc false (elems s)); [|discriminate]. inversion S; subst. destruct HIn as [<-|[]]. discriminate.
Qed.

(* when does addLeaf succeed *)
Lemma add_leaf_succeeds anc ls s rid k :
  classify compile true anc false (elems s) = Some k ->
  ~ In (seg_key s) (map ltext ls) ->
  (is_all k = true -> forall l, In l ls -> is_all (lkind l) = false) ->
  add_leaf compile anc ls s rid <> None.
Proof.
  intros C NI NA. unfold add_leaf.
  destruct (existsb (fun l => str_eqb (ltext l) (seg_key s)) ls) eqn:Ex.
  - exfalso. apply existsb_exists in Ex as (l & Hl & E). apply str_eqb_eq in E. apply NI. apply in_map_iff. exists l. auto.
  - rewrite C. destruct (is_all k && has_all_leaf ls) eqn:A; [|discriminate]. exfalso.
    apply andb_prop in A as [A1 A2]. unfold has_all_leaf in A2. destruct (rev ls) as [|x r] eqn:R; [discriminate|].
    rewrite (NA A1 x) in A2; [discriminate|]. apply in_rev. rewrite R. left. reflexivity.
Qed.

Definition nonfinal_plain (r : route) : Prop := forall s, In s (removelast r) -> optional s = false.

Definition free_of (t : tree) (f : list kstep) : Prop := ~ dupk t f /\ ~ clashk t f.

(* a leaf of this node with the given form's key or a clashing match-all contradicts [free_of] *)
Lemma free_leaf subs ls key k : free_of (Node subs ls) [(key, k)] ->
  ~ In key (map ltext ls) /\ (is_all k = true -> forall l, In l ls -> is_all (lkind l) = false).
Proof.
  intros [ND NC]. split.
  - intros HIn. apply in_map_iff in HIn as (l & E & Hl). apply ND. exists (kleafpath l).
    split; [apply kpaths_in; left; eauto | cbn; rewrite E; reflexivity].
  - intros Ia l Hl. destruct (is_all (lkind l)) eqn:El; [|reflexivity]. exfalso.
    destruct (str_eq_dec (ltext l) key) as [E|NE].
    + apply ND. exists (kleafpath l). split; [apply kpaths_in; left; eauto | cbn; rewrite E; reflexivity].
    + apply NC. exists (kleafpath l), 0. split; [apply kpaths_in; left; eauto|].
      split; [reflexivity|]. exists (ltext l), (lkind l), key, k. cbn. repeat split; auto.
Qed.

Lemma free_child subs ls text k st f : In (text, k, st) subs -> free_of (Node subs ls) ((text, k) :: f) -> free_of st f.
Proof.
  intros Hin [ND NC]. split.
  - intros (p & Hp & E). apply ND. exists ((text, k) :: fst p, snd p).
    split; [apply kpaths_in; right; exists (text, k, st), p; auto | unfold texts in *; cbn [fst map]; rewrite E; reflexivity].
  - intros (p & i & Hp & (Pre & tg & kg & tf & kf & N1 & N2 & A1 & A2 & Ne & Fin)). apply NC.
    exists ((text, k) :: fst p, snd p), (S i). split; [apply kpaths_in; right; exists (text, k, st), p; auto|].
    cbn [fst]. split; [unfold texts in *; cbn [map firstn fst]; rewrite Pre; reflexivity|]. exists tg, kg, tf, kf. cbn [nth_error length]. repeat split; auto; intros X; lia.
Qed.

Theorem accepts_if : forall fuel root t anc aa segs rid l,
  wfo anc aa t -> live t -> Forall (fun s => good (elems s)) segs ->
  knews compile root anc aa segs = Some l -> nonfinal_plain segs -> length segs < fuel ->
  (forall f, In f l -> free_of t f) ->
  add_segs compile fuel root t anc aa segs rid <> None.
Proof.
  induction fuel as [|fuel IH]; intros root t anc aa segs rid l W L G N NP Fu Fr; [lia|].
  destruct t as [sb ls]. pose proof W as W0. apply wfo_node in W as (SO & LO & OL & OS).
  cbn [add_segs]. destruct segs as [|s [|s2 rest2]]; [discriminate| |].
  - (* the last segment *)
    cbn [knews] in N. destruct (classify compile true anc false (elems s)) as [k|] eqn:C; [|discriminate]. inversion N; subst l; clear N.
    destruct (optional s && root) eqn:OR.
    + destruct (free_leaf sb ls _ _ (Fr _ (or_introl eq_refl))) as [NI0 NA0].
      pose proof (add_leaf_succeeds anc ls (mkseg false []) rid (KStatic []) eq_refl NI0 NA0) as A1.
      destruct (str_eqb (seg_key s) (seg_key (mkseg false []))) eqn:EK.
      { destruct (add_leaf compile anc ls (mkseg false []) rid); [discriminate | congruence]. }
      apply str_eqb_neq in EK.
      destruct (add_leaf compile anc ls (mkseg false []) rid) as [ls1|] eqn:E1; [|congruence].
      destruct (add_leaf_ok compile anc ls (mkseg false []) rid ls1 LO E1) as (_ & k0 & C0 & -> & _).
      cbn [elems] in C0. inversion C0; subst k0.
      destruct (free_leaf sb ls _ _ (Fr _ (or_intror (or_introl eq_refl)))) as [NI NA].
      assert (A2 : add_leaf compile anc (ins lrank (mkleaf (seg_key (mkseg false [])) (KStatic []) rid) ls) s rid <> None).
      { apply (add_leaf_succeeds _ _ _ _ k C).
        - intros HIn. apply (ins_perm_map lrank ltext) in HIn as [E|HIn]; [|exact (NI HIn)].
          cbn [ltext] in E. exact (EK E).
        - intros Ia l0 Hl0. apply ins_in in Hl0 as [->|Hl0]; [reflexivity | exact (NA Ia l0 Hl0)]. }
      destruct (add_leaf compile anc _ s rid); [discriminate | congruence].
    + destruct (free_leaf sb ls _ _ (Fr _ (or_introl eq_refl))) as [NI NA].
      pose proof (add_leaf_succeeds anc ls s rid k C NI NA) as A.
      destruct (add_leaf compile anc ls s rid); [discriminate | congruence].
  - (* an inner segment *)
    inversion G as [|? ? Gs Grest]; subst.
    assert (Os : optional s = false) by (apply NP; cbn; left; reflexivity).
    assert (NP' : nonfinal_plain (s2 :: rest2)) by (intros x Hx; apply NP; cbn [removelast]; right; exact Hx).
    rewrite Os. set (text := render_segment s).
    assert (Etext : text = key_of (elems s)) by (apply render_segment_nonopt; exact Os).
    assert (Eseg : seg_key s = text) by (rewrite Etext; reflexivity).
    rewrite knews_cons2 in N. destruct (classify compile false anc aa (elems s)) as [k|] eqn:Ck; [|discriminate].
    destruct (knews compile false (ctx_anc anc k) (ctx_aa aa k) (s2 :: rest2)) as [l'|] eqn:N'; [|discriminate]. cbv zeta in N.
    set (last_opt := match rest2 with [] => optional s2 | _ => false end).
    destruct (match rest2 with [] => _ | _ :: _ => _ end) as [sh|] eqn:Sh; [|discriminate]. inversion N; subst l; clear N.
    rewrite Eseg in *.
    (* the short form, when the next segment is the optional last one *)
    assert (SHORT : (if last_opt then add_leaf compile anc ls s rid else Some ls) <> None).
    { subst last_opt. destruct rest2 as [|s3 rest3]; [|discriminate]. destruct (optional s2); [|discriminate].
      destruct (classify compile true anc false (elems s)) as [kl|] eqn:Cl; [|discriminate]. inversion Sh; subst sh.
      assert (Fs : free_of (Node sb ls) [(text, kl)]) by (apply Fr; apply in_or_app; right; left; reflexivity).
      destruct (free_leaf sb ls _ _ Fs) as [NI NA]. rewrite <- Eseg in NI. exact (add_leaf_succeeds anc ls s rid kl Cl NI NA). }
    assert (Fu' : length (s2 :: rest2) < fuel) by (cbn [length] in *; lia).
    destruct (find (fun e => str_eqb (fst (fst e)) text) sb) as [[[tx k0] st]|] eqn:F.
    + destruct (find_key_in text sb _ F) as [Hin Hkey]. cbn [skey fst] in Hkey. subst tx.
      unfold subs_wfo in OS. rewrite Forall_forall in OS. destruct (OS _ Hin) as [(es & Ges & Ek & Ck0) Wst].
      cbn [skey skind stree fst snd] in *.
      assert (Ees : es = elems s) by (apply (key_of_inj good render_inj); auto; congruence). subst es.
      rewrite Ck in Ck0. inversion Ck0; subst k0.
      apply live_node in L. rewrite Forall_forall in L. destruct (L _ Hin) as [_ Lst]. cbn [stree snd] in Lst.
      assert (R : add_segs compile fuel false st (kind_binds k ++ anc) (aa || is_all k) (s2 :: rest2) rid <> None).
      { apply (IH false st _ _ _ rid l' Wst Lst Grest N' NP' Fu').
        intros f Hf. apply (free_child sb ls text k st f Hin). apply Fr. apply in_or_app. left. apply in_map. exact Hf. }
      destruct (add_segs compile fuel false st _ _ (s2 :: rest2) rid); [|congruence].
      destruct (if last_opt then add_leaf compile anc ls s rid else Some ls); [discriminate | congruence].
    + assert (NAll : is_all k && has_all_sub sb = false).
      { destruct (is_all k && has_all_sub sb) eqn:A; [|reflexivity]. exfalso. apply andb_prop in A as [A1 A2].
        unfold has_all_sub in A2. destruct (rev sb) as [|e' r] eqn:R; [discriminate|].
        assert (He' : In e' sb) by (apply in_rev; rewrite R; left; reflexivity).
        apply live_node in L. rewrite Forall_forall in L. destruct (L _ He') as [Lp _].
        destruct (kpaths (stree e')) as [|q qs] eqn:Eq; [congruence|].
        pose proof (knews_nonempty compile _ _ _ _ _ N') as Hl'. destruct l' as [|f' l'']; [congruence|].
        assert (Ff : free_of (Node sb ls) ((text, k) :: f')) by (apply Fr; apply in_or_app; left; left; reflexivity).
        destruct Ff as [_ NC]. apply NC. exists ((skey e', skind e') :: fst q, snd q), 0.
        split; [apply kpaths_in; right; exists e', q; rewrite Eq; repeat split; auto; left; reflexivity|].
        cbn [fst]. split; [reflexivity|]. exists (skey e'), (skind e'), text, k. cbn [nth_error]. repeat split; auto.
        - intros E. apply (find_key_none text sb F). rewrite <- E. apply in_map. exact He'.
        - intros X. cbn [length] in X. assert (Q : fst q <> []) by (apply (kpaths_nonempty (stree e')); rewrite Eq; left; reflexivity).
          destruct (fst q); [congruence | cbn in X; lia].
        - intros X. cbn [length] in X. pose proof (knews_forms_nonempty _ _ _ _ _ f' N' (or_introl eq_refl)) as Q.
          destruct f'; [congruence | cbn in X; lia]. }
      rewrite NAll.
      assert (R : add_segs compile fuel false empty (kind_binds k ++ anc) (aa || is_all k) (s2 :: rest2) rid <> None).
      { apply (IH false empty _ _ _ rid l' (wfo_empty _ _ _ _) live_empty Grest N' NP' Fu').
        intros f Hf. split; [intros (p & [] & _) | intros (p & i & [] & _)]. }
      destruct (add_segs compile fuel false empty _ _ (s2 :: rest2) rid); [|congruence].
      destruct (if last_opt then add_leaf compile anc ls s rid else Some ls); [discriminate | congruence].
Qed.

(* ---------------- the converse: what acceptance implies ---------------- *)
Lemma nodup_map_inj {A B} (f : A -> B) (l : list A) a b : NoDup (map f l) -> In a l -> In b l -> f a = f b -> a = b.
Proof.
  induction l as [|x l IH]; intros N Ha Hb E; [destruct Ha|]. cbn [map] in N. inversion N as [|? ? Nx Nl]; subst.
  destruct Ha as [->|Ha], Hb as [->|Hb]; auto.
  - exfalso. apply Nx. rewrite E. apply in_map. exact Hb.
  - exfalso. apply Nx. rewrite <- E. apply in_map. exact Ha.
Qed.

Lemma top_unique {A} (rk : A -> nat) top (l : list A) a b :
  top_is_last rk top l -> In a l -> In b l -> is_top rk top a = true -> is_top rk top b = true -> a = b.
Proof.
  intros T Ha Hb Ta Tb. apply in_split in Ha as (pre & post & ->). pose proof (T pre a post eq_refl Ta) as ->.
  apply in_app_or in Hb as [Hb|[->|[]]]; [|reflexivity]. exfalso.
  apply in_split in Hb as (p1 & p2 & ->). rewrite <- app_assoc in T. cbn [app] in T.
  specialize (T p1 b (p2 ++ [a]) eq_refl Tb). destruct p2; discriminate.
Qed.

(* a path is determined by its texts *)
Lemma kpaths_unique : forall t, wf t -> forall p1 p2, In p1 (kpaths t) -> In p2 (kpaths t) ->
  texts (fst p1) = texts (fst p2) -> p1 = p2.
Proof.
  induction t as [subs leaves IH] using tree_ind2. intros W p1 p2 H1 H2 E.
  apply wf_node in W as ((_ & NS & _ & _) & (_ & NL & _ & _) & AW).
  apply kpaths_in in H1 as [(l1 & Hl1 & ->)|(e1 & q1 & He1 & Hq1 & ->)];
  apply kpaths_in in H2 as [(l2 & Hl2 & ->)|(e2 & q2 & He2 & Hq2 & ->)]; unfold texts in E; cbn [kleafpath fst map] in E.
  - inversion E as [E1]. rewrite (nodup_map_inj ltext leaves l1 l2 NL Hl1 Hl2 E1). reflexivity.
  - exfalso. inversion E as [[E1 E2]]. symmetry in E2. apply map_eq_nil in E2. exact (kpaths_nonempty _ _ Hq2 E2).
  - exfalso. inversion E as [[E1 E2]]. apply map_eq_nil in E2. exact (kpaths_nonempty _ _ Hq1 E2).
  - inversion E as [[E1 E2]]. pose proof (nodup_map_inj skey subs e1 e2 NS He1 He2 E1) as <-.
    unfold all_wf in AW. rewrite Forall_forall in IH, AW.
    rewrite (IH e1 He1 (AW e1 He1) q1 q2 Hq1 Hq2 E2). reflexivity.
Qed.

(* no two paths of a well-formed tree carry different match-alls at the same position in the same role *)
Lemma kpaths_no_clash : forall t, wf t -> forall i p1 p2, In p1 (kpaths t) -> In p2 (kpaths t) -> ~ clash_at (fst p1) (fst p2) i.
Proof.
  induction t as [subs leaves IH] using tree_ind2. intros W i p1 p2 H1 H2 (Pre & tg & kg & tf & kf & N1 & N2 & A1 & A2 & Ne & Fin).
  apply wf_node in W as ((_ & NS & TS & _) & (_ & NL & TL & _) & AW).
  apply kpaths_in in H1 as [(l1 & Hl1 & ->)|(e1 & q1 & He1 & Hq1 & ->)];
  apply kpaths_in in H2 as [(l2 & Hl2 & ->)|(e2 & q2 & He2 & Hq2 & ->)]; cbn [kleafpath fst] in *.
  - destruct i as [|i]; [|destruct i; discriminate]. cbn in N1, N2. inversion N1; inversion N2; subst.
    apply Ne. f_equal. apply (top_unique lrank 4 leaves l1 l2 TL Hl1 Hl2); unfold is_top, lrank; rewrite rank4_all; assumption.
  - destruct i as [|i]; [|destruct i; discriminate]. cbn [length] in Fin.
    assert (Q : fst q2 <> []) by (apply (kpaths_nonempty (stree e2)); exact Hq2). destruct (fst q2); [congruence|]. cbn in Fin. destruct Fin as [F1 _]. specialize (F1 eq_refl). lia.
  - destruct i as [|i]; [|destruct i; discriminate]. cbn [length] in Fin.
    assert (Q : fst q1 <> []) by (apply (kpaths_nonempty (stree e1)); exact Hq1). destruct (fst q1); [congruence|]. cbn in Fin. destruct Fin as [_ F2]. specialize (F2 eq_refl). lia.
  - destruct i as [|i].
    + cbn in N1, N2. inversion N1; inversion N2; subst.
      apply Ne. f_equal. apply (top_unique srank 4 subs e1 e2 TS He1 He2); unfold is_top, srank; rewrite rank4_all; assumption.
    + unfold texts in Pre. cbn [map firstn fst] in Pre. inversion Pre as [[E1 E2]].
      pose proof (nodup_map_inj skey subs e1 e2 NS He1 He2 E1) as <-.
      unfold all_wf in AW. rewrite Forall_forall in IH, AW. apply (IH e1 He1 (AW e1 He1) i q1 q2 Hq1 Hq2).
      split; [exact E2|]. exists tg, kg, tf, kf. cbn [nth_error length] in *. repeat split; auto; intros X; lia.
Qed.

Lemma add_segs_nonfinal : forall fuel root t anc aa segs rid t',
  add_segs compile fuel root t anc aa segs rid = Some t' -> nonfinal_plain segs.
Proof.
  induction fuel as [|fuel IH]; intros root t anc aa segs rid t' H; [discriminate|].
  destruct t as [sb ls]. cbn [add_segs] in H. destruct segs as [|s [|s2 rest2]]; [discriminate| |].
  - intros x [].
  - destruct (optional s) eqn:Os; [discriminate|].
    assert (R : exists st st0 anc0 aa0, add_segs compile fuel false st0 anc0 aa0 (s2 :: rest2) rid = Some st).
    { destruct (find _ sb) as [[[tx k] st]|].
      - destruct (add_segs compile fuel false st _ _ (s2 :: rest2) rid) eqn:R; [eauto | discriminate].
      - destruct (classify compile false anc aa (elems s)) as [k|]; [|discriminate]. destruct (is_all k && has_all_sub sb); [discriminate|].
        destruct (add_segs compile fuel false empty _ _ (s2 :: rest2) rid) eqn:R; [eauto | discriminate]. }
    destruct R as (st & st0 & anc0 & aa0 & R). pose proof (IH _ _ _ _ _ _ _ R) as NP.
    intros x Hx. cbn [removelast] in Hx. destruct Hx as [<-|Hx]; [exact Os | apply NP; exact Hx].
Qed.

(* ACCEPTED IFF: well-formed in itself and free of collisions with the registered paths *)
Theorem accept_iff fuel root t anc aa segs rid :
  wfo anc aa t -> live t -> Forall (fun s => good (elems s)) segs -> length segs <= fuel ->
  (forall p, In p (kpaths t) -> snd p <> rid) ->
  (add_segs compile (S fuel) root t anc aa segs rid <> None <->
   exists l, knews compile root anc aa segs = Some l /\ nonfinal_plain segs /\ forall f, In f l -> free_of t f).
Proof.
  intros W L G Fu Fresh. split.
  - intros H. destruct (add_segs compile (S fuel) root t anc aa segs rid) as [t'|] eqn:A; [|congruence].
    destruct (add_segs_kok compile good good_nil render_inj _ _ _ _ _ _ _ _ W G A) as (W' & l & N & P).
    exists l. split; [exact N|]. split; [exact (add_segs_nonfinal _ _ _ _ _ _ _ _ A)|].     pose proof (wfo_wf compile good _ _ _ W') as WF'.
    intros f Hf. assert (Hnew : In (f, rid) (kpaths t')) by (apply P; right; apply (in_map (fun ks : list kstep => (ks, rid))); exact Hf).
    split.
    + intros (p & Hp & E). assert (Hp' : In p (kpaths t')) by (apply P; left; exact Hp).
      pose proof (kpaths_unique t' WF' p (f, rid) Hp' Hnew E) as ->. exact (Fresh _ Hp eq_refl).
    + intros (p & i & Hp & C). assert (Hp' : In p (kpaths t')) by (apply P; left; exact Hp).
      exact (kpaths_no_clash t' WF' i p (f, rid) Hp' Hnew C).
  - intros (l & N & NP & Fr). apply (accepts_if (S fuel) root t anc aa segs rid l); auto. lia.
Qed.
End Accept.
