(* Registration preserves the tree invariants, and adds exactly the route's own paths (its long form
   and, for an optional last segment, its short form) to the root-to-leaf paths of the tree. *)
Require Import Base Regex Route Tree TreeProofs TreeWf.
From Coq Require Import Sorted.

Section AddProof.
Variable compile : str -> option re.
(* the segments that occur: their canonical text determines them (true of parser output, C06) *)
Variable good : list elem -> Prop.
Hypothesis good_nil : good [].
Hypothesis render_inj : forall a b, good a -> good b -> render_elems a = render_elems b -> a = b.

Definition key_of (es : list elem) : str := render_segment (mkseg false es).

Lemma seg_key_key_of s : seg_key s = key_of (elems s).
Proof. reflexivity. Qed.

Lemma render_segment_nonopt s : optional s = false -> render_segment s = key_of (elems s).
Proof. unfold render_segment, key_of. intros ->. reflexivity. Qed.

Lemma key_of_inj a b : good a -> good b -> key_of a = key_of b -> a = b.
Proof.
  intros Ga Gb H. apply render_inj; auto. unfold key_of, render_segment in H. cbn in H. inversion H. assumption.
Qed.

Definition sub_origin (anc : list str) (aa : bool) (e : str * kind * tree) : Prop :=
  exists es, good es /\ skey e = key_of es /\ classify compile false anc aa es = Some (skind e).
Definition leaf_origin (anc : list str) (l : leaf) : Prop :=
  exists es, good es /\ ltext l = key_of es /\ classify compile true anc false es = Some (lkind l).

Definition ctx_anc (anc : list str) (k : kind) : list str := kind_binds k ++ anc.
Definition ctx_aa (aa : bool) (k : kind) : bool := aa || is_all k.

Fixpoint wfo (anc : list str) (aa : bool) (t : tree) : Prop :=
  match t with
  | Node subs leaves =>
      subs_ok subs /\ leaves_ok leaves /\ Forall (leaf_origin anc) leaves /\
      (fix f (l : list (str * kind * tree)) : Prop :=
         match l with
         | [] => True
         | e :: l' => (sub_origin anc aa e /\ wfo (ctx_anc anc (skind e)) (ctx_aa aa (skind e)) (snd e)) /\ f l'
         end) subs
  end.

Definition subs_wfo anc aa (l : list (str * kind * tree)) : Prop :=
  Forall (fun e => sub_origin anc aa e /\ wfo (ctx_anc anc (skind e)) (ctx_aa aa (skind e)) (stree e)) l.

Lemma wfo_node anc aa subs leaves :
  wfo anc aa (Node subs leaves) <-> subs_ok subs /\ leaves_ok leaves /\ Forall (leaf_origin anc) leaves /\ subs_wfo anc aa subs.
Proof.
  cbn [wfo]. unfold subs_wfo. split; intros (A & B & C & D); (split; [exact A|]; split; [exact B|]; split; [exact C|]); clear A B C.
  - induction subs as [|e subs IH]; [constructor|]. destruct D as [D1 D2]. constructor; [exact D1 | apply IH; exact D2].
  - induction subs as [|e subs IH]; [exact I|]. inversion D; subst. split; [assumption | apply IH; assumption].
Qed.

Lemma wfo_empty anc aa : wfo anc aa empty.
Proof. apply wfo_node. repeat split; try constructor; intros pre a post E; destruct pre; discriminate. Qed.

(* the invariant without the origin part is the plain well-formedness *)
Lemma wfo_wf : forall t anc aa, wfo anc aa t -> wf t.
Proof.
  induction t as [subs leaves IH] using tree_ind2. intros anc aa H.
  apply wfo_node in H as (A & B & _ & D). apply wf_node. split; [exact A|]. split; [exact B|].
  unfold all_wf, subs_wfo in *. rewrite Forall_forall in *. intros e He. destruct (D e He) as [_ W]. eapply IH; eauto.
Qed.

(* the paths a registration adds, computed from the route alone (kinds in the context of its own
   earlier segments) *)
Fixpoint news (root : bool) (anc : list str) (aa : bool) (segs : list segment) : option (list (list kind)) :=
  match segs with
  | [] => None
  | [s] =>
      match classify compile true anc false (elems s) with
      | None => None
      | Some k => Some (if optional s && root then [[KStatic []]; [k]] else [[k]])
      end
  | s :: ((s2 :: rest2) as rest) =>
      match classify compile false anc aa (elems s) with
      | None => None
      | Some k =>
          match news false (ctx_anc anc k) (ctx_aa aa k) rest with
          | None => None
          | Some l =>
              let short := match rest2 with
                           | [] => if optional s2
                                   then match classify compile true anc false (elems s) with Some kl => Some [[kl]] | None => None end
                                   else Some []
                           | _ => Some []
                           end in
              match short with Some sh => Some (map (cons k) l ++ sh) | None => None end
          end
      end
  end.

Lemma news_cons2 root anc aa s s2 rest2 :
  news root anc aa (s :: s2 :: rest2) =
  match classify compile false anc aa (elems s) with
  | None => None
  | Some k =>
      match news false (ctx_anc anc k) (ctx_aa aa k) (s2 :: rest2) with
      | None => None
      | Some l =>
          let short := match rest2 with
                       | [] => if optional s2
                               then match classify compile true anc false (elems s) with Some kl => Some [[kl]] | None => None end
                               else Some []
                       | _ => Some []
                       end in
          match short with Some sh => Some (map (cons k) l ++ sh) | None => None end
      end
  end.
Proof. reflexivity. Qed.

Definition with_rid (rid : nat) (l : list (list kind)) : list (list kind * nat) := map (fun ks => (ks, rid)) l.

Lemma add_leaf_paths anc ls s rid ls' : leaves_ok ls -> Forall (leaf_origin anc) ls -> good (elems s) ->
  add_leaf compile anc ls s rid = Some ls' ->
  leaves_ok ls' /\ Forall (leaf_origin anc) ls' /\
  exists k, classify compile true anc false (elems s) = Some k /\
            forall p, In p (map leafpath ls') <-> p = ([k], rid) \/ In p (map leafpath ls).
Proof.
  intros L O G H. destruct (add_leaf_ok compile anc ls s rid ls' L H) as (L' & k & C & -> & NI).
  split; [exact L'|]. split.
  - apply Forall_forall. intros l Hl. apply ins_in in Hl as [->|Hl]; [|rewrite Forall_forall in O; apply O; exact Hl].
    exists (elems s). repeat split; auto.
  - exists k. split; [exact C|]. intros p. apply (ins_perm_map lrank leafpath).
Qed.

Lemma classify_leaf_nil anc : classify compile true anc false [] = Some (KStatic []).
Proof. reflexivity. Qed.

Theorem add_segs_ok : forall fuel root t anc aa segs rid t',
  wfo anc aa t -> Forall (fun s => good (elems s)) segs ->
  add_segs compile fuel root t anc aa segs rid = Some t' ->
  wfo anc aa t' /\
  exists l, news root anc aa segs = Some l /\
            forall p, In p (paths t') <-> In p (paths t) \/ In p (with_rid rid l).
Proof.
  induction fuel as [|fuel IH]; intros root t anc aa segs rid t' W G H; [discriminate|].
  destruct t as [sb ls]. apply wfo_node in W as (SO & LO & OL & OS).
  cbn [add_segs] in H. destruct segs as [|s [|s2 rest2]]; [discriminate| |].
  - (* the last segment: a leaf *)
    inversion G as [|? ? Gs _]; subst.
    destruct (optional s && root) eqn:OR.
    + destruct (add_leaf compile anc ls (mkseg false []) rid) as [ls1|] eqn:A1; [|discriminate].
      destruct (add_leaf compile anc ls1 s rid) as [ls2|] eqn:A2; [|discriminate]. inversion H; subst; clear H.
      destruct (add_leaf_paths anc ls (mkseg false []) rid ls1 LO OL good_nil A1) as (L1 & O1 & k0 & C0 & P1).
      destruct (add_leaf_paths anc ls1 s rid ls2 L1 O1 Gs A2) as (L2 & O2 & k & C & P2).
      cbn [elems] in C0. rewrite classify_leaf_nil in C0. inversion C0; subst k0.
      split; [apply wfo_node; auto|].
      cbn [news]. rewrite C, OR. eexists. split; [reflexivity|].
      intros p. rewrite !paths_node, !in_app_iff, P2, P1. cbn [with_rid map In]. intuition.
    + destruct (add_leaf compile anc ls s rid) as [ls'|] eqn:A; [|discriminate]. inversion H; subst; clear H.
      destruct (add_leaf_paths anc ls s rid ls' LO OL Gs A) as (L' & O' & k & C & P).
      split; [apply wfo_node; auto|].
      cbn [news]. rewrite C, OR. eexists. split; [reflexivity|].
      intros p. rewrite !paths_node, !in_app_iff, P. cbn [with_rid map In]. intuition.
  - (* an inner segment: a sub-tree *)
    inversion G as [|? ? Gs Grest]; subst.
    destruct (optional s) eqn:Os; [discriminate|].
    set (text := render_segment s) in *.
    assert (Etext : text = key_of (elems s)) by (apply render_segment_nonopt; exact Os).
    set (last_opt := match rest2 with [] => optional s2 | _ => false end) in *.
    (* the short-form leaf, when the next segment is the optional last one *)
    assert (SHORT : forall ls', (if last_opt then add_leaf compile anc ls s rid else Some ls) = Some ls' ->
       leaves_ok ls' /\ Forall (leaf_origin anc) ls' /\
       exists sh, (match rest2 with
                   | [] => if optional s2
                           then match classify compile true anc false (elems s) with Some kl => Some [[kl]] | None => None end
                           else Some []
                   | _ => Some []
                   end) = Some sh /\
                  forall p, In p (map leafpath ls') <-> In p (map leafpath ls) \/ In p (with_rid rid sh)).
    { intros ls' Hs. subst last_opt. destruct rest2 as [|s3 rest3].
      - destruct (optional s2).
        + destruct (add_leaf_paths anc ls s rid ls' LO OL Gs Hs) as (L' & O' & kl & Cl & Pl).
          split; [exact L'|]. split; [exact O'|]. rewrite Cl. eexists. split; [reflexivity|].
          intros p. rewrite Pl. cbn. intuition.
        + inversion Hs; subst. split; [exact LO|]. split; [exact OL|]. eexists. split; [reflexivity|]. intros p. cbn. intuition.
      - inversion Hs; subst. split; [exact LO|]. split; [exact OL|]. eexists. split; [reflexivity|]. intros p. cbn. intuition. }
    destruct (find (fun e => str_eqb (fst (fst e)) text) sb) as [[[tx k] st]|] eqn:F.
    + (* the sub-tree exists: descend *)
      destruct (find_key_in text sb _ F) as [Hin Hkey]. cbn [skey fst] in Hkey. subst tx.
      unfold subs_wfo in OS. rewrite Forall_forall in OS. destruct (OS _ Hin) as [(es & Ges & Ek & Ck) Wst].
      cbn [skey skind stree fst snd] in *.
      assert (Ees : es = elems s) by (apply key_of_inj; auto; congruence). subst es.
      destruct (add_segs compile fuel false st (kind_binds k ++ anc) (aa || is_all k) (s2 :: rest2) rid) as [st'|] eqn:R; [|discriminate].
      destruct (if last_opt then add_leaf compile anc ls s rid else Some ls) as [ls'|] eqn:Sh; [|discriminate].
      inversion H; subst; clear H.
      destruct (IH false st _ _ (s2 :: rest2) rid st' Wst Grest R) as (Wst' & l & Nl & Pst).
      destruct (SHORT ls' eq_refl) as (L' & O' & sh & Esh & Psh).
      destruct SO as (S1 & N1 & T1 & K1).
      pose proof (upd_sub_in text st' sb (text, k, st) N1 F) as UI. cbn [skey skind fst snd] in UI.
      split.
      * apply wfo_node. split; [|split; [exact L'|split; [exact O'|]]].
        -- repeat split.
           ++ eapply sorted_map_eq; [apply upd_sub_ranks | exact S1].
           ++ rewrite upd_sub_keys. exact N1.
           ++ eapply top_is_last_map_eq; [apply upd_sub_ranks | exact T1].
           ++ apply Forall_forall. intros e He. apply UI in He as [->|[He _]]; [|rewrite Forall_forall in K1; apply K1; exact He].
              rewrite Forall_forall in K1. apply (K1 _ Hin).
        -- unfold subs_wfo. apply Forall_forall. intros e He. apply UI in He as [->|[He _]]; [|apply OS; exact He].
           cbn [skind stree fst snd]. split; [exists (elems s); auto | exact Wst'].
      * rewrite news_cons2, Ck. unfold ctx_anc, ctx_aa in *. rewrite Nl. cbv zeta. rewrite Esh. eexists. split; [reflexivity|].
        intros p. rewrite !paths_in. unfold with_rid. rewrite map_app, in_app_iff, map_map.
        split.
        -- intros [(lf & Hl & ->)|(e & q & He & Hq & ->)].
           ++ assert (X : In (leafpath lf) (map leafpath ls')) by (apply in_map; exact Hl).
              apply Psh in X as [X|X]; [left; left; apply in_map_iff in X as (l0 & E0 & H0); exists l0; auto | right; right; exact X].
           ++ apply UI in He as [->|[He Ne]].
              ** cbn [stree skind fst snd] in *. apply Pst in Hq as [Hq|Hq].
                 --- left. right. exists (text, k, st), q. auto.
                 --- right. left. unfold with_rid in Hq. apply in_map_iff in Hq as (ks & <- & Hks). apply in_map_iff. exists ks. auto.
              ** left. right. exists e, q. auto.
        -- intros [[(lf & Hl & ->)|(e & q & He & Hq & ->)]|[X|X]].
           ++ left. assert (Y : In (leafpath lf) (map leafpath ls')) by (apply Psh; left; apply in_map; exact Hl).
              apply in_map_iff in Y as (l0 & E0 & H0). exists l0. auto.
           ++ right. destruct (str_eq_dec (skey e) text) as [Ek2|Nk2].
              ** (* the entry that was replaced: its old paths survive *)
                 assert (e = (text, k, st)).
                 { destruct (find_key_in text sb _ F) as [_ _].
                   clear - N1 He Hin Ek2. induction sb as [|x sb IHsb]; [contradiction|]. cbn [map] in N1. inversion N1; subst.
                   destruct He as [->|He], Hin as [Hx|Hin]; auto.
                   - exfalso. apply H1. apply in_map_iff. exists (text, k, st). auto.
                   - exfalso. apply H1. apply in_map_iff. exists e. subst x. auto. }
                 subst e. exists (text, k, st'), (fst q, snd q). cbn [stree skind fst snd].
                 split; [apply UI; left; reflexivity|]. split; [|reflexivity].
                 apply Pst. left. destruct q; exact Hq.
              ** exists e, q. split; [apply UI; right; auto | auto].
           ++ right. apply in_map_iff in X as (ks & <- & Hks). exists (text, k, st'), (ks, rid). cbn [stree skind fst snd].
              split; [apply UI; left; reflexivity|]. split; [|reflexivity]. apply Pst. right. unfold with_rid. apply (in_map (fun ks0 : list kind => (ks0, rid))). exact Hks.
           ++ left. assert (Y : In p (map leafpath ls')) by (apply Psh; right; exact X).
              apply in_map_iff in Y as (l0 & E0 & H0). exists l0. auto.
    + (* a new sub-tree *)
      destruct (classify compile false anc aa (elems s)) as [k|] eqn:Ck; [|discriminate].
      destruct (is_all k && has_all_sub sb) eqn:Al; [discriminate|].
      destruct (add_segs compile fuel false empty (kind_binds k ++ anc) (aa || is_all k) (s2 :: rest2) rid) as [st'|] eqn:R; [|discriminate].
      destruct (if last_opt then add_leaf compile anc ls s rid else Some ls) as [ls'|] eqn:Sh; [|discriminate].
      inversion H; subst; clear H.
      destruct (IH false empty _ _ (s2 :: rest2) rid st' (wfo_empty _ _) Grest R) as (Wst' & l & Nl & Pst).
      destruct (SHORT ls' eq_refl) as (L' & O' & sh & Esh & Psh).
      destruct SO as (S1 & N1 & T1 & K1).
      pose proof (find_key_none text sb F) as NK.
      rewrite ins_sub_ins.
      split.
      * apply wfo_node. split; [|split; [exact L'|split; [exact O'|]]].
        -- repeat split.
           ++ apply ins_sorted. exact S1.
           ++ apply ins_nodup; [exact N1 | exact NK].
           ++ apply ins_top_is_last; [apply srank_le4 | exact S1 | exact T1|].
              unfold is_top, srank. cbn [skind fst snd]. rewrite rank4_all. intros Ia. rewrite Ia in Al. cbn in Al.
              rewrite <- has_all_sub_last. exact Al.
           ++ apply Forall_forall. intros e He. apply ins_in in He as [->|He]; [|rewrite Forall_forall in K1; apply K1; exact He].
              cbn [skey skind fst snd]. intros lit ->. rewrite Etext. unfold key_of. eapply classify_static. exact Ck.
        -- unfold subs_wfo. apply Forall_forall. intros e He. apply ins_in in He as [->|He].
           ++ cbn [skind stree fst snd]. split; [exists (elems s); auto | exact Wst'].
           ++ unfold subs_wfo in OS. rewrite Forall_forall in OS. apply OS. exact He.
      * rewrite news_cons2, Ck. unfold ctx_anc, ctx_aa in *. rewrite Nl. cbv zeta. rewrite Esh. eexists. split; [reflexivity|].
        intros p. rewrite !paths_in. unfold with_rid. rewrite map_app, in_app_iff, map_map.
        split.
        -- intros [(lf & Hl & ->)|(e & q & He & Hq & ->)].
           ++ assert (X : In (leafpath lf) (map leafpath ls')) by (apply in_map; exact Hl).
              apply Psh in X as [X|X]; [left; left; apply in_map_iff in X as (l0 & E0 & H0); exists l0; auto | right; right; exact X].
           ++ apply ins_in in He as [->|He].
              ** cbn [stree skind fst snd] in *. apply Pst in Hq as [Hq|Hq]; [destruct Hq|].
                 right. left. unfold with_rid in Hq. apply in_map_iff in Hq as (ks & <- & Hks). apply in_map_iff. exists ks. auto.
              ** left. right. exists e, q. auto.
        -- intros [[(lf & Hl & ->)|(e & q & He & Hq & ->)]|[X|X]].
           ++ left. assert (Y : In (leafpath lf) (map leafpath ls')) by (apply Psh; left; apply in_map; exact Hl).
              apply in_map_iff in Y as (l0 & E0 & H0). exists l0. auto.
           ++ right. exists e, q. split; [apply ins_in; right; exact He | auto].
           ++ right. apply in_map_iff in X as (ks & <- & Hks). exists (text, k, st'), (ks, rid). cbn [stree skind fst snd].
              split; [apply ins_in; left; reflexivity|]. split; [|reflexivity]. apply Pst. right. unfold with_rid. apply (in_map (fun ks0 : list kind => (ks0, rid))). exact Hks.
           ++ left. assert (Y : In p (map leafpath ls')) by (apply Psh; right; exact X).
              apply in_map_iff in Y as (l0 & E0 & H0). exists l0. auto.
Qed.
End AddProof.
