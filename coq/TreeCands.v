(* The candidates of TreePriority are exactly the matches: every candidate is a registered path admitting
   the segments with its constraints holding (soundness), and every such (path, derivation) is among
   the candidates (completeness). *)
Require Import Base Regex Route Tree TreeProofs TreeWf TreeKeys TreePriority TreeComplete.

Section CS.
Variable hdr_ok : nat -> bool.
Notation cands := (TreePriority.cands hdr_ok).
Notation leaf_cands := (TreePriority.leaf_cands hdr_ok).
Notation fallback_cands := (TreePriority.fallback_cands hdr_ok).

Definition matched (t : tree) (segs : list str) (rid : nat) : Prop :=
  exists ks ps, In (ks, rid) (paths t) /\ adm ks segs ps /\ hdr_ok rid = true.

(* ---------------- soundness ---------------- *)
Lemma leaf_cands_sound ls s acc c : In c (leaf_cands ls s acc) ->
  exists l ps, In l ls /\ snd c = lroute l /\ seg_match (lkind l) s = Some ps /\ hdr_ok (lroute l) = true.
Proof.
  induction ls as [|l ls IH]; [intros []|]. cbn [TreePriority.leaf_cands]. intros H. apply in_app_or in H as [H|H].
  - destruct (seg_match (lkind l) s) as [ps|] eqn:M; [|destruct H]. destruct (hdr_ok (lroute l)) eqn:Hd; [|destruct H].
    destruct H as [<-|[]]. exists l, ps. repeat split; auto. left. reflexivity.
  - destruct (IH H) as (l' & ps & Hl & E & M & Hd). exists l', ps. repeat split; auto. right. exact Hl.
Qed.

Lemma fallback_cands_sound ls segs acc c : In c (fallback_cands ls segs acc) ->
  exists l b cap, In l ls /\ snd c = lroute l /\ lkind l = KAll b cap /\ cap_ok cap (length segs) = true /\ hdr_ok (lroute l) = true.
Proof.
  unfold TreePriority.fallback_cands. destruct (rev ls) as [|l r] eqn:R; [intros []|].
  destruct (lkind l) as [| | |b cap] eqn:K; try (intros []).
  destruct (cap_ok cap (length segs) && hdr_ok (lroute l)) eqn:C; [|intros []]. apply andb_prop in C as [C1 C2].
  intros [<-|[]]. exists l, b, cap. repeat split; auto. apply in_rev. rewrite R. left. reflexivity.
Qed.

Lemma grow_all_sound mc cap bk acc : forall fuel taken r c, In c (grow_all mc cap bk acc fuel taken r) ->
  exists more rem, r = more ++ rem /\ cap_ok cap (length (taken ++ more)) = true /\
                   In c (mc rem (acc ++ [(0, 4, bk, length (taken ++ more))])).
Proof.
  induction fuel as [|fuel IH]; intros taken r c H; [destruct H|].
  cbn [grow_all] in H. destruct (cap_ok cap (length taken)) eqn:C; [|destruct H].
  apply in_app_or in H as [H|H].
  - exists [], r. rewrite app_nil_r. auto.
  - destruct r as [|x [|y r']]; try destruct H. apply IH in H as (more & rem & E & C2 & Hc).
    exists (x :: more), rem. rewrite <- app_assoc in C2, Hc. cbn [app] in *. repeat split; auto. f_equal. exact E.
Qed.

Theorem cands_sound : forall t segs acc c, In c (cands t segs acc) -> matched t segs (snd c).
Proof.
  induction t as [subs leaves IH] using tree_ind2. intros segs acc c H. unfold matched. rewrite paths_node.
  destruct segs as [|s [|s2 rest2]]; [destruct H| |].
  - cbn [TreePriority.cands] in H. apply leaf_cands_sound in H as (l & ps & Hl & -> & M & Hd).
    exists [lkind l], ps. split; [apply in_or_app; left; apply in_map_iff; exists l; auto|]. split; [constructor; exact M | exact Hd].
  - cbn [TreePriority.cands] in H. set (rest := s2 :: rest2) in *.
    assert (FB : In c (fallback_cands leaves (s :: rest) acc) ->
      exists ks ps, In (ks, snd c) (map (fun l => ([lkind l], lroute l)) leaves ++ sub_paths subs) /\ adm ks (s :: rest) ps /\ hdr_ok (snd c) = true).
    { intros X. apply fallback_cands_sound in X as (l & b & cap & Hl & -> & K & C & Hd).
      exists [KAll b cap], [(b, join_slash (s :: rest))]. split; [apply in_or_app; left; apply in_map_iff; exists l; rewrite K; auto|].
      split; [apply adm_last_all; [discriminate | exact C] | exact Hd]. }
    revert H. assert (GEN : forall pre subs0, subs = pre ++ subs0 -> Forall (fun p => forall segs acc c, In c (cands (snd p) segs acc) -> matched (snd p) segs (snd c)) subs0 ->
       In c ((fix go (l : list (str * kind * tree)) : list (key * nat) :=
              match l with
              | [] => fallback_cands leaves (s :: rest) acc
              | (_, KAll b cap, st) :: _ => grow_all (cands st) cap (minrid st) acc (length rest) [s] rest ++ fallback_cands leaves (s :: rest) acc
              | (_, k, st) :: l' => (match seg_match k s with Some _ => cands st rest (acc ++ [(0, rank k, minrid st, 0)]) | None => [] end) ++ go l'
              end) subs0) ->
       exists ks ps, In (ks, snd c) (map (fun l => ([lkind l], lroute l)) leaves ++ sub_paths subs) /\ adm ks (s :: rest) ps /\ hdr_ok (snd c) = true).
    { intros pre subs0. revert pre. induction subs0 as [|[[tx k] st] subs0 IHs]; intros pre E F H; [exact (FB H)|].
      inversion F as [|? ? Fst Frest]; subst. cbn [snd] in Fst.
      assert (NEXT : In c ((fix go (l : list (str * kind * tree)) : list (key * nat) :=
              match l with
              | [] => fallback_cands leaves (s :: rest) acc
              | (_, KAll b cap, st) :: _ => grow_all (cands st) cap (minrid st) acc (length rest) [s] rest ++ fallback_cands leaves (s :: rest) acc
              | (_, k, st) :: l' => (match seg_match k s with Some _ => cands st rest (acc ++ [(0, rank k, minrid st, 0)]) | None => [] end) ++ go l'
              end) subs0) -> exists ks ps, In (ks, snd c) (map (fun l => ([lkind l], lroute l)) leaves ++ sub_paths (pre ++ (tx, k, st) :: subs0)) /\ adm ks (s :: rest) ps /\ hdr_ok (snd c) = true).
      { intros X. apply (IHs (pre ++ [(tx, k, st)])); [rewrite <- app_assoc; reflexivity | exact Frest | exact X]. }
      assert (HERE : forall ks' ps0, In (ks', snd c) (paths st) -> adm (k :: ks') (s :: rest) ps0 -> hdr_ok (snd c) = true ->
                exists ks ps, In (ks, snd c) (map (fun l => ([lkind l], lroute l)) leaves ++ sub_paths (pre ++ (tx, k, st) :: subs0)) /\ adm ks (s :: rest) ps /\ hdr_ok (snd c) = true).
      { intros ks' ps0 HIn A Hd. exists (k :: ks'), ps0. split; [|auto]. apply in_or_app. right. apply sub_paths_in.
        exists (tx, k, st), (ks', snd c). repeat split; auto. apply in_or_app. right. left. reflexivity. }
      destruct k as [lit|pcs|b|b cap].
      1-3: (apply in_app_or in H as [H|H]; [|exact (NEXT H)];
            match goal with H : In ?cc match seg_match ?kk ?ss with _ => _ end |- _ => destruct (seg_match kk ss) as [ps0|] eqn:M; [|destruct H] end;
            destruct (Fst _ _ _ H) as (ks' & ps' & HIn & A & Hd);
            eapply (HERE ks' (ps' ++ ps0) HIn); [|exact Hd];
            apply adm_cons; [eapply paths_nonempty; exact HIn | reflexivity | exact M | exact A]).
      apply in_app_or in H as [H|H]; [|exact (FB H)].
      apply grow_all_sound in H as (more & rem & E & C & Hc).
      destruct (Fst _ _ _ Hc) as (ks' & ps' & HIn & A & Hd).
      eapply (HERE ks' (ps' ++ [(b, join_slash ([s] ++ more))]) HIn); [|exact Hd].
      replace (s :: rest) with (([s] ++ more) ++ rem) by (rewrite <- app_assoc; cbn; rewrite <- E; reflexivity).
      apply adm_cons_all; [eapply paths_nonempty; exact HIn | discriminate | exact C | exact A]. }
    exact (GEN [] subs eq_refl IH).
Qed.

(* ---------------- completeness ---------------- *)
Lemma leaf_cands_complete ls s acc l ps : In l ls -> seg_match (lkind l) s = Some ps -> hdr_ok (lroute l) = true ->
  In (acc ++ [(0, rank (lkind l), lroute l, 0)], lroute l) (leaf_cands ls s acc).
Proof.
  induction ls as [|a ls IH]; [contradiction|]. intros [->|HIn] M Hd; cbn [TreePriority.leaf_cands]; apply in_or_app.
  - left. rewrite M, Hd. left. reflexivity.
  - right. exact (IH HIn M Hd).
Qed.

Lemma grow_all_complete mc cap bk acc c : forall more rest taken fuel,
  rest <> [] -> cap_ok cap (length (taken ++ more)) = true -> length more < fuel ->
  In c (mc rest (acc ++ [(0, 4, bk, length (taken ++ more))])) ->
  In c (grow_all mc cap bk acc fuel taken (more ++ rest)).
Proof.
  induction more as [|a more IH]; intros rest taken fuel Hr Hc Hf Hin.
  - destruct fuel; [lia|]. cbn [grow_all app]. rewrite app_nil_r in Hc, Hin. rewrite Hc. apply in_or_app. left. exact Hin.
  - destruct fuel; [cbn in Hf; lia|]. cbn [grow_all].
    rewrite (cap_ok_mono cap (length taken) (length (taken ++ a :: more))) by (auto; rewrite app_length; lia).
    apply in_or_app. right. cbn [app]. destruct (more ++ rest) as [|x r] eqn:E.
    + destruct more; [cbn in E; congruence | discriminate].
    + rewrite <- E. apply IH; auto.
      * rewrite <- app_assoc. exact Hc.
      * cbn in Hf. lia.
      * rewrite <- app_assoc. exact Hin.
Qed.

Theorem cands_complete t : wf t -> forall ks id segs ps acc,
  In (ks, id) (paths t) -> adm ks segs ps -> hdr_ok id = true -> exists k, In (k, id) (cands t segs acc).
Proof.
  induction t as [subs leaves IH] using tree_ind2. intros W ks id segs ps acc HIn Ad Hd.
  apply wf_node in W as ((Ss & Ns & Ts & Ks) & (Sl & Nl & Tl & Kl) & Wr). rewrite paths_node in HIn.
  assert (Hne := adm_nonempty _ _ _ Ad).
  destruct segs as [|s rest]; [congruence|]. cbn [TreePriority.cands].
  destruct rest as [|s2 rest].
  - assert (exists l, In l leaves /\ lroute l = id /\ ks = [lkind l]) as (l & HInl & <- & ->).
    { apply in_app_or in HIn as [HIn|HIn].
      - apply in_map_iff in HIn as (l & E & HInl). inversion E; subst. exists l. auto.
      - exfalso. destruct (sub_paths_inv _ _ _ HIn) as (tx & k & ks' & st & -> & _ & HIn').
        apply paths_nonempty in HIn'.
        inversion Ad; subst; try congruence.
        + match goal with H : adm ks' [] _ |- _ => apply adm_nonempty in H; congruence end.
        + match goal with H : _ ++ _ = [s] |- _ =>
            destruct taken as [|? [|? ?]]; cbn in H; try congruence; inversion H; subst end.
          match goal with H : adm ks' [] _ |- _ => apply adm_nonempty in H; congruence end. }
    inversion Ad; subst; try congruence. eexists. eapply leaf_cands_complete; eauto.
  - set (rest' := s2 :: rest) in *.
    set (go := fix go (l : list (str * kind * tree)) : list (key * nat) :=
              match l with
              | [] => fallback_cands leaves (s :: rest') acc
              | (_, KAll b cap, st) :: _ => grow_all (cands st) cap (minrid st) acc (length rest') [s] rest' ++ fallback_cands leaves (s :: rest') acc
              | (_, k, st) :: l' => (match seg_match k s with Some _ => cands st rest' (acc ++ [(0, rank k, minrid st, 0)]) | None => [] end) ++ go l'
              end).
    change (exists k, In (k, id) (go subs)).
    apply in_app_or in HIn as [HIn|HIn].
    + (* the trailing match-all leaf *)
      apply in_map_iff in HIn as (l & E & HInl). inversion E; subst.
      inversion Ad; subst.
      2:{ exfalso. match goal with H : [] <> [] |- _ => apply H; reflexivity end. }
      2:{ exfalso. match goal with H : [] <> [] |- _ => apply H; reflexivity end. }
      assert (FB : exists k, In (k, lroute l) (fallback_cands leaves (s :: rest') acc)).
      { unfold TreePriority.fallback_cands.
        destruct (rev_last_in leaves l) as (r & Er); [|exact HInl|].
        - intros pre a post Ep ->. apply (Tl pre l post Ep). unfold is_top, lrank.
          match goal with H : KAll _ _ = lkind l |- _ => rewrite <- H end. reflexivity.
        - rewrite Er. match goal with H : KAll _ _ = lkind l |- _ => rewrite <- H end.
          match goal with H : cap_ok _ _ = true |- _ => rewrite H end. rewrite Hd. cbn. eexists. left. reflexivity. }
      destruct FB as [k0 FB]. exists k0.
      clear - FB. induction subs as [|[[tx k] st] subs IHs]; cbn [go]; [exact FB|].
      destruct k as [lit|pcs|bd|b cap]; apply in_or_app; right; try exact IHs. exact FB.
    + destruct (sub_paths_inv _ _ _ HIn) as (tx & k & ks' & st & -> & HInS & HInP).
      assert (Hks' := paths_nonempty _ _ _ HInP).
      clear HIn. revert HInS. unfold all_wf in Wr.
      induction subs as [|[[tx0 k0] st0] subs IHs]; [contradiction|].
      intros HInS. inversion IH as [|? ? IH0 IHrest]; subst. cbn [snd] in IH0.
      inversion Wr as [|? ? W0 Wr']; subst. cbn [stree snd] in W0.
      destruct HInS as [E|HInS].
      * inversion E; subst tx0 k0 st0. clear IHs. cbn [go].
        inversion Ad; subst; try (exfalso; apply Hks'; reflexivity).
        -- match goal with H : is_all k = false |- _ => rename H into NA end.
           match goal with H : seg_match k s = Some _ |- _ => rename H into SM end.
           match goal with H : adm ks' rest' _ |- _ => rename H into A' end.
           destruct (IH0 W0 ks' id rest' _ (acc ++ [(0, rank k, minrid st, 0)]) HInP A' Hd) as [k1 H1].
           exists k1. destruct k as [lit|pcs|bd|b cap]; try discriminate; apply in_or_app; left; rewrite SM; exact H1.
        -- match goal with H : taken ++ _ = s :: rest' |- _ => rename H into Es end.
           destruct taken as [|t0 more]; [congruence|]. cbn in Es. inversion Es; subst t0.
           match goal with H : more ++ ?r = rest' |- _ => rename r into rem; rename H into Er end.
           match goal with H : adm ks' rem _ |- _ => rename H into A' end.
           destruct (IH0 W0 ks' id rem _ (acc ++ [(0, 4, minrid st, length ([s] ++ more))]) HInP A' Hd) as [k1 H1].
           exists k1. apply in_or_app. left. apply grow_all_complete; auto.
           ++ apply adm_nonempty in A'. exact A'.
           ++ rewrite app_length. apply adm_nonempty in A'. destruct rem; [congruence | cbn; lia].
      * cbn [go].
        assert (NotAll : is_all k0 = false).
        { destruct (is_all k0) eqn:A; [|reflexivity]. exfalso.
          assert (X : subs = []) by (apply (Ts [] (tx0, k0, st0) subs eq_refl); unfold is_top, srank; cbn [skind fst snd]; rewrite rank4_all; exact A).
          subst subs. contradiction. }
        assert (Ts' : top_is_last srank 4 subs).
        { intros pre a post Ep Ea. apply (Ts ((tx0, k0, st0) :: pre) a post); [cbn; f_equal; exact Ep | exact Ea]. }
        assert (Ss' : sorted srank subs) by (inversion Ss; assumption).
        assert (Ns' : NoDup (map skey subs)) by (inversion Ns; assumption).
        assert (Ks' : Forall (fun e => key_ok (skey e) (skind e)) subs) by (inversion Ks; assumption).
        destruct (IHs IHrest Ss' Ns' Ts' Ks' Wr' HInS) as [k1 H1]. exists k1.
        destruct k0 as [lit|pcs|bd|b cap]; try discriminate; apply in_or_app; right; exact H1.
Qed.
End CS.
