(* Completeness of the tree matcher for well-formed trees: if some root-to-leaf path admits the
   segments (and its header constraints hold), matching does not fail - a failure deeper in a
   preferred branch falls back to the next alternative, never to "not found". *)
Require Import Base Regex Route Tree TreeProofs TreeWf.

Section C.
Variable hdr_ok : nat -> bool.
Notation mtree := (Tree.mtree hdr_ok).
Notation first_leaf := (Tree.first_leaf hdr_ok).
Notation all_leaf_fallback := (Tree.all_leaf_fallback hdr_ok).

Lemma adm_nonempty ks segs ps : adm ks segs ps -> segs <> [].
Proof. induction 1; try discriminate. destruct taken; [congruence | discriminate]. Qed.

Lemma first_leaf_complete ls s l ps : In l ls -> seg_match (lkind l) s = Some ps -> hdr_ok (lroute l) = true ->
  first_leaf ls s <> None.
Proof.
  induction ls as [|a ls IH]; [contradiction|]. intros [->|HIn] M Hd; cbn.
  - rewrite M, Hd. discriminate.
  - destruct (seg_match (lkind a) s); [destruct (hdr_ok (lroute a)); [discriminate|]|]; apply (IH HIn M Hd).
Qed.

Lemma sub_paths_inv subs : forall ks id, In (ks, id) (sub_paths subs) ->
  exists tx k ks' st, ks = k :: ks' /\ In (tx, k, st) subs /\ In (ks', id) (paths st).
Proof.
  intros ks id H. apply sub_paths_in in H as ([[tx k] st] & [ks' id'] & He & Hq & E). cbn in E. inversion E; subst.
  exists tx, k, ks', st. auto.
Qed.

Lemma cap_ok_mono cap a b : a <= b -> cap_ok cap b = true -> cap_ok cap a = true.
Proof.
  unfold cap_ok. intros L H. apply orb_true_iff in H as [H|H]; apply orb_true_iff; [left; exact H|right].
  apply Z.leb_le in H. apply Z.leb_le. lia.
Qed.

Lemma grow_complete mt b cap : forall more rest taken fuel,
  rest <> [] -> mt rest <> None -> cap_ok cap (length (taken ++ more)) = true ->
  length more < fuel -> grow mt b cap fuel taken (more ++ rest) <> None.
Proof.
  induction more as [|a more IH]; intros rest taken fuel Hr Hm Hc Hf.
  - destruct fuel; [lia|]. cbn [grow app]. rewrite app_nil_r in Hc. rewrite Hc.
    destruct (mt rest) as [[id ps]|]; [discriminate | congruence].
  - destruct fuel; [cbn in Hf; lia|]. cbn [grow].
    rewrite (cap_ok_mono cap (length taken) (length (taken ++ a :: more))) by (auto; rewrite app_length; lia).
    destruct (mt ((a :: more) ++ rest)) as [[id ps]|]; [discriminate|].
    cbn [app]. destruct (more ++ rest) as [|x r] eqn:E.
    + destruct more; [cbn in E; congruence | discriminate].
    + rewrite <- E. apply IH; auto.
      * rewrite <- app_assoc. exact Hc.
      * cbn in Hf. lia.
Qed.

Lemma rev_last_in {A} (l : list A) x : (forall pre a post, l = pre ++ a :: post -> a = x -> post = []) -> In x l ->
  exists r, rev l = x :: r.
Proof.
  intros T HIn. apply in_split in HIn as (pre & post & ->). rewrite (T pre x post eq_refl eq_refl).
  rewrite rev_app_distr. cbn. eauto.
Qed.

Theorem mtree_complete t : wf t -> forall ks id segs ps,
  In (ks, id) (paths t) -> adm ks segs ps -> hdr_ok id = true -> mtree t segs <> None.
Proof.
  induction t as [subs leaves IH] using tree_ind2. intros W ks id segs ps HIn Ad Hd.
  apply wf_node in W as ((Ss & Ns & Ts & Ks) & (Sl & Nl & Tl & Kl) & Wr). rewrite paths_node in HIn.
  assert (Hne := adm_nonempty _ _ _ Ad).
  destruct segs as [|s rest]; [congruence|]. cbn [Tree.mtree].
  destruct rest as [|s2 rest].
  - (* a single segment: a leaf must admit it *)
    assert (exists l, In l leaves /\ lroute l = id /\ ks = [lkind l]) as (l & HInl & <- & ->).
    { apply in_app_or in HIn as [HIn|HIn].
      - apply in_map_iff in HIn as (l & E & HInl). inversion E; subst. exists l. auto.
      - exfalso. destruct (sub_paths_inv _ _ _ HIn) as (tx & k & ks' & st & -> & _ & HIn').
        apply paths_nonempty in HIn'.
        inversion Ad; subst; try congruence.
        + match goal with H : adm ks' [] _ |- _ => apply adm_nonempty in H; congruence end.
        + match goal with H : _ ++ _ = [s] |- _ =>
            destruct taken as [|? [|? ?]]; cbn in H; try congruence; inversion H; subst end.
          match goal with H : adm ks' [] _ |- _ => apply adm_nonempty in H; congruence end. }
    inversion Ad; subst; try congruence.
    eapply first_leaf_complete; eauto.
  - set (rest' := s2 :: rest) in *.
    set (go := fix go (l : list (str * kind * tree)) : option (nat * params) :=
                  match l with
                  | [] => all_leaf_fallback leaves (s :: rest')
                  | (_, KAll b cap, st) :: _ =>
                      match grow (mtree st) b cap (length rest') [s] rest' with
                      | Some x => Some x
                      | None => all_leaf_fallback leaves (s :: rest')
                      end
                  | (_, k, st) :: l' =>
                      match seg_match k s with
                      | Some ps =>
                          match mtree st rest' with
                          | Some (id, ps') => Some (id, ps' ++ ps)
                          | None => go l'
                          end
                      | None => go l'
                      end
                  end).
    change (go subs <> None).
    apply in_app_or in HIn as [HIn|HIn].
    + (* a leaf path admitting >= 2 segments: the trailing match-all leaf *)
      apply in_map_iff in HIn as (l & E & HInl). inversion E; subst.
      inversion Ad; subst.
      2:{ exfalso. match goal with H : [] <> [] |- _ => apply H; reflexivity end. }
      2:{ exfalso. match goal with H : [] <> [] |- _ => apply H; reflexivity end. }
      assert (FB : all_leaf_fallback leaves (s :: rest') <> None).
      { unfold Tree.all_leaf_fallback.
        destruct (rev_last_in leaves l) as (r & Er); [|exact HInl|].
        - intros pre a post Ep ->. apply (Tl pre l post Ep). unfold is_top, lrank.
          match goal with H : KAll _ _ = lkind l |- _ => rewrite <- H end. reflexivity.
        - rewrite Er. match goal with H : KAll _ _ = lkind l |- _ => rewrite <- H end.
          match goal with H : cap_ok _ _ = true |- _ => rewrite H end. rewrite Hd. discriminate. }
      clear - FB. induction subs as [|[[tx k] st] subs IHs]; cbn [go]; [exact FB|].
      destruct k as [lit|pcs|bd|b cap].
      * destruct (seg_match _ s); [destruct (mtree st rest') as [[? ?]|]; [discriminate|] |]; exact IHs.
      * destruct (seg_match _ s); [destruct (mtree st rest') as [[? ?]|]; [discriminate|] |]; exact IHs.
      * destruct (seg_match _ s); [destruct (mtree st rest') as [[? ?]|]; [discriminate|] |]; exact IHs.
      * destruct (grow _ _ _ _ _ _); [discriminate | exact FB].
    + destruct (sub_paths_inv _ _ _ HIn) as (tx & k & ks' & st & -> & HInS & HInP).
      assert (Hks' := paths_nonempty _ _ _ HInP).
      (* walk the list of sub-trees up to (tx, k, st) *)
      clear HIn. revert HInS. unfold all_wf in Wr.
      induction subs as [|[[tx0 k0] st0] subs IHs]; [contradiction|].
      intros HInS. inversion IH as [|? ? IH0 IHrest]; subst. cbn [snd] in IH0.
      inversion Wr as [|? ? W0 Wr']; subst. cbn [stree snd] in W0.
      destruct HInS as [E|HInS].
      * inversion E; subst tx0 k0 st0. clear IHs. cbn [go].
        inversion Ad; subst; try (exfalso; apply Hks'; reflexivity).
        -- (* an ordinary segment kind *)
           match goal with H : is_all k = false |- _ => rename H into NA end.
           match goal with H : seg_match k s = Some _ |- _ => rename H into SM end.
           destruct k as [lit|pcs|bd|b cap]; try discriminate; rewrite SM;
             (destruct (mtree st rest') as [[? ?]|] eqn:M; [discriminate|]; exfalso; eapply (IH0 W0); eauto).
        -- (* a match-all sub-tree *)
           match goal with H : taken ++ _ = s :: rest' |- _ => rename H into Es end.
           destruct taken as [|t0 more]; [congruence|]. cbn in Es. inversion Es; subst t0.
           match goal with H : more ++ ?r = rest' |- _ => rename r into rem; rename H into Er end.
           match goal with |- match ?X with _ => _ end <> None => destruct X eqn:G; [discriminate|] end.
           exfalso. revert G. apply grow_complete.
           ++ match goal with H : adm ks' rem _ |- _ => apply adm_nonempty in H; exact H end.
           ++ eapply (IH0 W0); eauto.
           ++ match goal with H : cap_ok cap _ = true |- _ => exact H end.
           ++ rewrite app_length.
              match goal with H : adm ks' rem _ |- _ => apply adm_nonempty in H end.
              destruct rem; [congruence | cbn; lia].
      * cbn [go].
        assert (NotAll : is_all k0 = false).
        { destruct (is_all k0) eqn:A; [|reflexivity]. exfalso.
          assert (X : subs = []) by (apply (Ts [] (tx0, k0, st0) subs eq_refl); unfold is_top, srank; cbn [skind fst snd]; rewrite rank4_all; exact A).
          subst subs. contradiction. }
        assert (Ts' : top_is_last srank 4 subs).
        { intros pre a post Ep Ea. apply (Ts ((tx0, k0, st0) :: pre) a post); [cbn; f_equal; exact Ep | exact Ea]. }
        assert (Ss' : sorted srank subs) by (inversion Ss; assumption).
        assert (Ns' : NoDup (map skey subs)) by (inversion Ns; assumption).
        assert (Ks' : Forall (fun e => key_ok (skey e) (skind e)) subs) by (inversion Ks; assumption).
        destruct k0 as [lit|pcs|bd|b cap]; try discriminate;
          (destruct (seg_match _ s); [destruct (mtree st0 rest') as [[? ?]|]; [discriminate|] |];
           apply IHs; assumption).
Qed.
End C.
