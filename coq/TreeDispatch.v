(* C01 dispatch-iff for trees built by registration: a path is dispatched iff some registered route
   (long or short form) admits it and its header constraints hold. *)
Require Import Base Regex Route Tree TreeProofs TreeWf TreeAdd TreeComplete.

Section D.
Variable compile : str -> option re.
Variable good : list elem -> Prop.
Hypothesis good_nil : good [].
Hypothesis render_inj : forall a b, good a -> good b -> render_elems a = render_elems b -> a = b.

Definition route_good (r : route) : Prop := Forall (fun s => good (elems s)) r.

(* registering a list of (route id, route) in order; None as soon as one is rejected *)
Fixpoint reg_all (t : tree) (rs : list (nat * route)) : option tree :=
  match rs with
  | [] => Some t
  | (rid, r) :: rs' => match add_route compile t r rid with Some t' => reg_all t' rs' | None => None end
  end.

(* the forms (kind lists) under which a registered route can be reached: long, and short when its last
   segment is optional; kinds are classified in the context of the route's own earlier segments *)
Definition forms (r : route) : option (list (list kind)) := news compile true [] false r.

Definition route_paths (rs : list (nat * route)) (p : list kind * nat) : Prop :=
  exists rid r l, In (rid, r) rs /\ forms r = Some l /\ In p (with_rid rid l).

Lemma reg_all_ok : forall rs t t',
  wfo compile good [] false t -> (forall rid r, In (rid, r) rs -> route_good r) ->
  reg_all t rs = Some t' ->
  wfo compile good [] false t' /\ forall p, In p (paths t') <-> In p (paths t) \/ route_paths rs p.
Proof.
  induction rs as [|[rid r] rs IH]; intros t t' W G H; cbn [reg_all] in H.
  - inversion H; subst. split; [exact W|]. intros p. split; [auto|]. intros [X|(? & ? & ? & [] & _)]. exact X.
  - destruct (add_route compile t r rid) as [t1|] eqn:A; [|discriminate].
    unfold add_route in A.
    destruct (add_segs_ok compile good good_nil render_inj _ _ _ _ _ _ _ _ W (G rid r (or_introl eq_refl)) A) as (W1 & l & Nl & P1).
    destruct (IH t1 t' W1 (fun rid' r' Hin => G rid' r' (or_intror Hin)) H) as (W' & P').
    split; [exact W'|]. intros p. rewrite P', P1. split.
    + intros [[X|X]|(rid' & r' & l' & Hin & Fl & Hp)].
      * left. exact X.
      * right. exists rid, r, l. repeat split; auto. left. reflexivity.
      * right. exists rid', r', l'. repeat split; auto. right. exact Hin.
    + intros [X|(rid' & r' & l' & [E|Hin] & Fl & Hp)].
      * left. left. exact X.
      * inversion E; subst rid' r'. unfold forms in Fl. rewrite Nl in Fl. inversion Fl; subst l'. left. right. exact Hp.
      * right. exists rid', r', l'. auto.
Qed.

(* C01: dispatched iff admitted *)
Theorem dispatch_iff hdr_ok rs t segs :
  (forall rid r, In (rid, r) rs -> route_good r) ->
  reg_all empty rs = Some t ->
  (mtree hdr_ok t segs <> None <->
   exists rid r l ks ps, In (rid, r) rs /\ forms r = Some l /\ In ks l /\ adm ks segs ps /\ hdr_ok rid = true).
Proof.
  intros G H.
  destruct (reg_all_ok rs empty t (wfo_empty compile good [] false) G H) as (W & P).
  split.
  - destruct (mtree hdr_ok t segs) as [[id ps]|] eqn:M; [|congruence]. intros _.
    apply mtree_sound in M as (ks & HIn & Ad & Hd).
    apply P in HIn as [[]|(rid & r & l & Hin & Fl & Hp)].
    unfold with_rid in Hp. apply in_map_iff in Hp as (ks' & E & Hks). inversion E; subst.
    exists id, r, l, ks, ps. auto.
  - intros (rid & r & l & ks & ps & Hin & Fl & Hks & Ad & Hd).
    eapply mtree_complete; [eapply wfo_wf; exact W | | exact Ad | exact Hd].
    apply P. right. exists rid, r, l. repeat split; auto. unfold with_rid. apply in_map_iff. exists ks. auto.
Qed.

(* and what is returned is one of the admitting routes, with the values that route captures *)
Theorem dispatch_sound hdr_ok rs t segs rid ps :
  (forall rid r, In (rid, r) rs -> route_good r) ->
  reg_all empty rs = Some t -> mtree hdr_ok t segs = Some (rid, ps) ->
  exists r l ks, In (rid, r) rs /\ forms r = Some l /\ In ks l /\ adm ks segs ps /\ hdr_ok rid = true.
Proof.
  intros G H M. destruct (reg_all_ok rs empty t (wfo_empty compile good [] false) G H) as (W & P).
  apply mtree_sound in M as (ks & HIn & Ad & Hd).
  apply P in HIn as [[]|(rid' & r & l & Hin & Fl & Hp)].
  unfold with_rid in Hp. apply in_map_iff in Hp as (ks' & E & Hks). inversion E; subst.
  exists r, l, ks. auto.
Qed.
End D.
