(* The matcher as the code writes it (internal/route/tree.go, leaf.go): over the request path and a
   byte index, with explicit slicing that can go out of range (= a Go panic).  It never does, and it
   computes what the segment-level matcher Tree.mtree computes on the split path (C07). *)
Require Import Base Regex Route Tree TreeProofs Router.

Inductive res (A : Type) := Ok (x : A) | Panic.
Arguments Ok {A} _.
Arguments Panic {A}.

(* s[a:b]; None when the bounds are out of range *)
Definition slice (s : str) (a b : nat) : option str :=
  if Nat.leb a b && Nat.leb b (length s) then Some (firstn (b - a) (skipn a s)) else None.

(* strings.Index(s, "/") *)
Fixpoint index_slash (s : str) : option nat :=
  match s with
  | [] => None
  | c :: s' => if N.eqb c c_slash then Some 0 else option_map S (index_slash s')
  end.

(* strings.Count(s, "/") *)
Definition count_slash (s : str) : nat := length (filter (fun c => N.eqb c c_slash) s).

Section Idx.
Variable hdr_ok : nat -> bool.

(* matchAllLeaf.matchAll(path, segment, next) *)
Definition leaf_all_idx (l : leaf) (path seg : str) (next : nat) : res (option (nat * params)) :=
  match lkind l with
  | KAll b cap =>
      if Nat.eqb next 0 then Panic                                  (* path[next-1:] with next = 0 *)
      else match slice path (next - 1) (length path), slice path next (length path) with
           | Some before, Some tail =>
               if negb (cap_ok cap (count_slash before + 1)) then Ok None
               else if hdr_ok (lroute l) then Ok (Some (lroute l, [(b, seg ++ [c_slash] ++ tail)])) else Ok None
           | _, _ => Panic
           end
  | _ => Ok None
  end.

Definition fallback_idx (leaves : list leaf) (path seg : str) (next : nat) : res (option (nat * params)) :=
  match rev leaves with l :: _ => leaf_all_idx l path seg next | [] => Ok None end.

Section GrowIdx.
Variable mn : nat -> res (option (nat * params)).    (* st.matchNextSegment(path, next, ...) *)
Variable path : str.
Variable b : str.
Variable cap : Z.
(* matchAllTree.matchAll: the loop "for t.capture <= 0 || t.capture >= captured" *)
Fixpoint grow_idx (fuel : nat) (captured : nat) (seg : str) (next : nat) {struct fuel} : res (option (nat * params)) :=
  match fuel with
  | O => Ok None
  | S fuel' =>
      if cap_ok cap captured then
        match mn next with
        | Panic => Panic
        | Ok (Some (id, ps)) => Ok (Some (id, ps ++ [(b, seg)]))
        | Ok None =>
            match slice path next (length path) with
            | None => Panic
            | Some tail =>
                match index_slash tail with
                | None => Ok None
                | Some i =>
                    match slice path next (next + i) with
                    | None => Panic
                    | Some more => grow_idx fuel' (S captured) (seg ++ [c_slash] ++ more) (next + i + 1)
                    end
                end
            end
        end
      else Ok None
  end.
End GrowIdx.

(* baseTree.matchNextSegment / matchSubtree *)
Fixpoint mnext_idx (t : tree) (path : str) (next : nat) {struct t} : res (option (nat * params)) :=
  match t with
  | Node subs leaves =>
      match slice path next (length path) with
      | None => Panic
      | Some tail =>
          match index_slash tail with
          | None => Ok (first_leaf hdr_ok leaves tail)
          | Some i =>
              match slice path next (next + i) with
              | None => Panic
              | Some seg =>
                  let nx := next + i + 1 in
                  let fix go (l : list (str * kind * tree)) : res (option (nat * params)) :=
                      match l with
                      | [] => fallback_idx leaves path seg nx
                      | (_, KAll b cap, st) :: _ =>
                          match grow_idx (mnext_idx st path) path b cap (S (length path)) 1 seg nx with
                          | Panic => Panic
                          | Ok (Some x) => Ok (Some x)
                          | Ok None => fallback_idx leaves path seg nx
                          end
                      | (_, k, st) :: l' =>
                          match seg_match k seg with
                          | Some ps =>
                              match mnext_idx st path nx with
                              | Panic => Panic
                              | Ok (Some (id, ps')) => Ok (Some (id, ps' ++ ps))
                              | Ok None => go l'
                              end
                          | None => go l'
                          end
                      end in
                  go subs
              end
          end
      end
  end.

(* baseTree.Match: strings.TrimLeft(path, "/"), then matchNextSegment(path, 0) *)
Definition match_idx (t : tree) (path : str) : res (option (nat * params)) := mnext_idx t (trim_slashes path) 0.

(* ---------------- list facts ---------------- *)
Lemma slice_from s a : a <= length s -> slice s a (length s) = Some (skipn a s).
Proof.
  intros H. unfold slice. assert (E : Nat.leb a (length s) && Nat.leb (length s) (length s) = true).
  { apply andb_true_intro. split; apply Nat.leb_le; lia. }
  rewrite E. f_equal. rewrite <- (firstn_all (skipn a s)) at 2. rewrite skipn_length. reflexivity.
Qed.

Lemma index_slash_none s : index_slash s = None -> split_slash [] s = [s] /\ count_slash s = 0.
Proof.
  assert (G : forall cur, index_slash s = None -> split_slash cur s = [rev cur ++ s] /\ count_slash s = 0).
  { induction s as [|c s IH]; intros cur H; [cbn; rewrite app_nil_r; auto|]. cbn [index_slash] in H. cbn [split_slash].
    unfold count_slash. cbn [filter]. destruct (N.eqb c c_slash); [discriminate|].
    destruct (index_slash s); [discriminate|]. destruct (IH (c :: cur) eq_refl) as [E1 E2]. rewrite E1. cbn [rev]. rewrite <- app_assoc. auto. }
  intros H. exact (G [] H).
Qed.

Lemma index_slash_some s : forall i, index_slash s = Some i ->
  i < length s /\ nth_error s i = Some c_slash /\ index_slash (firstn i s) = None /\
  forall cur, split_slash cur s = (rev cur ++ firstn i s) :: split_slash [] (skipn (S i) s).
Proof.
  induction s as [|c s IH]; intros i H; [discriminate|]. cbn [index_slash] in H.
  destruct (N.eqb c c_slash) eqn:E.
  - inversion H; subst. apply N.eqb_eq in E. subst c. repeat split; [cbn; lia|]. intros cur. cbn [split_slash firstn skipn]. rewrite N.eqb_refl, app_nil_r. reflexivity.
  - destruct (index_slash s) as [j|] eqn:Ej; [|discriminate]. inversion H; subst. destruct (IH j eq_refl) as (L & N & F & S).
    repeat split; [cbn; lia | exact N | cbn [firstn index_slash]; rewrite E, F; reflexivity|].
    intros cur. cbn [split_slash firstn skipn]. rewrite E, S. cbn [rev]. rewrite <- app_assoc. reflexivity.
Qed.

Lemma split_length s : forall cur, length (split_slash cur s) = count_slash s + 1.
Proof.
  induction s as [|c s IH]; intros cur; [reflexivity|]. cbn [split_slash]. unfold count_slash in *. cbn [filter].
  destruct (N.eqb c c_slash); cbn [length]; rewrite IH; lia.
Qed.

Lemma join_split s : forall cur, join_slash (split_slash cur s) = rev cur ++ s.
Proof.
  induction s as [|c s IH]; intros cur; [cbn; rewrite app_nil_r; reflexivity|]. cbn [split_slash].
  destruct (N.eqb c c_slash) eqn:E.
  - apply N.eqb_eq in E. subst c. specialize (IH []). cbn [rev app] in IH.
    destruct (split_slash [] s) as [|x l] eqn:Es.
    + exfalso. pose proof (split_length s []) as L. rewrite Es in L. cbn in L. lia.
    + change (join_slash (rev cur :: x :: l)) with (rev cur ++ c_slash_s ++ join_slash (x :: l)). rewrite IH. reflexivity.
  - rewrite IH. cbn [rev]. rewrite <- app_assoc. reflexivity.
Qed.

Lemma count_slash_le s : count_slash s <= length s.
Proof. unfold count_slash. induction s as [|c s IH]; [cbn; lia|]. cbn [filter]. destruct (N.eqb c c_slash); cbn [length]; lia. Qed.

Lemma split_nonempty s cur : split_slash cur s <> [].
Proof. intros E. pose proof (split_length s cur) as L. rewrite E in L. cbn in L. lia. Qed.

Lemma skipn_add {A} (l : list A) : forall a b, skipn (a + b) l = skipn b (skipn a l).
Proof.
  induction l as [|x l IH]; intros a b; [destruct a, b; reflexivity|]. destruct a; [reflexivity|]. cbn [Nat.add skipn]. apply IH.
Qed.

(* what one step of matchNextSegment computes from the index *)
Lemma step_facts path next i : next <= length path -> index_slash (skipn next path) = Some i ->
  slice path next (next + i) = Some (firstn i (skipn next path)) /\
  next + i + 1 <= length path /\
  skipn (next + i + 1) path = skipn (S i) (skipn next path) /\
  slice path (next + i + 1 - 1) (length path) = Some (c_slash :: skipn (next + i + 1) path).
Proof.
  intros L H. destruct (index_slash_some _ _ H) as (Li & N & _ & _). rewrite skipn_length in Li.
  assert (E3 : skipn (next + i + 1) path = skipn (S i) (skipn next path)).
  { replace (next + i + 1) with (next + S i) by lia. apply skipn_add. }
  repeat split.
  - unfold slice. assert (E : Nat.leb next (next + i) && Nat.leb (next + i) (length path) = true).
    { apply andb_true_intro. split; apply Nat.leb_le; lia. }
    rewrite E. f_equal. f_equal. lia.
  - lia.
  - exact E3.
  - replace (next + i + 1 - 1) with (next + i) by lia. rewrite slice_from by lia. f_equal.
    rewrite skipn_add. destruct (skipn i (skipn next path)) as [|c r] eqn:Es.
    + exfalso. apply nth_error_split in N as (l1 & l2 & E & Ll). rewrite E in Es. rewrite <- Ll in Es. rewrite skipn_app, skipn_all, Nat.sub_diag in Es. discriminate.
    + assert (c = c_slash).
      { apply nth_error_split in N as (l1 & l2 & E & Ll). rewrite E in Es. rewrite <- Ll in Es. rewrite skipn_app, skipn_all, Nat.sub_diag in Es. cbn in Es. congruence. }
      subst c. f_equal. rewrite E3. replace (S i) with (i + 1) by lia. rewrite skipn_add, Es. reflexivity.
Qed.

(* ---------------- refinement ---------------- *)
Lemma join_slash_snoc taken x : taken <> [] -> join_slash (taken ++ [x]) = join_slash taken ++ [c_slash] ++ x.
Proof.
  induction taken as [|a taken IH]; intros H; [congruence|]. destruct taken as [|a2 taken'].
  - reflexivity.
  - change (join_slash ((a :: a2 :: taken') ++ [x])) with (a ++ c_slash_s ++ join_slash ((a2 :: taken') ++ [x])).
    rewrite IH by discriminate. change (join_slash (a :: a2 :: taken')) with (a ++ c_slash_s ++ join_slash (a2 :: taken')).
    unfold c_slash_s. rewrite <- !app_assoc. reflexivity.
Qed.

Lemma fallback_refines leaves path seg nx : 1 <= nx -> nx <= length path ->
  slice path (nx - 1) (length path) = Some (c_slash :: skipn nx path) ->
  fallback_idx leaves path seg nx = Ok (all_leaf_fallback hdr_ok leaves (seg :: split_slash [] (skipn nx path))).
Proof.
  intros N1 N2 Sb. unfold fallback_idx, all_leaf_fallback. destruct (rev leaves) as [|l r]; [reflexivity|].
  unfold leaf_all_idx. destruct (lkind l) as [| | |b cap]; try reflexivity.
  destruct (Nat.eqb_spec nx 0) as [E|_]; [lia|]. rewrite Sb, (slice_from path nx N2).
  set (tail := skipn nx path).
  assert (Ec : count_slash (c_slash :: tail) + 1 = length (seg :: split_slash [] tail)).
  { cbn [length]. rewrite split_length. unfold count_slash. cbn [filter]. rewrite N.eqb_refl. cbn [length]. lia. }
  rewrite Ec.
  assert (Ej : join_slash (seg :: split_slash [] tail) = seg ++ [c_slash] ++ tail).
  { destruct (split_slash [] tail) as [|x l0] eqn:Es; [exfalso; exact (split_nonempty tail [] Es)|].
    change (join_slash (seg :: x :: l0)) with (seg ++ c_slash_s ++ join_slash (x :: l0)). rewrite <- Es, join_split. reflexivity. }
  rewrite Ej. destruct (cap_ok cap (length (seg :: split_slash [] tail))); cbn [negb andb]; [|reflexivity].
  destruct (hdr_ok (lroute l)); reflexivity.
Qed.

Lemma grow_refines (mn : nat -> res (option (nat * params))) (mt : list str -> option (nat * params)) path b cap :
  (forall nx, nx <= length path -> mn nx = Ok (mt (split_slash [] (skipn nx path)))) ->
  forall fuel1 fuel2 taken next, taken <> [] -> next <= length path ->
  length (split_slash [] (skipn next path)) <= fuel1 -> length (split_slash [] (skipn next path)) <= fuel2 ->
  grow_idx mn path b cap fuel1 (length taken) (join_slash taken) next =
  Ok (grow mt b cap fuel2 taken (split_slash [] (skipn next path))).
Proof.
  intros Hm. induction fuel1 as [|fuel1 IH]; intros fuel2 taken next Ht Hn F1 F2.
  - exfalso. pose proof (split_nonempty (skipn next path) []) as X. destruct (split_slash [] (skipn next path)); [congruence | cbn in F1; lia].
  - destruct fuel2 as [|fuel2]; [exfalso; pose proof (split_nonempty (skipn next path) []) as X; destruct (split_slash [] (skipn next path)); [congruence | cbn in F2; lia]|].
    cbn [grow_idx grow]. destruct (cap_ok cap (length taken)); [|reflexivity].
    rewrite (Hm next Hn). destruct (mt (split_slash [] (skipn next path))) as [[id ps]|]; [reflexivity|].
    rewrite (slice_from path next Hn). destruct (index_slash (skipn next path)) as [i|] eqn:Ei.
    + destruct (step_facts path next i Hn Ei) as (S1 & L1 & E1 & _). rewrite S1.
      destruct (index_slash_some _ _ Ei) as (_ & _ & _ & Sp). specialize (Sp []). cbn [rev app] in Sp.
      rewrite Sp in F1, F2 |- *. rewrite <- E1 in *.
      destruct (split_slash [] (skipn (next + i + 1) path)) as [|y r'] eqn:Er; [exfalso; exact (split_nonempty _ [] Er)|].
      rewrite <- Er. rewrite <- (join_slash_snoc taken _ Ht).
      replace (S (length taken)) with (length (taken ++ [firstn i (skipn next path)])) by (rewrite app_length; cbn; lia).
      apply IH; [destruct taken; discriminate | exact L1 | rewrite Er; cbn [length] in *; lia | rewrite Er; cbn [length] in *; lia].
    + destruct (index_slash_none _ Ei) as [Sp _]. rewrite Sp. reflexivity.
Qed.

Theorem mnext_idx_refines : forall t path next, next <= length path ->
  mnext_idx t path next = Ok (mtree hdr_ok t (split_slash [] (skipn next path))).
Proof.
  induction t as [subs leaves IH] using tree_ind2. intros path next Hn.
  cbn [mnext_idx]. rewrite (slice_from path next Hn).
  destruct (index_slash (skipn next path)) as [i|] eqn:Ei.
  - destruct (step_facts path next i Hn Ei) as (S1 & L1 & E1 & Sb). rewrite S1.
    destruct (index_slash_some _ _ Ei) as (_ & _ & _ & Sp). specialize (Sp []). cbn [rev app] in Sp. rewrite Sp.
    set (seg := firstn i (skipn next path)). set (nx := next + i + 1) in *. rewrite <- E1.
    destruct (split_slash [] (skipn nx path)) as [|s2 rest2] eqn:Er; [exfalso; exact (split_nonempty _ [] Er)|].
    cbn [Tree.mtree]. rewrite <- Er.
    assert (FB : fallback_idx leaves path seg nx = Ok (all_leaf_fallback hdr_ok leaves (seg :: split_slash [] (skipn nx path)))).
    { apply fallback_refines; [unfold nx; lia | exact L1 | exact Sb]. }
    induction subs as [|[[tx k] st] subs IHs]; [exact FB|].
    inversion IH as [|? ? Hst Hsubs]; subst. cbn [snd] in Hst.
    destruct k as [lit|pcs|b|b cap].
    1-3: (destruct (seg_match _ seg); [|exact (IHs Hsubs)]; rewrite (Hst path nx L1);
          destruct (Tree.mtree hdr_ok st (split_slash [] (skipn nx path))) as [[id ps']|]; [reflexivity | exact (IHs Hsubs)]).
    assert (G : grow_idx (mnext_idx st path) path b cap (S (length path)) 1 seg nx =
                Ok (grow (Tree.mtree hdr_ok st) b cap (length (split_slash [] (skipn nx path))) [seg] (split_slash [] (skipn nx path)))).
    { apply (grow_refines (mnext_idx st path) (Tree.mtree hdr_ok st) path b cap (fun nx0 H0 => Hst path nx0 H0)
              (S (length path)) (length (split_slash [] (skipn nx path))) [seg] nx); try discriminate; auto.
      rewrite split_length. pose proof (count_slash_le (skipn nx path)) as X. rewrite skipn_length in X. lia. }
    rewrite G.
    match goal with |- _ = Ok (match ?g with _ => _ end) =>
      change g with (grow (Tree.mtree hdr_ok st) b cap (length (split_slash [] (skipn nx path))) [seg] (split_slash [] (skipn nx path))) end.
    destruct (grow (Tree.mtree hdr_ok st) b cap (length (split_slash [] (skipn nx path))) [seg] (split_slash [] (skipn nx path))) as [x|]; [reflexivity | exact FB].
  - destruct (index_slash_none _ Ei) as [Sp _]. rewrite Sp. reflexivity.
Qed.

(* NO PANIC, and the same answer as the segment-level matcher, for every tree and every byte string *)
Theorem match_idx_refines t path : match_idx t path = Ok (mtree hdr_ok t (segs_of path)).
Proof. unfold match_idx, segs_of. rewrite (mnext_idx_refines t (trim_slashes path) 0) by lia. reflexivity. Qed.

Corollary match_idx_no_panic t path : match_idx t path <> Panic.
Proof. rewrite match_idx_refines. discriminate. Qed.
End Idx.
