(* Root-to-leaf paths of the tree with their key texts, and the paths a registration adds - the
   key-carrying version of TreeAdd.add_segs_ok (two different segment texts may classify to the same
   kind, so statements about "the same route text" need the keys). *)
Require Import Base Regex Route Tree TreeProofs TreeWf TreeAdd.
From Coq Require Import Sorted.

Definition kstep := (str * kind)%type.

Fixpoint kpaths (t : tree) : list (list kstep * nat) :=
  match t with
  | Node subs leaves =>
      map (fun l => ([(ltext l, lkind l)], lroute l)) leaves ++
      (fix ps (l : list (str * kind * tree)) : list (list kstep * nat) :=
         match l with
         | [] => []
         | (tx, k, st) :: l' => map (fun p => ((tx, k) :: fst p, snd p)) (kpaths st) ++ ps l'
         end) subs
  end.

Definition ksub_paths :=
  fix ps (l : list (str * kind * tree)) : list (list kstep * nat) :=
    match l with
    | [] => []
    | (tx, k, st) :: l' => map (fun p => ((tx, k) :: fst p, snd p)) (kpaths st) ++ ps l'
    end.

Definition kleafpath (l : leaf) : list kstep * nat := ([(ltext l, lkind l)], lroute l).

Lemma kpaths_node subs leaves : kpaths (Node subs leaves) = map kleafpath leaves ++ ksub_paths subs.
Proof. reflexivity. Qed.

Lemma ksub_paths_in (l : list (str * kind * tree)) p :
  In p (ksub_paths l) <-> exists e q, In e l /\ In q (kpaths (stree e)) /\ p = ((skey e, skind e) :: fst q, snd q).
Proof.
  induction l as [|[[tx k] st] l IH]; cbn [ksub_paths].
  - split; [intros [] | intros (e & q & [] & _)].
  - fold (ksub_paths l). rewrite in_app_iff, IH, in_map_iff. split.
    + intros [(q & <- & Hq)|(e & q & He & Hq & ->)].
      * exists (tx, k, st), q. repeat split; [left; reflexivity | exact Hq].
      * exists e, q. repeat split; [right; exact He | exact Hq].
    + intros (e & q & [<-|He] & Hq & ->).
      * left. exists q. split; [reflexivity | exact Hq].
      * right. exists e, q. auto.
Qed.

Lemma kpaths_in subs leaves p :
  In p (kpaths (Node subs leaves)) <->
  (exists l, In l leaves /\ p = kleafpath l) \/
  (exists e q, In e subs /\ In q (kpaths (stree e)) /\ p = ((skey e, skind e) :: fst q, snd q)).
Proof.
  rewrite kpaths_node, in_app_iff, in_map_iff, ksub_paths_in.
  split; (intros [H|H]; [left | right; exact H]).
  - destruct H as (l & <- & Hl). exists l. auto.
  - destruct H as (l & Hl & ->). exists l. auto.
Qed.

(* forgetting the keys gives the paths of TreeProofs *)
Definition forget (p : list kstep * nat) : list kind * nat := (map snd (fst p), snd p).

Lemma paths_forget : forall t, paths t = map forget (kpaths t).
Proof.
  induction t as [subs leaves IH] using tree_ind2. rewrite paths_node, kpaths_node, map_app. f_equal.
  - rewrite map_map. reflexivity.
  - induction subs as [|[[tx k] st] subs IHs]; [reflexivity|]. inversion IH as [|? ? H1 H2]; subst.
    cbn [sub_paths sub_paths_with ksub_paths]. fold (sub_paths subs). fold (ksub_paths subs).
    rewrite map_app, (IHs H2). f_equal. cbn [snd] in H1. rewrite H1, !map_map. reflexivity.
Qed.

Section KAdd.
Variable compile : str -> option re.
Variable good : list elem -> Prop.
Hypothesis good_nil : good [].
Hypothesis render_inj : forall a b, good a -> good b -> render_elems a = render_elems b -> a = b.

Notation wfo := (wfo compile good).
Notation leaf_origin := (leaf_origin compile good).
Notation subs_wfo := (subs_wfo compile good).
Local Notation wfo_node := (TreeAdd.wfo_node compile good).
Local Notation wfo_empty := (TreeAdd.wfo_empty compile good).
Local Notation key_of_inj := (TreeAdd.key_of_inj good render_inj).
Local Notation classify_leaf_nil := (TreeAdd.classify_leaf_nil compile).

Definition kwith_rid (rid : nat) (l : list (list kstep)) : list (list kstep * nat) := map (fun ks => (ks, rid)) l.

(* the key-carrying paths a registration adds *)
Fixpoint knews (root : bool) (anc : list str) (aa : bool) (segs : list segment) : option (list (list kstep)) :=
  match segs with
  | [] => None
  | [s] =>
      match classify compile true anc false (elems s) with
      | None => None
      | Some k => Some (if optional s && root then [[(seg_key (mkseg false []), KStatic [])]; [(seg_key s, k)]] else [[(seg_key s, k)]])
      end
  | s :: ((s2 :: rest2) as rest) =>
      match classify compile false anc aa (elems s) with
      | None => None
      | Some k =>
          match knews false (ctx_anc anc k) (ctx_aa aa k) rest with
          | None => None
          | Some l =>
              let short := match rest2 with
                           | [] => if optional s2
                                   then match classify compile true anc false (elems s) with Some kl => Some [[(seg_key s, kl)]] | None => None end
                                   else Some []
                           | _ => Some []
                           end in
              match short with Some sh => Some (map (cons (seg_key s, k)) l ++ sh) | None => None end
          end
      end
  end.

Lemma knews_cons2 root anc aa s s2 rest2 :
  knews root anc aa (s :: s2 :: rest2) =
  match classify compile false anc aa (elems s) with
  | None => None
  | Some k =>
      match knews false (ctx_anc anc k) (ctx_aa aa k) (s2 :: rest2) with
      | None => None
      | Some l =>
          let short := match rest2 with
                       | [] => if optional s2
                               then match classify compile true anc false (elems s) with Some kl => Some [[(seg_key s, kl)]] | None => None end
                               else Some []
                       | _ => Some []
                       end in
          match short with Some sh => Some (map (cons (seg_key s, k)) l ++ sh) | None => None end
      end
  end.
Proof. reflexivity. Qed.

Lemma add_leaf_kpaths anc ls s rid ls' : leaves_ok ls -> Forall (leaf_origin anc) ls -> good (elems s) ->
  add_leaf compile anc ls s rid = Some ls' ->
  leaves_ok ls' /\ Forall (leaf_origin anc) ls' /\
  exists k, classify compile true anc false (elems s) = Some k /\
            forall p, In p (map kleafpath ls') <-> p = ([(seg_key s, k)], rid) \/ In p (map kleafpath ls).
Proof.
  intros L O G H. destruct (add_leaf_ok compile anc ls s rid ls' L H) as (L' & k & C & -> & NI).
  split; [exact L'|]. split.
  - apply Forall_forall. intros l Hl. apply ins_in in Hl as [->|Hl]; [|rewrite Forall_forall in O; apply O; exact Hl].
    exists (elems s). repeat split; auto.
  - exists k. split; [exact C|]. intros p. apply (ins_perm_map lrank kleafpath).
Qed.

Theorem add_segs_kok : forall fuel root t anc aa segs rid t',
  wfo anc aa t -> Forall (fun s => good (elems s)) segs ->
  add_segs compile fuel root t anc aa segs rid = Some t' ->
  wfo anc aa t' /\
  exists l, knews root anc aa segs = Some l /\
            forall p, In p (kpaths t') <-> In p (kpaths t) \/ In p (kwith_rid rid l).
Proof.
  induction fuel as [|fuel IH]; intros root t anc aa segs rid t' W G H; [discriminate|].
  destruct t as [sb ls]. apply wfo_node in W as (SO & LO & OL & OS).
  cbn [add_segs] in H. destruct segs as [|s [|s2 rest2]]; [discriminate| |].
  - (* the last segment: a leaf *)
    inversion G as [|? ? Gs _]; subst.
    destruct (optional s && root) eqn:OR.
    + destruct (str_eqb (seg_key s) (seg_key (mkseg false []))) eqn:EK.
      { apply str_eqb_eq in EK. pose proof EK as EK0. rewrite !seg_key_key_of in EK. cbn [elems] in EK.
        assert (Es : elems s = []) by (apply key_of_inj; auto).
        destruct (add_leaf compile anc ls (mkseg false []) rid) as [ls1|] eqn:A1; [|discriminate]. inversion H; subst; clear H.
        destruct (add_leaf_kpaths anc ls (mkseg false []) rid ls1 LO OL good_nil A1) as (L1 & O1 & k0 & C0 & P1).
        cbn [elems] in C0. rewrite classify_leaf_nil in C0. inversion C0; subst k0.
        split; [apply wfo_node; auto|].
        cbn [knews]. rewrite Es, classify_leaf_nil, OR. eexists. split; [reflexivity|].
        intros p. rewrite !kpaths_node, !in_app_iff, P1. rewrite EK0. cbn [kwith_rid map In]. intuition. }
      destruct (add_leaf compile anc ls (mkseg false []) rid) as [ls1|] eqn:A1; [|discriminate].
      destruct (add_leaf compile anc ls1 s rid) as [ls2|] eqn:A2; [|discriminate]. inversion H; subst; clear H.
      destruct (add_leaf_kpaths anc ls (mkseg false []) rid ls1 LO OL good_nil A1) as (L1 & O1 & k0 & C0 & P1).
      destruct (add_leaf_kpaths anc ls1 s rid ls2 L1 O1 Gs A2) as (L2 & O2 & k & C & P2).
      cbn [elems] in C0. rewrite classify_leaf_nil in C0. inversion C0; subst k0.
      split; [apply wfo_node; auto|].
      cbn [knews]. rewrite C, OR. eexists. split; [reflexivity|].
      intros p. rewrite !kpaths_node, !in_app_iff, P2, P1. cbn [kwith_rid map In]. intuition.
    + destruct (add_leaf compile anc ls s rid) as [ls'|] eqn:A; [|discriminate]. inversion H; subst; clear H.
      destruct (add_leaf_kpaths anc ls s rid ls' LO OL Gs A) as (L' & O' & k & C & P).
      split; [apply wfo_node; auto|].
      cbn [knews]. rewrite C, OR. eexists. split; [reflexivity|].
      intros p. rewrite !kpaths_node, !in_app_iff, P. cbn [kwith_rid map In]. intuition.
  - (* an inner segment: a sub-tree *)
    inversion G as [|? ? Gs Grest]; subst.
    destruct (optional s) eqn:Os; [discriminate|].
    set (text := render_segment s) in *.
    assert (Etext : text = key_of (elems s)) by (apply render_segment_nonopt; exact Os).
    assert (Eseg : seg_key s = text) by (rewrite Etext; reflexivity).
    set (last_opt := match rest2 with [] => optional s2 | _ => false end) in *.
    (* the short-form leaf, when the next segment is the optional last one *)
    assert (SHORT : forall ls', (if last_opt then add_leaf compile anc ls s rid else Some ls) = Some ls' ->
       leaves_ok ls' /\ Forall (leaf_origin anc) ls' /\
       exists sh, (match rest2 with
                   | [] => if optional s2
                           then match classify compile true anc false (elems s) with Some kl => Some [[(seg_key s, kl)]] | None => None end
                           else Some []
                   | _ => Some []
                   end) = Some sh /\
                  forall p, In p (map kleafpath ls') <-> In p (map kleafpath ls) \/ In p (kwith_rid rid sh)).
    { intros ls' Hs. subst last_opt. destruct rest2 as [|s3 rest3].
      - destruct (optional s2).
        + destruct (add_leaf_kpaths anc ls s rid ls' LO OL Gs Hs) as (L' & O' & kl & Cl & Pl).
          split; [exact L'|]. split; [exact O'|]. rewrite Cl. eexists. split; [reflexivity|].
          intros p. rewrite Pl. cbn. intuition.
        + inversion Hs; subst. split; [exact LO|]. split; [exact OL|]. eexists. split; [reflexivity|]. intros p. cbn. intuition.
      - inversion Hs; subst. split; [exact LO|]. split; [exact OL|]. eexists. split; [reflexivity|]. intros p. cbn. intuition. }
    destruct (find (fun e => str_eqb (fst (fst e)) text) sb) as [[[tx k] st]|] eqn:F.
    + (* the sub-tree exists: descend *)
      destruct (find_key_in text sb _ F) as [Hin Hkey]. cbn [skey fst] in Hkey. subst tx.
      unfold subs_wfo in OS. rewrite Forall_forall in OS. destruct (OS _ Hin) as [(es & Ges & Ek & Ck) Wst].
      cbn [skey skind stree fst snd] in *.
      assert (Ees : es = elems s) by (apply key_of_inj; auto; congruence). subst es.
      destruct (add_segs compile fuel false st (kind_binds k ++ anc) (aa || is_all k) (s2 :: rest2) rid) as [st'|] eqn:R; [|discriminate].
      destruct (if last_opt then add_leaf compile anc ls s rid else Some ls) as [ls'|] eqn:Sh; [|discriminate].
      inversion H; subst; clear H.
      destruct (IH false st _ _ (s2 :: rest2) rid st' Wst Grest R) as (Wst' & l & Nl & Pst).
      destruct (SHORT ls' eq_refl) as (L' & O' & sh & Esh & Psh).
      destruct SO as (S1 & N1 & T1 & K1).
      pose proof (upd_sub_in text st' sb (text, k, st) N1 F) as UI. cbn [skey skind fst snd] in UI.
      split.
      * apply wfo_node. split; [|split; [exact L'|split; [exact O'|]]].
        -- repeat split.
           ++ eapply sorted_map_eq; [apply upd_sub_ranks | exact S1].
           ++ rewrite upd_sub_keys. exact N1.
           ++ eapply top_is_last_map_eq; [apply upd_sub_ranks | exact T1].
           ++ apply Forall_forall. intros e He. apply UI in He as [->|[He _]]; [|rewrite Forall_forall in K1; apply K1; exact He].
              rewrite Forall_forall in K1. apply (K1 _ Hin).
        -- unfold subs_wfo. apply Forall_forall. intros e He. apply UI in He as [->|[He _]]; [|apply OS; exact He].
           cbn [skind stree fst snd]. split; [exists (elems s); auto | exact Wst'].
      * rewrite knews_cons2, Ck. unfold ctx_anc, ctx_aa in *. rewrite Nl. cbv zeta. rewrite Esh. eexists. split; [reflexivity|].
        rewrite Eseg. intros p. rewrite !kpaths_in. unfold kwith_rid. rewrite map_app, in_app_iff, map_map. cbn [skey skind fst snd].
        split.
        -- intros [(lf & Hl & ->)|(e & q & He & Hq & ->)].
           ++ assert (X : In (kleafpath lf) (map kleafpath ls')) by (apply in_map; exact Hl).
              apply Psh in X as [X|X]; [left; left; apply in_map_iff in X as (l0 & E0 & H0); exists l0; auto | right; right; exact X].
           ++ apply UI in He as [->|[He Ne]].
              ** cbn [stree skind fst snd] in *. apply Pst in Hq as [Hq|Hq].
                 --- left. right. exists (text, k, st), q. auto.
                 --- right. left. unfold kwith_rid in Hq. apply in_map_iff in Hq as (ks & <- & Hks). apply in_map_iff. exists ks. auto.
              ** left. right. exists e, q. auto.
        -- intros [[(lf & Hl & ->)|(e & q & He & Hq & ->)]|[X|X]].
           ++ left. assert (Y : In (kleafpath lf) (map kleafpath ls')) by (apply Psh; left; apply in_map; exact Hl).
              apply in_map_iff in Y as (l0 & E0 & H0). exists l0. auto.
           ++ right. destruct (str_eq_dec (skey e) text) as [Ek2|Nk2].
              ** (* the entry that was replaced: its old paths survive *)
                 assert (e = (text, k, st)).
                 { destruct (find_key_in text sb _ F) as [_ _].
                   clear - N1 He Hin Ek2. induction sb as [|x sb IHsb]; [contradiction|]. cbn [map] in N1. inversion N1; subst.
                   destruct He as [->|He], Hin as [Hx|Hin]; auto.
                   - exfalso. apply H1. apply in_map_iff. exists (text, k, st). auto.
                   - exfalso. apply H1. apply in_map_iff. exists e. subst x. auto. }
                 subst e. exists (text, k, st'), (fst q, snd q). cbn [stree skind fst snd].
                 split; [apply UI; left; reflexivity|]. split; [|reflexivity].
                 apply Pst. left. destruct q; exact Hq.
              ** exists e, q. split; [apply UI; right; auto | auto].
           ++ right. apply in_map_iff in X as (ks & <- & Hks). exists (text, k, st'), (ks, rid). cbn [stree skind fst snd].
              split; [apply UI; left; reflexivity|]. split; [|reflexivity]. apply Pst. right. unfold kwith_rid. apply (in_map (fun ks0 : list kstep => (ks0, rid))). exact Hks.
           ++ left. assert (Y : In p (map kleafpath ls')) by (apply Psh; right; exact X).
              apply in_map_iff in Y as (l0 & E0 & H0). exists l0. auto.
    + (* a new sub-tree *)
      destruct (classify compile false anc aa (elems s)) as [k|] eqn:Ck; [|discriminate].
      destruct (is_all k && has_all_sub sb) eqn:Al; [discriminate|].
      destruct (add_segs compile fuel false empty (kind_binds k ++ anc) (aa || is_all k) (s2 :: rest2) rid) as [st'|] eqn:R; [|discriminate].
      destruct (if last_opt then add_leaf compile anc ls s rid else Some ls) as [ls'|] eqn:Sh; [|discriminate].
      inversion H; subst; clear H.
      destruct (IH false empty _ _ (s2 :: rest2) rid st' (wfo_empty _ _) Grest R) as (Wst' & l & Nl & Pst).
      destruct (SHORT ls' eq_refl) as (L' & O' & sh & Esh & Psh).
      destruct SO as (S1 & N1 & T1 & K1).
      pose proof (find_key_none text sb F) as NK.
      rewrite ins_sub_ins.
      split.
      * apply wfo_node. split; [|split; [exact L'|split; [exact O'|]]].
        -- repeat split.
           ++ apply ins_sorted. exact S1.
           ++ apply ins_nodup; [exact N1 | exact NK].
           ++ apply ins_top_is_last; [apply srank_le4 | exact S1 | exact T1|].
              unfold is_top, srank. cbn [skind fst snd]. rewrite rank4_all. intros Ia. rewrite Ia in Al. cbn in Al.
              rewrite <- has_all_sub_last. exact Al.
           ++ apply Forall_forall. intros e He. apply ins_in in He as [->|He]; [|rewrite Forall_forall in K1; apply K1; exact He].
              cbn [skey skind fst snd]. intros lit ->. rewrite Etext. unfold key_of. eapply classify_static. exact Ck.
        -- unfold subs_wfo. apply Forall_forall. intros e He. apply ins_in in He as [->|He].
           ++ cbn [skind stree fst snd]. split; [exists (elems s); auto | exact Wst'].
           ++ unfold subs_wfo in OS. rewrite Forall_forall in OS. apply OS. exact He.
      * rewrite knews_cons2, Ck. unfold ctx_anc, ctx_aa in *. rewrite Nl. cbv zeta. rewrite Esh. eexists. split; [reflexivity|].
        rewrite Eseg. intros p. rewrite !kpaths_in. unfold kwith_rid. rewrite map_app, in_app_iff, map_map. cbn [skey skind fst snd].
        split.
        -- intros [(lf & Hl & ->)|(e & q & He & Hq & ->)].
           ++ assert (X : In (kleafpath lf) (map kleafpath ls')) by (apply in_map; exact Hl).
              apply Psh in X as [X|X]; [left; left; apply in_map_iff in X as (l0 & E0 & H0); exists l0; auto | right; right; exact X].
           ++ apply ins_in in He as [->|He].
              ** cbn [stree skind fst snd] in *. apply Pst in Hq as [Hq|Hq]; [destruct Hq|].
                 right. left. unfold kwith_rid in Hq. apply in_map_iff in Hq as (ks & <- & Hks). apply in_map_iff. exists ks. auto.
              ** left. right. exists e, q. auto.
        -- intros [[(lf & Hl & ->)|(e & q & He & Hq & ->)]|[X|X]].
           ++ left. assert (Y : In (kleafpath lf) (map kleafpath ls')) by (apply Psh; left; apply in_map; exact Hl).
              apply in_map_iff in Y as (l0 & E0 & H0). exists l0. auto.
           ++ right. exists e, q. split; [apply ins_in; right; exact He | auto].
           ++ right. apply in_map_iff in X as (ks & <- & Hks). exists (text, k, st'), (ks, rid). cbn [stree skind fst snd].
              split; [apply ins_in; left; reflexivity|]. split; [|reflexivity]. apply Pst. right. unfold kwith_rid. apply (in_map (fun ks0 : list kstep => (ks0, rid))). exact Hks.
           ++ left. assert (Y : In p (map kleafpath ls')) by (apply Psh; right; exact X).
              apply in_map_iff in Y as (l0 & E0 & H0). exists l0. auto.
Qed.
End KAdd.
