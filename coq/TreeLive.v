(* Every sub-tree that registration creates ends in at least one leaf: no dangling inner node. *)
Require Import Base Regex Route Tree TreeProofs TreeWf TreeAdd TreeKeys.

Fixpoint live (t : tree) : Prop :=
  match t with
  | Node subs _ =>
      (fix f (l : list (str * kind * tree)) : Prop :=
         match l with [] => True | e :: l' => (kpaths (snd e) <> [] /\ live (snd e)) /\ f l' end) subs
  end.

Lemma live_node subs leaves :
  live (Node subs leaves) <-> Forall (fun e => kpaths (stree e) <> [] /\ live (stree e)) subs.
Proof.
  cbn [live]. split; intros H.
  - induction subs as [|e subs IH]; [constructor|]. destruct H as [H1 H2]. constructor; [exact H1 | apply IH; exact H2].
  - induction subs as [|e subs IH]; [exact I|]. inversion H; subst. split; [assumption | apply IH; assumption].
Qed.

Lemma live_empty : live empty.
Proof. exact I. Qed.

Section Live.
Variable compile : str -> option re.
Variable good : list elem -> Prop.
Hypothesis good_nil : good [].
Hypothesis render_inj : forall a b, good a -> good b -> render_elems a = render_elems b -> a = b.

Lemma knews_nonempty : forall segs root anc aa l, knews compile root anc aa segs = Some l -> l <> [].
Proof.
  induction segs as [|s segs IH]; intros root anc aa l N; [discriminate|]. destruct segs as [|s2 rest2].
  - cbn [knews] in N. destruct (classify compile true anc false (elems s)); [|discriminate]. inversion N.
    destruct (optional s && root); discriminate.
  - rewrite knews_cons2 in N. destruct (classify compile false anc aa (elems s)) as [k|]; [|discriminate].
    destruct (knews compile false _ _ (s2 :: rest2)) as [l0|] eqn:N0; [|discriminate]. cbv zeta in N.
    destruct (match rest2 with [] => _ | _ :: _ => _ end) as [sh|]; [|discriminate]. inversion N.
    specialize (IH _ _ _ _ N0). destruct l0; [congruence | discriminate].
Qed.

Lemma add_segs_live : forall fuel root t anc aa segs rid t',
  wfo compile good anc aa t -> Forall (fun s => good (elems s)) segs -> live t ->
  add_segs compile fuel root t anc aa segs rid = Some t' -> live t'.
Proof.
  induction fuel as [|fuel IH]; intros root t anc aa segs rid t' W G L H; [discriminate|].
  destruct t as [sb ls]. pose proof W as W0. apply wfo_node in W as (SO & LO & OL & OS).
  cbn [add_segs] in H. destruct segs as [|s [|s2 rest2]]; [discriminate| |].
  - destruct (optional s && root).
    + destruct (str_eqb (seg_key s) (seg_key (mkseg false []))).
      { destruct (add_leaf compile anc ls (mkseg false []) rid) as [ls1|]; [|discriminate]. inversion H; subst. exact L. }
      destruct (add_leaf compile anc ls (mkseg false []) rid) as [ls1|]; [|discriminate].
      destruct (add_leaf compile anc ls1 s rid) as [ls2|]; [|discriminate]. inversion H; subst. exact L.
    + destruct (add_leaf compile anc ls s rid) as [ls'|]; [|discriminate]. inversion H; subst. exact L.
  - inversion G as [|? ? Gs Grest]; subst.
    destruct (optional s) eqn:Os; [discriminate|].
    set (text := render_segment s) in *.
    apply live_node in L. rewrite Forall_forall in L.
    destruct (find (fun e => str_eqb (fst (fst e)) text) sb) as [[[tx k] st]|] eqn:F.
    + destruct (find_key_in text sb _ F) as [Hin Hkey]. cbn [skey fst] in Hkey. subst tx.
      unfold subs_wfo in OS. rewrite Forall_forall in OS. destruct (OS _ Hin) as [_ Wst]. cbn [skind stree fst snd] in Wst.
      destruct (add_segs compile fuel false st (kind_binds k ++ anc) (aa || is_all k) (s2 :: rest2) rid) as [st'|] eqn:R; [|discriminate].
      destruct (if match rest2 with [] => optional s2 | _ => false end then add_leaf compile anc ls s rid else Some ls) as [ls'|]; [|discriminate].
      inversion H; subst; clear H.
      apply live_node. apply Forall_forall. intros e He. destruct SO as (_ & N1 & _ & _).
      apply (upd_sub_in text st' sb (text, k, st) N1 F) in He as [->|[He _]]; [|apply L; exact He].
      cbn [stree snd]. destruct (L _ Hin) as [_ Lst]. cbn [stree snd] in Lst.
      split; [| exact (IH false st _ _ _ rid st' Wst Grest Lst R)].
      destruct (add_segs_kok compile good good_nil render_inj _ _ _ _ _ _ _ _ Wst Grest R) as (_ & l & Nl & P).
      pose proof (knews_nonempty _ _ _ _ _ Nl) as Hl. destruct l as [|f l']; [congruence|].
      intros E. assert (X : In (f, rid) (kpaths st')) by (apply P; right; left; reflexivity). rewrite E in X. destruct X.
    + destruct (classify compile false anc aa (elems s)) as [k|] eqn:Ck; [|discriminate].
      destruct (is_all k && has_all_sub sb); [discriminate|].
      destruct (add_segs compile fuel false empty (kind_binds k ++ anc) (aa || is_all k) (s2 :: rest2) rid) as [st'|] eqn:R; [|discriminate].
      destruct (if match rest2 with [] => optional s2 | _ => false end then add_leaf compile anc ls s rid else Some ls) as [ls'|]; [|discriminate].
      inversion H; subst; clear H.
      rewrite ins_sub_ins. apply live_node. apply Forall_forall. intros e He.
      apply ins_in in He as [->|He]; [|apply L; exact He].
      cbn [stree snd]. split; [| exact (IH false empty _ _ _ rid st' (wfo_empty _ _ _ _) Grest live_empty R)].
      destruct (add_segs_kok compile good good_nil render_inj _ _ _ _ _ _ _ _ (wfo_empty compile good _ _) Grest R) as (_ & l & Nl & P).
      pose proof (knews_nonempty _ _ _ _ _ Nl) as Hl. destruct l as [|f l']; [congruence|].
      intros E. assert (X : In (f, rid) (kpaths st')) by (apply P; right; left; reflexivity). rewrite E in X. destruct X.
Qed.
End Live.
