(* Registration keeps the ordering invariant of TreePriority: children sorted by (rank, least route id
   below), leaves by (rank, route id) - provided route ids are handed out in increasing order. *)
Require Import Base Regex Route Tree TreeProofs TreeWf TreeAdd TreeKeys TreeLive TreePriority.
From Coq Require Import Sorted.

Lemma minl_spec l : forall x, In (minl x l) (x :: l) /\ forall y, In y (x :: l) -> minl x l <= y.
Proof.
  induction l as [|z l IH]; intros x; cbn [minl fold_left].
  - split; [left; reflexivity | intros y [<-|[]]; lia].
  - destruct (IH (Nat.min x z)) as [I1 I2]. fold (minl (Nat.min x z) l) in *. split.
    + destruct I1 as [E|I1]; [|right; right; exact I1]. rewrite <- E. destruct (Nat.min_spec x z) as [[_ ->]|[_ ->]]; [left | right; left]; reflexivity.
    + intros y [<-|[<-|Hy]]; [specialize (I2 _ (or_introl eq_refl)); lia | specialize (I2 _ (or_introl eq_refl)); lia | apply I2; right; exact Hy].
Qed.

Lemma minrid_spec t : kpaths t <> [] -> In (minrid t) (rids t) /\ forall r, In r (rids t) -> minrid t <= r.
Proof.
  intros H. unfold minrid, rids in *. destruct (map snd (kpaths t)) as [|x l] eqn:E; [destruct (kpaths t); [congruence | discriminate]|].
  apply minl_spec.
Qed.

Lemma minrid_unique t m : kpaths t <> [] -> In m (rids t) -> (forall r, In r (rids t) -> m <= r) -> minrid t = m.
Proof. intros H Hm Hl. destruct (minrid_spec t H) as [A B]. specialize (B m Hm). specialize (Hl _ A). lia. Qed.

(* adding paths of a larger route id does not change the least id of a non-empty tree *)
Lemma minrid_add st st' rid (l : list (list kstep)) :
  kpaths st <> [] -> (forall p, In p (kpaths st) -> snd p < rid) ->
  (forall p, In p (kpaths st') <-> In p (kpaths st) \/ In p (kwith_rid rid l)) ->
  minrid st' = minrid st.
Proof.
  intros Hne Hold P. destruct (minrid_spec st Hne) as [A B].
  assert (Hne' : kpaths st' <> []).
  { destruct (kpaths st) as [|p ps] eqn:E; [congruence|]. intros X. assert (Y : In p (kpaths st')) by (apply P; left; left; reflexivity). rewrite X in Y. destruct Y. }
  apply minrid_unique; [exact Hne'| |].
  - unfold rids in *. apply in_map_iff in A as (p & E & Hp). apply in_map_iff. exists p. split; [exact E | apply P; left; exact Hp].
  - intros r Hr. unfold rids in Hr. apply in_map_iff in Hr as (p & <- & Hp). apply P in Hp as [Hp|Hp].
    + apply B. unfold rids. apply in_map. exact Hp.
    + unfold kwith_rid in Hp. apply in_map_iff in Hp as (f & <- & _). cbn [snd].
      unfold rids in A. apply in_map_iff in A as (q & E & Hq). specialize (Hold q Hq). lia.
Qed.

(* a tree all of whose paths carry one route id *)
Lemma minrid_new st' rid (l : list (list kstep)) : l <> [] ->
  (forall p, In p (kpaths st') <-> In p (kpaths empty) \/ In p (kwith_rid rid l)) -> minrid st' = rid.
Proof.
  intros Hl P. destruct l as [|f l']; [congruence|].
  assert (Hin : In (f, rid) (kpaths st')) by (apply P; right; left; reflexivity).
  apply minrid_unique.
  - intros X. rewrite X in Hin. destruct Hin.
  - unfold rids. apply in_map_iff. exists (f, rid). auto.
  - intros r Hr. unfold rids in Hr. apply in_map_iff in Hr as (p & <- & Hp). apply P in Hp as [[]|Hp].
    unfold kwith_rid in Hp. apply in_map_iff in Hp as (g & <- & _). cbn. lia.
Qed.

(* ---------- stable insertion and lexicographic order ---------- *)
Section InsLex.
Context {A : Type}.
Variable ord : A -> nat * nat.
Let rk (a : A) := fst (ord a).

Lemma ins_lex_lt x l :
  StronglySorted (fun a b => lex_lt (ord a) (ord b)) l -> (forall y, In y l -> snd (ord y) < snd (ord x)) ->
  StronglySorted (fun a b => lex_lt (ord a) (ord b)) (ins rk x l).
Proof.
  induction 1 as [|z l S IH F]; intros H; cbn [ins]; [repeat constructor|].
  rewrite Forall_forall in F. destruct (Nat.ltb (rk x) (rk z)) eqn:E.
  - apply Nat.ltb_lt in E. constructor; [constructor; [exact S | apply Forall_forall; exact F]|].
    apply Forall_forall. intros y [<-|Hy]; [left; exact E|]. left. specialize (F y Hy). unfold lex_lt, rk in *. lia.
  - apply Nat.ltb_ge in E. constructor; [apply IH; intros y Hy; apply H; right; exact Hy|].
    apply Forall_forall. intros y Hy. apply ins_in in Hy as [->|Hy]; [|apply F; exact Hy].
    unfold lex_lt, rk in *. specialize (H z (or_introl eq_refl)). lia.
Qed.

Lemma ins_lex_le x l :
  StronglySorted (fun a b => lex_le (ord a) (ord b)) l -> (forall y, In y l -> snd (ord y) <= snd (ord x)) ->
  StronglySorted (fun a b => lex_le (ord a) (ord b)) (ins rk x l).
Proof.
  induction 1 as [|z l S IH F]; intros H; cbn [ins]; [repeat constructor|].
  rewrite Forall_forall in F. destruct (Nat.ltb (rk x) (rk z)) eqn:E.
  - apply Nat.ltb_lt in E. constructor; [constructor; [exact S | apply Forall_forall; exact F]|].
    apply Forall_forall. intros y [<-|Hy]; [left; exact E|]. left. specialize (F y Hy). unfold lex_le, rk in *. lia.
  - apply Nat.ltb_ge in E. constructor; [apply IH; intros y Hy; apply H; right; exact Hy|].
    apply Forall_forall. intros y Hy. apply ins_in in Hy as [->|Hy]; [|apply F; exact Hy].
    unfold lex_le, rk in *. specialize (H z (or_introl eq_refl)). lia.
Qed.
End InsLex.

Lemma ssorted_map_eq {A B} (f : A -> B) (R : B -> B -> Prop) (l l' : list A) :
  map f l' = map f l -> StronglySorted (fun a b => R (f a) (f b)) l -> StronglySorted (fun a b => R (f a) (f b)) l'.
Proof.
  revert l'. induction l as [|x l IH]; intros [|y l'] E S; try discriminate; [constructor|].
  cbn in E. inversion E as [[E1 E2]]. inversion S as [|? ? S' F]; subst. constructor; [apply IH; assumption|].
  rewrite Forall_forall in *. intros z Hz. assert (H : In (f z) (map f l')) by (apply in_map; exact Hz). rewrite E2 in H.
  apply in_map_iff in H as (w & Ew & Hw). rewrite E1, <- Ew. apply F. exact Hw.
Qed.

Section Ord.
Variable compile : str -> option re.
Variable good : list elem -> Prop.
Hypothesis good_nil : good [].
Hypothesis render_inj : forall a b, good a -> good b -> render_elems a = render_elems b -> a = b.

Lemma add_leaf_ordered anc ls s rid ls' :
  leaves_ok ls -> StronglySorted (fun a b => lex_le (leaf_ord a) (leaf_ord b)) ls -> (forall l, In l ls -> lroute l <= rid) ->
  add_leaf compile anc ls s rid = Some ls' ->
  StronglySorted (fun a b => lex_le (leaf_ord a) (leaf_ord b)) ls' /\ (forall l, In l ls' -> lroute l <= rid).
Proof.
  intros L S B H. destruct (add_leaf_ok compile anc ls s rid ls' L H) as (_ & k & _ & -> & _). split.
  - apply (ins_lex_le leaf_ord); [exact S|]. intros y Hy. cbn. apply B. exact Hy.
  - intros l Hl. apply ins_in in Hl as [->|Hl]; [cbn; lia | apply B; exact Hl].
Qed.

Lemma leaves_rid_bound subs ls rid : (forall p, In p (kpaths (Node subs ls)) -> snd p < rid) -> forall l, In l ls -> lroute l <= rid.
Proof. intros F l Hl. assert (X : In (kleafpath l) (kpaths (Node subs ls))) by (apply kpaths_in; left; eauto). specialize (F _ X). cbn in F. lia. Qed.

Theorem add_segs_ordered : forall fuel root t anc aa segs rid t',
  wfo compile good anc aa t -> live t -> ordered t -> Forall (fun s => good (elems s)) segs ->
  (forall p, In p (kpaths t) -> snd p < rid) ->
  add_segs compile fuel root t anc aa segs rid = Some t' -> ordered t'.
Proof.
  induction fuel as [|fuel IH]; intros root t anc aa segs rid t' W L O G Fr H; [discriminate|].
  destruct t as [sb ls]. pose proof W as W0. apply wfo_node in W as (SO & LO & OL & OS).
  apply ordered_node in O as (OSb & OLs & ORec).
  pose proof (leaves_rid_bound sb ls rid Fr) as LB.
  cbn [add_segs] in H. destruct segs as [|s [|s2 rest2]]; [discriminate| |].
  - destruct (optional s && root).
    + destruct (str_eqb (seg_key s) (seg_key (mkseg false []))).
      { destruct (add_leaf compile anc ls (mkseg false []) rid) as [ls1|] eqn:A1; [|discriminate]. inversion H; subst.
        apply ordered_node. split; [exact OSb|]. split; [|exact ORec]. exact (proj1 (add_leaf_ordered _ _ _ _ _ LO OLs LB A1)). }
      destruct (add_leaf compile anc ls (mkseg false []) rid) as [ls1|] eqn:A1; [|discriminate].
      destruct (add_leaf compile anc ls1 s rid) as [ls2|] eqn:A2; [|discriminate]. inversion H; subst.
      destruct (add_leaf_ordered _ _ _ _ _ LO OLs LB A1) as [S1 B1].
      destruct (add_leaf_ok compile anc ls _ rid ls1 LO A1) as (L1 & _).
      apply ordered_node. split; [exact OSb|]. split; [|exact ORec]. exact (proj1 (add_leaf_ordered _ _ _ _ _ L1 S1 B1 A2)).
    + destruct (add_leaf compile anc ls s rid) as [ls'|] eqn:A; [|discriminate]. inversion H; subst.
      apply ordered_node. split; [exact OSb|]. split; [|exact ORec]. exact (proj1 (add_leaf_ordered _ _ _ _ _ LO OLs LB A)).
  - inversion G as [|? ? Gs Grest]; subst.
    destruct (optional s) eqn:Os; [discriminate|].
    set (text := render_segment s) in *.
    apply live_node in L. rewrite Forall_forall in L.
    (* the leaves, with or without the short form *)
    assert (SHORT : forall ls', (if match rest2 with [] => optional s2 | _ => false end then add_leaf compile anc ls s rid else Some ls) = Some ls' ->
              StronglySorted (fun a b => lex_le (leaf_ord a) (leaf_ord b)) ls').
    { intros ls' E. destruct (match rest2 with [] => optional s2 | _ => false end).
      - exact (proj1 (add_leaf_ordered _ _ _ _ _ LO OLs LB E)).
      - inversion E; subst. exact OLs. }
    destruct (find (fun e => str_eqb (fst (fst e)) text) sb) as [[[tx k] st]|] eqn:F.
    + destruct (find_key_in text sb _ F) as [Hin Hkey]. cbn [skey fst] in Hkey. subst tx.
      unfold subs_wfo in OS. rewrite Forall_forall in OS. destruct (OS _ Hin) as [_ Wst]. cbn [skind stree fst snd] in Wst.
      destruct (L _ Hin) as [Lne Lst]. cbn [stree snd] in Lne, Lst.
      destruct (add_segs compile fuel false st (kind_binds k ++ anc) (aa || is_all k) (s2 :: rest2) rid) as [st'|] eqn:R; [|discriminate].
      destruct (if match rest2 with [] => optional s2 | _ => false end then add_leaf compile anc ls s rid else Some ls) as [ls'|] eqn:Sh; [|discriminate].
      inversion H; subst; clear H.
      assert (Frst : forall p, In p (kpaths st) -> snd p < rid).
      { intros p Hp. apply (Fr ((text, k) :: fst p, snd p)). apply kpaths_in. right. exists (text, k, st), p. auto. }
      destruct (add_segs_kok compile good good_nil render_inj _ _ _ _ _ _ _ _ Wst Grest R) as (_ & l & Nl & P).
      pose proof (minrid_add st st' rid l Lne Frst P) as Emin.
      rewrite Forall_forall in ORec. pose proof (ORec _ Hin) as Ost. cbn [stree snd] in Ost.
      pose proof (IH false st _ _ _ rid st' Wst Lst Ost Grest Frst R) as Ost'.
      destruct SO as (_ & N1 & _ & _).
      apply ordered_node. split; [|split; [exact (SHORT ls' eq_refl)|]].
      * apply (ssorted_map_eq sub_ord lex_lt sb); [|exact OSb].
        clear - Emin F N1. induction sb as [|e sb IHsb]; [reflexivity|]. cbn [find upd_sub] in *.
        destruct (str_eqb (fst (fst e)) text) eqn:E.
        -- inversion F; subst e. cbn [map]. f_equal. unfold sub_ord, srank, skind, stree. cbn [fst snd]. rewrite Emin. reflexivity.
        -- cbn [map]. f_equal. inversion N1; subst. apply IHsb; assumption.
      * apply Forall_forall. intros e He. apply (upd_sub_in text st' sb (text, k, st) N1 F) in He as [->|[He _]]; [exact Ost' | apply ORec; exact He].
    + destruct (classify compile false anc aa (elems s)) as [k|] eqn:Ck; [|discriminate].
      destruct (is_all k && has_all_sub sb); [discriminate|].
      destruct (add_segs compile fuel false empty (kind_binds k ++ anc) (aa || is_all k) (s2 :: rest2) rid) as [st'|] eqn:R; [|discriminate].
      destruct (if match rest2 with [] => optional s2 | _ => false end then add_leaf compile anc ls s rid else Some ls) as [ls'|] eqn:Sh; [|discriminate].
      inversion H; subst; clear H.
      destruct (add_segs_kok compile good good_nil render_inj _ _ _ _ _ _ _ _ (wfo_empty compile good _ _) Grest R) as (_ & l & Nl & P).
      pose proof (minrid_new st' rid l (knews_nonempty compile _ _ _ _ _ Nl) P) as Emin.
      assert (Ost' : ordered st').
      { apply (IH false empty (kind_binds k ++ anc) (aa || is_all k) (s2 :: rest2) rid st' (wfo_empty _ _ _ _) live_empty); auto.
        - apply ordered_node. repeat split; constructor.
        - intros p []. }
      rewrite ins_sub_ins. apply ordered_node. split; [|split; [exact (SHORT ls' eq_refl)|]].
      * change srank with (fun e : str * kind * tree => fst (sub_ord e)). apply (ins_lex_lt sub_ord); [exact OSb|].
        intros y Hy. unfold sub_ord. cbn [snd stree]. rewrite Emin.
        destruct (L _ Hy) as [Lne _]. destruct (minrid_spec (stree y) Lne) as [A _]. unfold rids in A.
        apply in_map_iff in A as (q & E & Hq). rewrite <- E.
        apply (Fr ((skey y, skind y) :: fst q, snd q)). apply kpaths_in. right. exists y, q. auto.
      * apply Forall_forall. intros e He. apply ins_in in He as [->|He]; [exact Ost' | rewrite Forall_forall in ORec; apply ORec; exact He].
Qed.
End Ord.
