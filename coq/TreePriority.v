(* The documented priority (C01).  [cands] lists, in the order the matcher explores them, ALL the ways a
   request can be matched by routes whose header constraints hold, each with its priority key: per
   tree depth (fallback, rank of the segment style, birth, captured), where birth is the least route id
   below the child (= the registration that created it) and captured the number of segments a match-all
   took.  The matcher returns the first candidate; under the ordering invariant of registration the keys
   strictly increase, so the first candidate is the one with the least key. *)
Require Import Base Regex Route Tree TreeProofs TreeWf TreeKeys.
From Coq Require Import Sorted.

Definition keyel := (nat * nat * nat * nat)%type.
Definition key := list keyel.

Definition kel_lt (a b : keyel) : Prop :=
  let '(a1, a2, a3, a4) := a in let '(b1, b2, b3, b4) := b in
  a1 < b1 \/ (a1 = b1 /\ (a2 < b2 \/ (a2 = b2 /\ (a3 < b3 \/ (a3 = b3 /\ a4 < b4))))).

Inductive key_lt : key -> key -> Prop :=
| kl_here x y a b : kel_lt x y -> key_lt (x :: a) (y :: b)
| kl_next x a b : key_lt a b -> key_lt (x :: a) (x :: b).

Lemma key_lt_app acc x y a b : kel_lt x y -> key_lt (acc ++ x :: a) (acc ++ y :: b).
Proof. intros H. induction acc as [|z acc IH]; cbn; [constructor; exact H | apply kl_next; exact IH]. Qed.

Lemma key_lt_app_l acc a b : key_lt a b -> key_lt (acc ++ a) (acc ++ b).
Proof. intros H. induction acc as [|z acc IH]; cbn; [exact H | apply kl_next; exact IH]. Qed.

(* least route id below a tree *)
Definition minl (x : nat) (l : list nat) : nat := fold_left Nat.min l x.
Definition rids (t : tree) : list nat := map snd (kpaths t).
Definition minrid (t : tree) : nat := match rids t with [] => 0 | x :: l => minl x l end.

Section P.
Variable hdr_ok : nat -> bool.
Notation mtree := (Tree.mtree hdr_ok).

Fixpoint leaf_cands (ls : list leaf) (s : str) (acc : key) : list (key * nat) :=
  match ls with
  | [] => []
  | l :: ls' =>
      (match seg_match (lkind l) s with
       | Some _ => if hdr_ok (lroute l) then [(acc ++ [(0, rank (lkind l), lroute l, 0)], lroute l)] else []
       | None => []
       end) ++ leaf_cands ls' s acc
  end.

Definition fallback_cands (ls : list leaf) (segs : list str) (acc : key) : list (key * nat) :=
  match rev ls with
  | l :: _ =>
      match lkind l with
      | KAll b cap => if cap_ok cap (length segs) && hdr_ok (lroute l)
                      then [(acc ++ [(1, 4, lroute l, length segs)], lroute l)] else []
      | _ => []
      end
  | [] => []
  end.

Section GrowAll.
Variable mc : list str -> key -> list (key * nat).
Variable cap : Z.
Variable bk : nat.
Variable acc : key.
Fixpoint grow_all (fuel : nat) (taken : list str) (r : list str) {struct fuel} : list (key * nat) :=
  match fuel with
  | O => []
  | S fuel' =>
      if cap_ok cap (length taken) then
        mc r (acc ++ [(0, 4, bk, length taken)]) ++
        match r with
        | x :: ((_ :: _) as r') => grow_all fuel' (taken ++ [x]) r'
        | _ => []
        end
      else []
  end.
End GrowAll.

Fixpoint cands (t : tree) (segs : list str) (acc : key) {struct t} : list (key * nat) :=
  match t with
  | Node subs leaves =>
      match segs with
      | [] => []
      | [s] => leaf_cands leaves s acc
      | s :: rest =>
          let fix go (l : list (str * kind * tree)) : list (key * nat) :=
              match l with
              | [] => fallback_cands leaves segs acc
              | (_, KAll b cap, st) :: _ =>
                  grow_all (cands st) cap (minrid st) acc (length rest) [s] rest ++ fallback_cands leaves segs acc
              | (_, k, st) :: l' =>
                  (match seg_match k s with
                   | Some _ => cands st rest (acc ++ [(0, rank k, minrid st, 0)])
                   | None => []
                   end) ++ go l'
              end in
          go subs
      end
  end.

(* ---------------- A: the matcher returns the first candidate ---------------- *)
Definition first_is (o : option (nat * params)) (l : list (key * nat)) : Prop :=
  match o with
  | Some (rid, _) => exists k rest, l = (k, rid) :: rest
  | None => l = []
  end.

Lemma first_is_app_some o a b : first_is o a -> o <> None -> first_is o (a ++ b).
Proof. destruct o as [[rid ps]|]; [|congruence]. intros (k & rest & ->) _. exists k, (rest ++ b). reflexivity. Qed.

Lemma first_leaf_first ls s acc : first_is (first_leaf hdr_ok ls s) (leaf_cands ls s acc).
Proof.
  induction ls as [|l ls IH]; [reflexivity|]. cbn [first_leaf leaf_cands].
  destruct (seg_match (lkind l) s) as [q|]; [|exact IH].
  destruct (hdr_ok (lroute l)); [|exact IH]. cbn. eauto.
Qed.

Lemma fallback_first ls segs acc : first_is (all_leaf_fallback hdr_ok ls segs) (fallback_cands ls segs acc).
Proof.
  unfold all_leaf_fallback, fallback_cands. destruct (rev ls) as [|l r]; [reflexivity|].
  destruct (lkind l); try reflexivity. destruct (cap_ok cap (length segs) && hdr_ok (lroute l)); cbn; eauto.
Qed.

Lemma grow_first (mt : list str -> option (nat * params)) mc b cap bk acc :
  (forall r a, first_is (mt r) (mc r a)) ->
  forall fuel taken r, first_is (grow mt b cap fuel taken r) (grow_all mc cap bk acc fuel taken r).
Proof.
  intros Hm. induction fuel as [|fuel IH]; intros taken r; [reflexivity|]. cbn [grow grow_all].
  destruct (cap_ok cap (length taken)); [|reflexivity].
  pose proof (Hm r (acc ++ [(0, 4, bk, length taken)])) as H.
  destruct (mt r) as [[id ps]|].
  - cbn in H |- *. destruct H as (k & rest & ->). cbn [app]. eauto.
  - cbn in H. rewrite H. cbn [app]. destruct r as [|x [|y r']]; try reflexivity. apply IH.
Qed.

Theorem mtree_first : forall t segs acc, first_is (mtree t segs) (cands t segs acc).
Proof.
  induction t as [subs leaves IH] using tree_ind2. intros segs acc.
  destruct segs as [|s [|s2 rest2]]; [reflexivity | apply first_leaf_first |].
  cbn [Tree.mtree cands]. set (rest := s2 :: rest2) in *.
  induction subs as [|[[tx k] st] subs IHs]; [apply fallback_first|].
  inversion IH as [|? ? Hst Hsubs]; subst. cbn [snd] in Hst.
  destruct k as [lit|pcs|b|b cap].
  1-3: (match goal with |- context [seg_match ?kk ?ss] =>
          destruct (seg_match kk ss) as [q|]; [|exact (IHs Hsubs)];
          pose proof (Hst rest (acc ++ [(0, rank kk, minrid st, 0)])) as H end;
        destruct (Tree.mtree hdr_ok st rest) as [[id ps']|];
        [cbn [first_is] in H |- *; destruct H as (k0 & r0 & ->); cbn [app]; eauto | cbn [first_is] in H; rewrite H; exact (IHs Hsubs)]).
  pose proof (grow_first (Tree.mtree hdr_ok st) (cands st) b cap (minrid st) acc Hst (length rest) [s] rest) as H.
  destruct (grow (Tree.mtree hdr_ok st) b cap (length rest) [s] rest) as [[id ps]|].
  - cbn [first_is] in H |- *. destruct H as (k0 & r0 & ->). cbn [app]. eauto.
  - cbn [first_is] in H. rewrite H. apply fallback_first.
Qed.

(* every candidate's key extends the accumulated prefix by at least one element *)
Definition extends (acc : key) (k : key) : Prop := exists x rest, k = acc ++ x :: rest.

Lemma extends_more acc y k : extends (acc ++ [y]) k -> extends acc k.
Proof. intros (x & rest & ->). exists y, (x :: rest). rewrite <- app_assoc. reflexivity. Qed.

Lemma grow_all_extends mc cap bk acc : (forall r a c, In c (mc r a) -> extends a (fst c)) ->
  forall fuel taken r c, In c (grow_all mc cap bk acc fuel taken r) -> extends acc (fst c).
Proof.
  intros Hm. induction fuel as [|fuel IHf]; intros taken r c H; [destruct H|].
  cbn [grow_all] in H. destruct (cap_ok cap (length taken)); [|destruct H].
  apply in_app_or in H as [H|H]; [apply Hm in H; eapply extends_more; exact H|].
  destruct r as [|x [|y r']]; try destruct H. eapply IHf. exact H.
Qed.

Lemma cands_extends : forall t segs acc c, In c (cands t segs acc) -> extends acc (fst c).
Proof.
  induction t as [subs leaves IH] using tree_ind2. intros segs acc c H.
  destruct segs as [|s [|s2 rest2]]; [destruct H| |].
  - cbn [cands] in H. induction leaves as [|l ls IHl]; [destruct H|]. cbn [leaf_cands] in H. apply in_app_or in H as [H|H]; [|exact (IHl H)].
    destruct (seg_match (lkind l) s); [|destruct H]. destruct (hdr_ok (lroute l)); [|destruct H]. destruct H as [<-|[]]. cbn. eexists _, []. reflexivity.
  - cbn [cands] in H. set (rest := s2 :: rest2) in *.
    assert (FB : In c (fallback_cands leaves (s :: rest) acc) -> extends acc (fst c)).
    { unfold fallback_cands. destruct (rev leaves) as [|l r]; [intros []|]. destruct (lkind l); try (intros []).
      destruct (cap_ok cap (length (s :: rest)) && hdr_ok (lroute l)); [|intros []]. intros [<-|[]]. eexists _, []. reflexivity. }
    induction subs as [|[[tx k] st] subs IHs]; [exact (FB H)|].
    inversion IH as [|? ? Hst Hsubs]; subst. cbn [snd] in Hst.
    destruct k as [lit|pcs|b|b cap].
    1-3: (apply in_app_or in H as [H|H]; [|exact (IHs Hsubs H)];
          destruct (seg_match _ s); [|destruct H]; apply Hst in H; eapply extends_more; exact H).
    apply in_app_or in H as [H|H]; [|exact (FB H)].
    exact (grow_all_extends (cands st) cap (minrid st) acc Hst _ _ _ _ H).
Qed.

(* ---------------- B: under the ordering invariant the keys strictly increase ---------------- *)
Definition lex_lt (a b : nat * nat) : Prop := fst a < fst b \/ (fst a = fst b /\ snd a < snd b).
Definition sub_ord (e : str * kind * tree) : nat * nat := (srank e, minrid (stree e)).
Definition leaf_ord (l : leaf) : nat * nat := (lrank l, lroute l).
(* leaves: the two forms of a route whose only segment is optional sit in one node with the same route id *)
Definition lex_le (a b : nat * nat) : Prop := fst a < fst b \/ (fst a = fst b /\ snd a <= snd b).

Fixpoint ordered (t : tree) : Prop :=
  match t with
  | Node subs leaves =>
      StronglySorted (fun a b => lex_lt (sub_ord a) (sub_ord b)) subs /\
      StronglySorted (fun a b => lex_le (leaf_ord a) (leaf_ord b)) leaves /\
      (fix f (l : list (str * kind * tree)) : Prop := match l with [] => True | e :: l' => ordered (snd e) /\ f l' end) subs
  end.

Lemma ordered_node subs leaves : ordered (Node subs leaves) <->
  StronglySorted (fun a b => lex_lt (sub_ord a) (sub_ord b)) subs /\
  StronglySorted (fun a b => lex_le (leaf_ord a) (leaf_ord b)) leaves /\
  Forall (fun e => ordered (stree e)) subs.
Proof.
  cbn [ordered]. split; intros (A & B & C); (split; [exact A|]; split; [exact B|]); clear A B.
  - induction subs as [|e subs IH]; [constructor|]. destruct C as [C1 C2]. constructor; [exact C1 | apply IH; exact C2].
  - induction subs as [|e subs IH]; [exact I|]. inversion C; subst. split; [assumption | apply IH; assumption].
Qed.

Definition key_le (a b : key) : Prop := key_lt a b \/ a = b.
Definition ksorted (l : list (key * nat)) : Prop := StronglySorted (fun a b => key_le (fst a) (fst b)) l.

Lemma ksorted_app a b : ksorted a -> ksorted b -> (forall x y, In x a -> In y b -> key_le (fst x) (fst y)) -> ksorted (a ++ b).
Proof.
  intros Sa Sb H. induction Sa as [|x a Sa IH F]; [exact Sb|]. cbn [app]. constructor.
  - apply IH. intros u v Hu Hv. apply H; [right; exact Hu | exact Hv].
  - apply Forall_app. split; [exact F|]. apply Forall_forall. intros y Hy. apply H; [left; reflexivity | exact Hy].
Qed.

(* the key element at the current depth *)
Definition at_depth (acc : key) (c : key * nat) (x : keyel) : Prop := exists rest, fst c = acc ++ x :: rest.

Lemma at_depth_ext acc x c : extends (acc ++ [x]) (fst c) -> at_depth acc c x.
Proof. intros (y & rest & E). exists (y :: rest). rewrite E, <- app_assoc. reflexivity. Qed.

Lemma at_depth_lt acc c1 c2 x1 x2 : at_depth acc c1 x1 -> at_depth acc c2 x2 -> kel_lt x1 x2 -> key_lt (fst c1) (fst c2).
Proof. intros (r1 & ->) (r2 & ->) H. apply key_lt_app. exact H. Qed.

Lemma lex_kel a b n m : lex_lt a b -> kel_lt (0, fst a, snd a, n) (0, fst b, snd b, m).
Proof.
  unfold lex_lt, kel_lt. intros [H|[H1 H2]]; right; (split; [reflexivity|]).
  - left. exact H.
  - right. split; [exact H1|]. left. exact H2.
Qed.

Lemma leaf_cands_sorted ls s acc : StronglySorted (fun a b => lex_le (leaf_ord a) (leaf_ord b)) ls ->
  ksorted (leaf_cands ls s acc) /\
  forall c, In c (leaf_cands ls s acc) -> exists l, In l ls /\ at_depth acc c (0, lrank l, lroute l, 0).
Proof.
  induction 1 as [|l ls S IH F]; [split; [constructor | intros c []]|]. destruct IH as [IH1 IH2]. cbn [leaf_cands].
  set (one := match seg_match (lkind l) s with
              | Some _ => if hdr_ok (lroute l) then [(acc ++ [(0, rank (lkind l), lroute l, 0)], lroute l)] else []
              | None => [] end).
  assert (O : forall c, In c one -> at_depth acc c (0, lrank l, lroute l, 0)).
  { subst one. intros c Hc. destruct (seg_match (lkind l) s); [|destruct Hc]. destruct (hdr_ok (lroute l)); [|destruct Hc].
    destruct Hc as [<-|[]]. exists []. reflexivity. }
  split.
  - apply ksorted_app; [|exact IH1|].
    + subst one. destruct (seg_match (lkind l) s); [|constructor]. destruct (hdr_ok (lroute l)); repeat constructor.
    + intros x y Hx Hy. destruct (IH2 y Hy) as (l2 & Hl2 & D2). rewrite Forall_forall in F. specialize (F l2 Hl2).
      destruct (O x Hx) as [r1 E1]. destruct D2 as [r2 E2].
      assert (R1 : r1 = []).
      { subst one. destruct (seg_match (lkind l) s); [|destruct Hx]. destruct (hdr_ok (lroute l)); [|destruct Hx]. destruct Hx as [<-|[]].
        cbn [fst] in E1. apply app_inv_head in E1. inversion E1. reflexivity. }
      subst r1.
      assert (R2 : r2 = []).
      { clear - Hy E2. induction ls as [|l0 ls IHl]; [destruct Hy|]. cbn [leaf_cands] in Hy. apply in_app_or in Hy as [Hy|Hy]; [|exact (IHl Hy)].
        destruct (seg_match (lkind l0) s); [|destruct Hy]. destruct (hdr_ok (lroute l0)); [|destruct Hy]. destruct Hy as [<-|[]].
        cbn [fst] in E2. apply app_inv_head in E2. inversion E2. reflexivity. }
      subst r2. rewrite E1, E2. unfold lex_le, leaf_ord in F. cbn [fst snd] in F.
      destruct F as [F|[F1 F2]].
      * left. apply key_lt_app. unfold kel_lt. right. split; [reflexivity|]. left. exact F.
      * apply Nat.lt_eq_cases in F2 as [F2| ->].
        -- left. apply key_lt_app. unfold kel_lt. right. split; [reflexivity|]. right. split; [exact F1|]. left. exact F2.
        -- right. rewrite F1. reflexivity.
  - intros c Hc. apply in_app_or in Hc as [Hc|Hc]; [exists l; split; [left; reflexivity | exact (O c Hc)]|].
    destruct (IH2 c Hc) as (l2 & Hl2 & D). exists l2. split; [right; exact Hl2 | exact D].
Qed.

Lemma fallback_cands_shape ls segs acc c : In c (fallback_cands ls segs acc) -> exists rid n, at_depth acc c (1, 4, rid, n).
Proof.
  unfold fallback_cands. destruct (rev ls) as [|l r]; [intros []|]. destruct (lkind l); try (intros []).
  destruct (cap_ok cap (length segs) && hdr_ok (lroute l)); [|intros []]. intros [<-|[]]. exists (lroute l), (length segs), []. reflexivity.
Qed.

Lemma fallback_cands_sorted ls segs acc : ksorted (fallback_cands ls segs acc).
Proof.
  unfold fallback_cands. destruct (rev ls) as [|l r]; [constructor|]. destruct (lkind l); try constructor.
  destruct (cap_ok cap (length segs) && hdr_ok (lroute l)); repeat constructor.
Qed.

Lemma grow_all_sorted mc cap bk acc :
  (forall r a, ksorted (mc r a)) -> (forall r a c, In c (mc r a) -> extends a (fst c)) ->
  forall fuel taken r, ksorted (grow_all mc cap bk acc fuel taken r) /\
    forall c, In c (grow_all mc cap bk acc fuel taken r) -> exists n, length taken <= n /\ at_depth acc c (0, 4, bk, n).
Proof.
  intros Hs He. induction fuel as [|fuel IH]; intros taken r; [split; [constructor | intros c []]|].
  cbn [grow_all]. destruct (cap_ok cap (length taken)); [|split; [constructor | intros c []]].
  set (tail := match r with x :: ((_ :: _) as r') => grow_all mc cap bk acc fuel (taken ++ [x]) r' | _ => [] end).
  assert (T : ksorted tail /\ forall c, In c tail -> exists n, S (length taken) <= n /\ at_depth acc c (0, 4, bk, n)).
  { subst tail. destruct r as [|x [|y r']]; try (split; [constructor | intros c []]).
    destruct (IH (taken ++ [x]) (y :: r')) as [I1 I2]. split; [exact I1|]. intros c Hc. destruct (I2 c Hc) as (n & Hn & D).
    rewrite app_length in Hn. cbn in Hn. exists n. split; [lia | exact D]. }
  destruct T as [T1 T2]. split.
  - apply ksorted_app; [apply Hs | exact T1 |]. intros x y Hx Hy. destruct (T2 y Hy) as (n & Hn & D). left.
    apply (at_depth_lt acc x y (0, 4, bk, length taken) (0, 4, bk, n)); [apply at_depth_ext; exact (He _ _ _ Hx) | exact D |].
    unfold kel_lt. right. split; [reflexivity|]. right. split; [reflexivity|]. right. split; [reflexivity | lia].
  - intros c Hc. apply in_app_or in Hc as [Hc|Hc].
    + exists (length taken). split; [lia | apply at_depth_ext; exact (He _ _ _ Hc)].
    + destruct (T2 c Hc) as (n & Hn & D). exists n. split; [lia | exact D].
Qed.

Definition depth_ok (acc : key) (subs : list (str * kind * tree)) (c : key * nat) : Prop :=
  (exists rid n, at_depth acc c (1, 4, rid, n)) \/ (exists e n, In e subs /\ at_depth acc c (0, srank e, minrid (stree e), n)).

Lemma block_step acc (e0 : str * kind * tree) subs blk tail :
  ksorted blk -> (forall c, In c blk -> at_depth acc c (0, srank e0, minrid (stree e0), 0)) ->
  ksorted tail -> (forall c, In c tail -> depth_ok acc subs c) ->
  Forall (fun e => lex_lt (sub_ord e0) (sub_ord e)) subs ->
  ksorted (blk ++ tail) /\ forall c, In c (blk ++ tail) -> depth_ok acc (e0 :: subs) c.
Proof.
  intros B1 B2 I1 I2 FS. split.
  - apply ksorted_app; [exact B1 | exact I1 |]. intros x y Hx Hy. left. destruct (I2 y Hy) as [(rid & n & Dy)|(e & n & He & Dy)].
    + apply (at_depth_lt acc x y _ _ (B2 x Hx) Dy). unfold kel_lt. left. lia.
    + apply (at_depth_lt acc x y _ _ (B2 x Hx) Dy). rewrite Forall_forall in FS. exact (lex_kel (sub_ord e0) (sub_ord e) 0 n (FS e He)).
  - intros c Hc. apply in_app_or in Hc as [Hc|Hc].
    + right. exists e0, 0. split; [left; reflexivity | exact (B2 c Hc)].
    + destruct (I2 c Hc) as [L|(e & n & He & Dy)]; [left; exact L | right; exists e, n; split; [right; exact He | exact Dy]].
Qed.

Theorem cands_sorted : forall t, ordered t -> forall segs acc, ksorted (cands t segs acc).
Proof.
  induction t as [subs leaves IH] using tree_ind2. intros O segs acc.
  apply ordered_node in O as (OS & OL & OR).
  destruct segs as [|s [|s2 rest2]]; [constructor | exact (proj1 (leaf_cands_sorted leaves s acc OL)) |].
  cbn [cands]. set (rest := s2 :: rest2) in *.
  (* the children in order; every candidate of the tail starts, at this depth, with the element of one
     of the remaining children or of the fallback leaf *)
  assert (G : ksorted ((fix go (l : list (str * kind * tree)) : list (key * nat) :=
              match l with
              | [] => fallback_cands leaves (s :: rest) acc
              | (_, KAll b cap, st) :: _ => grow_all (cands st) cap (minrid st) acc (length rest) [s] rest ++ fallback_cands leaves (s :: rest) acc
              | (_, k, st) :: l' => (match seg_match k s with Some _ => cands st rest (acc ++ [(0, rank k, minrid st, 0)]) | None => [] end) ++ go l'
              end) subs) /\
            forall c, In c ((fix go (l : list (str * kind * tree)) : list (key * nat) :=
              match l with
              | [] => fallback_cands leaves (s :: rest) acc
              | (_, KAll b cap, st) :: _ => grow_all (cands st) cap (minrid st) acc (length rest) [s] rest ++ fallback_cands leaves (s :: rest) acc
              | (_, k, st) :: l' => (match seg_match k s with Some _ => cands st rest (acc ++ [(0, rank k, minrid st, 0)]) | None => [] end) ++ go l'
              end) subs) ->
              depth_ok acc subs c).
  { induction subs as [|[[tx k] st] subs IHs].
    - split; [apply fallback_cands_sorted | intros c Hc; left; eapply fallback_cands_shape; exact Hc].
    - inversion IH as [|? ? Hst Hsubs]; subst. inversion OS as [|? ? OS' FS]; subst. inversion OR as [|? ? Ost OR']; subst.
      cbn [snd stree] in Hst, Ost. specialize (IHs Hsubs OS' OR'). destruct IHs as [I1 I2].
      assert (FBhi : forall x y n, at_depth acc x (0, srank (tx, k, st), minrid st, n) -> In y (fallback_cands leaves (s :: rest) acc) -> key_lt (fst x) (fst y)).
      { intros x y n Dx Hy. destruct (fallback_cands_shape _ _ _ _ Hy) as (rid & m & Dy). apply (at_depth_lt acc x y _ _ Dx Dy). unfold kel_lt. left. lia. }
      destruct k as [lit|pcs|b|b cap].
      1-3: (apply (block_step acc (tx, _, st) subs); [| | exact I1 | exact I2 | exact FS];
            [ destruct (seg_match _ s); [apply (Hst Ost) | constructor]
            | intros c Hc; destruct (seg_match _ s); [|destruct Hc]; apply at_depth_ext; exact (cands_extends st _ _ c Hc) ]).
      destruct (grow_all_sorted (cands st) cap (minrid st) acc (fun r a => Hst Ost r a) (cands_extends st) (length rest) [s] rest) as [G1 G2].
      split.
      + apply ksorted_app; [exact G1 | apply fallback_cands_sorted |]. intros x y Hx Hy. destruct (G2 x Hx) as (n & _ & Dx).
        left. exact (FBhi x y n Dx Hy).
      + intros c Hc. apply in_app_or in Hc as [Hc|Hc].
        * right. destruct (G2 c Hc) as (n & _ & D). exists (tx, KAll b cap, st), n. split; [left; reflexivity | exact D].
        * left. eapply fallback_cands_shape. exact Hc. }
  exact (proj1 G).
Qed.

(* the matcher's answer is the candidate with the least key *)
Theorem mtree_least t segs : ordered t ->
  match mtree t segs with
  | Some (rid, _) => exists k rest, cands t segs [] = (k, rid) :: rest /\ forall c, In c rest -> key_le k (fst c)
  | None => cands t segs [] = []
  end.
Proof.
  intros O. pose proof (mtree_first t segs []) as F. pose proof (cands_sorted t O segs []) as S.
  destruct (mtree t segs) as [[rid ps]|]; [|exact F]. destruct F as (k & rest & E). exists k, rest. split; [exact E|].
  rewrite E in S. inversion S as [|? ? _ Fa]; subst. rewrite Forall_forall in Fa. exact Fa.
Qed.
End P.
