(* The priority theorem for trees built by registrations with increasing route ids. *)
Require Import Base Regex Route Tree TreeProofs TreeWf TreeAdd TreeKeys TreeLive TreePriority TreeOrdered TreeComplete TreeDispatch TreeCands.
From Coq Require Import Sorted.

Section Top.
Variable compile : str -> option re.
Variable good : list elem -> Prop.
Hypothesis good_nil : good [].
Hypothesis render_inj : forall a b, good a -> good b -> render_elems a = render_elems b -> a = b.

(* route ids are handed out in registration order *)
Definition increasing (rs : list (nat * route)) : Prop := StronglySorted lt (map fst rs).

Lemma reg_all_ordered : forall rs t t',
  wfo compile good [] false t -> live t -> ordered t ->
  (forall p rid, In p (kpaths t) -> In rid (map fst rs) -> snd p < rid) -> increasing rs ->
  (forall rid r, In (rid, r) rs -> route_good good r) ->
  reg_all compile t rs = Some t' -> wfo compile good [] false t' /\ live t' /\ ordered t'.
Proof.
  induction rs as [|[rid r] rs IH]; intros t t' W L O B Inc G H; cbn [reg_all] in H.
  - inversion H; subst. auto.
  - destruct (add_route compile t r rid) as [t1|] eqn:A; [|discriminate]. unfold add_route in A.
    pose proof (G rid r (or_introl eq_refl)) as Gr.
    assert (Fr : forall p, In p (kpaths t) -> snd p < rid) by (intros p Hp; apply (B p rid Hp); left; reflexivity).
    destruct (add_segs_kok compile good good_nil render_inj _ _ _ _ _ _ _ _ W Gr A) as (W1 & l & Nl & P1).
    pose proof (add_segs_live compile good good_nil render_inj _ _ _ _ _ _ _ _ W Gr L A) as L1.
    pose proof (add_segs_ordered compile good good_nil render_inj _ _ _ _ _ _ _ _ W L O Gr Fr A) as O1.
    inversion Inc as [|? ? Inc' FI]; subst.
    apply (IH t1 t' W1 L1 O1); auto.
    + intros p rid' Hp Hr. apply P1 in Hp as [Hp|Hp].
      * apply (B p rid' Hp). right. exact Hr.
      * unfold kwith_rid in Hp. apply in_map_iff in Hp as (f & <- & _). cbn [snd]. rewrite Forall_forall in FI. exact (FI rid' Hr).
    + intros rid' r' Hin. apply (G rid' r'). right. exact Hin.
Qed.

(* PRIORITY.  For every list of accepted registrations (ids in registration order), every request
   path and header predicate: the matcher returns the first element of [cands] - the list of ALL
   matches by routes whose constraints hold, in exploration order - and its key is the least. *)
Theorem priority hdr_ok rs t segs :
  (forall rid r, In (rid, r) rs -> route_good good r) -> increasing rs ->
  reg_all compile empty rs = Some t ->
  match mtree hdr_ok t segs with
  | Some (rid, _) => exists k rest, cands hdr_ok t segs [] = (k, rid) :: rest /\ forall c, In c rest -> key_le k (fst c)
  | None => cands hdr_ok t segs [] = []
  end.
Proof.
  intros G Inc H.
  destruct (reg_all_ordered rs empty t (wfo_empty compile good [] false) live_empty) as (_ & _ & O); auto.
  - apply ordered_node. repeat split; constructor.
  - intros p rid [].
  - apply mtree_least. exact O.
Qed.

(* ... and the candidates are exactly the matches: route [rid] has a candidate iff one of its registered
   forms admits the segments and its constraints hold.  So the matcher's answer is the match with the
   least key among ALL matches of ALL registered routes. *)
Theorem priority_full hdr_ok rs t segs :
  (forall rid r, In (rid, r) rs -> route_good good r) -> increasing rs ->
  reg_all compile empty rs = Some t ->
  (forall rid, (exists k, In (k, rid) (cands hdr_ok t segs [])) <->
               exists r l ks ps, In (rid, r) rs /\ forms compile r = Some l /\ In ks l /\ adm ks segs ps /\ hdr_ok rid = true) /\
  match mtree hdr_ok t segs with
  | Some (rid, _) => exists k, In (k, rid) (cands hdr_ok t segs []) /\
                               forall c, In c (cands hdr_ok t segs []) -> key_le k (fst c)
  | None => cands hdr_ok t segs [] = []
  end.
Proof.
  intros G Inc H.
  destruct (reg_all_ok compile good good_nil render_inj rs empty t (wfo_empty compile good [] false) G H) as (W & P).
  split.
  - intros rid. split.
    + intros (k & Hk). destruct (cands_sound hdr_ok t segs [] (k, rid) Hk) as (ks & ps & HIn & A & Hd). cbn [snd] in *.
      apply P in HIn as [[]|(rid' & r & l & Hr & Fl & Hp)]. unfold with_rid in Hp. apply in_map_iff in Hp as (ks0 & E & Hks). inversion E; subst.
      exists r, l, ks, ps. auto.
    + intros (r & l & ks & ps & Hr & Fl & Hks & A & Hd).
      apply (cands_complete hdr_ok t (wfo_wf compile good _ _ _ W) ks rid segs ps []); auto.
      apply P. right. exists rid, r, l. repeat split; auto. unfold with_rid. apply (in_map (fun ks0 : list kind => (ks0, rid))). exact Hks.
  - pose proof (priority hdr_ok rs t segs G Inc H) as Pr. destruct (mtree hdr_ok t segs) as [[rid ps]|]; [|exact Pr].
    destruct Pr as (k & rest & E & Hl). exists k. rewrite E. split; [left; reflexivity|].
    intros c [<-|Hc]; [right; reflexivity | exact (Hl c Hc)].
Qed.
End Top.
