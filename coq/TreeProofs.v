(* Proofs about the route tree matcher (C01, C02, C09): whatever the matcher returns is a registered
   root-to-leaf path of the tree that admits the request's segments, with exactly the values that
   path captures, and whose header constraints hold. *)
Require Import Base Regex RegexProofs Route Tree.

Section T.
Variable hdr_ok : nat -> bool.

Notation mtree := (Tree.mtree hdr_ok).
Notation first_leaf := (Tree.first_leaf hdr_ok).
Notation all_leaf_fallback := (Tree.all_leaf_fallback hdr_ok).

(* root-to-leaf paths of a tree: the kinds along the path and the route of the leaf *)
Definition sub_paths_with (paths : tree -> list (list kind * nat)) :=
  fix ps (l : list (str * kind * tree)) : list (list kind * nat) :=
    match l with
    | [] => []
    | (_, k, st) :: l' => map (fun p => (k :: fst p, snd p)) (paths st) ++ ps l'
    end.

Fixpoint paths (t : tree) : list (list kind * nat) :=
  match t with
  | Node subs leaves =>
      map (fun l => ([lkind l], lroute l)) leaves ++
      (fix ps (l : list (str * kind * tree)) : list (list kind * nat) :=
         match l with
         | [] => []
         | (_, k, st) :: l' => map (fun p => (k :: fst p, snd p)) (paths st) ++ ps l'
         end) subs
  end.

Definition sub_paths := sub_paths_with paths.

Lemma paths_node subs leaves :
  paths (Node subs leaves) = map (fun l => ([lkind l], lroute l)) leaves ++ sub_paths subs.
Proof. reflexivity. Qed.

(* "kinds admit segments with these values" (values listed innermost segment first, as the
   matcher collects them) *)
Inductive adm : list kind -> list str -> params -> Prop :=
| adm_last k s ps : seg_match k s = Some ps -> adm [k] [s] ps
| adm_last_all b cap s r :
    r <> [] -> cap_ok cap (length (s :: r)) = true ->
    adm [KAll b cap] (s :: r) [(b, join_slash (s :: r))]
| adm_cons k ks s rest ps ps' :
    ks <> [] -> is_all k = false -> seg_match k s = Some ps -> adm ks rest ps' ->
    adm (k :: ks) (s :: rest) (ps' ++ ps)
| adm_cons_all b cap ks taken rest ps' :
    ks <> [] -> taken <> [] -> cap_ok cap (length taken) = true -> adm ks rest ps' ->
    adm (KAll b cap :: ks) (taken ++ rest) (ps' ++ [(b, join_slash taken)]).

(* induction principle for the nested tree *)
Section Ind.
Variable P : tree -> Prop.
Hypothesis H : forall subs leaves, Forall (fun p => P (snd p)) subs -> P (Node subs leaves).
Fixpoint tree_ind2 (t : tree) : P t :=
  match t with
  | Node subs leaves =>
      H subs leaves
        ((fix f (l : list (str * kind * tree)) : Forall (fun p => P (snd p)) l :=
            match l with
            | [] => Forall_nil _
            | p :: l' => Forall_cons p (tree_ind2 (snd p)) (f l')
            end) subs)
  end.
End Ind.

Lemma paths_nonempty t : forall ks id, In (ks, id) (paths t) -> ks <> [].
Proof.
  induction t as [subs leaves IH] using tree_ind2. intros ks id HIn. rewrite paths_node in HIn.
  apply in_app_or in HIn as [HIn|HIn].
  - apply in_map_iff in HIn as (l & E & _). inversion E. discriminate.
  - induction subs as [|[[tx k] st] subs IHs]; [contradiction|]. cbn in HIn.
    apply in_app_or in HIn as [HIn|HIn].
    + apply in_map_iff in HIn as (p & E & _). inversion E. discriminate.
    + inversion IH; subst. apply IHs; assumption.
Qed.

Lemma first_leaf_sound ls s id ps : first_leaf ls s = Some (id, ps) ->
  exists l, In l ls /\ lroute l = id /\ seg_match (lkind l) s = Some ps /\ hdr_ok id = true.
Proof.
  induction ls as [|l ls IH]; [discriminate|]. cbn.
  destruct (seg_match (lkind l) s) as [q|] eqn:E.
  - destruct (hdr_ok (lroute l)) eqn:Hd.
    + intros X; inversion X; subst. exists l. auto.
    + intros X. destruct (IH X) as (l' & ? & ? & ? & ?). exists l'. auto.
  - intros X. destruct (IH X) as (l' & ? & ? & ? & ?). exists l'. auto.
Qed.

Lemma rev_hd_in {A} (l : list A) x r : rev l = x :: r -> In x l.
Proof. intros E. apply in_rev. rewrite E. left. reflexivity. Qed.

Lemma fallback_sound ls segs id ps : all_leaf_fallback ls segs = Some (id, ps) ->
  exists l b cap, In l ls /\ lroute l = id /\ lkind l = KAll b cap /\
                  cap_ok cap (length segs) = true /\ hdr_ok id = true /\ ps = [(b, join_slash segs)].
Proof.
  unfold Tree.all_leaf_fallback. destruct (rev ls) as [|l r] eqn:E; [discriminate|].
  destruct (lkind l) as [ | | |b cap] eqn:K; try discriminate.
  destruct (cap_ok cap (length segs) && hdr_ok (lroute l)) eqn:C; [|discriminate].
  intros X; inversion X; subst. apply andb_prop in C as [C1 C2].
  exists l, b, cap. repeat split; auto. eapply rev_hd_in; eauto.
Qed.

(* the growing capture of a match-all sub-tree *)
Lemma grow_sound mt b cap : forall fuel taken r id ps,
  grow mt b cap fuel taken r = Some (id, ps) ->
  exists more rem ps', r = more ++ rem /\ cap_ok cap (length (taken ++ more)) = true /\
                       mt rem = Some (id, ps') /\ ps = ps' ++ [(b, join_slash (taken ++ more))].
Proof.
  induction fuel as [|fuel IH]; intros taken r id ps H; [discriminate|].
  cbn [grow] in H. destruct (cap_ok cap (length taken)) eqn:C; [|discriminate].
  destruct (mt r) as [[id' ps']|] eqn:M.
  - inversion H; subst. exists [], r, ps'. rewrite app_nil_r. auto.
  - destruct r as [|x [|y r']]; try discriminate.
    apply IH in H as (more & rem & ps' & E & C2 & M2 & Ep).
    exists (x :: more), rem, ps'. rewrite <- app_assoc in C2, Ep. cbn in C2, Ep.
    repeat split; auto. cbn. f_equal. exact E.
Qed.

Theorem mtree_sound t : forall segs id ps, mtree t segs = Some (id, ps) ->
  exists ks, In (ks, id) (paths t) /\ adm ks segs ps /\ hdr_ok id = true.
Proof.
  induction t as [subs leaves IH] using tree_ind2. intros segs id ps H.
  rewrite paths_node. cbn [Tree.mtree] in H.
  destruct segs as [|s rest]; [discriminate|].
  destruct rest as [|s2 rest].
  - apply first_leaf_sound in H as (l & HIn & <- & M & Hd).
    exists [lkind l]. split; [apply in_or_app; left; apply in_map_iff; exists l; auto|].
    split; [constructor; exact M | exact Hd].
  - set (rest' := s2 :: rest) in *.
    assert (FB : all_leaf_fallback leaves (s :: rest') = Some (id, ps) ->
                 exists ks, In (ks, id) (map (fun l => ([lkind l], lroute l)) leaves ++ sub_paths subs) /\
                            adm ks (s :: rest') ps /\ hdr_ok id = true).
    { intros X. apply fallback_sound in X as (l & b & cap & HIn & <- & K & C & Hd & ->).
      exists [KAll b cap]. split; [apply in_or_app; left; apply in_map_iff; exists l; rewrite K; auto|].
      split; [|exact Hd]. apply adm_last_all; [discriminate | exact C]. }
    assert (G : forall subs0, Forall (fun p => forall segs id ps, mtree (snd p) segs = Some (id, ps) ->
                   exists ks, In (ks, id) (paths (snd p)) /\ adm ks segs ps /\ hdr_ok id = true) subs0 ->
               forall res,
               (fix go (l : list (str * kind * tree)) : option (nat * params) :=
                  match l with
                  | [] => all_leaf_fallback leaves (s :: rest')
                  | (_, KAll b cap, st) :: _ =>
                      match grow (mtree st) b cap (length rest') [s] rest' with
                      | Some x => Some x
                      | None => all_leaf_fallback leaves (s :: rest')
                      end
                  | (_, k, st) :: l' =>
                      match seg_match k s with
                      | Some ps =>
                          match mtree st rest' with
                          | Some (id, ps') => Some (id, ps' ++ ps)
                          | None => go l'
                          end
                      | None => go l'
                      end
                  end) subs0 = Some res ->
               (exists ks, In (ks, fst res) (sub_paths subs0) /\ adm ks (s :: rest') (snd res) /\ hdr_ok (fst res) = true) \/
               all_leaf_fallback leaves (s :: rest') = Some res).
    { clear H. induction subs0 as [|[[tx k] st] subs0 IHs]; intros F res H.
      - right. exact H.
      - inversion F as [|? ? Fst Frest]; subst. cbn [snd] in Fst.
        assert (ORD : is_all k = false ->
           match seg_match k s with
           | Some ps0 => match mtree st rest' with Some (id0, ps') => Some (id0, ps' ++ ps0) | None =>
               (fix go (l : list (str * kind * tree)) : option (nat * params) :=
                  match l with
                  | [] => all_leaf_fallback leaves (s :: rest')
                  | (_, KAll b cap, st) :: _ =>
                      match grow (mtree st) b cap (length rest') [s] rest' with
                      | Some x => Some x
                      | None => all_leaf_fallback leaves (s :: rest')
                      end
                  | (_, k, st) :: l' =>
                      match seg_match k s with
                      | Some ps =>
                          match mtree st rest' with
                          | Some (id, ps') => Some (id, ps' ++ ps)
                          | None => go l'
                          end
                      | None => go l'
                      end
                  end) subs0 end
           | None => (fix go (l : list (str * kind * tree)) : option (nat * params) :=
                  match l with
                  | [] => all_leaf_fallback leaves (s :: rest')
                  | (_, KAll b cap, st) :: _ =>
                      match grow (mtree st) b cap (length rest') [s] rest' with
                      | Some x => Some x
                      | None => all_leaf_fallback leaves (s :: rest')
                      end
                  | (_, k, st) :: l' =>
                      match seg_match k s with
                      | Some ps =>
                          match mtree st rest' with
                          | Some (id, ps') => Some (id, ps' ++ ps)
                          | None => go l'
                          end
                      | None => go l'
                      end
                  end) subs0
           end = Some res ->
           (exists ks, In (ks, fst res) (sub_paths ((tx, k, st) :: subs0)) /\ adm ks (s :: rest') (snd res) /\ hdr_ok (fst res) = true) \/
           all_leaf_fallback leaves (s :: rest') = Some res).
        { intros NA H1. destruct (seg_match k s) as [ps0|] eqn:A.
          - destruct (mtree st rest') as [[id0 ps']|] eqn:M.
            + inversion H1; subst. left. apply Fst in M as (ks & HIn & Ad & Hd). cbn [fst snd].
              exists (k :: ks). split; [|split; [|exact Hd]].
              * cbn. apply in_or_app. left. apply in_map_iff. exists (ks, id0). auto.
              * apply adm_cons; [eapply paths_nonempty; eauto | exact NA | exact A | exact Ad].
            + destruct (IHs Frest res H1) as [(ks & HIn & X)|X]; [left|right; exact X].
              exists ks. split; [cbn; apply in_or_app; right; exact HIn | exact X].
          - destruct (IHs Frest res H1) as [(ks & HIn & X)|X]; [left|right; exact X].
            exists ks. split; [cbn; apply in_or_app; right; exact HIn | exact X]. }
        destruct k as [lit|pcs|bd|b cap]; try (apply ORD; [reflexivity | exact H]).
        (* match-all sub-tree *)
        destruct (grow (mtree st) b cap (length rest') [s] rest') as [x|] eqn:Gr; [|right; exact H].
        inversion H; subst. left. destruct res as [rid rps].
        apply grow_sound in Gr as (more & rem & ps' & E & C & M & Ep).
        apply Fst in M as (ks & HIn & Ad & Hd). cbn [fst snd].
        exists (KAll b cap :: ks). split; [|split; [|exact Hd]].
        * cbn. apply in_or_app. left. apply in_map_iff. exists (ks, rid). auto.
        * change (s :: rest') with ([s] ++ rest'). rewrite E, app_assoc, Ep.
          apply adm_cons_all; [eapply paths_nonempty; eauto | discriminate | exact C | exact Ad]. }
    destruct (G subs IH (id, ps) H) as [(ks & HIn & X)|X].
    + exists ks. split; [apply in_or_app; right; exact HIn | exact X].
    + apply FB, X.
Qed.
End T.
