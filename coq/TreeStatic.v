(* In a well-formed tree a fully static path is found by matching its own literals, and by nothing
   else first: the core of "the static shortcut is unobservable" (C10). *)
Require Import Base Regex Route Tree TreeProofs TreeWf.
From Coq Require Import Sorted.

Section S.
Variable hdr_ok : nat -> bool.
Notation mtree := (Tree.mtree hdr_ok).
Notation first_leaf := (Tree.first_leaf hdr_ok).

Lemma rank1_static k : rank k <= 1 -> exists l, k = KStatic l.
Proof. destruct k; cbn; intros H; try lia. eauto. Qed.

Lemma seg_match_static_self lit : seg_match (KStatic lit) lit = Some [].
Proof. cbn. rewrite str_eqb_refl. reflexivity. Qed.

Lemma seg_match_static_other la lit : la <> lit -> seg_match (KStatic la) lit = None.
Proof. intros H. cbn. apply str_eqb_neq in H. rewrite H. reflexivity. Qed.

Lemma first_leaf_static ls : leaves_ok ls -> forall l lit, In l ls -> lkind l = KStatic lit -> hdr_ok (lroute l) = true ->
  first_leaf ls lit = Some (lroute l, []).
Proof.
  induction ls as [|a ls IH]; intros (S & N & T & K) l lit Hin Hk Hd; [contradiction|].
  cbn [Tree.first_leaf].
  destruct Hin as [->|Hin].
  - rewrite Hk, seg_match_static_self, Hd. reflexivity.
  - (* a comes before l: it is static with another literal *)
    inversion S as [|? ? S' F]; subst. inversion N as [|? ? Na N']; subst. inversion K as [|? ? Ka K']; subst.
    rewrite Forall_forall in F. pose proof (F l Hin) as R. unfold lrank in R. rewrite Hk in R. cbn in R.
    destruct (rank1_static _ R) as (la & Ea).
    assert (Ne : la <> lit).
    { intros ->. apply Na. apply in_map_iff. exists l. split; [|exact Hin].
      rewrite (Ka _ Ea). rewrite Forall_forall in K'. rewrite (K' l Hin _ Hk). reflexivity. }
    rewrite Ea, (seg_match_static_other la lit Ne).
    apply IH; auto. repeat split; auto.
    intros pre x post Ep Ex. apply (T (a :: pre) x post); [cbn; f_equal; exact Ep | exact Ex].
Qed.

Theorem static_lookup : forall lits t rid, wf t -> lits <> [] ->
  In (map KStatic lits, rid) (paths t) -> hdr_ok rid = true ->
  mtree t lits = Some (rid, []).
Proof.
  induction lits as [|lit lits IHl]; intros t rid W Hne HIn Hd; [congruence|].
  destruct t as [subs leaves]. apply wf_node in W as (SO & LO & Wr).
  apply paths_in in HIn as [(l & Hl & E)|(e & q & He & Hq & E)].
  - (* the path ends here: a leaf *)
    unfold leafpath in E. cbn [map] in E. inversion E as [[E1 E2 E3]].
    destruct lits; [|discriminate]. cbn [Tree.mtree]. subst rid.
    apply first_leaf_static; auto.
  - cbn [map] in E. inversion E as [[E1 E2 E3]]. destruct q as [qk qid]. cbn [fst snd] in *. subst qid.
    assert (Hne' : lits <> []).
    { intros ->. cbn in E2. subst qk. apply paths_nonempty in Hq. congruence. }
    destruct lits as [|lit2 lits']; [congruence|].
    cbn [Tree.mtree].
    set (rest' := lit2 :: lits') in *.
    set (go := fix go (l : list (str * kind * tree)) : option (nat * params) :=
                  match l with
                  | [] => Tree.all_leaf_fallback hdr_ok leaves (lit :: rest')
                  | (_, KAll b cap, st) :: _ =>
                      match grow (mtree st) b cap (length rest') [lit] rest' with
                      | Some x => Some x
                      | None => Tree.all_leaf_fallback hdr_ok leaves (lit :: rest')
                      end
                  | (_, k, st) :: l' =>
                      match seg_match k lit with
                      | Some ps =>
                          match mtree st rest' with
                          | Some (id, ps') => Some (id, ps' ++ ps)
                          | None => go l'
                          end
                      | None => go l'
                      end
                  end).
    change (go subs = Some (rid, [])).
    assert (IHst : mtree (stree e) rest' = Some (rid, [])).
    { apply IHl; auto.
      - unfold all_wf in Wr. rewrite Forall_forall in Wr. apply Wr. exact He.
      - subst rest'. rewrite E2. exact Hq. }
    clear - SO He E1 IHst.
    induction subs as [|a subs IH]; [contradiction|].
    destruct SO as (S & N & T & K).
    destruct He as [->|He].
    + destruct e as [[tx k] st]. cbn [skind fst snd stree] in *. subst k. cbn [go].
      rewrite seg_match_static_self, IHst. reflexivity.
    + inversion S as [|? ? S' F]; subst. inversion N as [|? ? Na N']; subst. inversion K as [|? ? Ka K']; subst.
      rewrite Forall_forall in F. pose proof (F e He) as R. unfold srank in R. rewrite <- E1 in R. cbn in R.
      destruct a as [[txa ka] sta]. cbn [skind skey fst snd] in *.
      destruct (rank1_static _ R) as (la & ->).
      assert (Ne : la <> lit).
      { intros ->. apply Na. apply in_map_iff. exists e. split; [|exact He].
        rewrite (Ka _ eq_refl). rewrite Forall_forall in K'. rewrite (K' e He lit (eq_sym E1)). reflexivity. }
      cbn [go]. rewrite (seg_match_static_other la lit Ne).
      apply IH; auto. repeat split; auto.
      intros pre x post Ep Ex. apply (T ((txa, KStatic la, sta) :: pre) x post); [cbn; f_equal; exact Ep | exact Ex].
Qed.
End S.
