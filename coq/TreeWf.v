(* Well-formedness of route trees and its preservation by registration (internal/route/tree.go
   addSubtree / addLeaf): children sorted by match-style rank with stable insertion, keys distinct,
   at most one match-all child and it is last, static keys determined by their literal. *)
Require Import Base Regex Route Tree TreeProofs.
From Coq Require Import Sorted.

(* ---------- generic stable insertion by rank ---------- *)
Section Ins.
Context {A : Type}.
Variable rk : A -> nat.

Fixpoint ins (x : A) (l : list A) : list A :=
  match l with
  | [] => [x]
  | y :: l' => if Nat.ltb (rk x) (rk y) then x :: l else y :: ins x l'
  end.

Definition sorted (l : list A) : Prop := StronglySorted (fun a b => rk a <= rk b) l.

Lemma ins_in x l y : In y (ins x l) <-> y = x \/ In y l.
Proof.
  induction l as [|z l IH]; [cbn; intuition|].
  cbn [ins]. destruct (Nat.ltb (rk x) (rk z)); cbn [In]; [intuition | rewrite IH; intuition].
Qed.

Lemma ins_sorted x l : sorted l -> sorted (ins x l).
Proof.
  unfold sorted. induction 1 as [|z l S IH F]; cbn [ins].
  - constructor; constructor.
  - destruct (Nat.ltb (rk x) (rk z)) eqn:E.
    + apply Nat.ltb_lt in E. constructor; [constructor; assumption|].
      constructor; [lia|]. eapply Forall_impl; [|exact F]. cbn. intros; lia.
    + apply Nat.ltb_ge in E. constructor; [exact IH|].
      apply Forall_forall. intros y Hy. apply ins_in in Hy as [->|Hy]; [exact E|].
      rewrite Forall_forall in F. apply F. exact Hy.
Qed.

Lemma ins_perm_map {B} (g : A -> B) x l : forall b, In b (map g (ins x l)) <-> b = g x \/ In b (map g l).
Proof.
  intros b. rewrite !in_map_iff. split.
  - intros (y & <- & Hy). apply ins_in in Hy as [->|Hy]; [left; reflexivity | right; eauto].
  - intros [->|(y & <- & Hy)]; [exists x | exists y]; (split; [reflexivity | apply ins_in; auto]).
Qed.

Lemma ins_nodup {B} (g : A -> B) x l : NoDup (map g l) -> ~ In (g x) (map g l) -> NoDup (map g (ins x l)).
Proof.
  induction l as [|z l IH]; cbn [ins map]; intros N H.
  - constructor; [intros [] | constructor].
  - destruct (Nat.ltb (rk x) (rk z)); cbn [map].
    + constructor; [exact H | exact N].
    + inversion N; subst. constructor.
      * intros X. apply ins_perm_map in X as [X|X]; [apply H; left; congruence | contradiction].
      * apply IH; [assumption | intros X; apply H; right; exact X].
Qed.

(* "the maximal-rank element, if any, is last" *)
Variable top : nat.
Hypothesis rk_le_top : forall a, rk a <= top.

Definition is_top (a : A) : bool := Nat.eqb (rk a) top.

Definition top_is_last (l : list A) : Prop :=
  forall pre a post, l = pre ++ a :: post -> is_top a = true -> post = [].

Definition last_is_top (l : list A) : bool :=
  match rev l with a :: _ => is_top a | [] => false end.

Lemma top_is_last_no_top l : top_is_last l -> last_is_top l = false -> forall a, In a l -> is_top a = false.
Proof.
  intros T L a Ha. destruct (is_top a) eqn:E; [|reflexivity]. exfalso.
  apply in_split in Ha as (pre & post & ->). specialize (T pre a post eq_refl E). subst post.
  unfold last_is_top in L. rewrite rev_app_distr in L. cbn in L. congruence.
Qed.

Lemma ins_nontop_last x : is_top x = false -> forall l, sorted l -> top_is_last l -> top_is_last (ins x l).
Proof.
  intros Ex. induction l as [|z l IH]; intros S T pre a post Ep Ea; cbn [ins] in Ep.
  - destruct pre as [|p pre]; cbn in Ep; inversion Ep; subst; [congruence|]. destruct pre; discriminate.
  - destruct (Nat.ltb (rk x) (rk z)) eqn:L.
    + destruct pre as [|p pre]; cbn in Ep; inversion Ep; subst; [congruence|].
      apply (T pre a post); [assumption | exact Ea].
    + destruct pre as [|p pre]; cbn in Ep; inversion Ep; subst.
      * unfold is_top in Ea, Ex. apply Nat.eqb_eq in Ea. apply Nat.eqb_neq in Ex. apply Nat.ltb_ge in L.
        pose proof (rk_le_top x). lia.
      * inversion S; subst. apply (IH H2) with (pre := pre) (a := a); [|assumption | exact Ea].
        intros pre' a' post' E' Ea'. apply (T (p :: pre') a' post'); [cbn; f_equal; exact E' | exact Ea'].
Qed.

Lemma ins_top_is_last x l : sorted l -> top_is_last l -> (is_top x = true -> last_is_top l = false) ->
  top_is_last (ins x l).
Proof.
  intros S T H.
  destruct (is_top x) eqn:Ex; [|apply ins_nontop_last; assumption].
  (* a new maximal element goes to the very end and is the only one *)
  specialize (H eq_refl). pose proof (top_is_last_no_top l T H) as NT.
  assert (E : ins x l = l ++ [x]).
  { clear T H S. induction l as [|z l IH]; [reflexivity|]. cbn [ins app].
    unfold is_top in Ex. apply Nat.eqb_eq in Ex.
    destruct (Nat.ltb (rk x) (rk z)) eqn:L; [apply Nat.ltb_lt in L; pose proof (rk_le_top z); lia|].
    rewrite IH; [reflexivity|]. intros a Ha. apply NT. right. exact Ha. }
  rewrite E. intros pre a post Ep Ea.
  destruct post as [|b post]; [reflexivity|]. exfalso.
  assert (Ha : In a l).
  { assert (X : In a (removelast (pre ++ a :: b :: post))).
    { rewrite removelast_app by discriminate. apply in_or_app. right. cbn. left. reflexivity. }
    rewrite <- Ep, removelast_last in X. exact X. }
  rewrite (NT a Ha) in Ea. discriminate.
Qed.
End Ins.

(* ---------- trees ---------- *)
Definition skey (e : str * kind * tree) : str := fst (fst e).
Definition skind (e : str * kind * tree) : kind := snd (fst e).
Definition stree (e : str * kind * tree) : tree := snd e.
Definition srank (e : str * kind * tree) : nat := rank (skind e).
Definition lrank (l : leaf) : nat := rank (lkind l).

Lemma rank_le4 k : rank k <= 4.
Proof. destruct k; cbn; lia. Qed.
Lemma srank_le4 e : srank e <= 4. Proof. apply rank_le4. Qed.
Lemma lrank_le4 l : lrank l <= 4. Proof. apply rank_le4. Qed.

Lemma rank4_all k : Nat.eqb (rank k) 4 = is_all k.
Proof. destruct k; reflexivity. Qed.

Lemma ins_sub_ins x l : ins_sub x l = ins srank x l.
Proof. induction l as [|y l IH]; [reflexivity|]. cbn [ins_sub ins]. unfold srank, skind. rewrite IH. reflexivity. Qed.
Lemma ins_leaf_ins x l : ins_leaf x l = ins lrank x l.
Proof. induction l as [|y l IH]; [reflexivity|]. cbn [ins_leaf ins]. unfold lrank. rewrite IH. reflexivity. Qed.

Lemma has_all_sub_last l : has_all_sub l = last_is_top srank 4 l.
Proof. unfold has_all_sub, last_is_top. destruct (rev l) as [|x r]; [reflexivity|]. unfold is_top, srank, skind. rewrite rank4_all. reflexivity. Qed.
Lemma has_all_leaf_last l : has_all_leaf l = last_is_top lrank 4 l.
Proof. unfold has_all_leaf, last_is_top. destruct (rev l) as [|x r]; [reflexivity|]. unfold is_top, lrank. rewrite rank4_all. reflexivity. Qed.

(* a static child is found under the text of its literal *)
Definition key_ok (text : str) (k : kind) : Prop := forall l, k = KStatic l -> text = c_slash :: l.

Definition subs_ok (subs : list (str * kind * tree)) : Prop :=
  sorted srank subs /\ NoDup (map skey subs) /\ top_is_last srank 4 subs /\ Forall (fun e => key_ok (skey e) (skind e)) subs.
Definition leaves_ok (ls : list leaf) : Prop :=
  sorted lrank ls /\ NoDup (map ltext ls) /\ top_is_last lrank 4 ls /\ Forall (fun l => key_ok (ltext l) (lkind l)) ls.

Fixpoint wf (t : tree) : Prop :=
  match t with
  | Node subs leaves =>
      subs_ok subs /\ leaves_ok leaves /\
      (fix f (l : list (str * kind * tree)) : Prop := match l with [] => True | e :: l' => wf (snd e) /\ f l' end) subs
  end.

Definition all_wf (l : list (str * kind * tree)) : Prop := Forall (fun e => wf (stree e)) l.

Lemma wf_node subs leaves : wf (Node subs leaves) <-> subs_ok subs /\ leaves_ok leaves /\ all_wf subs.
Proof.
  cbn [wf]. unfold all_wf. split; intros (A & B & C); (split; [exact A|]; split; [exact B|]); clear A B.
  - induction subs as [|e subs IH]; [constructor|]. destruct C as [C1 C2]. constructor; [exact C1 | apply IH; exact C2].
  - induction subs as [|e subs IH]; [exact I|]. inversion C; subst. split; [assumption | apply IH; assumption].
Qed.

Lemma wf_empty : wf empty.
Proof. apply wf_node. repeat split; try constructor; intros pre a post E; destruct pre; discriminate. Qed.

Section Add.
Variable compile : str -> option re.

(* classification facts *)
Lemma classify_static as_leaf anc aa es l : classify compile as_leaf anc aa es = Some (KStatic l) ->
  render_segment (mkseg false es) = c_slash :: l.
Proof.
  unfold classify. destruct es as [|e es].
  - destruct as_leaf; [|discriminate]. intros H; inversion H. reflexivity.
  - destruct e as [s|b|ps]; destruct es as [|e2 es2]; try (intros H; inversion H; subst; cbn; rewrite app_nil_r; reflexivity).
    all: try (destruct (match_all_of _) as [[b0 cap]|];
              [destruct (mem_str _ anc); [discriminate|]; destruct (negb as_leaf && aa); discriminate|]).
    all: try (destruct (mem_str _ anc); discriminate).
    all: try (destruct (regex_pieces compile _) as [pcs|]; [destruct (_ && _); discriminate | discriminate]).
Qed.

(* addLeaf *)
Lemma add_leaf_ok anc ls s rid ls' : leaves_ok ls -> add_leaf compile anc ls s rid = Some ls' ->
  leaves_ok ls' /\
  exists k, classify compile true anc false (elems s) = Some k /\ ls' = ins lrank (mkleaf (seg_key s) k rid) ls /\
            ~ In (seg_key s) (map ltext ls).
Proof.
  intros (S & N & T & K) H. unfold add_leaf in H.
  destruct (existsb (fun l => str_eqb (ltext l) (seg_key s)) ls) eqn:Ex; [discriminate|].
  destruct (classify compile true anc false (elems s)) as [k|] eqn:C; [|discriminate].
  destruct (is_all k && has_all_leaf ls) eqn:A; [discriminate|]. inversion H; subst; clear H.
  assert (NI : ~ In (seg_key s) (map ltext ls)).
  { intros X. apply in_map_iff in X as (l & E & Hl).
    assert (Y : existsb (fun l => str_eqb (ltext l) (seg_key s)) ls = true).
    { apply existsb_exists. exists l. split; [exact Hl | rewrite E; apply str_eqb_refl]. }
    congruence. }
  rewrite ins_leaf_ins. split; [|exists k; auto].
  repeat split.
  - apply ins_sorted. exact S.
  - apply ins_nodup; [exact N | exact NI].
  - apply ins_top_is_last; [apply lrank_le4 | exact S | exact T|].
    unfold is_top, lrank. cbn [lkind]. rewrite rank4_all. intros Ia. rewrite Ia in A. cbn in A.
    rewrite <- has_all_leaf_last. exact A.
  - apply Forall_forall. intros l Hl. apply ins_in in Hl as [->|Hl]; [|rewrite Forall_forall in K; apply K; exact Hl].
    cbn [ltext lkind]. intros lit ->. unfold seg_key. eapply classify_static. exact C.
Qed.
End Add.

(* ---------- paths of modified child lists ---------- *)
Section PathsLemmas.
Variable hdr_ok : nat -> bool.

Definition leafpath (l : leaf) : list kind * nat := ([lkind l], lroute l).

Lemma sub_paths_in (l : list (str * kind * tree)) p :
  In p (sub_paths l) <-> exists e q, In e l /\ In q (paths (stree e)) /\ p = (skind e :: fst q, snd q).
Proof.
  induction l as [|[[tx k] st] l IH]; cbn [sub_paths sub_paths_with].
  - split; [intros [] | intros (e & q & [] & _)].
  - fold (sub_paths l). rewrite in_app_iff, IH, in_map_iff. split.
    + intros [(q & <- & Hq)|(e & q & He & Hq & ->)].
      * exists (tx, k, st), q. repeat split; [left; reflexivity | exact Hq].
      * exists e, q. repeat split; [right; exact He | exact Hq].
    + intros (e & q & [<-|He] & Hq & ->).
      * left. exists q. split; [reflexivity | exact Hq].
      * right. exists e, q. auto.
Qed.

Lemma paths_in subs leaves p :
  In p (paths (Node subs leaves)) <->
  (exists l, In l leaves /\ p = leafpath l) \/
  (exists e q, In e subs /\ In q (paths (stree e)) /\ p = (skind e :: fst q, snd q)).
Proof.
  rewrite paths_node, in_app_iff, in_map_iff. fold (sub_paths subs). rewrite sub_paths_in.
  split; (intros [H|H]; [left | right; exact H]).
  - destruct H as (l & <- & Hl). exists l. auto.
  - destruct H as (l & Hl & ->). exists l. auto.
Qed.

(* replacing the sub-tree of the (unique) child with a given key *)
Lemma upd_sub_keys text st' l : map skey (upd_sub text st' l) = map skey l.
Proof. induction l as [|e l IH]; [reflexivity|]. cbn [upd_sub]. destruct (str_eqb (fst (fst e)) text); cbn [map]; [reflexivity | rewrite IH; reflexivity]. Qed.

Lemma upd_sub_ranks text st' l : map srank (upd_sub text st' l) = map srank l.
Proof. induction l as [|e l IH]; [reflexivity|]. cbn [upd_sub]. destruct (str_eqb (fst (fst e)) text); cbn [map]; [reflexivity | rewrite IH; reflexivity]. Qed.

Lemma upd_sub_in text st' l e0 :
  NoDup (map skey l) -> find (fun e => str_eqb (fst (fst e)) text) l = Some e0 ->
  forall e, In e (upd_sub text st' l) <-> e = (skey e0, skind e0, st') \/ (In e l /\ skey e <> text).
Proof.
  induction l as [|x l IH]; intros N F e; [discriminate|]. cbn [find upd_sub] in *.
  destruct (str_eqb (fst (fst x)) text) eqn:E.
  - inversion F; subst e0. apply str_eqb_eq in E. cbn [In]. inversion N as [|? ? Nx Nl]; subst.
    split.
    + intros [<-|He]; [left; reflexivity|]. right. split; [right; exact He|].
      intros X. apply Nx. apply in_map_iff. exists e. split; [unfold skey in *; congruence | exact He].
    + intros [->|[[<-|He] Ne]]; [left; reflexivity | exfalso; apply Ne; reflexivity | right; exact He].
  - inversion N as [|? ? Nx Nl]; subst. cbn [In]. rewrite (IH Nl F e). apply str_eqb_neq in E.
    split.
    + intros [<-|[->|[He Ne]]]; [right; split; [left; reflexivity | exact E] | left; reflexivity | right; split; [right; exact He | exact Ne]].
    + intros [->|[[<-|He] Ne]]; [right; left; reflexivity | left; reflexivity | right; right; split; assumption].
Qed.

Lemma find_key_in text (l : list (str * kind * tree)) e0 :
  find (fun e => str_eqb (fst (fst e)) text) l = Some e0 -> In e0 l /\ skey e0 = text.
Proof. intros F. apply find_some in F as [A B]. apply str_eqb_eq in B. auto. Qed.

Lemma find_key_none text (l : list (str * kind * tree)) :
  find (fun e => str_eqb (fst (fst e)) text) l = None -> ~ In text (map skey l).
Proof.
  intros F X. apply in_map_iff in X as (e & E & He). pose proof (find_none _ _ F e He) as Y. cbn in Y.
  unfold skey in E. rewrite E, str_eqb_refl in Y. discriminate.
Qed.

(* structural facts that only look at keys and ranks *)
Lemma sorted_map_eq {A} (rk : A -> nat) (l l' : list A) : map rk l' = map rk l -> sorted rk l -> sorted rk l'.
Proof.
  unfold sorted. revert l'. induction l as [|x l IH]; intros [|y l'] E S; try discriminate; [constructor|].
  cbn in E. inversion E as [[E1 E2]]. inversion S; subst. constructor; [apply IH; assumption|].
  rewrite Forall_forall in *. intros z Hz.
  assert (In (rk z) (map rk l')) by (apply in_map; exact Hz). rewrite E2 in H.
  apply in_map_iff in H as (w & Ew & Hw). rewrite E1, <- Ew. apply H2. exact Hw.
Qed.

Lemma top_is_last_map_eq {A} (rk : A -> nat) top (l l' : list A) :
  map rk l' = map rk l -> top_is_last rk top l -> top_is_last rk top l'.
Proof.
  intros E T pre a post Ep Ea. subst l'.
  rewrite map_app in E. cbn [map] in E.
  (* transport the decomposition to l *)
  assert (D : exists pre0 a0 post0, l = pre0 ++ a0 :: post0 /\ rk a0 = rk a /\ length post0 = length post).
  { clear T. revert l E. induction pre as [|p pre IHp]; intros l E; destruct l as [|x l]; cbn in E; try discriminate.
    - inversion E as [[E1 E2]]. exists [], x, l. repeat split; auto.
      apply (f_equal (@length nat)) in E2. rewrite !map_length in E2. auto.
    - inversion E as [[E1 E2]]. destruct (IHp l E2) as (pre0 & a0 & post0 & -> & R & L).
      exists (x :: pre0), a0, post0. auto. }
  destruct D as (pre0 & a0 & post0 & -> & Ra & Lp).
  assert (X : post0 = []) by (apply (T pre0 a0 post0 eq_refl); unfold is_top in *; rewrite Ra; exact Ea).
  subst post0. destruct post; [reflexivity | discriminate].
Qed.
End PathsLemmas.
