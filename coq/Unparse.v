(* The documented route grammar as the set of its derivations: a route AST together with the number of
   blanks written after each ':' and ',' (the only freedom the grammar leaves), and the string a
   derivation spells.  [wf_route] says which ASTs are derivable: identifiers non-empty over <char>,
   regex text non-empty over <any>, parameter lists non-empty, at least one segment, and no two
   adjacent literal elements (two adjacent <ident> are one <ident>). *)
Require Import Base Route Lexer LexSteps.

Record sparam := mksp { sp_name : str; sp_val : pval; sp_colon : nat; sp_comma : nat }.
Inductive selem := SIdent (s : str) | SBind (b : str) | SParams (ps : list sparam).
Record ssegment := mksseg { s_opt : bool; s_elems : list selem }.
Definition sroute := list ssegment.

Definition erase_param (p : sparam) : str * pval := (sp_name p, sp_val p).
Definition erase_elem (e : selem) : elem :=
  match e with SIdent s => EIdent s | SBind b => EBind b | SParams ps => EParams (map erase_param ps) end.
Definition erase_seg (s : ssegment) : segment := mkseg (s_opt s) (map erase_elem (s_elems s)).
Definition erase (r : sroute) : route := map erase_seg r.

(* the string a derivation spells *)
Definition unparse_param_core (p : sparam) : str :=
  sp_name p ++ [c_colon] ++ blanks (sp_colon p) ++ render_pval (sp_val p).
Fixpoint unparse_more (ps : list sparam) : str :=
  match ps with
  | [] => []
  | p :: ps' => [c_comma] ++ blanks (sp_comma p) ++ unparse_param_core p ++ unparse_more ps'
  end.
Definition unparse_params (ps : list sparam) : str :=
  match ps with [] => [] | p :: ps' => unparse_param_core p ++ unparse_more ps' end.
Definition unparse_elem (e : selem) : str :=
  match e with
  | SIdent s => s
  | SBind b => [c_lbrace] ++ b ++ [c_rbrace]
  | SParams ps => [c_lbrace] ++ unparse_params ps ++ [c_rbrace]
  end.
Definition unparse_elems (es : list selem) : str := concat (map unparse_elem es).
Definition unparse_seg (s : ssegment) : str :=
  [c_slash] ++ (if s_opt s then [c_qmark] else []) ++ unparse_elems (s_elems s).
Definition unparse (r : sroute) : str := concat (map unparse_seg r).

(* the canonical spacing: one blank after every ':' and ',' *)
Definition canon_param (p : str * pval) : sparam := mksp (fst p) (snd p) 1 1.
Definition canon_elem (e : elem) : selem :=
  match e with EIdent s => SIdent s | EBind b => SBind b | EParams ps => SParams (map canon_param ps) end.
Definition canon_seg (s : segment) : ssegment := mksseg (optional s) (map canon_elem (elems s)).
Definition canon (r : route) : sroute := map canon_seg r.

(* derivable ASTs *)
Definition wf_pval (v : pval) : Prop := match v with VLit s => is_ident s | VRegex re => is_regex_text re end.
Definition wf_param (p : str * pval) : Prop := is_ident (fst p) /\ wf_pval (snd p).
Definition wf_elem (e : elem) : Prop :=
  match e with
  | EIdent s => is_ident s
  | EBind b => is_ident b
  | EParams ps => ps <> [] /\ Forall wf_param ps
  end.
Fixpoint no_adjacent_idents (es : list elem) : Prop :=
  match es with
  | EIdent _ :: ((EIdent _ :: _) as es') => False
  | _ :: es' => no_adjacent_idents es'
  | [] => True
  end.
Definition wf_segment (s : segment) : Prop := Forall wf_elem (elems s) /\ no_adjacent_idents (elems s).
Definition wf_route (r : route) : Prop := r <> [] /\ Forall wf_segment r.

(* the token list of a derivation, with the type names the lexer gives in each state *)
Definition tok (n : str) (c : N) : token := (n, [c]).
Definition tokens_of_pval (v : pval) : list token :=
  match v with
  | VLit s => [(n_ident, s)]
  | VRegex re => [tok n_bpregexvalue c_slash; (n_regex, re); tok n_regexend c_slash]
  end.
Definition tokens_of_param_core (p : sparam) : list token :=
  [(n_ident, sp_name p); tok n_bindparameter c_colon] ++ ws_tokens (sp_colon p) ++ tokens_of_pval (sp_val p).
Fixpoint tokens_of_more (ps : list sparam) : list token :=
  match ps with
  | [] => []
  | p :: ps' => [tok n_bindparameterend c_comma] ++ ws_tokens (sp_comma p) ++ tokens_of_param_core p ++ tokens_of_more ps'
  end.
Definition tokens_of_params (ps : list sparam) : list token :=
  match ps with [] => [] | p :: ps' => tokens_of_param_core p ++ tokens_of_more ps' end.
Definition tokens_of_elem (e : selem) : list token :=
  match e with
  | SIdent s => [(n_ident, s)]
  | SBind b => [tok n_bind c_lbrace; (n_ident, b); tok n_bindend c_rbrace]
  | SParams ps => [tok n_bind c_lbrace] ++ tokens_of_params ps ++ [tok n_bindparameterend c_rbrace]
  end.
Definition tokens_of_elems (es : list selem) : list token := concat (map tokens_of_elem es).
Definition tokens_of_seg (s : ssegment) : list token :=
  [tok n_segment c_slash] ++ (if s_opt s then [tok n_optional c_qmark] else []) ++ tokens_of_elems (s_elems s).
Definition tokens_of (r : sroute) : list token := concat (map tokens_of_seg r).
