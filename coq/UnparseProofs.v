(* Completeness of the route parser for the documented grammar: every derivation, with any spacing,
   lexes to its token list and parses to its AST; hence the canonical rendering of a derivable AST
   parses back to it. *)
Require Import Base Route Lexer LexSteps Parser Unparse.

Lemma omap_app {A} (a b : list A) o : option_map (app a) (option_map (app b) o) = option_map (app (a ++ b)) o.
Proof. destruct o; cbn; [rewrite app_assoc|]; reflexivity. Qed.
Lemma omap_cons_app {A} (x : A) b o : option_map (cons x) (option_map (app b) o) = option_map (app (x :: b)) o.
Proof. destruct o; reflexivity. Qed.
Lemma omap_cons {A} (x : A) o : option_map (cons x) o = option_map (app [x]) o.
Proof. destruct o; reflexivity. Qed.

Ltac fin :=
  rewrite ?omap_cons, ?omap_app;
  match goal with |- option_map _ ?o = option_map _ ?o => destruct o; cbn [option_map]; [f_equal | reflexivity] end;
  cbn [app tok]; rewrite <- ?app_assoc; cbn [app]; reflexivity.

Definition starts (c : N) (s : str) : Prop := exists s', s = c :: s'.

Lemma starts_not_ident c s : starts c s -> in_cls c ident_cls = false -> not_start ident_cls s.
Proof. intros [s' ->] H. exact H. Qed.

(* ---------------- lexing a derivation ---------------- *)
Lemma lex_pval stk v rest : wf_pval v -> not_start ident_cls rest ->
  L (3 :: stk) None (render_pval v ++ rest) = option_map (app (tokens_of_pval v)) (L (3 :: stk) None rest).
Proof.
  intros W R. destruct v as [s|re]; cbn [render_pval tokens_of_pval wf_pval] in *.
  - rewrite lex_ident; [apply omap_cons | right; right; reflexivity | exact W | exact R].
  - cbn [app]. rewrite lex_regex_open. rewrite <- app_assoc. rewrite lex_regex_text; [|exact W | reflexivity].
    cbn [app]. rewrite lex_regex_close. fin.
Qed.

Lemma lex_param_core stk p rest : wf_param (erase_param p) -> not_start ident_cls rest ->
  L (2 :: stk) None (unparse_param_core p ++ rest) =
  option_map (app (tokens_of_param_core p)) (L (3 :: 2 :: stk) None rest).
Proof.
  intros [Wn Wv] R. unfold unparse_param_core, tokens_of_param_core. cbn [erase_param fst snd] in *.
  rewrite <- !app_assoc. rewrite lex_ident; [| right; left; reflexivity | exact Wn | reflexivity].
  cbn [app]. rewrite lex_colon. rewrite lex_blanks by (right; right; reflexivity).
  rewrite lex_pval by assumption. fin.
Qed.

Lemma lex_more stk : forall ps rest, Forall wf_param (map erase_param ps) -> starts c_rbrace rest ->
  L (3 :: 2 :: stk) None (unparse_more ps ++ rest) =
  option_map (app (tokens_of_more ps)) (L (3 :: 2 :: stk) None rest).
Proof.
  induction ps as [|p ps IH]; intros rest W R; cbn [unparse_more tokens_of_more app].
  - destruct (L (3 :: 2 :: stk) None rest); reflexivity.
  - inversion W as [|? ? Wp Wps]; subst. rewrite <- !app_assoc.
    rewrite lex_param_end by (left; reflexivity). rewrite lex_blanks by (right; left; reflexivity).
    rewrite lex_param_core; [| exact Wp |].
    + rewrite IH by assumption. fin.
    + destruct ps as [|p2 ps2]; [cbn; apply (starts_not_ident c_rbrace); [exact R | reflexivity] | reflexivity].
Qed.

Definition segtop (stack : list nat) : Prop := match stack with st :: _ => st = 1 \/ st = 2 | [] => False end.
Definition after_elem (stack : list nat) (e : selem) : list nat := match e with SParams _ => 2 :: stack | _ => stack end.

Lemma after_elem_segtop stack e : segtop stack -> segtop (after_elem stack e).
Proof. destruct e; cbn; auto. Qed.

Lemma lex_elem stack e rest : segtop stack -> wf_elem (erase_elem e) ->
  (match e with SIdent _ => not_start ident_cls rest | _ => True end) ->
  L stack None (unparse_elem e ++ rest) = option_map (app (tokens_of_elem e)) (L (after_elem stack e) None rest).
Proof.
  intros S W R. destruct stack as [|st stk]; [destruct S|]. cbn [segtop] in S.
  destruct e as [s|b|ps]; cbn [unparse_elem tokens_of_elem after_elem erase_elem wf_elem] in *.
  - rewrite lex_ident; [apply omap_cons | destruct S; [left | right; left]; assumption | exact W | exact R].
  - cbn [app]. rewrite lex_lbrace by exact S. rewrite <- app_assoc.
    rewrite lex_ident; [| right; left; reflexivity | exact W | reflexivity].
    cbn [app]. rewrite lex_rbrace_bind. fin.
  - destruct W as [Wne W]. destruct ps as [|p ps]; [cbn in Wne; congruence|].
    cbn [app]. rewrite lex_lbrace by exact S. cbn [unparse_params tokens_of_params]. rewrite <- !app_assoc.
    cbn [map] in W. inversion W as [|? ? Wp Wps]; subst.
    rewrite lex_param_core; [| exact Wp |].
    + rewrite lex_more; [| exact Wps | eexists; reflexivity].
      cbn [app]. rewrite lex_param_end by (right; reflexivity).
      fin.
    + destruct ps as [|p2 ps2]; reflexivity.
Qed.

Definition after_elems (stack : list nat) (es : list selem) : list nat := fold_left after_elem es stack.

Lemma after_elems_segtop es : forall stack, segtop stack -> segtop (after_elems stack es).
Proof. induction es as [|e es IH]; intros stack S; [exact S|]. apply IH. apply after_elem_segtop. exact S. Qed.

Lemma no_adjacent_tail e es : no_adjacent_idents (e :: es) -> no_adjacent_idents es.
Proof. destruct e, es as [|[| |] es']; cbn; tauto. Qed.

Lemma lex_elems : forall es stack rest, segtop stack ->
  Forall wf_elem (map erase_elem es) -> no_adjacent_idents (map erase_elem es) -> not_start ident_cls rest ->
  L stack None (unparse_elems es ++ rest) = option_map (app (tokens_of_elems es)) (L (after_elems stack es) None rest).
Proof.
  induction es as [|e es IH]; intros stack rest S W NA R; cbn [unparse_elems tokens_of_elems map concat after_elems fold_left].
  - cbn [app]. destruct (L stack None rest); reflexivity.
  - cbn [map] in W, NA. inversion W as [|? ? We Wes]; subst. fold (unparse_elems es). fold (tokens_of_elems es).
    rewrite <- app_assoc. rewrite lex_elem; [| exact S | exact We |].
    + fold (after_elems (after_elem stack e) es).
      rewrite IH; [| apply after_elem_segtop; exact S | exact Wes | eapply no_adjacent_tail; exact NA | exact R].
      fin.
    + destruct e as [s| |]; [|exact I | exact I].
      destruct es as [|e2 es2]; [exact R|]. destruct e2; cbn in NA |- *; [destruct NA | reflexivity | reflexivity].
Qed.

Definition segstart (stack : list nat) : Prop := match stack with st :: _ => st = 0 \/ st = 1 \/ st = 2 | [] => False end.
Definition after_seg (stack : list nat) (s : ssegment) : list nat :=
  match stack with st :: stk => after_elems (1 :: st :: stk) (s_elems s) | [] => [] end.

Lemma lex_seg stack s rest : segstart stack -> wf_segment (erase_seg s) -> not_start ident_cls rest ->
  L stack None (unparse_seg s ++ rest) = option_map (app (tokens_of_seg s)) (L (after_seg stack s) None rest) /\
  segstart (after_seg stack s).
Proof.
  intros S [W NA] R. destruct stack as [|st stk]; [destruct S|]. cbn [segstart] in S. cbn [erase_seg elems] in W, NA.
  assert (ST : segtop (after_elems (1 :: st :: stk) (s_elems s))) by (apply after_elems_segtop; left; reflexivity).
  split.
  - unfold unparse_seg, tokens_of_seg, after_seg. cbn [app]. rewrite lex_slash by exact S.
    destruct (s_opt s); cbn [app].
    + rewrite lex_qmark. rewrite lex_elems; [| left; reflexivity | exact W | exact NA | exact R].
      fin.
    + rewrite lex_elems; [| left; reflexivity | exact W | exact NA | exact R].
      fin.
  - unfold after_seg. destruct (after_elems (1 :: st :: stk) (s_elems s)) as [|t ?]; [destruct ST|].
    cbn in ST |- *. tauto.
Qed.

Lemma lex_segs : forall r stack, segstart stack -> Forall wf_segment (erase r) ->
  L stack None (unparse r) = Some (tokens_of r).
Proof.
  induction r as [|s r IH]; intros stack S W; cbn [unparse tokens_of map concat].
  - reflexivity.
  - cbn [erase map] in W. inversion W as [|? ? Ws Wr]; subst. fold (unparse r). fold (tokens_of r).
    destruct (lex_seg stack s (unparse r) S Ws) as [E S'].
    { destruct r as [|s2 r2]; [exact I | reflexivity]. }
    rewrite E. rewrite (IH _ S' Wr). reflexivity.
Qed.

Theorem lex_unparse r : Forall wf_segment (erase r) -> lex std_table (unparse r) = Some (tokens_of r).
Proof. intros W. apply lex_segs; [left; reflexivity | exact W]. Qed.

(* ---------------- parsing the token list of a derivation ---------------- *)
Lemma ident_not_char s c : is_ident s -> in_cls c ident_cls = false -> str_eqb s [c] = false.
Proof.
  intros [Hne Ha] Hc. apply str_eqb_neq. intros ->. unfold all_in in Ha. cbn [forallb] in Ha. rewrite Hc in Ha. discriminate.
Qed.

Lemma is_type_ident s : is_type (n_ident, s) n_ident = true.
Proof. apply str_eqb_refl. Qed.

Lemma skip_blanks_ws k t rest : is_val t c_space = false -> skip_blanks (ws_tokens k ++ t :: rest) = t :: rest.
Proof. intros H. induction k as [|k IH]; cbn [ws_tokens repeat app skip_blanks]; [rewrite H; reflexivity | exact IH]. Qed.

Lemma parse_param_core p rest : wf_param (erase_param p) ->
  parse_param (tokens_of_param_core p ++ rest) = Some (erase_param p, rest).
Proof.
  intros [Wn Wv]. unfold tokens_of_param_core, erase_param in *. cbn [fst snd] in *.
  cbn [app parse_param]. rewrite is_type_ident. cbn [andb]. change (is_val (tok n_bindparameter c_colon) c_colon) with true. cbv iota.
  rewrite <- app_assoc.
  destruct (sp_val p) as [s|re]; cbn [tokens_of_pval app wf_pval] in *.
  - rewrite skip_blanks_ws by (apply ident_not_char; [exact Wv | reflexivity]).
    rewrite is_type_ident. reflexivity.
  - rewrite skip_blanks_ws by reflexivity.
    change (is_type (tok n_bpregexvalue c_slash) n_ident) with false. cbv iota.
    change (is_val (tok n_bpregexvalue c_slash) c_slash) with true. cbv iota.
    change (is_type (n_regex, re) n_regex) with (str_eqb n_regex n_regex). rewrite str_eqb_refl.
    change (is_val (tok n_regexend c_slash) c_slash) with true. reflexivity.
Qed.

Lemma skip_blanks_core k p X : is_ident (sp_name p) ->
  skip_blanks (ws_tokens k ++ tokens_of_param_core p ++ X) = tokens_of_param_core p ++ X.
Proof. intros W. unfold tokens_of_param_core. cbn [app]. apply skip_blanks_ws. apply ident_not_char; [exact W | reflexivity]. Qed.

Definition not_comma (rest : list token) : Prop := match rest with [] => True | t :: _ => is_val t c_comma = false end.

Lemma more_params_ok : forall ps fuel rest, Forall wf_param (map erase_param ps) -> not_comma rest -> length ps <= fuel ->
  more_params fuel (tokens_of_more ps ++ rest) = (map erase_param ps, rest).
Proof.
  induction ps as [|p ps IH]; intros fuel rest W R F.
  - cbn [tokens_of_more app map]. destruct fuel as [|f]; [reflexivity|]. cbn [more_params].
    destruct rest as [|t rest']; [reflexivity|]. cbn in R. rewrite R. reflexivity.
  - destruct fuel as [|f]; [cbn in F; lia|]. cbn [map] in W. inversion W as [|? ? Wp Wps]; subst.
    cbn [tokens_of_more app more_params]. change (is_val (tok n_bindparameterend c_comma) c_comma) with true. cbv iota.
    rewrite <- !app_assoc. rewrite skip_blanks_core by exact (proj1 Wp).
    rewrite parse_param_core by exact Wp. rewrite IH; [reflexivity | exact Wps | exact R | cbn in F; lia].
Qed.

Lemma length_more ps rest : length ps <= length (tokens_of_more ps ++ rest).
Proof. induction ps as [|p ps IH]; cbn [tokens_of_more length app]; [lia|]. rewrite !app_length. cbn [length]. rewrite app_length in IH. lia. Qed.

Lemma param_groups_ok p ps rest fuel : Forall wf_param (map erase_param (p :: ps)) -> 1 <= fuel ->
  param_groups fuel (tokens_of_params (p :: ps) ++ tok n_bindparameterend c_rbrace :: rest) =
  (map erase_param (p :: ps), tok n_bindparameterend c_rbrace :: rest).
Proof.
  intros W F. destruct fuel as [|f]; [lia|]. cbn [map] in W. inversion W as [|? ? Wp Wps]; subst.
  cbn [tokens_of_params param_groups]. rewrite <- app_assoc. rewrite parse_param_core by exact Wp.
  rewrite more_params_ok; [| exact Wps | reflexivity | apply length_more].
  assert (E : param_groups f (tok n_bindparameterend c_rbrace :: rest) = ([], tok n_bindparameterend c_rbrace :: rest)).
  { destruct f as [|f']; [reflexivity|]. cbn [param_groups parse_param]. destruct rest as [|t2 rest2]; reflexivity. }
  rewrite E. cbn [map]. rewrite app_nil_r. reflexivity.
Qed.

Lemma parse_elem_ok e rest : wf_elem (erase_elem e) ->
  parse_elem (tokens_of_elem e ++ rest) = Some (erase_elem e, rest).
Proof.
  intros W. destruct e as [s|b|ps]; cbn [tokens_of_elem erase_elem wf_elem app] in *.
  - cbn [parse_elem]. rewrite is_type_ident. reflexivity.
  - cbn [parse_elem]. change (is_type (tok n_bind c_lbrace) n_ident) with false. cbv iota.
    change (is_val (tok n_bind c_lbrace) c_lbrace) with true. cbv iota. rewrite is_type_ident.
    change (is_val (tok n_bindend c_rbrace) c_rbrace) with true. reflexivity.
  - destruct W as [Wne W]. destruct ps as [|p ps]; [cbn in Wne; congruence|].
    cbn [parse_elem]. change (is_type (tok n_bind c_lbrace) n_ident) with false. cbv iota.
    change (is_val (tok n_bind c_lbrace) c_lbrace) with true. cbv iota.
    rewrite <- app_assoc. cbn [app].
    set (rest0 := tokens_of_params (p :: ps) ++ tok n_bindparameterend c_rbrace :: rest).
    assert (P : param_groups (length rest0) rest0 = (map erase_param (p :: ps), tok n_bindparameterend c_rbrace :: rest)).
    { apply param_groups_ok; [exact W|]. unfold rest0. cbn [tokens_of_params tokens_of_param_core app length]. lia. }
    unfold rest0 at 1. cbn [tokens_of_params tokens_of_param_core app].
    rewrite is_type_ident. change (is_val (tok n_bindparameter c_colon) c_rbrace) with false. cbn [andb]. cbv iota.
    change ((n_ident, sp_name p) :: tok n_bindparameter c_colon :: (ws_tokens (sp_colon p) ++ tokens_of_pval (sp_val p)) ++ tokens_of_more ps ++ tok n_bindparameterend c_rbrace :: rest)
      with rest0.
    rewrite P. cbn [map]. change (is_val (tok n_bindparameterend c_rbrace) c_rbrace) with true. reflexivity.
Qed.

Definition stops_elems (rest : list token) : Prop := match rest with [] => True | t :: _ => t = tok n_segment c_slash end.

Lemma length_elems es : length es <= length (tokens_of_elems es).
Proof.
  induction es as [|e es IH]; [cbn; lia|]. unfold tokens_of_elems in *. cbn [map concat length]. rewrite app_length.
  destruct e as [s|b|ps]; cbn [tokens_of_elem length app]; rewrite ?app_length; cbn [length]; lia.
Qed.

Lemma parse_elems_ok : forall es fuel rest, Forall wf_elem (map erase_elem es) -> stops_elems rest -> length es <= fuel ->
  parse_elems fuel (tokens_of_elems es ++ rest) = (map erase_elem es, rest).
Proof.
  induction es as [|e es IH]; intros fuel rest W R F.
  - cbn [tokens_of_elems map concat app]. destruct fuel as [|f]; [reflexivity|]. cbn [parse_elems].
    destruct rest as [|t rest']; [reflexivity|]. cbn in R. subst t. reflexivity.
  - destruct fuel as [|f]; [cbn in F; lia|]. cbn [map] in W. inversion W as [|? ? We Wes]; subst.
    unfold tokens_of_elems. cbn [map concat]. fold (tokens_of_elems es). rewrite <- app_assoc.
    cbn [parse_elems]. rewrite parse_elem_ok by exact We. rewrite IH; [reflexivity | exact Wes | exact R | cbn in F; lia].
Qed.

Lemma parse_segment_ok s rest : wf_segment (erase_seg s) -> stops_elems rest ->
  parse_segment (tokens_of_seg s ++ rest) = Some (erase_seg s, rest).
Proof.
  intros [W NA] R. cbn [erase_seg elems] in W. unfold tokens_of_seg. cbn [app parse_segment].
  change (is_val (tok n_segment c_slash) c_slash) with true. cbv iota.
  assert (PE : forall fuel, length (s_elems s) <= fuel ->
            parse_elems fuel (tokens_of_elems (s_elems s) ++ rest) = (map erase_elem (s_elems s), rest))
    by (intros fuel Hf; apply parse_elems_ok; assumption).
  assert (LE : length (s_elems s) <= length (tokens_of_elems (s_elems s) ++ rest))
    by (rewrite app_length; pose proof (length_elems (s_elems s)); lia).
  destruct (s_opt s) eqn:O; cbn [app].
  - change (is_val (tok n_optional c_qmark) c_qmark) with true. cbv iota.
    rewrite PE by exact LE. unfold erase_seg. rewrite O. reflexivity.
  - (* the token after "/" is not "?" *)
    assert (NQ : match tokens_of_elems (s_elems s) ++ rest with
                 | q :: rest' => if is_val q c_qmark then (true, rest') else (false, tokens_of_elems (s_elems s) ++ rest)
                 | [] => (false, tokens_of_elems (s_elems s) ++ rest)
                 end = (false, tokens_of_elems (s_elems s) ++ rest)).
    { destruct (s_elems s) as [|e es].
      - cbn [tokens_of_elems map concat app]. destruct rest as [|t rest']; [reflexivity|]. cbn in R. subst t. reflexivity.
      - unfold tokens_of_elems. cbn [map concat]. inversion W as [|? ? We Wes]; subst.
        destruct e as [x|b|ps]; cbn [tokens_of_elem app erase_elem wf_elem] in *.
        + change (is_val (n_ident, x) c_qmark) with (str_eqb x [c_qmark]). rewrite ident_not_char by (try exact We; reflexivity). reflexivity.
        + reflexivity.
        + reflexivity. }
    rewrite NQ. rewrite PE by exact LE. unfold erase_seg. rewrite O. reflexivity.
Qed.

Lemma parse_segments_ok : forall r fuel, Forall wf_segment (erase r) -> length r <= fuel ->
  parse_segments fuel (tokens_of r) = (erase r, []).
Proof.
  induction r as [|s r IH]; intros fuel W F.
  - destruct fuel; reflexivity.
  - destruct fuel as [|f]; [cbn in F; lia|]. cbn [erase map] in W. inversion W as [|? ? Ws Wr]; subst.
    unfold tokens_of. cbn [map concat]. fold (tokens_of r). cbn [parse_segments].
    rewrite parse_segment_ok; [| exact Ws |].
    + rewrite IH; [reflexivity | exact Wr | cbn in F; lia].
    + destruct r as [|s2 r2]; [exact I|]. unfold tokens_of. cbn [map concat]. unfold tokens_of_seg. reflexivity.
Qed.

Lemma length_tokens r : length r <= length (tokens_of r).
Proof.
  induction r as [|s r IH]; [cbn; lia|]. unfold tokens_of in *. cbn [map concat length]. rewrite app_length.
  set (X := concat (map tokens_of_seg r)) in *. unfold tokens_of_seg. cbn [app length]. lia.
Qed.

Theorem parse_tokens_ok r : wf_route (erase r) -> parse_tokens (tokens_of r) = Some (erase r).
Proof.
  intros [Hne W]. unfold parse_tokens. rewrite parse_segments_ok; [| exact W | apply length_tokens].
  destruct (erase r) as [|s ss]; [congruence | reflexivity].
Qed.

(* ---------------- completeness, and the canonical form ---------------- *)
Theorem parse_complete r : wf_route (erase r) -> parse (unparse r) = Some (erase r).
Proof.
  intros W. unfold parse, parse_with. rewrite lex_unparse by exact (proj2 W). apply parse_tokens_ok. exact W.
Qed.

Lemma erase_canon r : erase (canon r) = r.
Proof.
  unfold erase, canon. rewrite map_map. rewrite <- (map_id r) at 2. apply map_ext. intros [o es].
  unfold erase_seg, canon_seg. cbn [s_opt s_elems optional elems]. f_equal. rewrite map_map. rewrite <- (map_id es) at 2.
  apply map_ext. intros [s|b|ps]; cbn; try reflexivity. f_equal. rewrite map_map. rewrite <- (map_id ps) at 2.
  apply map_ext. intros [n v]. reflexivity.
Qed.

Lemma unparse_more_canon ps : unparse_more (map canon_param ps) =
  concat (map (fun p => [c_comma; c_space] ++ fst p ++ [c_colon; c_space] ++ render_pval (snd p)) ps).
Proof.
  induction ps as [|[n v] ps IH]; [reflexivity|]. cbn [map unparse_more concat]. rewrite IH.
  unfold unparse_param_core. cbn [canon_param sp_name sp_val sp_colon sp_comma fst snd blanks repeat app].
  rewrite <- !app_assoc. reflexivity.
Qed.

Lemma render_params_canon ps : ps <> [] -> render_params ps = unparse_params (map canon_param ps).
Proof.
  induction ps as [|[n v] ps IH]; intros H; [congruence|]. destruct ps as [|[n2 v2] ps2].
  - cbn. rewrite !app_nil_r. reflexivity.
  - specialize (IH ltac:(discriminate)). cbn [render_params] in *. rewrite IH.
    cbn [map unparse_params unparse_more]. unfold unparse_param_core.
    cbn [canon_param sp_name sp_val sp_colon sp_comma fst snd blanks repeat app]. rewrite <- !app_assoc. reflexivity.
Qed.

Lemma render_is_unparse r : Forall wf_segment r -> render_route r = unparse (canon r).
Proof.
  intros W. unfold render_route, unparse, canon. rewrite map_map. f_equal. apply map_ext_in. intros s Hs.
  rewrite Forall_forall in W. destruct (W s Hs) as [We _].
  unfold render_segment, unparse_seg, canon_seg. cbn [s_opt s_elems]. f_equal. f_equal.
  unfold render_elems, unparse_elems. rewrite map_map. f_equal. apply map_ext_in. intros e He.
  rewrite Forall_forall in We. specialize (We e He).
  destruct e as [x|b|ps]; cbn [render_elem canon_elem unparse_elem]; try reflexivity.
  destruct We as [Hne _]. rewrite render_params_canon by exact Hne. reflexivity.
Qed.

Theorem parse_render r : wf_route r -> parse (render_route r) = Some r.
Proof.
  intros W. rewrite render_is_unparse by exact (proj2 W).
  rewrite parse_complete; rewrite erase_canon; [reflexivity | exact W].
Qed.
