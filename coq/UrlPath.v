(* Model of Leaf.URLPath / Router.URLPath (internal/route/leaf.go, router.go): the URL skeleton of a
   route and the simultaneous substitution done by strings.NewReplacer (C12). *)
Require Import Base Route.

Inductive skel := SLit (s : str) | SHole (name : str).

Definition is_regex_val (v : pval) : bool := match v with VRegex _ => true | VLit _ => false end.

(* every parameter that is a bind: the first one, and further ones only when they carry a regex *)
Fixpoint param_holes (first : bool) (ps : list (str * pval)) : list skel :=
  match ps with
  | [] => []
  | (n, v) :: ps' =>
      (if first || is_regex_val v then [SHole n] else []) ++ param_holes false ps'
  end.

Definition elem_skel (e : elem) : list skel :=
  match e with
  | EIdent s => [SLit s]
  | EBind b => [SHole b]
  | EParams ps => param_holes true ps
  end.

Fixpoint route_skel (r : route) (with_opt : bool) : list skel :=
  match r with
  | [] => []
  | s :: r' =>
      if optional s && negb with_opt then []
      else SLit [c_slash] :: flat_map elem_skel (elems s) ++ route_skel r' with_opt
  end.

Definition render_skel1 (k : skel) : str :=
  match k with SLit s => s | SHole n => [c_lbrace] ++ n ++ [c_rbrace] end.

Definition render_skel (sk : list skel) : str := concat (map render_skel1 sk).

(* strings.NewReplacer(pairs...).Replace: left to right; at each position the first pair (in argument
   order) whose old string is a prefix wins; replaced text is not rescanned *)
Fixpoint is_prefix (p s : str) : bool :=
  match p, s with
  | [], _ => true
  | x :: p', y :: s' => N.eqb x y && is_prefix p' s'
  | _ :: _, [] => false
  end.

Definition find_pair (pairs : list (str * str)) (s : str) : option (str * str) :=
  find (fun p => is_prefix (fst p) s) pairs.

(* [skip] counts the bytes of a matched old string still to be dropped *)
Fixpoint rep (pairs : list (str * str)) (skip : nat) (s : str) {struct s} : str :=
  match s with
  | [] => []
  | c :: s' =>
      match skip with
      | S k => rep pairs k s'
      | O =>
          match find_pair pairs s with
          | Some (k, v) =>
              match k with
              | [] => c :: rep pairs 0 s'                      (* no empty keys here *)
              | _ :: k' => v ++ rep pairs (length k') s'
              end
          | None => c :: rep pairs 0 s'
          end
      end
  end.

Definition replace (pairs : list (str * str)) (s : str) : str := rep pairs 0 s.

Definition brace (n : str) : str := [c_lbrace] ++ n ++ [c_rbrace].

(* Leaf.URLPath(vals, withOptional) *)
(* the short form of a route whose only segment is optional is the root path *)
Definition route_skel' (r : route) (with_opt : bool) : list skel :=
  match route_skel r with_opt with [] => [SLit [c_slash]] | sk => sk end.

Definition url_path (r : route) (vals : list (str * str)) (with_opt : bool) : str :=
  replace (map (fun p => (brace (fst p), snd p)) vals) (render_skel (route_skel' r with_opt)).

(* ---- the declarative reading: fill every hole that has a value, leave the others visible ---- *)
Definition lookup_val (vals : list (str * str)) (n : str) : option str :=
  match find (fun p => str_eqb (fst p) n) vals with Some p => Some (snd p) | None => None end.

Definition fill1 (vals : list (str * str)) (k : skel) : str :=
  match k with
  | SLit s => s
  | SHole n => match lookup_val vals n with Some v => v | None => brace n end
  end.

Definition fill (vals : list (str * str)) (sk : list skel) : str := concat (map (fill1 vals) sk).

Definition brace_free (s : str) : bool := forallb (fun c => negb (N.eqb c c_lbrace) && negb (N.eqb c c_rbrace)) s.

Definition skel_ok (sk : list skel) : bool :=
  forallb (fun k => match k with SLit s => brace_free s | SHole n => brace_free n end) sk.

(* Router.URLPath: pairs -> map (later wins), "withOptional"="true" is the switch *)
Definition s_with_optional : str := [119;105;116;104;79;112;116;105;111;110;97;108]%N.
Definition s_true : str := [116;114;117;101]%N.

Fixpoint pairs_to_map (pairs : list str) (acc : list (str * str)) : list (str * str) :=
  match pairs with
  | k :: v :: rest => pairs_to_map rest ((k, v) :: filter (fun p => negb (str_eqb (fst p) k)) acc)
  | _ => acc
  end.

Definition router_url_path (r : route) (pairs : list str) : str :=
  let vals := pairs_to_map pairs [] in
  let wo := match lookup_val vals s_with_optional with Some v => str_eqb v s_true | None => false end in
  let vals' := if wo then filter (fun p => negb (str_eqb (fst p) s_with_optional)) vals else vals in
  url_path r vals' wo.
