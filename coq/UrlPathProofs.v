(* C12: substitution is simultaneous - for brace-free names and literals the Replacer-based URLPath
   equals "fill every hole that has a value, leave the others visible". *)
Require Import Base Route UrlPath.

Definition bpairs (vals : list (str * str)) := map (fun p => (brace (fst p), snd p)) vals.

Definition is_brace (c : N) : bool := N.eqb c c_lbrace || N.eqb c c_rbrace.

Lemma brace_free_cons c s : brace_free (c :: s) = negb (is_brace c) && brace_free s.
Proof. unfold brace_free, is_brace. cbn. destruct (N.eqb c c_lbrace), (N.eqb c c_rbrace); reflexivity. Qed.

(* no key starts at a byte that is not '{' *)
Lemma find_pair_nonbrace vals c s : N.eqb c c_lbrace = false -> find_pair (bpairs vals) (c :: s) = None.
Proof.
  intros H. unfold find_pair, bpairs. induction vals as [|[k v] vals IH]; [reflexivity|].
  cbn [map find fst snd]. unfold brace at 1. cbn [app is_prefix]. rewrite N.eqb_sym, H. cbn [andb]. exact IH.
Qed.

(* '{k}' is a prefix of '{n}rest' iff k = n, for brace-free k and n *)
Lemma prefix_brace_aux k : forall n rest, brace_free k = true -> brace_free n = true ->
  is_prefix (k ++ [c_rbrace]) (n ++ c_rbrace :: rest) = str_eqb k n.
Proof.
  induction k as [|x k IH]; intros n rest Hk Hn.
  - destruct n as [|y n]; cbn [app is_prefix str_eqb].
    + rewrite N.eqb_refl. reflexivity.
    + rewrite brace_free_cons in Hn. apply andb_prop in Hn as [Hy _]. unfold is_brace in Hy.
      destruct (N.eqb y c_rbrace) eqn:E; [rewrite orb_true_r in Hy; discriminate|].
      rewrite N.eqb_sym, E. reflexivity.
  - rewrite brace_free_cons in Hk. apply andb_prop in Hk as [Hx Hk].
    destruct n as [|y n]; cbn [app is_prefix str_eqb].
    + unfold is_brace in Hx. destruct (N.eqb x c_rbrace) eqn:E; [rewrite orb_true_r in Hx; discriminate|]. reflexivity.
    + rewrite brace_free_cons in Hn. apply andb_prop in Hn as [_ Hn].
      destruct (N.eqb x y); cbn [andb]; [apply IH; assumption | reflexivity].
Qed.

Lemma prefix_brace k n rest : brace_free k = true -> brace_free n = true ->
  is_prefix (brace k) (brace n ++ rest) = str_eqb k n.
Proof.
  intros Hk Hn. unfold brace. cbn [app is_prefix]. rewrite N.eqb_refl. cbn [andb].
  rewrite <- app_assoc. cbn [app]. apply prefix_brace_aux; assumption.
Qed.

Definition names_ok (vals : list (str * str)) : Prop := Forall (fun p => brace_free (fst p) = true) vals.

Lemma find_pair_hole vals n rest : names_ok vals -> brace_free n = true ->
  find_pair (bpairs vals) (brace n ++ rest) =
  match lookup_val vals n with Some v => Some (brace n, v) | None => None end.
Proof.
  intros Hv Hn. unfold find_pair, bpairs, lookup_val. induction Hv as [|[k v] vals Hk _ IH]; [reflexivity|].
  cbn [map find fst snd]. cbn [fst] in Hk. rewrite (prefix_brace k n rest Hk Hn).
  destruct (str_eqb k n) eqn:E.
  - apply str_eqb_eq in E. subst. reflexivity.
  - rewrite IH. reflexivity.
Qed.

(* scanning a brace-free literal copies it *)
Lemma rep_lit vals l : forall rest, brace_free l = true ->
  rep (bpairs vals) 0 (l ++ rest) = l ++ rep (bpairs vals) 0 rest.
Proof.
  induction l as [|c l IH]; intros rest H; [reflexivity|].
  rewrite brace_free_cons in H. apply andb_prop in H as [Hc Hl].
  cbn [app rep]. rewrite find_pair_nonbrace.
  - rewrite IH by exact Hl. reflexivity.
  - unfold is_brace in Hc. destruct (N.eqb c c_lbrace); [discriminate | reflexivity].
Qed.

Lemma rep_skip pairs : forall k s rest, length s = k -> rep pairs k (s ++ rest) = rep pairs 0 rest.
Proof.
  induction k as [|k IH]; intros s rest H.
  - destruct s; [reflexivity | discriminate].
  - destruct s as [|c s]; [discriminate|]. cbn [app rep]. apply IH. cbn in H. lia.
Qed.

Lemma rep_rbrace vals rest : rep (bpairs vals) 0 (c_rbrace :: rest) = c_rbrace :: rep (bpairs vals) 0 rest.
Proof. cbn [rep]. rewrite find_pair_nonbrace by reflexivity. reflexivity. Qed.

(* a hole: replaced by its value (which is not rescanned) or left visible *)
Lemma rep_hole vals n rest : names_ok vals -> brace_free n = true ->
  rep (bpairs vals) 0 (brace n ++ rest) = fill1 vals (SHole n) ++ rep (bpairs vals) 0 rest.
Proof.
  intros Hv Hn. cbn [fill1].
  assert (F := find_pair_hole vals n rest Hv Hn).
  unfold brace in *. cbn [app] in *. cbn [rep]. rewrite F.
  destruct (lookup_val vals n) as [v|].
  - f_equal. apply rep_skip. reflexivity.
  - cbn [app]. f_equal. rewrite <- !app_assoc. rewrite rep_lit by exact Hn. cbn [app]. rewrite rep_rbrace. reflexivity.
Qed.

Theorem replace_is_fill vals sk : names_ok vals -> skel_ok sk = true ->
  replace (bpairs vals) (render_skel sk) = fill vals sk.
Proof.
  intros Hv. unfold replace, render_skel, fill.
  assert (G : forall rest, skel_ok sk = true ->
     rep (bpairs vals) 0 (concat (map render_skel1 sk) ++ rest) = concat (map (fill1 vals) sk) ++ rep (bpairs vals) 0 rest).
  { induction sk as [|k sk IH]; intros rest H; [reflexivity|].
    cbn [skel_ok forallb] in H. apply andb_prop in H as [Hk Hs].
    cbn [map concat]. rewrite <- (app_assoc (render_skel1 k)), <- (app_assoc (fill1 vals k)).
    destruct k as [l|n].
    - cbn [render_skel1 fill1]. rewrite rep_lit by exact Hk. f_equal. apply IH. exact Hs.
    - change (render_skel1 (SHole n)) with (brace n). rewrite rep_hole by assumption. f_equal. apply IH. exact Hs. }
  intros H. specialize (G [] H). rewrite !app_nil_r in G. exact G.
Qed.

(* Leaf.URLPath in plain terms *)
Theorem url_path_is_fill r vals with_opt :
  names_ok vals -> skel_ok (route_skel' r with_opt) = true ->
  url_path r vals with_opt = fill vals (route_skel' r with_opt).
Proof. intros. unfold url_path. apply replace_is_fill; assumption. Qed.
