(* Towards the route-list reading of C08: classification in context versus classification in isolation. *)
Require Import Base Regex Route Tree TreeProofs TreeWf TreeAdd TreeKeys TreeLive TreeAccept Inverse RouteSpec TreeComplete TreeDispatch TreePriority TreeOrdered TreePriorityTop.

Section VS.
Variable compile : str -> option re.

Lemma mem_str_nil x : mem_str x [] = false.
Proof. reflexivity. Qed.
Lemma disjoint_str_nil a : disjoint_str a [] = true.
Proof. induction a as [|x a IH]; [reflexivity|]. cbn. exact IH. Qed.

Lemma mem_str_false x l : mem_str x l = false <-> ~ In x l.
Proof. split; intros H. - intros X. apply mem_str_in in X. congruence. - destruct (mem_str x l) eqn:E; [|reflexivity]. apply mem_str_in in E. contradiction. Qed.

Lemma disjoint_str_iff a b : disjoint_str a b = true <-> forall x, In x a -> ~ In x b.
Proof.
  split; [apply disjoint_str_disjoint|]. induction a as [|y a IH]; intros H; [reflexivity|]. cbn [disjoint_str].
  apply andb_true_intro. split.
  - apply Bool.negb_true_iff. apply mem_str_false. apply H. left. reflexivity.
  - apply IH. intros x Hx. apply H. right. exact Hx.
Qed.

(* the context can only make a classification fail: through a bind already used by an ancestor, or
   through a second match-all below a match-all *)
Lemma classify_ctx as_leaf anc aa es k :
  classify compile as_leaf anc aa es = Some k <->
  classify compile as_leaf [] false es = Some k /\ (forall x, In x (kind_binds k) -> ~ In x anc) /\
  (as_leaf = false -> aa = true -> is_all k = false).
Proof.
  unfold classify.
  assert (GEN : forall es0,
    (match match_all_of es0 with
     | Some (b, cap) => if mem_str b anc then None else if negb as_leaf && aa then None else Some (KAll b cap)
     | None => match regex_pieces compile es0 with
               | Some ps => if disjoint_str (piece_binds ps) anc && nodup_str (piece_binds ps) then Some (KRegex ps) else None
               | None => None
               end
     end = Some k) <->
    (match match_all_of es0 with
     | Some (b, cap) => if mem_str b [] then None else if negb as_leaf && false then None else Some (KAll b cap)
     | None => match regex_pieces compile es0 with
               | Some ps => if disjoint_str (piece_binds ps) [] && nodup_str (piece_binds ps) then Some (KRegex ps) else None
               | None => None
               end
     end = Some k) /\ (forall x, In x (kind_binds k) -> ~ In x anc) /\ (as_leaf = false -> aa = true -> is_all k = false)).
  { intros es0. destruct (match_all_of es0) as [[b cap]|].
    - rewrite mem_str_nil, andb_false_r. split.
      + destruct (mem_str b anc) eqn:M; [discriminate|]. destruct (negb as_leaf && aa) eqn:A; [discriminate|]. intros H; inversion H; subst.
        split; [reflexivity|]. split.
        * intros x [<-|[]]. apply mem_str_false. exact M.
        * intros -> ->. discriminate.
      + intros (H & B & A). inversion H; subst. cbn [kind_binds] in B.
        assert (M : mem_str b anc = false) by (apply mem_str_false; apply B; left; reflexivity). rewrite M.
        destruct as_leaf; cbn [negb andb]; [reflexivity|]. destruct aa; [specialize (A eq_refl eq_refl); discriminate | reflexivity].
    - destruct (regex_pieces compile es0) as [ps|]; [|split; [discriminate | intros (H & _); discriminate]].
      rewrite disjoint_str_nil. cbn [andb]. split.
      + destruct (disjoint_str (piece_binds ps) anc && nodup_str (piece_binds ps)) eqn:D; [|discriminate]. intros H; inversion H; subst.
        apply andb_prop in D as [D1 D2]. rewrite D2. split; [reflexivity|]. split; [apply disjoint_str_iff; exact D1 | reflexivity].
      + intros (H & B & _). destruct (nodup_str (piece_binds ps)) eqn:D2; [|discriminate]. inversion H; subst.
        cbn [kind_binds] in B. apply disjoint_str_iff in B. rewrite B. reflexivity. }
  assert (ST : forall l, Some (KStatic l) = Some k <-> Some (KStatic l) = Some k /\ (forall x, In x (kind_binds k) -> ~ In x anc) /\ (as_leaf = false -> aa = true -> is_all k = false)).
  { intros l. split; [|tauto]. intros H. inversion H; subst. split; [reflexivity|]. split; [intros x [] | reflexivity]. }
  destruct es as [|e es'].
  - destruct as_leaf; [apply ST|]. split; [discriminate | intros (H & _); discriminate].
  - cbv zeta. destruct e as [s|b|ps0]; destruct es' as [|e2 es''].
    + apply ST.
    + exact (GEN (EIdent s :: e2 :: es'')).
    + destruct (match_all_of [EBind b]) as [[b0 cap0]|] eqn:MA.
      * pose proof (GEN [EBind b]) as G. rewrite MA in G. exact G.
      * rewrite mem_str_nil. split.
        -- destruct (mem_str b anc) eqn:M; [discriminate|]. intros H; inversion H; subst. split; [reflexivity|]. split; [|reflexivity].
           intros x [<-|[]]. apply mem_str_false. exact M.
        -- intros (H & B & _). inversion H; subst. cbn [kind_binds] in B.
           assert (M : mem_str b anc = false) by (apply mem_str_false; apply B; left; reflexivity). rewrite M. reflexivity.
    + exact (GEN (EBind b :: e2 :: es'')).
    + exact (GEN [EParams ps0]).
    + exact (GEN (EParams ps0 :: e2 :: es'')).
Qed.

(* a segment that classifies as an inner segment classifies as a leaf, to the same kind *)
Lemma classify_sub_leaf anc aa es k : classify compile false anc aa es = Some k -> classify compile true anc false es = Some k.
Proof.
  intros H. apply classify_ctx in H as (H & B & _). apply classify_ctx. split; [|split; [exact B | discriminate]].
  unfold classify in *. destruct es as [|e es']; [discriminate|]. cbv zeta in *.
  destruct e as [s|b|ps0]; destruct es' as [|e2 es'']; try exact H;
    (destruct (match_all_of _) as [[b0 cap0]|]; [rewrite mem_str_nil, andb_false_r in *; exact H | exact H]).
Qed.

(* the kinds of the long form, classified in the context of the earlier segments *)
Fixpoint ctx_kinds (anc : list str) (aa : bool) (r : route) : option (list kind) :=
  match r with
  | [] => Some []
  | [s] => match classify compile true anc false (elems s) with Some k => Some [k] | None => None end
  | s :: r' =>
      match classify compile false anc aa (elems s) with
      | Some k => match ctx_kinds (ctx_anc anc k) (ctx_aa aa k) r' with Some l => Some (k :: l) | None => None end
      | None => None
      end
  end.

Lemma ctx_kinds_length : forall r anc aa ks, ctx_kinds anc aa r = Some ks -> length ks = length r.
Proof.
  induction r as [|s r IH]; intros anc aa ks H; [inversion H; reflexivity|]. destruct r as [|s2 r2].
  - cbn in H. destruct (classify compile true anc false (elems s)); inversion H. reflexivity.
  - change (ctx_kinds anc aa (s :: s2 :: r2)) with
      (match classify compile false anc aa (elems s) with
       | Some k => match ctx_kinds (ctx_anc anc k) (ctx_aa aa k) (s2 :: r2) with Some l => Some (k :: l) | None => None end
       | None => None end) in H.
    destruct (classify compile false anc aa (elems s)) as [k|]; [|discriminate].
    destruct (ctx_kinds (ctx_anc anc k) (ctx_aa aa k) (s2 :: r2)) as [l|] eqn:E; [|discriminate]. inversion H; subst.
    cbn [length]. f_equal. eapply IH. exact E.
Qed.

Lemma knews_iff_ctx : forall r root anc aa, r <> [] ->
  (exists l, knews compile root anc aa r = Some l) <-> (exists ks, ctx_kinds anc aa r = Some ks).
Proof.
  induction r as [|s r IH]; intros root anc aa Hne; [congruence|]. destruct r as [|s2 rest2].
  - cbn [knews ctx_kinds]. destruct (classify compile true anc false (elems s)); split; intros [x H]; try discriminate; eauto.
  - rewrite knews_cons2. change (ctx_kinds anc aa (s :: s2 :: rest2)) with
      (match classify compile false anc aa (elems s) with
       | Some k => match ctx_kinds (ctx_anc anc k) (ctx_aa aa k) (s2 :: rest2) with Some l => Some (k :: l) | None => None end
       | None => None end).
    destruct (classify compile false anc aa (elems s)) as [k|] eqn:C; [|split; intros [x H]; discriminate].
    specialize (IH false (ctx_anc anc k) (ctx_aa aa k) ltac:(discriminate)).
    rewrite (classify_sub_leaf anc aa (elems s) k C). split.
    + intros [l H]. destruct (knews compile false (ctx_anc anc k) (ctx_aa aa k) (s2 :: rest2)) as [l0|] eqn:N; [|discriminate].
      destruct (proj1 IH (ex_intro _ l0 eq_refl)) as [ks0 E]. rewrite E. eauto.
    + intros [ks H]. destruct (ctx_kinds (ctx_anc anc k) (ctx_aa aa k) (s2 :: rest2)) as [ks0|] eqn:E; [|discriminate].
      destruct (proj2 IH (ex_intro _ ks0 eq_refl)) as [l0 N]. rewrite N. cbv zeta.
      destruct rest2; [destruct (optional s2)|]; eauto.
Qed.

Lemma NoDup_app_inv {A} (a b : list A) : NoDup (a ++ b) -> NoDup a /\ NoDup b /\ forall x, In x a -> ~ In x b.
Proof.
  induction a as [|x a IH]; intros H; [split; [constructor | split; [exact H | intros x []]]|].
  cbn in H. inversion H as [|? ? Hx Hr]; subst. destruct (IH Hr) as (Na & Nb & D). split; [|split; [exact Nb|]].
  - constructor; [intros X; apply Hx; apply in_or_app; left; exact X | exact Na].
  - intros y [<-|Hy]; [intros X; apply Hx; apply in_or_app; right; exact X | apply D; exact Hy].
Qed.

Lemma kinds_of_length : forall r l, kinds_of compile r = Some l -> length l = length r.
Proof.
  induction r as [|s r IH]; intros l H; [inversion H; reflexivity|]. destruct r as [|s2 r2].
  - cbn in H. destruct (seg_kind compile true s); inversion H. reflexivity.
  - change (kinds_of compile (s :: s2 :: r2)) with
      (match seg_kind compile false s, kinds_of compile (s2 :: r2) with Some k, Some l => Some (k :: l) | _, _ => None end) in H.
    destruct (seg_kind compile false s); [|discriminate]. destruct (kinds_of compile (s2 :: r2)) as [l0|] eqn:E; [|discriminate].
    inversion H; subst. cbn [length]. f_equal. apply IH. reflexivity.
Qed.

Definition all_count (ks : list kind) : nat := length (filter is_all ks).

Lemma ctx_kinds_iff : forall r anc aa ks,
  ctx_kinds anc aa r = Some ks <->
  kinds_of compile r = Some ks /\ NoDup (route_binds ks) /\ (forall x, In x (route_binds ks) -> ~ In x anc) /\
  all_count (init_segs ks) + (if aa then 1 else 0) <= 1.
Proof.
  induction r as [|s r IH]; intros anc aa ks.
  - cbn. split; [intros H; inversion H; subst; cbn; repeat split; [constructor | intros x [] | destruct aa; lia] | intros (H & _); exact H].
  - destruct r as [|s2 rest2].
    + cbn [ctx_kinds kinds_of]. unfold seg_kind. split.
      * destruct (classify compile true anc false (elems s)) as [k|] eqn:C; [|discriminate]. intros H; inversion H; subst.
        apply classify_ctx in C as (C0 & B & _). rewrite C0. split; [reflexivity|]. unfold route_binds. cbn [flat_map]. rewrite app_nil_r.
        split; [exact (proj1 (classify_binds compile _ _ _ _ _ C0))|]. split; [exact B | cbn; destruct aa; lia].
      * intros (K & N & B & _). destruct (classify compile true [] false (elems s)) as [k|] eqn:C0; [|discriminate]. inversion K; subst.
        unfold route_binds in B. cbn [flat_map] in B. rewrite app_nil_r in B.
        assert (C : classify compile true anc false (elems s) = Some k) by (apply classify_ctx; split; [exact C0 | split; [exact B | discriminate]]).
        rewrite C. reflexivity.
    + change (ctx_kinds anc aa (s :: s2 :: rest2)) with
        (match classify compile false anc aa (elems s) with
         | Some k => match ctx_kinds (ctx_anc anc k) (ctx_aa aa k) (s2 :: rest2) with Some l => Some (k :: l) | None => None end
         | None => None end).
      change (kinds_of compile (s :: s2 :: rest2)) with
        (match seg_kind compile false s, kinds_of compile (s2 :: rest2) with Some k, Some l => Some (k :: l) | _, _ => None end).
      unfold seg_kind. split.
      * destruct (classify compile false anc aa (elems s)) as [k|] eqn:C; [|discriminate].
        destruct (ctx_kinds (ctx_anc anc k) (ctx_aa aa k) (s2 :: rest2)) as [l|] eqn:E; [|discriminate]. intros H; inversion H; subst ks.
        apply classify_ctx in C as (C0 & B & A). apply IH in E as (K & N & B2 & Cn). rewrite C0, K.
        split; [reflexivity|]. unfold route_binds in *. cbn [flat_map]. unfold ctx_anc in B2.
        split; [apply NoDup_app_intro; [exact (proj1 (classify_binds compile _ _ _ _ _ C0)) | exact N | intros x Hx Hy; apply (B2 x Hy); apply in_or_app; left; exact Hx]|].
        split; [intros x Hx; apply in_app_or in Hx as [Hx|Hx]; [exact (B x Hx) | intros Ha; apply (B2 x Hx); apply in_or_app; right; exact Ha]|].
        assert (Hl : l <> []) by (intros ->; apply kinds_of_length in K; discriminate).
        destruct l as [|k2 l']; [congruence|]. change (init_segs (k :: k2 :: l')) with (k :: init_segs (k2 :: l')).
        unfold all_count in *. cbn [filter]. unfold ctx_aa in Cn. destruct (is_all k) eqn:Ik; cbn [length].
        -- destruct aa; [specialize (A eq_refl eq_refl); discriminate|]. cbn [orb] in Cn. lia.
        -- rewrite orb_false_r in Cn. exact Cn.
      * intros (K & N & B & Cn). destruct (classify compile false [] false (elems s)) as [k|] eqn:C0; [|discriminate].
        destruct (kinds_of compile (s2 :: rest2)) as [l|] eqn:K2; [|discriminate]. inversion K; subst ks.
        unfold route_binds in *. cbn [flat_map] in N, B. apply NoDup_app_inv in N as (N1 & N2 & D).
        assert (Hl : l <> []) by (intros ->; apply kinds_of_length in K2; discriminate).
        destruct l as [|k2 l']; [congruence|]. change (init_segs (k :: k2 :: l')) with (k :: init_segs (k2 :: l')) in Cn.
        unfold all_count in Cn. cbn [filter] in Cn.
        assert (C : classify compile false anc aa (elems s) = Some k).
        { apply classify_ctx. split; [exact C0|]. split; [intros x Hx; apply B; apply in_or_app; left; exact Hx|].
          intros _ ->. destruct (is_all k); [cbn [length] in Cn; lia | reflexivity]. }
        rewrite C.
        assert (E : ctx_kinds (ctx_anc anc k) (ctx_aa aa k) (s2 :: rest2) = Some (k2 :: l')).
        { apply IH. split; [reflexivity|]. split; [exact N2|]. split.
          - intros x Hx Ha. unfold ctx_anc in Ha. apply in_app_or in Ha as [Ha|Ha]; [exact (D x Ha Hx) | apply (B x); [apply in_or_app; right; exact Hx | exact Ha]].
          - unfold all_count, ctx_aa. destruct (is_all k); cbn [length] in Cn; [destruct aa; cbn [orb]; lia | rewrite orb_false_r; lia]. }
        rewrite E. reflexivity.
Qed.

(* ---------------- the forms of a route as key/kind steps ---------------- *)
Definition steps_of (q : route) (ks : list kind) : list kstep := combine (map seg_key q) ks.

Lemma knews_forms : forall r root anc aa l ks, knews compile root anc aa r = Some l -> ctx_kinds anc aa r = Some ks ->
  forall f, In f l <->
    f = steps_of r ks \/
    (last_optional r = true /\
     ((exists s, r = [s] /\ root = true /\ f = [(seg_key (mkseg false []), KStatic [])]) \/
      (exists s2 r2, r = s2 :: r2 /\ r2 <> [] /\ f = steps_of (removelast r) (removelast ks)))).
Proof.
  induction r as [|s r IH]; intros root anc aa l ks N K f; [discriminate|]. destruct r as [|s2 rest2].
  - cbn [knews ctx_kinds] in N, K. destruct (classify compile true anc false (elems s)) as [k|] eqn:C; [|discriminate].
    inversion N; subst l. inversion K; subst ks. unfold steps_of, last_optional. cbn [map combine rev app].
    destruct (optional s) eqn:O; cbn [andb].
    + destruct root; cbn [In].
      * split; [intros [<-|[<-|[]]]; [right; split; [reflexivity|]; left; exists s; auto | left; reflexivity]|].
        intros [->|(_ & [(s0 & E & _ & ->)|(s2 & r2 & E & Hr & _)])]; [right; left; reflexivity | left; reflexivity | inversion E; subst; congruence].
      * split; [intros [<-|[]]; left; reflexivity|].
        intros [->|(_ & [(s0 & E & R & _)|(s2 & r2 & E & Hr & _)])]; [left; reflexivity | discriminate | inversion E; subst; congruence].
    + cbn [In]. split; [intros [<-|[]]; left; reflexivity|]. intros [->|(X & _)]; [left; reflexivity | discriminate].
  - rewrite knews_cons2 in N.
    change (ctx_kinds anc aa (s :: s2 :: rest2)) with
      (match classify compile false anc aa (elems s) with
       | Some k => match ctx_kinds (ctx_anc anc k) (ctx_aa aa k) (s2 :: rest2) with Some l => Some (k :: l) | None => None end
       | None => None end) in K.
    destruct (classify compile false anc aa (elems s)) as [k|] eqn:C; [|discriminate].
    destruct (knews compile false (ctx_anc anc k) (ctx_aa aa k) (s2 :: rest2)) as [l0|] eqn:N0; [|discriminate].
    destruct (ctx_kinds (ctx_anc anc k) (ctx_aa aa k) (s2 :: rest2)) as [ks0|] eqn:K0; [|discriminate]. inversion K; subst ks. cbv zeta in N.
    rewrite (classify_sub_leaf anc aa (elems s) k C) in N.
    specialize (IH false _ _ l0 ks0 N0 K0).
    assert (LO : last_optional (s :: s2 :: rest2) = last_optional (s2 :: rest2)).
    { unfold last_optional. cbn [rev]. destruct (rev rest2 ++ [s2]) eqn:E; [destruct (rev rest2); discriminate | reflexivity]. }
    pose proof (ctx_kinds_length _ _ _ _ K0) as Lk0.
    assert (Hk0 : ks0 <> []) by (intros ->; discriminate).
    assert (ST : forall q qs, steps_of (s :: q) (k :: qs) = (seg_key s, k) :: steps_of q qs) by reflexivity.
    destruct rest2 as [|s3 rest3].
    + (* s2 is the last segment *)
      cbn [knews ctx_kinds] in N0, K0. destruct (classify compile true (ctx_anc anc k) false (elems s2)) as [k2|]; [|discriminate].
      inversion N0; subst l0. inversion K0; subst ks0. rewrite andb_false_r in *. cbn [map app] in N.
      rewrite LO. unfold last_optional. cbn [rev app]. rewrite ST.
      destruct (optional s2) eqn:O2; inversion N; subst l; cbn [In removelast].
      * split.
        -- intros [<-|[<-|[]]]; [left; reflexivity|]. right. split; [reflexivity|]. right. exists s, [s2].
           split; [reflexivity|]. split; [discriminate | reflexivity].
        -- intros [->|(_ & [(s0 & E & _)|(sx & rx & E & _ & ->)])]; [left; reflexivity | discriminate | right; left; reflexivity].
      * split; [intros [<-|[]]; left; reflexivity|]. intros [->|(X & _)]; [left; reflexivity | discriminate].
    + inversion N; subst l. rewrite app_nil_r. rewrite LO, ST. rewrite in_map_iff. split.
      * intros (f0 & <- & H0). apply IH in H0 as [->|(Lo & [(s0 & E & _)|(sx & rx & E & Hr & ->)])]; [left; reflexivity | discriminate|].
        right. split; [exact Lo|]. right. exists s, (s2 :: s3 :: rest3). split; [reflexivity|]. split; [discriminate|].
        inversion E; subst sx rx. destruct ks0 as [|k0 ks1]; [congruence|].
        change (removelast (s :: s2 :: s3 :: rest3)) with (s :: removelast (s2 :: s3 :: rest3)).
        destruct ks1 as [|k1 ks2]; [cbn in Lk0; lia|].
        change (removelast (k :: k0 :: k1 :: ks2)) with (k :: removelast (k0 :: k1 :: ks2)). reflexivity.
      * intros [->|(Lo & [(s0 & E & _)|(sx & rx & E & Hr & ->)])]; [exists (steps_of (s2 :: s3 :: rest3) ks0); split; [reflexivity | apply IH; left; reflexivity] | discriminate|].
        inversion E; subst sx rx. destruct ks0 as [|k0 [|k1 ks2]]; [congruence | cbn in Lk0; lia |].
        exists (steps_of (removelast (s2 :: s3 :: rest3)) (removelast (k0 :: k1 :: ks2))). split; [reflexivity|].
           apply IH. right. split; [exact Lo|]. right. exists s2, (s3 :: rest3). repeat split; discriminate || reflexivity.
Qed.

(* ---------------- flats of the route list as steps ---------------- *)
Definition flat_steps (f : flat) : list kstep := combine (f_texts f) (f_kinds f).
Definition flat_wf (f : flat) : Prop := length (f_texts f) = length (f_kinds f).

Lemma short_form_removelast s r : r <> [] -> short_form (s :: r) = removelast (s :: r).
Proof.
  intros Hr. unfold short_form. rewrite <- (rev_involutive (s :: r)) at 2. destruct (rev (s :: r)) as [|x l] eqn:E.
  - apply (f_equal (@rev segment)) in E. rewrite rev_involutive in E. discriminate.
  - destruct l as [|y l'].
    + apply (f_equal (@rev segment)) in E. rewrite rev_involutive in E. cbn in E. inversion E; subst. congruence.
    + cbn [rev]. rewrite removelast_last. reflexivity.
Qed.

Lemma kinds_of_removelast : forall r ks, kinds_of compile r = Some ks -> 2 <= length r ->
  kinds_of compile (removelast r) = Some (removelast ks).
Proof.
  induction r as [|s r IH]; intros ks K L; [cbn in L; lia|]. destruct r as [|s2 r2]; [cbn in L; lia|].
  change (kinds_of compile (s :: s2 :: r2)) with
    (match seg_kind compile false s, kinds_of compile (s2 :: r2) with Some k, Some l => Some (k :: l) | _, _ => None end) in K.
  destruct (seg_kind compile false s) as [k|] eqn:C; [|discriminate]. destruct (kinds_of compile (s2 :: r2)) as [l|] eqn:K2; [|discriminate].
  inversion K; subst ks. pose proof (kinds_of_length _ _ K2) as Ll.
  destruct r2 as [|s3 r3].
  - cbn [removelast]. destruct l as [|k2 [|? ?]]; try discriminate. cbn [removelast kinds_of].
    unfold seg_kind in *. rewrite (classify_sub_leaf [] false (elems s) k C). reflexivity.
  - change (removelast (s :: s2 :: s3 :: r3)) with (s :: removelast (s2 :: s3 :: r3)).
    destruct l as [|k2 [|k3 l3]]; try discriminate. change (removelast (k :: k2 :: k3 :: l3)) with (k :: removelast (k2 :: k3 :: l3)).
    specialize (IH (k2 :: k3 :: l3) eq_refl ltac:(cbn; lia)).
    destruct (removelast (s2 :: s3 :: r3)) as [|x xs] eqn:E; [destruct r3; discriminate|].
    change (kinds_of compile (s :: x :: xs)) with
      (match seg_kind compile false s, kinds_of compile (x :: xs) with Some k, Some l => Some (k :: l) | _, _ => None end).
    rewrite C, IH. reflexivity.
Qed.

(* the flats of a route, as steps, are the forms registration adds *)
Lemma flats_are_forms r rid l ks : r <> [] -> knews compile true [] false r = Some l -> kinds_of compile r = Some ks ->
  ctx_kinds [] false r = Some ks ->
  forall f, In f l <-> exists g, In g (flats_of compile rid r) /\ flat_steps g = f.
Proof.
  intros Hne N K CK f. rewrite (knews_forms r true [] false l ks N CK f).
  unfold flats_of. rewrite K. destruct r as [|s r']; [congruence|].
  split.
  - intros [->|(Lo & [(s0 & E & _ & ->)|(s2 & r2 & E & Hr & ->)])].
    + eexists. split; [cbn [app]; left; reflexivity | reflexivity].
    + inversion E; subst s0 r'. rewrite Lo. unfold short_form. cbn [rev app kinds_of]. unfold seg_kind. cbn [elems].
      eexists. split; [right; left; reflexivity | reflexivity].
    + inversion E; subst s2 r2. rewrite Lo, (short_form_removelast s r' Hr).
      rewrite (kinds_of_removelast _ _ K) by (destruct r'; [congruence | cbn; lia]).
      eexists. split; [cbn [app]; right; left; reflexivity | reflexivity].
  - intros (g & Hg & <-). cbn [app] in Hg. destruct Hg as [<-|Hg]; [left; reflexivity|].
    destruct (last_optional (s :: r')) eqn:Lo; [|destruct Hg]. right. split; [reflexivity|].
    destruct r' as [|s2 r2].
    + left. exists s. unfold short_form in Hg. cbn [rev app kinds_of] in Hg. unfold seg_kind in Hg. cbn [elems] in Hg.
      destruct Hg as [<-|[]]. auto.
    + right. exists s, (s2 :: r2). split; [reflexivity|]. split; [discriminate|].
      rewrite (short_form_removelast s (s2 :: r2)) in Hg by discriminate.
      rewrite (kinds_of_removelast _ _ K) in Hg by (cbn; lia). destruct Hg as [<-|[]]. reflexivity.
Qed.

(* ---------------- the boolean checks of RouteSpec.valid, read as propositions on steps ---------------- *)
Lemma prefix_eq_iff : forall i a b, prefix_eq a b i = true <-> firstn i a = firstn i b /\ i <= length a /\ i <= length b.
Proof.
  induction i as [|i IH]; intros a b.
  - cbn [firstn]. split; [intros _; repeat split; lia | intros _; destruct a; reflexivity].
  - destruct a as [|x a], b as [|y b]; cbn [prefix_eq firstn length]; try (split; [discriminate | intros (_ & L1 & L2); lia]).
    rewrite andb_true_iff, str_eqb_eq, IH. split.
    + intros (-> & E & L1 & L2). rewrite E. repeat split; lia.
    + intros (E & L1 & L2). inversion E. repeat split; auto; lia.
Qed.

Lemma nth_combine {A B} (a : list A) (b : list B) : length a = length b -> forall i x y,
  nth_error (combine a b) i = Some (x, y) <-> nth_error a i = Some x /\ nth_error b i = Some y.
Proof.
  revert b. induction a as [|u a IH]; intros [|v b] L i x y; try discriminate.
  - destruct i; cbn; split; [discriminate | intros [H _]; discriminate | discriminate | intros [H _]; discriminate].
  - destruct i; cbn [combine nth_error].
    + split; [intros H; inversion H; auto | intros [H1 H2]; inversion H1; inversion H2; reflexivity].
    + apply IH. cbn in L. lia.
Qed.

Lemma combine_texts {A B} (a : list A) (b : list B) : length a = length b -> map fst (combine a b) = a.
Proof. revert b. induction a as [|u a IH]; intros [|v b] L; try discriminate; [reflexivity|]. cbn. f_equal. apply IH. cbn in L. lia. Qed.

Lemma all_clash_iff f g : flat_wf f -> flat_wf g ->
  all_clash f g = true <-> exists i, clash_at (flat_steps f) (flat_steps g) i.
Proof.
  intros Wf Wg. unfold all_clash, clash_at, flat_steps, texts. rewrite (combine_texts _ _ Wf), (combine_texts _ _ Wg).
  rewrite existsb_exists. split.
  - intros (i & Hi & H). apply andb_prop in H as [P H]. apply prefix_eq_iff in P as (P & _ & _).
    destruct (nth_error (f_kinds f) i) as [kf|] eqn:Ekf; [|discriminate]. destruct (nth_error (f_kinds g) i) as [kg|] eqn:Ekg; [|discriminate].
    destruct (nth_error (f_texts f) i) as [tf|] eqn:Etf; [|discriminate]. destruct (nth_error (f_texts g) i) as [tg|] eqn:Etg; [|discriminate].
    apply andb_prop in H as [H Fin]. apply andb_prop in H as [H Ne]. apply andb_prop in H as [A1 A2].
    unfold flat_wf in Wf, Wg.
    exists i. split; [exact P|]. exists tf, kf, tg, kg.
    assert (Lf : length (combine (f_texts f) (f_kinds f)) = length (f_texts f)) by (rewrite combine_length, <- Wf; apply Nat.min_id).
    assert (Lg : length (combine (f_texts g) (f_kinds g)) = length (f_texts g)) by (rewrite combine_length, <- Wg; apply Nat.min_id).
    split; [apply (nth_combine _ _ Wf); auto|]. split; [apply (nth_combine _ _ Wg); auto|]. split; [exact A1|]. split; [exact A2|].
    split; [apply Bool.negb_true_iff in Ne; apply str_eqb_neq; exact Ne|].
    unfold is_final in Fin. apply Bool.eqb_prop in Fin. split; intros X.
    + apply (eq_trans (y := length (f_texts g))); [|symmetry; exact Lg].
      apply Nat.eqb_eq. rewrite <- Fin. apply Nat.eqb_eq. apply (eq_trans X). exact Lf.
    + apply (eq_trans (y := length (f_texts f))); [|symmetry; exact Lf].
      apply Nat.eqb_eq. rewrite Fin. apply Nat.eqb_eq. apply (eq_trans X). exact Lg.
  - intros (i & P & tf & kf & tg & kg & N1 & N2 & A1 & A2 & Ne & Fin).
    unfold flat_wf in Wf, Wg.
    apply (nth_combine _ _ Wf) in N1 as [Etf Ekf]. apply (nth_combine _ _ Wg) in N2 as [Etg Ekg].
    assert (Lf : length (combine (f_texts f) (f_kinds f)) = length (f_texts f)) by (rewrite combine_length, <- Wf; apply Nat.min_id).
    assert (Lg : length (combine (f_texts g) (f_kinds g)) = length (f_texts g)) by (rewrite combine_length, <- Wg; apply Nat.min_id).
    assert (Fin' : S i = length (f_texts f) <-> S i = length (f_texts g)).
    { destruct Fin as [F1 F2]. split; intros X.
      - apply (eq_trans (F1 (eq_trans X (eq_sym Lf)))). exact Lg.
      - apply (eq_trans (F2 (eq_trans X (eq_sym Lg)))). exact Lf. }
    clear Fin Lf Lg. rename Fin' into Fin.
    assert (Li : i < length (f_texts f)) by (apply nth_error_Some; congruence).
    assert (Lg : i < length (f_texts g)) by (apply nth_error_Some; congruence).
    exists i. split; [apply in_seq; lia|]. apply andb_true_intro. split; [apply prefix_eq_iff; repeat split; [exact P | lia | lia]|].
    rewrite Ekf, Ekg, Etf, Etg, A1, A2. cbn [andb]. apply andb_true_intro. split.
    + apply Bool.negb_true_iff. apply str_eqb_neq. exact Ne.
    + unfold is_final. destruct (Nat.eqb_spec (S i) (length (f_texts f))) as [E1|E1], (Nat.eqb_spec (S i) (length (f_texts g))) as [E2|E2]; try reflexivity; tauto.
Qed.

Lemma same_texts_iff f g : flat_wf f -> flat_wf g -> same_texts f g = true <-> texts (flat_steps f) = texts (flat_steps g).
Proof.
  intros Wf Wg. unfold same_texts, flat_steps, texts. rewrite (combine_texts _ _ Wf), (combine_texts _ _ Wg).
  apply (list_eqb_eq str_eqb str_eqb_eq).
Qed.

Lemma flats_of_wf rid r g : In g (flats_of compile rid r) -> flat_wf g /\ f_rid g = rid.
Proof.
  unfold flats_of. intros H.
  assert (MK : forall q, In g (match kinds_of compile q with Some ks => [mkflat rid (map seg_key q) ks] | None => [] end) -> flat_wf g /\ f_rid g = rid).
  { intros q Hq. destruct (kinds_of compile q) as [ks|] eqn:K; [|destruct Hq]. destruct Hq as [<-|[]]. unfold flat_wf. cbn.
    rewrite map_length, (kinds_of_length _ _ K). auto. }
  apply in_app_or in H as [H|H]; [exact (MK r H)|]. destruct (last_optional r); [exact (MK _ H) | destruct H].
Qed.

Lemma nodup_nodup_str l : NoDup l -> nodup_str l = true.
Proof.
  induction 1 as [|x l Hx N IH]; [reflexivity|]. cbn [nodup_str]. rewrite IH, andb_true_r. apply Bool.negb_true_iff. apply mem_str_false. exact Hx.
Qed.

Lemma init_segs_removelast {A} (l : list A) : init_segs l = removelast l.
Proof. induction l as [|x l IH]; [reflexivity|]. destruct l; [reflexivity|]. cbn [init_segs removelast]. f_equal. exact IH. Qed.

(* an inner segment that classifies is not empty *)
Lemma ctx_kinds_inner_nonempty : forall r anc aa ks, ctx_kinds anc aa r = Some ks -> forall s, In s (removelast r) -> elems s <> [].
Proof.
  induction r as [|s r IH]; intros anc aa ks K x Hx; [destruct Hx|]. destruct r as [|s2 r2]; [destruct Hx|].
  change (ctx_kinds anc aa (s :: s2 :: r2)) with
    (match classify compile false anc aa (elems s) with
     | Some k => match ctx_kinds (ctx_anc anc k) (ctx_aa aa k) (s2 :: r2) with Some l => Some (k :: l) | None => None end
     | None => None end) in K.
  destruct (classify compile false anc aa (elems s)) as [k|] eqn:C; [|discriminate].
  destruct (ctx_kinds (ctx_anc anc k) (ctx_aa aa k) (s2 :: r2)) as [l|] eqn:E; [|discriminate].
  cbn [removelast] in Hx. destruct Hx as [<-|Hx]; [intros X; rewrite X in C; discriminate | exact (IH _ _ _ E x Hx)].
Qed.

Section Link.
Variable good : list elem -> Prop.
Hypothesis good_nil : good [].
Hypothesis render_inj : forall a b, good a -> good b -> render_elems a = render_elems b -> a = b.

(* the key paths of the tree are the flats of the registered routes *)
Lemma kpaths_are_flats : forall rs rs0 t t',
  wfo compile good [] false t -> (forall rid r, In (rid, r) rs -> route_good good r) ->
  (forall p, In p (kpaths t) <-> exists f, In f (all_flats compile rs0) /\ p = (flat_steps f, f_rid f)) ->
  reg_all compile t rs = Some t' ->
  forall p, In p (kpaths t') <-> exists f, In f (all_flats compile (rs0 ++ rs)) /\ p = (flat_steps f, f_rid f).
Proof.
  induction rs as [|[rid r] rs IH]; intros rs0 t t' W G P H; cbn [reg_all] in H.
  - inversion H; subst. rewrite app_nil_r. exact P.
  - destruct (add_route compile t r rid) as [t1|] eqn:A; [|discriminate]. unfold add_route in A.
    pose proof (G rid r (or_introl eq_refl)) as Gr.
    destruct (add_segs_kok compile good good_nil render_inj _ _ _ _ _ _ _ _ W Gr A) as (W1 & l & Nl & P1).
    assert (Hne : r <> []) by (intros ->; discriminate).
    destruct (proj1 (knews_iff_ctx r true [] false Hne) (ex_intro _ l Nl)) as [ks CK].
    pose proof (proj1 (ctx_kinds_iff r [] false ks) CK) as (K & _).
    replace (rs0 ++ (rid, r) :: rs) with ((rs0 ++ [(rid, r)]) ++ rs) by (rewrite <- app_assoc; reflexivity).
    apply (IH (rs0 ++ [(rid, r)]) t1 t' W1); [intros rid' r' Hin; apply (G rid' r'); right; exact Hin | | exact H].
    intros p. rewrite P1, P. unfold all_flats. rewrite flat_map_app. cbn [flat_map fst snd]. rewrite app_nil_r. split.
    + intros [(f & Hf & ->)|Hp].
      * exists f. split; [apply in_or_app; left; exact Hf | reflexivity].
      * unfold kwith_rid in Hp. apply in_map_iff in Hp as (f' & <- & Hf').
        apply (flats_are_forms r rid l ks Hne Nl K CK) in Hf' as (g & Hg & <-). destruct (flats_of_wf rid r g Hg) as [_ Er].
        exists g. split; [apply in_or_app; right; exact Hg | rewrite Er; reflexivity].
    + intros (f & Hf & ->). apply in_app_or in Hf as [Hf|Hf]; [left; eauto|]. right.
      destruct (flats_of_wf rid r f Hf) as [_ Er]. rewrite Er. unfold kwith_rid. apply (in_map (fun ks0 : list kstep => (ks0, rid))).
      apply (flats_are_forms r rid l ks Hne Nl K CK). eauto.
Qed.

(* C08 on the list of routes: accepted iff RouteSpec.valid *)
Theorem valid_iff_accept rs t r rid :
  (forall rid' r', In (rid', r') rs -> route_good good r') -> route_good good r ->
  increasing rs -> (forall rid', In rid' (map fst rs) -> rid' < rid) ->
  reg_all compile empty rs = Some t ->
  (add_route compile t r rid <> None <-> valid compile rs r = true).
Proof.
  intros G Gr Inc Fresh H.
  destruct (reg_all_ordered compile good good_nil render_inj rs empty t (wfo_empty compile good [] false) live_empty) as (W & L & _); auto.
  { apply ordered_node. repeat split; constructor. }
  { intros p rid' []. }
  assert (KP : forall p, In p (kpaths t) <-> exists f, In f (all_flats compile rs) /\ p = (flat_steps f, f_rid f)).
  { apply (kpaths_are_flats rs [] empty t (wfo_empty compile good [] false) G); [|exact H].
    intros p. split; [intros [] | intros (f & [] & _)]. }
  assert (FR : forall p, In p (kpaths t) -> snd p <> rid).
  { intros p Hp. apply KP in Hp as (f & Hf & ->). cbn [snd]. unfold all_flats in Hf. apply in_flat_map in Hf as ([rid' r'] & Hin & Hf).
    destruct (flats_of_wf _ _ _ Hf) as [_ ->]. cbn [fst]. specialize (Fresh rid' (in_map fst _ _ Hin)). lia. }
  unfold add_route. rewrite (accept_iff compile good good_nil render_inj (length r) true t [] false r rid W L Gr (le_n _) FR).
  unfold valid. split.
  - intros (l & N & NP & Fr).
    assert (Hne : r <> []) by (intros ->; discriminate).
    destruct (proj1 (knews_iff_ctx r true [] false Hne) (ex_intro _ l N)) as [ks CK].
    destruct (proj1 (ctx_kinds_iff r [] false ks) CK) as (K & ND & _ & Cn).
    rewrite K. destruct r as [|s0 r0]; [congruence|]. cbn [andb].
    apply andb_true_intro. split.
    + rewrite init_segs_removelast. apply forallb_forall. intros x Hx. rewrite (NP x Hx). cbn [negb andb].
      pose proof (ctx_kinds_inner_nonempty _ _ _ _ CK x Hx) as Xe. destruct (elems x); [congruence | reflexivity].
    + apply andb_true_intro. split; [apply andb_true_intro; split; [apply andb_true_intro; split|]|].
      * apply nodup_nodup_str. exact ND.
      * apply Nat.leb_le. unfold all_count in Cn. lia.
      * destruct (last_optional (s0 :: r0)) eqn:Lo; [|reflexivity]. destruct r0 as [|s1 r1].
        -- unfold short_form. cbn [rev app kinds_of]. unfold seg_kind. reflexivity.
        -- rewrite (short_form_removelast s0 (s1 :: r1)) by discriminate. rewrite (kinds_of_removelast _ _ K) by (cbn; lia). reflexivity.
      * cbv zeta. apply forallb_forall. intros g Hg. apply forallb_forall. intros f Hf.
        destruct (flats_of_wf 0 _ g Hg) as [Wg _]. assert (Wf : flat_wf f).
        { unfold all_flats in Hf. apply in_flat_map in Hf as ([rid' r'] & _ & Hf). exact (proj1 (flats_of_wf _ _ _ Hf)). }
        assert (Hform : In (flat_steps g) l) by (apply (flats_are_forms (s0 :: r0) 0 l ks Hne N K CK); eauto).
        destruct (Fr _ Hform) as [ND' NC'].
        assert (Hp : In (flat_steps f, f_rid f) (kpaths t)) by (apply KP; eauto).
        apply andb_true_intro. split; apply Bool.negb_true_iff.
        -- destruct (all_clash f g) eqn:E; [|reflexivity]. exfalso. apply (all_clash_iff f g Wf Wg) in E as [i Hi].
           apply NC'. exists (flat_steps f, f_rid f), i. auto.
        -- destruct (same_texts f g) eqn:E; [|reflexivity]. exfalso. apply (same_texts_iff f g Wf Wg) in E.
           apply ND'. exists (flat_steps f, f_rid f). auto.
  - intros V. destruct r as [|s0 r0]; [discriminate|]. cbn [andb] in V.
    apply andb_prop in V as [V2 V]. destruct (kinds_of compile (s0 :: r0)) as [ks|] eqn:K; [|discriminate].
    apply andb_prop in V as [V V7]. apply andb_prop in V as [V V6]. apply andb_prop in V as [V4 V5].
    assert (Hne : s0 :: r0 <> []) by discriminate.
    assert (CK : ctx_kinds [] false (s0 :: r0) = Some ks).
    { apply ctx_kinds_iff. split; [exact K|]. split; [apply nodup_str_nodup; exact V4|]. split; [intros x _ []|].
      apply Nat.leb_le in V5. unfold all_count. lia. }
    destruct (proj2 (knews_iff_ctx (s0 :: r0) true [] false Hne) (ex_intro _ ks CK)) as [l N].
    exists l. split; [exact N|]. split.
    + intros x Hx. rewrite init_segs_removelast in V2. rewrite forallb_forall in V2. specialize (V2 x Hx).
      apply andb_prop in V2 as [V2 _]. apply Bool.negb_true_iff in V2. exact V2.
    + intros f' Hf'. apply (flats_are_forms (s0 :: r0) 0 l ks Hne N K CK) in Hf' as (g & Hg & <-).
      cbv zeta in V7. rewrite forallb_forall in V7. specialize (V7 g Hg). rewrite forallb_forall in V7.
      destruct (flats_of_wf 0 _ g Hg) as [Wg _].
      split.
      * intros (p & Hp & E). apply KP in Hp as (f & Hf & ->). cbn [fst] in E.
        assert (Wf : flat_wf f) by (unfold all_flats in Hf; apply in_flat_map in Hf as ([rid' r'] & _ & Hf0); exact (proj1 (flats_of_wf _ _ _ Hf0))).
        specialize (V7 f Hf). apply andb_prop in V7 as [_ V7]. apply Bool.negb_true_iff in V7.
        apply (same_texts_iff f g Wf Wg) in E. congruence.
      * intros (p & i & Hp & C). apply KP in Hp as (f & Hf & ->). cbn [fst] in C.
        assert (Wf : flat_wf f) by (unfold all_flats in Hf; apply in_flat_map in Hf as ([rid' r'] & _ & Hf0); exact (proj1 (flats_of_wf _ _ _ Hf0))).
        specialize (V7 f Hf). apply andb_prop in V7 as [V7 _]. apply Bool.negb_true_iff in V7.
        assert (X : all_clash f g = true) by (apply (all_clash_iff f g Wf Wg); eauto). congruence.
Qed.
End Link.
End VS.
