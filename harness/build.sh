#!/bin/sh
# Build the harness against /repo's current working tree (REPO overrides the location).
set -e
cd "$(dirname "$0")"
export GOFLAGS=-mod=mod GOPROXY=off GOSUMDB=off GOTOOLCHAIN=local
REPO="${REPO:-/repo}"
sed "s|=> /repo|=> $REPO|" go.mod.tmpl > go.mod
cp "$REPO/go.sum" go.sum
go build $HARNESS_BUILD_FLAGS -o "${HARNESS_OUT:-bin/harness}" .
