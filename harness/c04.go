package main

import (
	"fmt"
	"io"
	"math/rand"
	"net/http"
	"net/url"
	"reflect"
	"strings"

	"github.com/flamego/flamego"
	"github.com/flamego/flamego/inject"
)

// ---- C04: the type universe ----
type i1 interface{ M1() int }
type i2 interface {
	i1
	M2() int
}
type svcA struct{ id int }

func (s *svcA) M1() int  { return s.id }
func (s *svcA) M2() int  { return s.id }
func (s *svcA) hidden()  {}
func (s *svcA) hidden2() {}

// i3 has unexported methods (reflect's NumMethod counts those for interface types only: 3 here, 2 for *svcA)
type i3 interface {
	M1() int
	hidden()
	hidden2()
}

type svcB struct{ id int }

func (s svcB) M1() int { return s.id }

type myInt int

func (m myInt) M1() int { return int(m) }

type plainT struct{ id int }

var c04types = []reflect.Type{
	reflect.TypeOf(0),                          // 0 int
	reflect.TypeOf(""),                         // 1 string
	reflect.TypeOf(&svcA{}),                    // 2 *svcA   implements i1, i2, any
	reflect.TypeOf(svcB{}),                     // 3 svcB    implements i1, any
	reflect.TypeOf(make(chan int)),             // 4 chan int
	reflect.TypeOf((<-chan int)(nil)),          // 5 <-chan int (only via Set)
	reflect.TypeOf((*i1)(nil)).Elem(),          // 6 i1
	reflect.TypeOf((*i2)(nil)).Elem(),          // 7 i2
	reflect.TypeOf((*interface{})(nil)).Elem(), // 8 interface{}
	reflect.TypeOf(myInt(0)),                   // 9 myInt   implements i1, any
	reflect.TypeOf(plainT{}),                   // 10 plainT
	reflect.TypeOf((*i3)(nil)).Elem(),          // 11 i3 (unexported method), implemented by *svcA
	reflect.TypeOf(svcA{}),                     // 12 svcA as a value: its methods have pointer receivers, it implements none of the interfaces but interface{}
}

// concrete types a value can have (interfaces are keys only)
var c04concrete = []int{0, 1, 2, 3, 4, 9, 10, 12}

func c04value(ty, id int) interface{} {
	switch ty {
	case 0:
		return id
	case 1:
		return fmt.Sprintf("s%d", id)
	case 2:
		if id == 0 {
			return (*svcA)(nil) // a typed nil pointer is a value like any other
		}
		return &svcA{id}
	case 12:
		return svcA{id}
	case 3:
		return svcB{id}
	case 4:
		return make(chan int, id)
	case 9:
		return myInt(id)
	case 10:
		return plainT{id}
	}
	panic(badInput(fmt.Sprintf("no value of type %d", ty)))
}

// identity of a value seen by a handler
func c04ident(v reflect.Value) int {
	for v.Kind() == reflect.Interface {
		v = v.Elem()
	}
	switch x := v.Interface().(type) {
	case int:
		return x
	case string:
		var id int
		fmt.Sscanf(x, "s%d", &id)
		return id
	case *svcA:
		if x == nil {
			return 0
		}
		return x.id
	case svcA:
		return x.id
	case svcB:
		return x.id
	case chan int:
		return cap(x)
	case <-chan int:
		return cap(x)
	case myInt:
		return int(x)
	case plainT:
		return x.id
	}
	return -1
}

// a hand-written FastInvoker for func(*svcA, string) int
type fastAS func(*svcA, string) int

func (f fastAS) Invoke(args []interface{}) ([]reflect.Value, error) {
	return []reflect.Value{reflect.ValueOf(f(args[0].(*svcA), args[1].(string)))}, nil
}

// and one taking an interface and a channel
type fastIC func(i1, chan int) int

func (f fastIC) Invoke(args []interface{}) ([]reflect.Value, error) {
	return []reflect.Value{reflect.ValueOf(f(args[0].(i1), args[1].(chan int)))}, nil
}

func runC04(in *Sx) *Sx {
	n := in.Field("injectors").Args()[0].Int()
	injs := make([]inject.Injector, n)
	for i := range injs {
		injs[i] = inject.New()
		if i > 0 {
			injs[i].SetParent(injs[i-1]) // injector 0 is the outermost (application) scope
		}
	}
	var outs []*Sx
	for _, op := range in.Field("ops").Args() {
		a := op.Args()
		switch op.Tag() {
		case "map": // (map inj vty id)
			injs[a[0].Int()].Map(c04value(a[1].Int(), a[2].Int()))
			outs = append(outs, T("ok"))
		case "mapto": // (mapto inj vty id iface)
			var ptr interface{}
			switch a[3].Int() {
			case 6:
				ptr = (*i1)(nil)
			case 7:
				ptr = (*i2)(nil)
			case 8:
				ptr = (*interface{})(nil)
			default:
				panic(badInput("mapto target"))
			}
			injs[a[0].Int()].MapTo(c04value(a[1].Int(), a[2].Int()), ptr)
			outs = append(outs, T("ok"))
		case "set": // (set inj key vty id)   key 5 (<-chan int) takes a chan int value converted
			v := reflect.ValueOf(c04value(a[2].Int(), a[3].Int()))
			if a[1].Int() == 5 {
				v = v.Convert(c04types[5])
			}
			injs[a[0].Int()].Set(c04types[a[1].Int()], v)
			outs = append(outs, T("ok"))
		case "setnil": // (setnil inj key): the key is registered with the zero reflect.Value
			injs[a[0].Int()].Set(c04types[a[1].Int()], reflect.Value{})
			outs = append(outs, T("ok"))
		case "value": // (value inj ty)
			v := injs[a[0].Int()].Value(c04types[a[1].Int()])
			if !v.IsValid() {
				outs = append(outs, T("none"))
			} else {
				outs = append(outs, T("v", I(c04ident(v))))
			}
		case "invoke": // (invoke inj mode (sig ty...))  mode: plain | fast
			var sig []reflect.Type
			for _, t := range a[2].Args() {
				sig = append(sig, c04types[t.Int()])
			}
			calls := 0
			var seen []*Sx
			var fn interface{}
			if a[1].Atom == "fast" {
				// only two signatures have a hand-written fast invoker
				if len(sig) == 2 && sig[0] == c04types[2] && sig[1] == c04types[1] {
					fn = fastAS(func(x *svcA, s string) int {
						calls++
						seen = []*Sx{I(c04ident(reflect.ValueOf(x))), I(c04ident(reflect.ValueOf(s)))}
						return 4242
					})
				} else if len(sig) == 2 && sig[0] == c04types[6] && sig[1] == c04types[4] {
					fn = fastIC(func(x i1, c chan int) int {
						calls++
						seen = []*Sx{I(c04ident(reflect.ValueOf(x))), I(cap(c))}
						return 4242
					})
				} else {
					panic(badInput("no fast invoker for this signature"))
				}
			} else {
				ft := reflect.FuncOf(sig, []reflect.Type{c04types[0]}, false)
				fn = reflect.MakeFunc(ft, func(args []reflect.Value) []reflect.Value {
					calls++
					seen = nil
					for _, x := range args {
						seen = append(seen, I(c04ident(x)))
					}
					return []reflect.Value{reflect.ValueOf(4242)}
				}).Interface()
			}
			res, err := injs[a[0].Int()].Invoke(fn)
			if err != nil {
				outs = append(outs, T("err", I(c04typeNamed(err.Error())), T("calls", I(calls))))
			} else {
				okRes := len(res) == 1 && res[0].Kind() == reflect.Int && res[0].Int() == 4242
				outs = append(outs, T("call", T("args", seen...), T("calls", I(calls)), T("result", B(okRes))))
			}
		case "apply": // (apply inj (fields (f ty tagged)...))  tagged: 1 tagged+exported, 0 untagged, 2 tagged but unexported
			var fields []reflect.StructField
			for i, f := range a[1].Args() {
				sf := reflect.StructField{Name: fmt.Sprintf("F%d", i), Type: c04types[f.Args()[0].Int()]}
				switch f.Args()[1].Atom {
				case "1":
					sf.Tag = `inject:""`
				case "2":
					sf.Tag = `inject:""`
					sf.Name = fmt.Sprintf("f%d", i)
					sf.PkgPath = "github.com/flamego/flamego/verifharness"
				}
				fields = append(fields, sf)
			}
			st := reflect.New(reflect.StructOf(fields))
			if len(a) > 3 { // (pre): tagged fields already hold a value of their own; Apply replaces it
				for i, f := range fields {
					if a[1].Args()[i].Args()[1].Atom != "1" {
						continue
					}
					for _, ty := range c04concrete {
						if v := reflect.ValueOf(c04value(ty, 999)); v.Type().AssignableTo(f.Type) {
							st.Elem().Field(i).Set(v)
							break
						}
					}
				}
			}
			target := st
			if len(a) > 2 { // (deep k): the struct is handed over behind k more pointers
				for k := a[2].Args()[0].Int(); k > 0; k-- {
					pp := reflect.New(target.Type())
					pp.Elem().Set(target)
					target = pp
				}
			}
			err := injs[a[0].Int()].Apply(target.Interface())
			var sets []*Sx
			for i := range fields {
				fv := st.Elem().Field(i)
				if fields[i].PkgPath != "" || fv.IsZero() {
					continue
				}
				if id := c04ident(fv); id != 999 && id != 0 { // 0: a typed nil pointer, not told from "not set"
					sets = append(sets, T("f", I(i), I(c04ident(fv))))
				}
			}
			if err != nil {
				outs = append(outs, T("aerr", I(c04typeNamed(err.Error())), T("sets", sets...)))
			} else {
				outs = append(outs, T("aok", T("sets", sets...)))
			}
		case "request":
			outs = append(outs, c04request(a))
		default:
			panic(badInput("op " + op.String()))
		}
	}
	return T("obs", T("outs", outs...))
}

// (request (app (m vty id)...) (reqs (r (h (maps (m vty id)...) (want ty))...)...)):
// application-scope registrations, then requests whose handlers map values and ask for one
func c04request(a []*Sx) *Sx {
	f := flamego.NewWithLogger(io.Discard)
	for _, m := range a[0].Args() {
		f.Map(c04value(m.Args()[0].Int(), m.Args()[1].Int()))
	}
	var results []*Sx
	for ri, r := range a[1].Args() {
		var hs []flamego.Handler
		var seen []*Sx
		for _, h := range r.Args() {
			maps := h.Field("maps").Args()
			want := h.Field("want").Args()[0].Int()
			hs = append(hs, func(c flamego.Context) {
				v := c.Value(c04types[want])
				if v.IsValid() {
					seen = append(seen, I(c04ident(v)))
				} else {
					seen = append(seen, A("none"))
				}
				for _, m := range maps {
					c.Map(c04value(m.Args()[0].Int(), m.Args()[1].Int()))
				}
			})
		}
		path := fmt.Sprintf("/r%d", ri)
		f.Get(path, hs...)
		req := &http.Request{Method: "GET", URL: &url.URL{Path: path}, Header: http.Header{}, Proto: "HTTP/1.1"}
		f.ServeHTTP(&wireWriter{hdr: http.Header{}}, req)
		results = append(results, T("r", seen...))
	}
	// a handler may also re-map the Context itself: later handlers get the re-mapped value, whether they are
	// invoked through the built-in func(Context) fast path or reflectively
	fastSaw, reflSaw := false, false
	f.Get("/remap",
		func(c flamego.Context) { c.MapTo(&c04wrapCtx{Context: c}, (*flamego.Context)(nil)) },
		func(c flamego.Context) { _, fastSaw = c.(*c04wrapCtx) },
		func(c flamego.Context, _ *http.Request) { _, reflSaw = c.(*c04wrapCtx) })
	f.ServeHTTP(&wireWriter{hdr: http.Header{}}, &http.Request{Method: "GET", URL: &url.URL{Path: "/remap"}, Header: http.Header{}, Proto: "HTTP/1.1"})
	results = append(results, T("remap", B(fastSaw), B(reflSaw)))
	return T("reqres", results...)
}

type c04wrapCtx struct{ flamego.Context }

// c04typeNamed tells which type of the universe an injector error names: the type whose name comes first in
// the message (the longest one at that place, "<-chan int" before "chan int" before "int"); the wording around
// the name is not the property's business.  -1: no type of the universe is named.
func c04typeNamed(msg string) int {
	wordy := func(b byte) bool {
		return b == '_' || b == '.' || b == '*' || b == '-' || b >= '0' && b <= '9' || b >= 'a' && b <= 'z' || b >= 'A' && b <= 'Z'
	}
	best, at, width := -1, len(msg)+1, 0
	for i, t := range c04types {
		name := fmt.Sprintf("%v", t)
		for from := 0; from < len(msg); {
			k := strings.Index(msg[from:], name)
			if k < 0 {
				break
			}
			k += from
			from = k + 1
			if (k > 0 && wordy(msg[k-1])) || (k+len(name) < len(msg) && wordy(msg[k+len(name)])) {
				continue // inside a longer word or name
			}
			if k < at || (k == at && len(name) > width) {
				best, at, width = i, k, len(name)
			}
			break
		}
	}
	return best
}

func genC04(rng *rand.Rand, n int, tier string, emit func(*Sx)) {
	// the implements table of the universe, computed by reflect, travels with every case
	var impl []*Sx
	for k, kt := range c04types {
		for t, tt := range c04types {
			if tt.Kind() == reflect.Interface && kt.Implements(tt) {
				impl = append(impl, T("i", I(k), I(t)))
			}
		}
	}
	var ifaces []*Sx
	for t, tt := range c04types {
		if tt.Kind() == reflect.Interface {
			ifaces = append(ifaces, I(t))
		}
	}
	for i := 0; i < n; i++ {
		ninj := 1 + rng.Intn(3)
		var ops []*Sx
		nextID := 1
		id := func() int { nextID++; return nextID }
		// one case in four also registers invalid reflect.Values (Set(t, reflect.Value{})) under concrete types; such
		// a case asks for no interface{} (every key implements it, and when an implementing key holds an invalid
		// value Go's answer depends on map iteration order, "not found" included - outside the modelled domain)
		nilCase := rng.Intn(4) == 0
		anyType := func() int {
			for {
				if t := rng.Intn(len(c04types)); !(nilCase && t == 8) {
					return t
				}
			}
		}
		conc := func() int { return c04concrete[rng.Intn(len(c04concrete))] }
		// an invalid registration, usually together with a valid one for the same type somewhere in the chain and a
		// look-up of that type: the invalid entry must hide nothing
		setNil := func(inj int) {
			k := []int{0, 1, 4, 5, 10}[rng.Intn(5)]
			valid := T("map", I(rng.Intn(ninj)), I(k), I(id()))
			if k == 5 {
				valid = T("set", I(rng.Intn(ninj)), I(5), I(4), I(id()))
			}
			switch rng.Intn(3) {
			case 0:
				ops = append(ops, valid, T("setnil", I(inj), I(k)), T("value", I(rng.Intn(ninj)), I(k)))
			case 1:
				ops = append(ops, T("setnil", I(inj), I(k)), valid, T("value", I(rng.Intn(ninj)), I(k)))
			default:
				ops = append(ops, T("setnil", I(inj), I(k)))
			}
		}
		if !nilCase && rng.Intn(8) == 0 {
			// nothing registered yet: interface{} has no implementor; then one arrives through Set; the next look-up finds it
			ops = append(ops, T("value", I(0), I(8)), T("set", I(0), I(5), I(4), I(id())), T("value", I(0), I(8)))
		}
		for k := 3 + rng.Intn(10); k > 0; k-- {
			inj := rng.Intn(ninj)
			switch r := rng.Intn(20); {
			case r < 6:
				if rng.Intn(12) == 0 {
					ops = append(ops, T("map", I(inj), I(2), I(0))) // Map((*svcA)(nil))
				} else {
					ops = append(ops, T("map", I(inj), I(conc()), I(id())))
				}
			case r < 9:
				vt := []int{2, 2, 3, 9}[rng.Intn(4)]
				target := 6
				if vt == 2 && rng.Intn(2) == 0 {
					target = 7
				}
				if rng.Intn(5) == 0 {
					target = 8
					vt = conc()
				}
				ops = append(ops, T("mapto", I(inj), I(vt), I(id()), I(target)))
			case r < 10:
				if nilCase {
					setNil(inj)
				} else {
					ops = append(ops, T("set", I(inj), I(5), I(4), I(id())))
				}
			case r < 12:
				ops = append(ops, T("value", I(inj), I(anyType())))
			case r < 17:
				if rng.Intn(4) == 0 {
					sig := T("sig", I(2), I(1))
					if rng.Intn(2) == 0 {
						sig = T("sig", I(6), I(4))
					}
					ops = append(ops, T("invoke", I(inj), A("plain"), sig))
					ops = append(ops, T("invoke", I(inj), A("fast"), sig))
				} else {
					var sig []*Sx
					for j := rng.Intn(4); j > 0; j-- {
						sig = append(sig, I(anyType()))
					}
					ops = append(ops, T("invoke", I(inj), A("plain"), T("sig", sig...)))
				}
			case r < 19:
				var fs []*Sx
				for j := 1 + rng.Intn(4); j > 0; j-- {
					fs = append(fs, T("f", I(anyType()), I([]int{1, 1, 0, 2}[rng.Intn(4)])))
				}
				if r4 := rng.Intn(6); r4 == 0 {
					ops = append(ops, T("apply", I(inj), T("fields", fs...), T("deep", I(1+rng.Intn(2)))))
				} else if r4 == 1 {
					ops = append(ops, T("apply", I(inj), T("fields", fs...), T("deep", I(0)), T("pre")))
				} else {
					ops = append(ops, T("apply", I(inj), T("fields", fs...)))
				}
			case nilCase:
				setNil(inj)
			default:
				var app, reqs []*Sx
				for j := rng.Intn(3); j > 0; j-- {
					app = append(app, T("m", I(conc()), I(id())))
				}
				for q := 1 + rng.Intn(2); q > 0; q-- {
					var hs []*Sx
					for j := 1 + rng.Intn(3); j > 0; j-- {
						var maps []*Sx
						for m := rng.Intn(2); m > 0; m-- {
							maps = append(maps, T("m", I(conc()), I(id())))
						}
						hs = append(hs, T("h", T("maps", maps...), T("want", I([]int{0, 1, 2, 3, 6, 8, 9, 10}[rng.Intn(8)]))))
					}
					reqs = append(reqs, T("r", hs...))
				}
				ops = append(ops, T("request", T("app", app...), T("reqs", reqs...)))
			}
		}
		emit(T("in", T("injectors", I(ninj)), T("ifaces", ifaces...), T("impl", impl...), T("ops", ops...)))
	}
}

func init() {
	properties["C04"] = &property{gen: genC04, run: runC04}
}
