package main

import (
	"fmt"
	"io"
	"math/rand"
	"net/http"
	"net/url"
	"path/filepath"
	"sort"
	"strings"
	"sync"

	"github.com/flamego/flamego"
)

// ---- C05: the same requests served serially and concurrently on identically built instances ----
type c05tok string

// build a fresh instance from reg/hdr/name ops; handlers are free of shared mutable state
func c05build(ops []*Sx) (*flamego.Flame, bool) {
	c05pairs := []string{"withOptional", "true", "x", "1"} // one slice per instance, shared by all its requests
	f := flamego.NewWithLogger(io.Discard)
	flamego.SetEnv(flamego.EnvTypeProd)
	f.Use(flamego.Recovery()) // every third route panics after answering: Recovery formats stacks concurrently
	f.Use(flamego.Logger())   // the request logger, writing to the discarded application logger
	// three separate Use calls leave spare capacity in the middleware slice
	f.Use(func(c flamego.Context) { c.Map(c05tok(c.Request().Header.Get("X-Tok"))) })
	f.Use(func(c flamego.Context) { c.Next() })
	f.Use(func(c flamego.Context) {})
	f.Use(flamego.Renderer()) // every other route answers through the request's Render
	c16setup()                // files served with ETags next to the routes: first requests arrive concurrently
	f.Use(flamego.Static(flamego.StaticOptions{Directory: filepath.Join(c16root, "pub"), Prefix: "c05static", SetETag: true}))
	f.Use(func(c flamego.Context) {}) // eight Use calls so far: length 8 = capacity 8
	f.Use(func(c flamego.Context) {}) // the ninth leaves spare capacity in the middleware slice (length 9, capacity 16)
	f.Map(&svcA{id: 77})              // resolved by handlers through the interface i1
	for k := 0; k < 4; k++ {          // handlers of the built-in fast shape func() (int, string), each with its own answer
		k := k
		f.Get(fmt.Sprintf("/c05tea/%d", k), func() (int, string) { return 201 + k, fmt.Sprintf("FILE tea-%d", k) })
	}
	f.HandlerWrapper(func(h flamego.Handler) flamego.Handler { return h }) // applied once, when handlers are registered
	// two not-found handlers, the first of the plain func(Context) kind the framework wraps into a fast invoker
	f.NotFound(func(c flamego.Context) {}, func(c flamego.Context, t c05tok) string { return "(notfound) tok=" + string(t) })
	var routes []*flamego.Route
	ok := true
	idx := 0
	for _, op := range ops {
		a := op.Args()
		switch op.Tag() {
		case "reg":
			i := idx
			idx++
			h := func(c flamego.Context, t c05tok, s i1, rd flamego.Render) string {
				params := c.Params()
				keys := make([]string, 0, len(params))
				for k := range params {
					keys = append(keys, k)
				}
				sort.Strings(keys)
				var sb strings.Builder
				fmt.Fprintf(&sb, "(found %d", i)
				for _, k := range keys {
					fmt.Fprintf(&sb, " (p %s %s)", X(k).Atom, X(params[k]).Atom)
				}
				sb.WriteString(")")
				// URL building of a named route inside the handler touches the lazily rendered strings
				url := ""
				func() {
					defer func() { _ = recover() }()
					url = c.URLPath("n0", c05pairs...) // one slice of pairs shared by all requests: URLPath only reads it
				}()
				body := fmt.Sprintf("%s tok=%s svc=%d url=%s", sb.String(), t, s.M1(), url)
				if i%3 == 2 {
					_, _ = c.ResponseWriter().Write([]byte(body))
					panic("boom " + string(t))
				}
				if i%2 == 1 {
					rd.PlainText(http.StatusOK, body)
					return ""
				}
				return body
			}
			var rt *flamego.Route
			func() {
				defer func() {
					if p := recover(); p != nil {
						ok = false
					}
				}()
				if a[0].Tag() == "any" {
					rt = f.Any(routeText(a[1]), h)
				} else {
					rt = f.Route(a[0].Args()[0].Atom, routeText(a[1]), []flamego.Handler{h})
				}
				if i == 0 {
					rt.Name("n0")
				}
			}()
			routes = append(routes, rt)
		case "hdr":
			if k := a[0].Int(); k < len(routes) && routes[k] != nil {
				var kv []string
				for _, h := range a[1].Args() {
					kv = append(kv, h.Args()[0].Bytes(), h.Args()[2].Bytes())
				}
				routes[k].Headers(kv...)
			}
		}
	}
	return f, ok
}

func c05serve(f *flamego.Flame, q *Sx, tok string) string {
	a := q.Args()
	hdr := http.Header{"X-Tok": {tok}}
	for _, h := range a[2].Args() {
		if h.Args()[1].Atom == "novalues" {
			hdr[http.CanonicalHeaderKey(h.Args()[0].Bytes())] = []string{}
		} else {
			hdr.Set(h.Args()[0].Bytes(), h.Args()[1].Bytes())
			for _, more := range h.Args()[2:] {
				hdr.Add(h.Args()[0].Bytes(), more.Bytes())
			}
		}
	}
	w := &wireWriter{hdr: http.Header{}}
	res := ""
	func() {
		defer func() {
			if p := recover(); p != nil {
				res = fmt.Sprintf("(panic %v)", p)
			}
		}()
		f.ServeHTTP(w, &http.Request{Method: a[0].Bytes(), URL: &url.URL{Path: a[1].Bytes()}, Header: hdr, Proto: "HTTP/1.1"})
		res = strings.Join(w.chunks, "")
		if strings.HasPrefix(a[1].Bytes(), "/c05tea/") {
			res += fmt.Sprintf(" status=%d", w.status)
		}
	}()
	return res
}

func runC05(in *Sx) *Sx {
	var setup, reqs []*Sx
	for _, op := range in.Field("ops").Args() {
		if op.Tag() == "req" {
			reqs = append(reqs, op)
		} else {
			setup = append(setup, op)
		}
	}
	fa, ok := c05build(setup)
	if !ok {
		return T("obs", T("invalid"))
	}
	// files of the static middleware, requested alongside (isolation only: serial answer = concurrent answer)
	extras := []string{"/c05static/a.txt", "/c05static/sub/b.txt", "/c05static/x", "/c05static/noindex/c.txt", "/c05static/sub/", "/c05static/a.txt",
		"/c05tea/0", "/c05tea/1", "/c05tea/2", "/c05tea/3", "/c05tea/0", "/c05tea/1", "/c05tea/2", "/c05tea/3"}
	for _, p := range extras {
		reqs = append(reqs, T("req", X("GET"), X(p), T("hdrs")))
	}
	nroute := len(reqs) - len(extras)
	serial := make([]string, len(reqs))
	for i, q := range reqs {
		serial[i] = c05serve(fa, q, fmt.Sprintf("t%d", i))
	}
	// a fresh instance whose lazily initialised state has never been touched; all goroutines start together
	fb, _ := c05build(setup)
	conc := make([]string, len(reqs))
	g := in.Field("goroutines").Args()[0].Int()
	var wg sync.WaitGroup
	start := make(chan struct{})
	for k := 0; k < g; k++ {
		wg.Add(1)
		go func(k int) {
			defer wg.Done()
			<-start
			for i := k; i < len(reqs); i += g {
				conc[i] = c05serve(fb, reqs[i], fmt.Sprintf("t%d", i))
			}
		}(k)
	}
	close(start)
	wg.Wait()
	var outs []*Sx
	for range setup {
		outs = append(outs, T("ok"))
	}
	same := T("same")
	for i := range reqs {
		if conc[i] != serial[i] && same.Tag() == "same" {
			same = T("diff", I(i), X(serial[i]), X(conc[i]))
		}
		if i >= nroute {
			if !strings.HasPrefix(serial[i], "FILE") && same.Tag() == "same" {
				same = T("diff", I(i), X(serial[i]), X("a file of the static directory was expected"))
			}
			continue
		}
		// serial answers, parsed back into the router harness' form
		body := serial[i]
		tokOK := strings.Contains(body, fmt.Sprintf(" tok=t%d", i))
		var res *Sx
		if j := strings.Index(body, " tok="); j >= 0 {
			if x, err := parseSx(body[:j]); err == nil {
				res = x
			}
		}
		if res == nil {
			res = T("unparsed", X(body))
		}
		if !tokOK || (res.Tag() == "found" && !strings.Contains(body, " svc=77 ")) {
			res = T("badscope", res)
		}
		outs = append(outs, res)
	}
	// keep the ops of the case aligned with the outs: setup first, then requests
	return T("obs", T("outs", outs...), T("conc", same))
}

func genC05(rng *rand.Rand, n int, tier string, emit func(*Sx)) {
	for i := 0; i < n; i++ {
		g := &routerGen{rng: rng, regexes: map[string]*Sx{}}
		var setup []*Sx
		var routes []*Sx
		for k := 2 + rng.Intn(6); k > 0; k-- {
			r := g.route(rng.Intn(4) == 0)
			cand := append(append([]*Sx{}, setup...), T("reg", g.methodSpec(), r))
			if _, ok := c05build(cand); !ok {
				continue // only accepted registrations
			}
			setup = cand
			routes = append(routes, r)
			if rng.Intn(5) == 0 {
				setup = append(setup, T("hdr", I(len(routes)-1), T("pairs", g.headerPairs()...)))
			}
		}
		if len(routes) == 0 {
			continue
		}
		var reqs []*Sx
		for q := 16 + rng.Intn(32); q > 0; q-- {
			var p string
			switch r := rng.Intn(10); {
			case r < 7:
				p = g.instance(routes[rng.Intn(len(routes))])
			case r < 8:
				p = g.perturb(g.instance(routes[rng.Intn(len(routes))]))
			default:
				p = g.randomPath()
			}
			m := "GET"
			if rng.Intn(6) == 0 {
				m = methodNames[rng.Intn(len(methodNames))]
				if m == "HEAD" { // no body to read the answer from
					m = "POST"
				}
			}
			reqs = append(reqs, T("req", X(m), X(p), T("hdrs", g.reqHeaders()...)))
		}
		var res []*Sx
		for _, src := range g.order {
			res = append(res, T("r", X(src), g.regexes[src]))
		}
		emit(T("in", T("policy", A("rebuild")), T("goroutines", I(8)), T("regexes", res...), T("ops", append(setup, reqs...)...)))
	}
}

func init() {
	properties["C05"] = &property{gen: genC05, run: runC05}
}
