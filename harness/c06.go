package main

import (
	"math/rand"
	"strings"

	"github.com/flamego/flamego/internal/route"
)

var c06parser *route.Parser

func astSx(r *route.Route) *Sx {
	var segs []*Sx
	for _, s := range r.Segments {
		els := []*Sx{B(s.Optional)}
		for _, e := range s.Elements {
			switch {
			case e.Ident != nil:
				els = append(els, T("id", X(*e.Ident)))
			case e.BindIdent != nil:
				els = append(els, T("bind", X(*e.BindIdent)))
			case e.BindParameters != nil:
				var ps []*Sx
				for _, p := range e.BindParameters.Parameters {
					switch {
					case p.Value.Literal != nil:
						ps = append(ps, T("p", X(p.Ident), T("lit", X(*p.Value.Literal))))
					case p.Value.Regex != nil:
						ps = append(ps, T("p", X(p.Ident), T("re", X(*p.Value.Regex))))
					default:
						ps = append(ps, T("p", X(p.Ident), T("novalue")))
					}
				}
				els = append(els, T("params", ps...))
			default:
				els = append(els, T("emptyelement"))
			}
		}
		segs = append(segs, T("seg", els...))
	}
	return T("route", segs...)
}

func runC06(in *Sx) *Sx {
	if c06parser == nil {
		p, err := route.NewParser()
		if err != nil {
			panic(err)
		}
		c06parser = p
	}
	s := in.Field("s").Args()[0].Bytes()
	var res *Sx
	func() {
		defer func() {
			if p := recover(); p != nil {
				res = T("panic")
			}
		}()
		r, err := c06parser.Parse(s)
		if err != nil {
			res = T("rej")
			return
		}
		c := r.String()
		// the canonical form must parse to the same structure and render to itself
		re := A("rej")
		if r2, err2 := c06parser.Parse(c); err2 == nil {
			if astSx(r2).String() == astSx(r).String() && r2.String() == c {
				re = A("same")
			} else {
				re = A("diff")
			}
		}
		res = T("ok", astSx(r), T("str", X(c)), T("reparse", re))
	}()
	return T("obs", res)
}

const c06alpha = "/?{}:, a*.\\|([\t$~"

// random derivation of the grammar, with random spacing
func genDerivation(rng *rand.Rand) string {
	ident := func() string {
		n := 1 + rng.Intn(3)
		var sb strings.Builder
		for i := 0; i < n; i++ {
			sb.WriteByte("abz09-._~@!$&'()*+;%=X"[rng.Intn(22)])
		}
		return sb.String()
	}
	regex := func() string {
		n := 1 + rng.Intn(4)
		var sb strings.Builder
		for i := 0; i < n; i++ {
			sb.WriteByte("ab09*-+._,?()[]{} \\|Z"[rng.Intn(21)])
		}
		return sb.String()
	}
	blanks := func() string { return strings.Repeat(" ", rng.Intn(3)) }
	var sb strings.Builder
	nseg := 1 + rng.Intn(4)
	for i := 0; i < nseg; i++ {
		sb.WriteByte('/')
		if rng.Intn(6) == 0 {
			sb.WriteByte('?')
		}
		lastIdent := false
		for k := rng.Intn(4); k > 0; k-- {
			switch r := rng.Intn(4); {
			case r == 0 && !lastIdent:
				sb.WriteString(ident())
				lastIdent = true
			case r == 1:
				sb.WriteString("{" + ident() + "}")
				lastIdent = false
			case r >= 2:
				sb.WriteByte('{')
				np := 1 + rng.Intn(3)
				for j := 0; j < np; j++ {
					if j > 0 {
						sb.WriteString("," + blanks())
					}
					sb.WriteString(ident() + ":" + blanks())
					if rng.Intn(2) == 0 {
						sb.WriteString(ident())
					} else {
						sb.WriteString("/" + regex() + "/")
					}
				}
				sb.WriteByte('}')
				lastIdent = false
			}
		}
	}
	return sb.String()
}

func editString(rng *rand.Rand, s string) string {
	alpha := "/?{}:, a*.\\|([\t$~\x00\xff\n^b1-]Z"
	if len(s) == 0 {
		return string(alpha[rng.Intn(len(alpha))])
	}
	i := rng.Intn(len(s))
	switch rng.Intn(3) {
	case 0:
		return s[:i] + string(alpha[rng.Intn(len(alpha))]) + s[i:]
	case 1:
		return s[:i] + s[i+1:]
	}
	return s[:i] + string(alpha[rng.Intn(len(alpha))]) + s[i+1:]
}

func genC06(rng *rand.Rand, n int, tier string, emit func(*Sx)) {
	one := func(s string) { emit(T("in", T("s", X(s)))) }
	// exhaustive over the token alphabet up to a length bound
	maxLen := 4
	if tier == "thorough" {
		maxLen = 5
	}
	buf := make([]byte, 0, maxLen)
	var rec func(d int)
	rec = func(d int) {
		one(string(buf))
		if d == maxLen {
			return
		}
		for i := 0; i < len(c06alpha); i++ {
			buf = append(buf, c06alpha[i])
			rec(d + 1)
			buf = buf[:len(buf)-1]
		}
	}
	rec(0)
	// every single byte in each of the five lexer contexts
	for _, ctx := range [][2]string{{"", ""}, {"/", ""}, {"/{", "}"}, {"/{a:", "}"}, {"/{a: /", "/}"}} {
		for c := 0; c < 256; c++ {
			one(ctx[0] + string([]byte{byte(c)}) + ctx[1])
			one(ctx[0] + "x" + string([]byte{byte(c)}) + ctx[1])
		}
	}
	// long tokens: a literal, a bind name and an expression of a few hundred characters are one token each
	long := strings.Repeat("ab1", 100)
	for _, t := range []string{"/" + long, "/" + long + "/x", "/{" + long + "}", "/{a: /" + long + "/}", "/x" + long + "{b}", "/{" + long + ": **}"} {
		one(t)
	}
	// the names and values the short forms are made of, spelled out as parameters
	for _, t := range []string{"/{**: **}", "/{**:**}", "/a/{**: **}/b", "/{**: **, capture: 2}", "/{**: **, **: **}", "/{x: **}", "/{**: x}", "/{**}", "/{**: /**/}", "/{capture: **}", "/{**: capture}", "/?{**: **}"} {
		one(t)
	}
	for i := 0; i < n; i++ {
		d := genDerivation(rng)
		switch rng.Intn(5) {
		case 0, 1:
			one(d)
		case 2:
			one(editString(rng, d))
		case 3:
			one(editString(rng, editString(rng, d)))
		default:
			b := make([]byte, rng.Intn(8))
			for k := range b {
				b[k] = byte(rng.Intn(256))
			}
			one("/" + string(b))
		}
	}
}

func init() {
	properties["C06"] = &property{gen: genC06, run: runC06}
}
