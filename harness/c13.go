package main

import (
	"io"
	"math/rand"
	"net/http"
	"strings"
	"time"

	"github.com/flamego/flamego"
)

// spyWriter is the underlying http.ResponseWriter: it records every call that reaches it.
type spyWriter struct {
	hdr    http.Header
	events *[]*Sx
	acc    int // how many bytes the next Write accepts
	block  func()
}

func (s *spyWriter) Header() http.Header { return s.hdr }
func (s *spyWriter) WriteHeader(c int) {
	*s.events = append(*s.events, T("uwh", I(c)))
	if b := s.block; b != nil { // the status line is on its way: a second caller may arrive meanwhile
		s.block = nil
		b()
	}
}
func (s *spyWriter) Write(b []byte) (int, error) {
	n := len(b)
	var err error
	if s.acc < n {
		n = s.acc
		err = io.ErrShortWrite
	}
	*s.events = append(*s.events, T("uw", X(string(b)), I(n)))
	return n, err
}

// ReadFrom makes the spy an io.ReaderFrom, as net/http's own response writer is: whatever arrives this way is body
// bytes that reached the underlying writer.
func (s *spyWriter) ReadFrom(r io.Reader) (int64, error) {
	b, _ := io.ReadAll(r)
	n, err := s.Write(b)
	return int64(n), err
}

// WriteString makes the spy an io.StringWriter, as net/http's own response writer is.
func (s *spyWriter) WriteString(str string) (int, error) { return s.Write([]byte(str)) }

// flushSpy is a spyWriter whose underlying writer is an http.Flusher too; the plain one is not.
type flushSpy struct{ *spyWriter }

func (s flushSpy) Flush() { *s.events = append(*s.events, T("ufl")) }

// hookPanic is the value a scripted panicking before function panics with.
var hookPanic = "verif: before function panics"

func init() {
	properties["C13"] = &property{gen: genC13, run: runC13}
}

func genC13(rng *rand.Rand, n int, tier string, emit func(*Sx)) {
	methods := []string{"GET", "HEAD", "POST", "HEAD", "PUT", "DELETE", "OPTIONS", "head"}
	codes := []int{100, 200, 201, 204, 301, 304, 404, 500, 999}
	mk := func(method string, ops []*Sx) *Sx {
		head := method == "HEAD"
		// one case in five runs on an underlying writer that cannot flush
		return T("in", T("method", A(method)), T("head", B(head)), T("ops", ops...), T("plain", B(rng.Intn(5) == 0)))
	}
	if tier == "thorough" {
		// every sequence of length <= 5 over a fixed op alphabet, for HEAD and GET
		alpha := []*Sx{T("wh", I(404)), T("w", X("ab"), I(2)), T("w", X("abc"), I(1)), T("ws", X("ab"), I(2)), T("fl"), T("bf", I(1)), T("bfp", I(2)), T("st"), T("sz"), T("wr")}
		var rec func(prefix []*Sx, d int)
		rec = func(prefix []*Sx, d int) {
			for _, m := range []string{"GET", "HEAD"} {
				emit(mk(m, append([]*Sx{}, prefix...)))
			}
			if d == 5 {
				return
			}
			for _, a := range alpha {
				rec(append(prefix, a), d+1)
			}
		}
		rec(nil, 0)
	}
	for i := 0; i < n; i++ {
		l := rng.Intn(13)
		var ops []*Sx
		hook := 0
		for k := 0; k < l; k++ {
			switch r := rng.Intn(100); {
			case r < 20:
				hook++
				if rng.Intn(5) == 0 {
					ops = append(ops, T("bfp", I(hook))) // a before function that panics
				} else {
					ops = append(ops, T("bf", I(hook)))
				}
			case r < 40:
				b := make([]byte, rng.Intn(6))
				rng.Read(b)
				acc := len(b)
				if rng.Intn(4) == 0 {
					acc = rng.Intn(len(b) + 1)
				}
				if r4 := rng.Intn(6); r4 == 0 { // through io.WriteString (uses a WriteString method when the writer has one)
					ops = append(ops, T("ws", X(string(b)), I(acc)))
				} else if r4 == 1 && len(b) > 0 { // through io.Copy (uses ReadFrom when the writer has one)
					ops = append(ops, T("cp", X(string(b)), I(len(b))))
				} else {
					ops = append(ops, T("w", X(string(b)), I(acc)))
				}
			case r < 55:
				c := codes[rng.Intn(len(codes))]
				if rng.Intn(3) == 0 {
					c = 100 + rng.Intn(900)
				}
				if rng.Intn(6) == 0 {
					ops = append(ops, T("cwh", I(c), I(codes[rng.Intn(len(codes))]))) // two callers at once
				} else {
					ops = append(ops, T("wh", I(c)))
				}
			case r < 65:
				ops = append(ops, T("fl"))
			case r < 78:
				ops = append(ops, T("st"))
			case r < 89:
				ops = append(ops, T("sz"))
			default:
				ops = append(ops, T("wr"))
			}
		}
		c := mk(methods[rng.Intn(len(methods))], ops)
		if rng.Intn(4) == 0 && !strings.Contains(c.String(), "(cwh ") {
			// a writer over a writer (an instance mounted on another, a handler wrapping the writer it got): the lower
			// writer has a life of its own first; its before functions do not panic; both serve the same kind of request
			// or only the upper one serves HEAD
			var pre []*Sx
			for k := rng.Intn(5); k > 0; k-- {
				switch rng.Intn(6) {
				case 0:
					pre = append(pre, T("wh", I(codes[rng.Intn(len(codes))])))
				case 1:
					pre = append(pre, T("w", X("pre"), I(3)))
				case 2:
					pre = append(pre, T("fl"))
				case 3, 4:
					pre = append(pre, T("bf", I(100+k)))
				default:
					pre = append(pre, T("st"))
				}
			}
			m2 := c.Field("method").Args()[0].Atom
			m1 := m2
			if m2 == "HEAD" && rng.Intn(2) == 0 {
				m1 = "GET"
			}
			c.List = append(c.List, T("outer", T("method", A(m1)), T("head", B(m1 == "HEAD")), T("ops", pre...)))
		}
		emit(c)
	}
}

func runC13(in *Sx) *Sx {
	method := in.Field("method").Args()[0].Atom
	var events []*Sx
	spy := &spyWriter{hdr: http.Header{}, events: &events}
	var under http.ResponseWriter = flushSpy{spy}
	if p := in.Field("plain"); p != nil && p.Args()[0].Atom == "1" {
		under = spy
	}
	var w flamego.ResponseWriter
	if o := in.Field("outer"); o != nil {
		// a writer over a writer: the lower one lives through its own operations first
		w = flamego.NewResponseWriter(o.Field("method").Args()[0].Atom, under)
		pre := run13(w, spy, &events, o.Field("ops").Args())
		lower := w
		w = flamego.NewResponseWriter(method, w)
		outs := run13(w, spy, &events, in.Field("ops").Args())
		// the lower writer was written through: its own books must say so
		return T("obs", T("outs", outs...), T("pre", pre...), T("low", I(lower.Status()), B(lower.Written()), I(lower.Size())))
	}
	w = flamego.NewResponseWriter(method, under)
	return T("obs", T("outs", run13(w, spy, &events, in.Field("ops").Args())...))
}

// run13 performs the operations on w and returns what each made observable.
func run13(w flamego.ResponseWriter, spy *spyWriter, ev *[]*Sx, ops []*Sx) []*Sx {
	var outs []*Sx
	for _, op := range ops {
		*ev = nil
		a := op.Args()
		if op.Tag() == "cwh" {
			// (cwh c1 c2): WriteHeader(c2) arrives while WriteHeader(c1) is inside the underlying writer; the answers
			// are those of the two calls one after the other
			entered, release, doneA := make(chan struct{}), make(chan struct{}), make(chan struct{})
			spy.block = func() { close(entered); <-release }
			call := func(c int) {
				defer func() {
					if r := recover(); r != nil {
						if r != hookPanic {
							panic(r)
						}
						*ev = append(*ev, T("pan"))
					}
				}()
				w.WriteHeader(c)
			}
			go func() { defer close(doneA); call(a[0].Int()) }()
			select {
			case <-entered:
			case <-doneA:
			case <-time.After(5 * time.Second):
			}
			spy.block = nil // consumed if the first caller is inside the underlying writer now; otherwise nobody waits
			outs = append(outs, L((*ev)...))
			*ev = nil
			doneB := make(chan struct{})
			go func() { defer close(doneB); call(a[1].Int()) }()
			select {
			case <-doneB:
			case <-time.After(200 * time.Millisecond):
				// the second caller waits for the first (a lock around the writer would do that): fine, let the first
				// one finish - the answers are still those of the two calls one after the other
			}
			select {
			case <-entered:
				close(release)
			default:
			}
			for _, d := range []chan struct{}{doneA, doneB} {
				select {
				case <-d:
				case <-time.After(5 * time.Second):
				}
			}
			second := L((*ev)...)
			outs = append(outs, second)
			continue
		}
		func() {
			defer func() {
				if r := recover(); r != nil {
					if r != hookPanic {
						panic(r)
					}
					*ev = append(*ev, T("pan"))
				}
			}()
			switch op.Tag() {
			case "wh":
				w.WriteHeader(a[0].Int())
			case "w":
				spy.acc = a[1].Int()
				_, _ = w.Write([]byte(a[0].Bytes()))
			case "ws":
				spy.acc = a[1].Int()
				_, _ = io.WriteString(w, a[0].Bytes())
			case "cp": // io.Copy uses a ReadFrom method when the writer has one
				spy.acc = a[1].Int()
				_, _ = io.Copy(w, struct{ io.Reader }{strings.NewReader(a[0].Bytes())}) // hide WriteTo: the destination decides
			case "fl":
				w.Flush()
			case "bf":
				id := a[0].Int()
				w.Before(func(rw flamego.ResponseWriter) {
					*ev = append(*ev, T("hk", I(id), I(rw.Status())))
				})
			case "bfp":
				id := a[0].Int()
				w.Before(func(rw flamego.ResponseWriter) {
					*ev = append(*ev, T("hk", I(id), I(rw.Status())))
					panic(hookPanic)
				})
			case "st":
				*ev = append(*ev, T("ast", I(w.Status())))
			case "sz":
				*ev = append(*ev, T("asz", I(w.Size())))
			case "wr":
				*ev = append(*ev, T("awr", B(w.Written())))
			default:
				panic(badInput("op " + op.String()))
			}
		}()
		outs = append(outs, L((*ev)...))
	}
	return outs
}
