package main

import (
	"fmt"
	"io"
	"math/rand"
	"net/http"
	"net/url"
	"os"
	"path/filepath"
	"strings"
	"sync"
	"time"

	"github.com/flamego/flamego"
)

// ---- C16: the Static middleware over a real directory tree ----
// The tree (created once per harness process under a fresh temp dir, removed at exit):
//
//	<tmp>/secret.txt                     FILE1   (outside the served directory)
//	<tmp>/pub2/x.txt                     FILE2   (sibling whose name extends the directory's)
//	<tmp>/pub/a.txt                      FILE3
//	<tmp>/pub/index.html                 FILE4
//	<tmp>/pub/sub/b.txt                  FILE5
//	<tmp>/pub/sub/index.html             FILE6
//	<tmp>/pub/noindex/c.txt              FILE7
//	<tmp>/pub/sp ace.txt                 FILE8
//	<tmp>/pub/static/d.txt               FILE9   (a directory named like the prefix)
//	<tmp>/pub/idxdir/index.html/         (a directory named like the index file)
//	<tmp>/pub/alt/home.htm               FILE10
var c16once sync.Once
var c16root string

type c16entry struct {
	path string
	id   int
}

var c16files = []c16entry{
	{"secret.txt", 1}, {"pub2/x.txt", 2}, {"pub/a.txt", 3}, {"pub/index.html", 4}, {"pub/sub/b.txt", 5}, {"pub/sub/index.html", 6},
	{"pub/noindex/c.txt", 7}, {"pub/sp ace.txt", 8}, {"pub/static/d.txt", 9}, {"pub/alt/home.htm", 10},
	{"pub/x", 11}, {"pub/2", 12}, // one-character names: a prefix look-alike "/staticx" leaves exactly "x" after the prefix
}
var c16dirs = []string{"pub/idxdir/index.html"}

func c16setup() {
	c16once.Do(func() {
		d, err := os.MkdirTemp("", "verif-c16-")
		if err != nil {
			panic(err)
		}
		c16root = d
		for _, e := range c16files {
			p := filepath.Join(d, e.path)
			_ = os.MkdirAll(filepath.Dir(p), 0o755)
			_ = os.WriteFile(p, []byte("FILE"+strings.Repeat("x", e.id)), 0o644)
		}
		// every file has its own modification time, different from that of any directory
		for _, e := range c16files {
			_ = os.Chtimes(filepath.Join(d, e.path), c16mtime(e.id), c16mtime(e.id))
		}
		for _, dd := range c16dirs {
			_ = os.MkdirAll(filepath.Join(d, dd), 0o755)
		}
		// the default directory name, for cases that leave Directory empty and run with the root as working directory
		_ = os.Symlink("pub", filepath.Join(d, "public"))
	})
}

func c16mtime(id int) time.Time {
	return time.Date(2020, 1, 1, 0, 0, 0, 0, time.UTC).Add(time.Duration(id) * time.Hour)
}

func c16cleanup() {
	if c16root != "" {
		_ = os.RemoveAll(c16root)
	}
}

func c16fsSx() *Sx {
	// the same tree for the model: (dir NAME child...) / (file NAME id)
	type nd struct {
		files map[string]int
		dirs  map[string]*nd
		order []string
	}
	root := &nd{files: map[string]int{}, dirs: map[string]*nd{}}
	get := func(parts []string) *nd {
		cur := root
		for _, p := range parts {
			if cur.dirs[p] == nil {
				cur.dirs[p] = &nd{files: map[string]int{}, dirs: map[string]*nd{}}
				cur.order = append(cur.order, p)
			}
			cur = cur.dirs[p]
		}
		return cur
	}
	for _, e := range c16files {
		parts := strings.Split(e.path, "/")
		n := get(parts[:len(parts)-1])
		n.files[parts[len(parts)-1]] = e.id
		n.order = append(n.order, parts[len(parts)-1])
	}
	for _, d := range c16dirs {
		get(strings.Split(d, "/"))
	}
	var render func(name string, n *nd) *Sx
	render = func(name string, n *nd) *Sx {
		items := []*Sx{X(name)}
		for _, k := range n.order {
			if id, ok := n.files[k]; ok {
				items = append(items, T("file", X(k), I(id)))
			} else {
				items = append(items, render(k, n.dirs[k]))
			}
		}
		return T("dir", items...)
	}
	return render("", root)
}

func runC16(in *Sx) *Sx {
	c16setup()
	opt := flamego.StaticOptions{Directory: filepath.Join(c16root, "pub")}
	if dd := in.Field("defdir"); dd != nil && dd.Args()[0].Atom == "1" {
		// Directory left empty: "public" below the working directory (a link to the same tree)
		opt.Directory = ""
		if wd, err := os.Getwd(); err == nil {
			defer func() { _ = os.Chdir(wd) }()
		}
		if err := os.Chdir(c16root); err != nil {
			panic(err)
		}
	}
	if fsys := in.Field("fsys"); fsys != nil && fsys.Args()[0].Atom == "1" {
		// the same directory through io/fs: names with empty, "." or ".." elements are refused, not cleaned
		opt.FileSystem = http.FS(os.DirFS(filepath.Join(c16root, "pub")))
	}
	opt.Prefix = in.Field("prefix").Args()[0].Bytes()
	opt.Index = in.Field("index").Args()[0].Bytes()
	opt.SetETag = in.Field("etag").Args()[0].Atom == "1"
	if in.Field("expires").Args()[0].Atom == "1" {
		opt.Expires = func() string { return "Thu, 01 Jan 2099 00:00:00 GMT" }
	}
	if in.Field("cache").Args()[0].Atom == "1" {
		opt.CacheControl = func() string { return "max-age=60" }
	}
	f := flamego.NewWithLogger(io.Discard)
	f.Use(flamego.Static(opt))
	passed := false
	passHdrs := 0
	f.NotFound(func(c flamego.Context) {
		passed = !c.ResponseWriter().Written()
		passHdrs = len(c.ResponseWriter().Header()) // "writes nothing" includes response headers
		c.ResponseWriter().WriteHeader(418)
	})
	method := in.Field("method").Args()[0].Bytes()
	path := in.Field("path").Args()[0].Bytes()
	serve := func(hdr http.Header) (*wireWriter, bool) {
		passed = false
		w := &wireWriter{hdr: http.Header{}}
		req := &http.Request{Method: method, URL: &url.URL{Path: path}, Header: hdr, Proto: "HTTP/1.1", ProtoMajor: 1, ProtoMinor: 1}
		var pan bool
		func() {
			defer func() {
				if r := recover(); r != nil {
					pan = true
				}
			}()
			f.ServeHTTP(w, req)
		}()
		return w, pan
	}
	w, pan := serve(http.Header{})
	if pan {
		return T("obs", T("panic"))
	}
	describe := func(w *wireWriter) *Sx {
		body := strings.Join(w.chunks, "")
		switch {
		case passed:
			return T("pass", B(passHdrs > 0))
		case w.status == 302:
			// a redirect must not carry the content of a file
			return T("redirect", X(w.hdr.Get("Location")), B(strings.Contains(body, "FILE")))
		case w.status == 304:
			return T("notmodified")
		case w.status == 200:
			id := -1
			if method == "HEAD" && body == "" {
				var n int
				if _, err := fmt.Sscanf(w.hdr.Get("Content-Length"), "%d", &n); err == nil {
					id = n - 4
				}
			} else if strings.HasPrefix(body, "FILE") && strings.Trim(body[4:], "x") == "" {
				id = len(body) - 4
			}
			// the validators sent with a file are that file's own (its modification time), not a directory's
			own := true // no validator is no lie
			if h := w.hdr.Get("Last-Modified"); h != "" {
				lm, err := http.ParseTime(h)
				own = id >= 0 && err == nil && lm.Equal(c16mtime(id))
			}
			return T("serve", I(id), T("hdrs", B(w.hdr.Get("Expires") != ""), B(w.hdr.Get("Cache-Control") != ""), B(w.hdr.Get("ETag") != "")), B(own))
		}
		return T("other", I(w.status), X(body))
	}
	first := describe(w)
	res := []*Sx{first}
	// with SetETag: repeat with If-None-Match set to the ETag just received
	if et := w.hdr.Get("ETag"); et != "" && first.Tag() == "serve" {
		w2, _ := serve(http.Header{"If-None-Match": {et}})
		res = append(res, describe(w2))
	}
	return T("obs", res...)
}

func genC16(rng *rand.Rand, n int, tier string, emit func(*Sx)) {
	comps := []string{"a.txt", "sub", "b.txt", "index.html", "noindex", "c.txt", "sp ace.txt", "static", "d.txt", "idxdir", "alt", "home.htm",
		"..", "..", ".", "", "secret.txt", "pub", "pub2", "x.txt", "nope", "\x00", "a.txt\x00", "%2e%2e", "..%2f", "...", "..a"}
	prefixes := []string{"", "", "static", "/static", "/static/", "static/", "/s/t", "/pub"}
	for i := 0; i < n; i++ {
		prefix := prefixes[rng.Intn(len(prefixes))]
		var sb strings.Builder
		if prefix != "" && rng.Intn(4) != 0 {
			sb.WriteString("/" + strings.Trim(prefix, "/"))
			switch rng.Intn(6) {
			case 0:
				sb.WriteString("x") // prefix look-alike
			case 1:
				sb.WriteString("2")
			}
		}
		if rng.Intn(2) == 0 {
			real := []string{"/a.txt", "/sub/b.txt", "/sub", "/sub/", "/", "", "/noindex", "/noindex/", "/idxdir", "/idxdir/", "/alt/", "/alt", "/index.html",
				"/sp ace.txt", "/static/d.txt", "/static", "/sub/index.html", "/../secret.txt", "/sub/../../secret.txt", "/../pub2/x.txt", "/sub/../a.txt",
				"/./a.txt", "//a.txt", "/sub//b.txt", "/a.txt/", "/a.txt/..", "/sub/..", "/x/../a.txt", "/x", "/2", "", ""}
			sb.WriteString(real[rng.Intn(len(real))])
		} else {
			for k := rng.Intn(5); k > 0; k-- {
				sb.WriteString("/")
				if rng.Intn(8) == 0 {
					sb.WriteString("/")
				}
				sb.WriteString(comps[rng.Intn(len(comps))])
			}
			if rng.Intn(3) == 0 {
				sb.WriteString("/")
			}
		}
		path := sb.String()
		if path == "" {
			path = "/"
		}
		method := "GET"
		switch rng.Intn(8) {
		case 0:
			method = "HEAD"
		case 1:
			method = []string{"POST", "PUT", "DELETE", "OPTIONS", "get", "G", "EAD", "T,H", "HE"}[rng.Intn(9)] // look-alikes of GET/HEAD too
		}
		index := ""
		if rng.Intn(5) == 0 {
			index = []string{"home.htm", "b.txt", "missing.html"}[rng.Intn(3)]
		}
		emit(T("in", T("fs", c16fsSx()), T("dir", X("pub")), T("prefix", X(prefix)), T("index", X(index)), T("etag", B(rng.Intn(3) == 0)),
			T("expires", B(rng.Intn(4) == 0)), T("cache", B(rng.Intn(4) == 0)), T("method", X(method)), T("path", X(path)), T("defdir", B(rng.Intn(6) == 0)), T("fsys", B(rng.Intn(5) == 0))))
	}
}

func init() {
	properties["C16"] = &property{gen: genC16, run: runC16}
}
