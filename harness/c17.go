package main

import (
	"bytes"
	"encoding/json"
	"encoding/xml"
	"io"
	"math/rand"
	"net/http"
	"net/url"
	"reflect"
	"strconv"
	"strings"

	"github.com/flamego/flamego"
)

// ---- C17: Render ----
type c17doc struct {
	XMLName xml.Name `xml:"doc" json:"-"`
	Name    string   `xml:"name" json:"name"`
	N       int      `xml:"n" json:"n"`
	Tags    []string `xml:"tags>tag" json:"tags"`
	Inner   *c17in   `xml:"inner,omitempty" json:"inner,omitempty"`
	Flag    bool     `xml:"flag" json:"flag"`
}
type c17in struct {
	A float64 `xml:"a" json:"a"`
	B string  `xml:"b,attr" json:"b"`
}

func c17value(v *Sx) *c17doc {
	a := v.Args()
	d := &c17doc{Name: a[0].Bytes(), N: a[1].Int(), Flag: a[2].Atom == "1"}
	for _, t := range a[3].Args() {
		d.Tags = append(d.Tags, t.Bytes())
	}
	if len(a) > 4 {
		d.Inner = &c17in{A: float64(a[4].Args()[0].Int()) / 4, B: a[4].Args()[1].Bytes()}
	}
	return d
}

// one request: (req KIND STATUS payload)  KIND: json xml binary text
func c17do(r flamego.Render, q *Sx) {
	a := q.Args()
	status := a[1].Int()
	switch a[0].Atom {
	case "json":
		r.JSON(status, c17value(a[2]))
	case "xml":
		r.XML(status, c17value(a[2]))
	case "binary":
		r.Binary(status, []byte(a[2].Bytes()))
	case "text":
		r.PlainText(status, a[2].Bytes())
	default:
		panic(badInput("render kind"))
	}
}

func c17describe(q *Sx, w *wireWriter, opt flamego.RenderOptions) *Sx {
	a := q.Args()
	body := strings.Join(w.chunks, "")
	ct := ""
	if w.sentHdr != nil {
		ct = w.sentHdr.Get("Content-Type")
	}
	faithful := false
	switch a[0].Atom {
	case "json":
		want := c17value(a[2])
		var got c17doc
		if err := json.Unmarshal([]byte(body), &got); err == nil {
			got.XMLName = want.XMLName
			faithful = reflect.DeepEqual(&got, want)
		}
		// the configured indentation: the standard encoder's own output is the oracle
		var buf bytes.Buffer
		enc := json.NewEncoder(&buf)
		if opt.JSONIndent != "" {
			enc.SetIndent("", opt.JSONIndent)
		}
		_ = enc.Encode(want)
		faithful = faithful && buf.String() == body
	case "xml":
		want := c17value(a[2])
		var got c17doc
		if err := xml.Unmarshal([]byte(body), &got); err == nil {
			got.XMLName, want.XMLName = xml.Name{}, xml.Name{}
			faithful = reflect.DeepEqual(&got, want)
		}
		var buf bytes.Buffer
		enc := xml.NewEncoder(&buf)
		if opt.XMLIndent != "" {
			enc.Indent("", opt.XMLIndent)
		}
		_ = enc.Encode(c17value(a[2]))
		faithful = faithful && buf.String() == body
	default:
		faithful = body == a[2].Bytes()
	}
	// a declared length that is not the length of what was written does not decode back on a real connection
	if w.sentHdr != nil {
		if cl := w.sentHdr.Get("Content-Length"); cl != "" && cl != strconv.Itoa(len(body)) {
			faithful = false
		}
	}
	return T("resp", I(w.status), X(ct), B(faithful), I(len(w.chunks)))
}

func runC17(in *Sx) *Sx {
	opt := flamego.RenderOptions{Charset: in.Field("charset").Args()[0].Bytes(), JSONIndent: in.Field("jindent").Args()[0].Bytes(), XMLIndent: in.Field("xindent").Args()[0].Bytes()}
	f := flamego.NewWithLogger(io.Discard)
	early := in.Field("early").Args()[0].Atom == "1"
	if early { // a handler placed BEFORE the Renderer asks for Render: resolution must fail
		f.Use(func(c flamego.Context, r flamego.Render) {})
	}
	if o := in.Field("outer"); o != nil && o.Args()[0].Atom == "1" {
		f.Use(flamego.Renderer()) // an application-wide renderer with default options first: the later one decides
	}
	f.Use(flamego.Renderer(opt))
	reqs := in.Field("reqs").Args()
	nested := in.Field("nested").Args()[0].Atom == "1"
	prect := false
	if p := in.Field("prect"); p != nil {
		prect = p.Args()[0].Atom == "1"
	}
	var inner *wireWriter
	for i, q := range reqs {
		q := q
		i := i
		f.Get("/r"+string(rune('0'+i)), func(c flamego.Context) {
			if prect { // an earlier handler left a content type behind: the renderer's must replace it
				c.ResponseWriter().Header().Set("Content-Type", "stale/type")
			}
		}, func(c flamego.Context, r flamego.Render) {
			if nested && i == 0 && len(reqs) > 1 {
				// a sub-request through the same application before this request renders
				inner = &wireWriter{hdr: http.Header{}}
				f.ServeHTTP(inner, &http.Request{Method: "GET", URL: &url.URL{Path: "/r1"}, Header: http.Header{}, Proto: "HTTP/1.1"})
			}
			c17do(r, q)
		})
	}
	// (pre 1): a HEAD request for the first route comes first; (pre 2): a request whose XML document cannot be
	// encoded (a func field after 5000 bytes of text) comes first.  Neither is judged: what follows must not notice.
	if p := in.Field("pre"); p != nil && p.Args()[0].Atom != "0" {
		f.Get("/poison", func(r flamego.Render) {
			r.XML(200, struct {
				A string
				F func()
			}{A: strings.Repeat("stale-", 900), F: func() {}})
		})
		m, path := "HEAD", "/r0"
		if p.Args()[0].Atom == "2" {
			m, path = "GET", "/poison"
		} else {
			f.Head("/r0", func(c flamego.Context, r flamego.Render) { c17do(r, reqs[0]) })
		}
		func() {
			defer func() { _ = recover() }()
			f.ServeHTTP(&wireWriter{hdr: http.Header{}}, &http.Request{Method: m, URL: &url.URL{Path: path}, Header: http.Header{}, Proto: "HTTP/1.1"})
		}()
	}
	var outs []*Sx
	for i, q := range reqs {
		if nested && i == 1 {
			continue // served as the sub-request of request 0
		}
		w := &wireWriter{hdr: http.Header{}}
		pan := false
		func() {
			defer func() {
				if r := recover(); r != nil {
					pan = true
				}
			}()
			f.ServeHTTP(w, &http.Request{Method: "GET", URL: &url.URL{Path: "/r" + string(rune('0'+i))}, Header: http.Header{}, Proto: "HTTP/1.1"})
		}()
		if pan {
			outs = append(outs, T("panic"))
			continue
		}
		outs = append(outs, c17describe(q, w, opt))
		if nested && i == 0 && inner != nil {
			outs = append(outs, c17describe(reqs[1], inner, opt))
		}
	}
	return T("obs", outs...)
}

func genC17(rng *rand.Rand, n int, tier string, emit func(*Sx)) {
	strs := []string{"", "a", "hello world", "<&>\"'", "é☃", "line\nbreak", "\t", "{}[]", "100%", "%s %d%%", "x\x00y", "caf\xe9 \xff"}
	codes := []int{200, 201, 202, 400, 404, 418, 500, 503, 299, 599, 700, 204, 304} // also codes net/http has no text for
	for i := 0; i < n; i++ {
		var reqs []*Sx
		for k := 1 + rng.Intn(3); k > 0; k-- {
			status := codes[rng.Intn(len(codes))]
			switch rng.Intn(4) {
			case 0, 1:
				kind := []string{"json", "xml"}[rng.Intn(2)]
				pool := strs[:11] // text that is not valid UTF-8 goes through PlainText and Binary only (the encoders replace it)
				if kind == "xml" {
					pool = strs[:10] // NUL is not encodable in XML
				}
				var tags []*Sx
				for t := rng.Intn(3); t > 0; t-- {
					tags = append(tags, X(pool[rng.Intn(len(pool))]))
				}
				v := []*Sx{X(pool[rng.Intn(len(pool))]), I(rng.Intn(2000) - 1000), B(rng.Intn(2) == 0), T("tags", tags...)}
				if rng.Intn(2) == 0 {
					v = append(v, T("inner", I(rng.Intn(100)), X(pool[rng.Intn(len(pool))])))
				}
				reqs = append(reqs, T("req", A(kind), I(status), T("v", v...)))
			case 2:
				b := make([]byte, rng.Intn(12))
				rng.Read(b)
				reqs = append(reqs, T("req", A("binary"), I(status), X(string(b))))
			default:
				reqs = append(reqs, T("req", A("text"), I(status), X(strs[rng.Intn(len(strs))])))
			}
		}
		emit(T("in", T("charset", X([]string{"", "", "utf-8", "iso-8859-1", "gbk", "UTF-8", "Shift_JIS"}[rng.Intn(7)])), T("jindent", X([]string{"", "", "  ", "\t"}[rng.Intn(4)])),
			T("xindent", X([]string{"", "", "  ", "\t"}[rng.Intn(4)])), T("early", B(rng.Intn(12) == 0)), T("nested", B(rng.Intn(3) == 0)), T("prect", B(rng.Intn(4) == 0)), T("outer", B(rng.Intn(4) == 0)), T("pre", I([]int{0, 0, 0, 1, 2}[rng.Intn(5)])), T("reqs", reqs...)))
	}
}

func init() {
	properties["C17"] = &property{gen: genC17, run: runC17}
}
