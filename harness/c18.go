package main

import (
	"io"
	"math/rand"
	"net/http"
	"net/url"
	"strconv"
	"strings"

	"github.com/flamego/flamego"
)

// ---- C18: request accessors and cookies ----
func runC18(in *Sx) *Sx {
	qv := in.Field("q").Args()[0]
	pv := in.Field("p").Args()[0].Bytes()
	cv := in.Field("c").Args()[0].Bytes()
	var dstr []string
	if d := in.Field("dstr").Args()[0]; d.Atom != "none" {
		dstr = []string{d.Bytes()}
		if len(d.Bytes())%2 == 1 {
			dstr = append(dstr, "second") // more than one default: the first one is the default
		}
	}
	var dint []int
	var dint64 []int64
	if d := in.Field("dint").Args()[0]; d.Atom != "none" {
		v, _ := strconv.ParseInt(d.Atom, 10, 64)
		dint = []int{int(v)}
		dint64 = []int64{v}
	}
	var dfloat []float64
	if len(dint64) > 0 {
		dfloat = []float64{float64(dint64[0]) + 0.5}
	}
	var dbool []bool
	if d := in.Field("dbool").Args()[0]; d.Atom != "none" {
		dbool = []bool{d.Atom == "1"}
	}
	f := flamego.NewWithLogger(io.Discard)
	var out []*Sx
	panicked := false
	f.Get("/p/{p}", func(c flamego.Context) {
		defer func() {
			if r := recover(); r != nil {
				panicked = true
			}
		}()
		out = append(out,
			T("query", X(c.Query("q", dstr...))),
			T("trim", X(c.QueryTrim("q", dstr...))),
			T("unescape", X(c.QueryUnescape("q", dstr...))),
			T("bool", B(c.QueryBool("q", dbool...))),
			T("int", I64(int64(c.QueryInt("q", dint...)))),
			T("int64", I64(c.QueryInt64("q", dint64...))),
			T("float", B(c18floatOK(c.QueryFloat64("q", dfloat...), c.Query("q"), dfloat))),
			T("absent", X(c.Query("nope", dstr...)), I64(c.QueryInt64("nope", dint64...)), B(c.QueryBool("nope", dbool...)),
				X(c.QueryTrim("nope", dstr...)), X(c.QueryUnescape("nope", dstr...)), I64(int64(c.QueryInt("nope", dint...)))),
			T("param", X(c.Param("p"))),
			T("paramint", I64(int64(c.ParamInt("p")))),
			T("paramint64", I64(c.ParamInt64("p"))),
			T("noparam", X(c.Param("zz")), I64(int64(c.ParamInt("zz")))),
			T("nocookie", X(c.Cookie("none"))),
		)
		// the URL may be rewritten while the request is served (a routing or rewriting middleware): the accessors
		// answer from the query as it is now
		if q2 := in.Field("q2"); q2 != nil {
			c.Request().URL.RawQuery = url.Values{"q": {q2.Args()[0].Bytes()}}.Encode()
			out = append(out, T("requery", X(c.Query("q", dstr...)), X(c.QueryTrim("q", dstr...)), I64(c.QueryInt64("q", dint64...)), B(c.QueryBool("q", dbool...))))
		}
		// several cookies on one response: each is its own Set-Cookie header
		c.SetCookie(http.Cookie{Name: "first", Value: "one", Path: "/"})
		c.SetCookie(http.Cookie{Name: "ck", Value: cv, Path: "/"})
		c.SetCookie(http.Cookie{Name: "last", Value: "l st", Path: "/"})
	})
	// a raw query string exactly as a client may send it (pieces that do not parse are dropped by net/url, the first
	// well-formed value of the name counts)
	var rawOut, rawList *Sx
	if r := in.Field("raw"); r != nil {
		name := r.Args()[1].Bytes()
		f.Any("/rawq", func(c flamego.Context) {
			defer func() {
				if r := recover(); r != nil {
					panicked = true
				}
			}()
			rawOut = T("raw", X(c.Query(name, dstr...)), I64(c.QueryInt64(name, dint64...)), X(c.QueryTrim(name, dstr...)))
			var dl [][]string
			if len(dstr) > 0 {
				dl = [][]string{{dstr[0], dstr[0]}}
			}
			var vs []*Sx
			for _, v := range c.QueryStrings(name, dl...) { // every value of the name, in order
				vs = append(vs, X(v))
			}
			rawList = T("rawl", vs...)
		})
	}
	var got string
	f.Get("/read", func(c flamego.Context) {
		got = c.Cookie("ck")
		if c.Cookie("first") != "one" || c.Cookie("last") != "l st" {
			got = "<a cookie set on the same response was lost>"
		}
	})

	u := &url.URL{Path: "/p/" + pv, RawPath: ""}
	if qv.Atom != "absent" {
		u.RawQuery = url.Values{"q": {qv.Bytes()}}.Encode()
	}
	if j := in.Field("junk"); j != nil {
		// a malformed pair elsewhere in the query string is dropped by net/url; the well-formed ones still count
		tail := []string{"junk=%zz", "100%", "x=1;y=2", "%"}[j.Args()[0].Int()%4]
		if u.RawQuery == "" {
			u.RawQuery = tail
		} else if j.Args()[0].Int() >= 4 {
			u.RawQuery = tail + "&" + u.RawQuery
		} else {
			u.RawQuery += "&" + tail
		}
	}
	// the router matches on URL.Path (already decoded); a "/" inside the value would split the segment
	w := &wireWriter{hdr: http.Header{}}
	f.ServeHTTP(w, &http.Request{Method: "GET", URL: u, Header: http.Header{}, Proto: "HTTP/1.1"})
	if r := in.Field("raw"); r != nil && !panicked {
		rq := &http.Request{Method: "GET", URL: &url.URL{Path: "/rawq", RawQuery: r.Args()[0].Bytes()}, Header: http.Header{}, Proto: "HTTP/1.1"}
		if len(r.Args()) > 2 { // a form body that carries the same names: the Query* accessors answer from the URL alone
			body := url.Values{r.Args()[1].Bytes(): {"from-body"}, "q": {"from-body"}}.Encode()
			rq.Method = "POST"
			rq.Header.Set("Content-Type", "application/x-www-form-urlencoded")
			rq.Body = io.NopCloser(strings.NewReader(body))
			rq.ContentLength = int64(len(body))
		}
		f.ServeHTTP(&wireWriter{hdr: http.Header{}}, rq)
		if rawOut != nil {
			out = append(out, rawOut, rawList)
		}
	}
	if panicked {
		return T("obs", T("panic"))
	}
	// the client sends the cookie back as received
	var pairs []string
	for _, sc := range w.hdr.Values("Set-Cookie") {
		pair := sc
		if i := strings.Index(sc, ";"); i >= 0 {
			pair = sc[:i]
		}
		pairs = append(pairs, pair)
	}
	req2 := &http.Request{Method: "GET", URL: &url.URL{Path: "/read"}, Header: http.Header{"Cookie": {strings.Join(pairs, "; ")}}, Proto: "HTTP/1.1"}
	f.ServeHTTP(&wireWriter{hdr: http.Header{}}, req2)
	out = append(out, T("cookie", X(got)))
	return T("obs", out...)
}

// c18floatOK: the float accessor follows the rule of its siblings - the default for an absent or empty value,
// otherwise what strconv.ParseFloat makes of the text (the oracle: +-Inf beyond the range, 0 for malformed text).
func c18floatOK(got float64, v string, def []float64) bool {
	want, _ := strconv.ParseFloat(v, 64)
	if v == "" && len(def) > 0 {
		want = def[0]
	}
	return got == want || (got != got && want != want)
}

func c18value(rng *rand.Rand) string {
	pool := []string{"", "", "a", "  d ", "100%", "%41", "a+b", "1", "t", "TRUE", "true", "True", "0", "f", "no", "42", "-7", "+8", "007",
		"9223372036854775807", "9223372036854775808", "-9223372036854775809", "99999999999999999999", "1_000", "0x10", "12a", " 12", "1.5", "1e3",
		"tRuE", "TRue", "FaLsE", "1e309", "-1e400", "1e-400", "NaN", "inf", "0x1p-2", ".5", "\t x\n", "\xc2\xa0x\xc2\x85", "a;b", "a,b", "a b", "\"q\"", "\\", "\x00", "\x7f", "\xff\xfe", "é", "a=b&c=d", "%", "%zz", "+"}
	if rng.Intn(3) == 0 {
		b := make([]byte, rng.Intn(6))
		for i := range b {
			b[i] = byte(rng.Intn(256))
		}
		s := string(b)
		// stay within the modelled TrimSpace: no 3-byte Unicode spaces at the edges
		if strings.HasPrefix(s, "\xe1") || strings.HasPrefix(s, "\xe2") || strings.HasPrefix(s, "\xe3") {
			s = "x" + s
		}
		return s
	}
	return pool[rng.Intn(len(pool))]
}

func genC18(rng *rand.Rand, n int, tier string, emit func(*Sx)) {
	for i := 0; i < n; i++ {
		q := X(c18value(rng))
		if rng.Intn(8) == 0 {
			q = A("absent")
		}
		p := c18value(rng)
		p = strings.ReplaceAll(p, "/", "_") // one path segment
		if p == "" {
			p = "0"
		}
		ds, di, db := A("none"), A("none"), A("none")
		if rng.Intn(2) == 0 {
			ds = X(c18value(rng))
		}
		if rng.Intn(2) == 0 {
			di = I64(int64(rng.Intn(2000) - 1000))
		}
		if rng.Intn(2) == 0 {
			db = B(rng.Intn(2) == 0)
		}
		in := T("in", T("q", q), T("p", X(p)), T("c", X(c18value(rng))), T("dstr", ds), T("dint", di), T("dbool", db))
		if rng.Intn(5) == 0 {
			in.List = append(in.List, T("q2", X(c18value(rng))))
		}
		if rng.Intn(5) == 0 {
			in.List = append(in.List, T("junk", I(rng.Intn(8))))
		}
		if rng.Intn(2) == 0 { // a raw query string of well-formed and malformed pieces
			keys := []string{"q", "a", "x y", "", "q", "k&k", "é"}
			var pieces []string
			for k := rng.Intn(5); k > 0; k-- {
				switch rng.Intn(10) {
				case 0, 1, 2, 3:
					b := make([]byte, rng.Intn(4))
					rng.Read(b)
					v := []string{"", "7", " 12 ", "v&w", "a=b", "x;y", "100%", "+", string(b)}[rng.Intn(9)]
					pieces = append(pieces, url.QueryEscape(keys[rng.Intn(len(keys))])+"="+url.QueryEscape(v))
				case 4:
					pieces = append(pieces, []string{"q=%zz", "%=1", "q=%4", "a=1;q=2", ";", "q;"}[rng.Intn(6)])
				case 5:
					pieces = append(pieces, []string{"", "q", "=v", "q=1=2", "q==", "a", "+=+"}[rng.Intn(7)])
				case 6:
					b := make([]byte, 1+rng.Intn(5))
					rng.Read(b)
					pieces = append(pieces, string(b))
				case 7:
					pieces = append(pieces, "q="+[]string{"%41", "a+b", "%2B", "%26%3D", "%00", "%C3%A9"}[rng.Intn(6)])
				default:
					pieces = append(pieces, keys[rng.Intn(len(keys))]+"="+[]string{"1", "", "zz", "-5"}[rng.Intn(4)])
				}
			}
			raw := T("raw", X(strings.Join(pieces, "&")), X(keys[rng.Intn(len(keys))]))
			if rng.Intn(3) == 0 {
				raw.List = append(raw.List, T("body"))
			}
			in.List = append(in.List, raw)
		}
		emit(in)
	}
}

func init() {
	properties["C18"] = &property{gen: genC18, run: runC18}
}
