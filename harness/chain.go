package main

import (
	gocontext "context"
	"encoding/json"
	"errors"
	"fmt"
	"io"
	"math/rand"
	"net/http"
	"net/url"
	"reflect"
	"strings"
	"sync"

	"github.com/flamego/flamego"
)

// ---- shared by C03 (chain order), C14 (return values), C15 (Recovery) ----

// wireWriter is the underlying http.ResponseWriter; it records what reaches it.
type wireWriter struct {
	hdr     http.Header
	sentHdr http.Header // the header map as it was when the status line went out
	status  int
	chunks  []string
	onSent  func() // called when the status line goes out
}

func (w *wireWriter) Header() http.Header { return w.hdr }
func (w *wireWriter) WriteHeader(c int) {
	if w.status == 0 {
		w.status = c
		w.sentHdr = w.hdr.Clone()
		if w.onSent != nil {
			w.onSent()
		}
	}
}
func (w *wireWriter) Write(b []byte) (int, error) {
	if w.status == 0 {
		w.status = 200
		w.sentHdr = w.hdr.Clone()
		if w.onSent != nil {
			w.onSent()
		}
	}
	w.chunks = append(w.chunks, string(b))
	return len(b), nil
}

// markWriter is the kind of writer a middleware maps over http.ResponseWriter (gzip, capture, ...): every
// Write that goes through it is preceded by a marker Write, so the wire shows which writes it saw.
type markWriter struct{ http.ResponseWriter }

func (m markWriter) Write(b []byte) (int, error) {
	_, _ = m.ResponseWriter.Write([]byte("W"))
	return m.ResponseWriter.Write(b)
}

type unresolvable struct{ _ int }

type subKey struct{}

// a user-supplied ReturnHandler: its own status and a marker body, whatever was returned
func customRH(k int) flamego.ReturnHandler {
	return func(c flamego.Context, vals []reflect.Value) {
		w := c.ResponseWriter()
		w.WriteHeader(290 + k)
		_, _ = w.Write([]byte{'R', byte('0' + k)})
	}
}

type customErr struct{ msg string }

func (e *customErr) Error() string { return e.msg }

// constErr is the sentinel-error idiom: an error type of string kind, declared as a value type; its zero value
// is still a non-nil error.
type constErr string

func (e constErr) Error() string { return string(e) }

type panicStruct struct{ N int }

func panicValue(v int) interface{} {
	switch v {
	case 1:
		return "boom1"
	case 2:
		return errors.New("boom2")
	case 4:
		return panicStruct{N: 4}
	case 5:
		return http.ErrAbortHandler
	case 7: // an error value whose Error method itself panics (nil receiver)
		return (*customErr)(nil)
	}
	return fmt.Sprintf("boom%d", v)
}

// panicTexts lists what identifies panic value v wherever it is shown (a log line, the development page): any
// one of the alternatives.  How the value is formatted (%s, %v) and the wording around it are nobody's promise;
// for the failed dependency resolution (0) it is the name of the type that could not be resolved.
func panicTexts(v int) []string {
	switch v {
	case 0:
		return []string{"unresolvable"}
	case 3:
		return []string{"nil map"}
	case 4:
		return []string{"{4}", "int=4"}
	case 7:
		return []string{"<nil>"} // what fmt prints for a nil receiver whose method panics
	}
	return []string{fmt.Sprintf("%s", panicValue(v))}
}

// whichPanic tells which scripted panic value a text shows (-1: none).
func whichPanic(txt string) int {
	for _, v := range []int{0, 10, 11, 1, 2, 3, 4, 5, 6, 8, 9, 7} {
		for _, alt := range panicTexts(v) {
			if strings.Contains(txt, alt) {
				return v
			}
		}
	}
	return -1
}

// scriptCtx is a request context that a scripted handler ends, either as cancelled or as past its deadline.
type scriptCtx struct {
	gocontext.Context
	done chan struct{}
	kind error
	mu   sync.Mutex
	err  error
}

func (c *scriptCtx) Done() <-chan struct{} { return c.done }
func (c *scriptCtx) Err() error {
	c.mu.Lock()
	defer c.mu.Unlock()
	return c.err
}
func (c *scriptCtx) finish() {
	c.mu.Lock()
	defer c.mu.Unlock()
	if c.err == nil {
		c.err = c.kind
		close(c.done)
	}
}

type namedStr string
type namedBytes []byte

type chainRun struct {
	events []*Sx
	cancel func()
	rot    int // added to the position of a scripted panic value in rotSet: the values differ from request to request
}

var rotSet = []int{1, 2, 4, 6, 5} // string, error, struct, string, http.ErrAbortHandler

func rotValue(k, v int) int {
	for i, x := range rotSet {
		if x == v {
			return rotSet[(i+k)%len(rotSet)]
		}
	}
	return v
}

func (cr *chainRun) log(e *Sx) { cr.events = append(cr.events, e) }

func mkErr(msg *Sx) error {
	if msg.Atom == "nil" {
		return nil
	}
	s := msg.Bytes()
	switch len(s) % 3 {
	case 0:
		return errors.New(s)
	case 1:
		return &customErr{msg: s}
	}
	return fmt.Errorf("%s", s)
}

func mkBytes(b *Sx) []byte {
	if b.Atom == "nil" {
		return nil
	}
	return append(make([]byte, 0, len(b.Bytes())+3), b.Bytes()...)
}

// scriptedHandler builds a Go function whose type is decided by the return shape.
func scriptedHandler(cr **chainRun, i int, h *Sx) flamego.Handler {
	switch h.Tag() {
	case "recovery":
		return flamego.Recovery()
	case "unres":
		return func(x *unresolvable) {}
	case "h":
	default:
		panic(badInput("handler " + h.String()))
	}
	acts := h.Field("acts").Args()
	ret := h.Field("ret").Args()
	body := func(c flamego.Context) {
		r := *cr
		r.log(T("en", I(i), I(c.ResponseWriter().Status()), B(c.Request().Context().Err() != nil)))
		defer func() {
			if p := recover(); p != nil {
				r.log(T("uw", I(i)))
				panic(p)
			}
		}()
		for _, a := range acts {
			switch a.Tag() {
			case "wh":
				c.ResponseWriter().WriteHeader(a.Args()[0].Int())
			case "w":
				_, _ = c.ResponseWriter().Write([]byte(a.Args()[0].Bytes()))
			case "next":
				r.log(T("nc", I(i)))
				c.Next()
				r.log(T("nr", I(i)))
			case "cancel":
				if len(a.Args()) == 1 {
					// the request is replaced by one carrying a derived context, and that one ends
					ctx, cancel := gocontext.WithCancel(c.Request().Context())
					c.Request().Request = c.Request().WithContext(ctx)
					cancel()
				} else {
					r.cancel()
				}
			case "maprh":
				k := a.Args()[0].Int()
				c.Map(customRH(k))
			case "fl":
				c.ResponseWriter().Flush()
			case "wrap":
				c.MapTo(markWriter{c.ResponseWriter()}, (*http.ResponseWriter)(nil))
			case "sub":
				// a sub-request through the same application: a separate request whose events are not ours
				saved := *cr
				*cr = &chainRun{cancel: func() {}}
				func() {
					defer func() { _ = recover() }()
					c.Request().Context().Value(subKey{}).(*flamego.Flame).ServeHTTP(&wireWriter{hdr: http.Header{}},
						(&http.Request{Method: "GET", URL: &url.URL{Path: "/other"}, Header: http.Header{}, Proto: "HTTP/1.1"}).WithContext(gocontext.Background()))
				}()
				*cr = saved
			case "panic":
				v := rotValue(r.rot, a.Args()[0].Int())
				if v == 3 {
					var m map[string]int
					m["x"] = 1 // runtime error
				}
				panic(panicValue(v))
			default:
				panic(badInput("act " + a.String()))
			}
		}
		r.log(T("ex", I(i)))
	}
	shape := ""
	for _, v := range ret {
		shape += v.Tag() + ","
	}
	fast := h.Field("fast") != nil && h.Field("fast").Args()[0].Atom != "0"
	named := h.Field("named") != nil && h.Field("named").Args()[0].Atom == "1"
	if h.Field("named") != nil && h.Field("named").Args()[0].Atom == "2" {
		// a non-nil error whose declared type is a value type of string kind (the empty one included)
		switch shape {
		case "err,":
			if ret[0].Args()[0].Atom != "nil" {
				return func(c flamego.Context) constErr { body(c); return constErr(ret[0].Args()[0].Bytes()) }
			}
		case "int,err,":
			if ret[1].Args()[0].Atom != "nil" {
				return func(c flamego.Context) (int, constErr) {
					body(c)
					return ret[0].Args()[0].Int(), constErr(ret[1].Args()[0].Bytes())
				}
			}
		case "str,err,":
			if ret[1].Args()[0].Atom != "nil" {
				return func(c flamego.Context) (string, constErr) {
					body(c)
					return ret[0].Args()[0].Bytes(), constErr(ret[1].Args()[0].Bytes())
				}
			}
		}
	}
	if named { // the same shapes through named types: type X []byte (json.RawMessage), type S string
		switch shape {
		case "str,":
			return func(c flamego.Context) namedStr { body(c); return namedStr(ret[0].Args()[0].Bytes()) }
		case "bytes,":
			return func(c flamego.Context) json.RawMessage { body(c); return json.RawMessage(mkBytes(ret[0].Args()[0])) }
		case "int,bytes,":
			return func(c flamego.Context) (int, namedBytes) {
				body(c)
				return ret[0].Args()[0].Int(), namedBytes(mkBytes(ret[1].Args()[0]))
			}
		case "bytes,err,":
			return func(c flamego.Context) (json.RawMessage, error) {
				body(c)
				return json.RawMessage(mkBytes(ret[0].Args()[0])), mkErr(ret[1].Args()[0])
			}
		// a concrete error type as the declared result type (not the interface)
		case "err,":
			if ret[0].Args()[0].Atom != "nil" {
				return func(c flamego.Context) *customErr { body(c); return &customErr{msg: ret[0].Args()[0].Bytes()} }
			}
		case "int,err,":
			if ret[1].Args()[0].Atom != "nil" {
				return func(c flamego.Context) (int, *customErr) {
					body(c)
					return ret[0].Args()[0].Int(), &customErr{msg: ret[1].Args()[0].Bytes()}
				}
			}
		}
	}
	teapot := h.Field("fast") != nil && h.Field("fast").Args()[0].Atom == "2"
	switch shape {
	case "":
		if fast {
			return func(c flamego.Context) { body(c) } // wrapped into ContextInvoker
		}
		return func(c flamego.Context, _ *http.Request) { body(c) } // reflective call
	case "str,":
		return func(c flamego.Context) string { body(c); return ret[0].Args()[0].Bytes() }
	case "bytes,":
		return func(c flamego.Context) []byte { body(c); return mkBytes(ret[0].Args()[0]) }
	case "err,":
		return func(c flamego.Context) error { body(c); return mkErr(ret[0].Args()[0]) }
	case "ptr,":
		return func(c flamego.Context) *string {
			body(c)
			if ret[0].Args()[0].Atom == "nil" {
				return nil
			}
			s := ret[0].Args()[0].Bytes()
			return &s
		}
	case "ptrb,": // a []byte behind a pointer, or behind an interface{}: dereferenced, then a byte slice like any other
		if named {
			return func(c flamego.Context) interface{} {
				body(c)
				if ret[0].Args()[0].Atom == "nil" {
					return nil
				}
				return mkBytes(ret[0].Args()[0])
			}
		}
		return func(c flamego.Context) *[]byte {
			body(c)
			if ret[0].Args()[0].Atom == "nil" {
				return nil
			}
			b := mkBytes(ret[0].Args()[0])
			return &b
		}
	case "int,str,":
		if teapot && len(acts) == 0 {
			// the built-in fast path for func() (int, string); it cannot log, which the model accounts for
			return func() (int, string) { return ret[0].Args()[0].Int(), ret[1].Args()[0].Bytes() }
		}
		return func(c flamego.Context) (int, string) {
			body(c)
			return ret[0].Args()[0].Int(), ret[1].Args()[0].Bytes()
		}
	case "int,bytes,":
		return func(c flamego.Context) (int, []byte) {
			body(c)
			return ret[0].Args()[0].Int(), mkBytes(ret[1].Args()[0])
		}
	case "int,err,":
		return func(c flamego.Context) (int, error) { body(c); return ret[0].Args()[0].Int(), mkErr(ret[1].Args()[0]) }
	case "str,err,":
		return func(c flamego.Context) (string, error) {
			body(c)
			return ret[0].Args()[0].Bytes(), mkErr(ret[1].Args()[0])
		}
	case "bytes,err,":
		return func(c flamego.Context) ([]byte, error) {
			body(c)
			return mkBytes(ret[0].Args()[0]), mkErr(ret[1].Args()[0])
		}
	// shapes outside the table: nothing is rendered for them
	case "other,str,":
		return func(c flamego.Context) (bool, string) { body(c); return true, ret[1].Args()[0].Bytes() }
	case "int,str,err,":
		return func(c flamego.Context) (int, string, error) {
			body(c)
			return ret[0].Args()[0].Int(), ret[1].Args()[0].Bytes(), mkErr(ret[2].Args()[0])
		}
	}
	panic(badInput("return shape " + shape))
}

// runChain builds a Flame with (mw ...) (groups (g h...)...) (route h...) (action h|none) and serves (reps k) requests.
func runChain(in *Sx) *Sx {
	head := in.Field("head").Args()[0].Atom == "1"
	dev := in.Field("dev").Args()[0].Atom == "1"
	// The instance (and its Recovery middleware) is built under the opposite environment; the
	// environment that counts is the one in force when the request is served.
	if dev {
		flamego.SetEnv(flamego.EnvTypeProd)
	} else {
		flamego.SetEnv(flamego.EnvTypeDev)
	}
	var cur *chainRun
	f := flamego.NewWithLogger(io.Discard)
	idx := 0
	mk := func(hs []*Sx) []flamego.Handler {
		var out []flamego.Handler
		for _, h := range hs {
			out = append(out, scriptedHandler(&cur, idx, h))
			idx++
		}
		return out
	}
	mw := mk(in.Field("mw").Args())
	if v := in.Field("via"); v != nil && v.Args()[0].Atom == "1" && len(mw) > 0 {
		// the whole stack at once through Handlers(), from a slice the caller keeps using afterwards: what the
		// caller does to its own slice later is not the application's business
		base := make([]flamego.Handler, len(mw), len(mw)+2)
		copy(base, mw)
		f.Handlers(base...)
		intruder := func(c flamego.Context) { c.ResponseWriter().WriteHeader(599) } // not part of the application
		base[0] = intruder
		_ = append(base, intruder)
	} else {
		for _, h := range mw { // one Use call per handler leaves spare capacity in the middleware slice
			f.Use(h)
		}
	}
	groups := in.Field("groups").Args()
	var ghs [][]flamego.Handler
	for _, g := range groups {
		ghs = append(ghs, mk(g.Args()))
	}
	rhs := mk(in.Field("route").Args())
	path := ""
	var nest func(k int)
	nest = func(k int) {
		if k == len(groups) {
			f.Get("/p", rhs...)
			f.Head("/p", rhs...)
			f.Get("/other", func() string { return "other" })
			return
		}
		path += fmt.Sprintf("/g%d", k)
		f.Group(fmt.Sprintf("/g%d", k), func() { nest(k + 1) }, ghs[k]...)
	}
	nest(0)
	if a := in.Field("action").Args()[0]; a.IsL {
		f.Action(scriptedHandler(&cur, idx, a))
	}
	if rh := in.Field("apprh"); rh != nil && rh.Args()[0].Atom != "none" {
		f.Map(customRH(rh.Args()[0].Int()))
	}
	if dev {
		flamego.SetEnv(flamego.EnvTypeDev)
	} else if e := in.Field("env"); e != nil && e.Args()[0].Atom == "test" {
		flamego.SetEnv(flamego.EnvTypeTest) // neither development nor production: no panic detail
	} else {
		flamego.SetEnv(flamego.EnvTypeProd)
	}
	deadline := false
	if c := in.Field("ckind"); c != nil && c.Args()[0].Atom == "deadline" {
		deadline = true
	}
	reps := 1
	if r := in.Field("reps"); r != nil {
		reps = r.Args()[0].Int()
	}
	var results []*Sx
	for k := 0; k < reps; k++ {
		cur = &chainRun{}
		if rt := in.Field("rot"); rt != nil && rt.Args()[0].Atom == "1" {
			cur.rot = k
		}
		sc := &scriptCtx{Context: gocontext.Background(), done: make(chan struct{}), kind: gocontext.Canceled}
		if deadline {
			sc.kind = gocontext.DeadlineExceeded // the request context ends by its deadline, not by cancel()
		}
		var ctx gocontext.Context = sc
		cancel := sc.finish
		cur.cancel = cancel
		method := "GET"
		if head {
			method = "HEAD"
		}
		req := (&http.Request{Method: method, URL: &url.URL{Path: path + "/p"}, Header: http.Header{}, Proto: "HTTP/1.1"}).WithContext(gocontext.WithValue(ctx, subKey{}, f))
		run := cur
		w := &wireWriter{hdr: http.Header{}, onSent: func() { run.log(T("sent")) }}
		escaped := A("none")
		func() {
			defer func() {
				if p := recover(); p != nil {
					escaped = A("other")
					if v := whichPanic(fmt.Sprintf("%s", p)); v >= 0 {
						escaped = I(v)
					}
				}
			}()
			f.ServeHTTP(w, req)
		}()
		cancel()
		var body []*Sx
		for _, ch := range w.chunks {
			// what Recovery sends is told from scripted writes by its size (scripted bodies are a few bytes); whether
			// it shows the panic detail is decided by the panic value's text being in it - the page's layout, title
			// and wording are not the property's business
			switch v := whichPanic(ch); {
			case len(ch) >= 12 && v >= 0:
				body = append(body, T("page", I(v), B(true)))
			case len(ch) >= 12 && w.status != 0:
				body = append(body, T("page", I(-1), B(false)))
			default:
				body = append(body, T("b", X(ch)))
			}
		}
		results = append(results, T("r", T("trace", cur.events...), T("status", I(w.status)), T("body", body...), T("escaped", escaped)))
	}
	return T("obs", results...)
}

// ---- generators ----

var chainCodes = []int{200, 201, 204, 301, 404, 418, 500, 700, 999, 599, 600} // 700, 999: legal for net/http, no standard text

var genExtras = false // C03/C14: also sub-requests and request-scoped ReturnHandlers
var genWrap = false   // C14/C15: also handlers that re-map http.ResponseWriter to a marking wrapper

func genActs(rng *rand.Rand, maxNext int, allowPanic, allowCancel bool) []*Sx {
	var acts []*Sx
	nexts := 0
	for k := rng.Intn(5); k > 0; k-- {
		switch r := rng.Intn(100); {
		case r < 22:
			acts = append(acts, T("wh", I(chainCodes[rng.Intn(len(chainCodes))])))
		case r < 37:
			acts = append(acts, T("w", X(string(rune('a'+rng.Intn(6))))))
		case r < 40: // a flush commits the status like a write does (the wire is no http.Flusher)
			acts = append(acts, T("fl"))
		case r < 78:
			if nexts < maxNext {
				nexts++
				acts = append(acts, T("next"))
			}
		case r < 84:
			if allowCancel {
				if rng.Intn(3) == 0 {
					acts = append(acts, T("cancel", I(1))) // through a derived context that replaces the request's
				} else {
					acts = append(acts, T("cancel"))
				}
			}
		case r < 92:
			if allowPanic {
				acts = append(acts, T("panic", I(1+rng.Intn(7))))
			}
		case r < 96:
			if genExtras {
				acts = append(acts, T("sub"))
			}
		default:
			if genExtras {
				acts = append(acts, T("maprh", I(rng.Intn(3))))
			}
		}
	}
	return acts
}

func genRet(rng *rand.Rand, rich bool) []*Sx {
	strs := []string{"", "", "s", "hello", "\x00\xff"}
	str := func() *Sx { return T("str", X(strs[rng.Intn(len(strs))])) }
	byt := func() *Sx {
		if rng.Intn(4) == 0 {
			return T("bytes", A("nil"))
		}
		return T("bytes", X(strs[rng.Intn(len(strs))]))
	}
	er := func() *Sx {
		if rng.Intn(2) == 0 {
			return T("err", A("nil"))
		}
		return T("err", X([]string{"e", "bad", "oops", "", "100% full", "%s%d"}[rng.Intn(6)]))
	}
	in := func() *Sx { return T("int", I(chainCodes[rng.Intn(len(chainCodes))])) }
	p := 70
	if rich {
		p = 8
	}
	if rng.Intn(100) < p {
		return nil
	}
	if rich && rng.Intn(10) == 0 { // shapes the table does not know: (bool, string), three values
		if rng.Intn(2) == 0 {
			return []*Sx{T("other"), str()}
		}
		return []*Sx{in(), str(), er()}
	}
	switch rng.Intn(9) {
	case 0:
		return []*Sx{str()}
	case 1:
		return []*Sx{byt()}
	case 2:
		return []*Sx{er()}
	case 3:
		return []*Sx{in(), str()}
	case 4:
		return []*Sx{in(), byt()}
	case 5:
		return []*Sx{in(), er()}
	case 6:
		return []*Sx{str(), er()}
	case 7:
		return []*Sx{byt(), er()}
	}
	switch rng.Intn(5) {
	case 0:
		return []*Sx{T("ptr", A("nil"))}
	case 1:
		return []*Sx{T("ptrb", A("nil"))}
	case 2:
		return []*Sx{T("ptrb", X([]string{"", "pb", "\x00\xff"}[rng.Intn(3)]))}
	}
	return []*Sx{T("ptr", X("pv"))}
}

func genHandler(rng *rand.Rand, maxNext int, allowPanic, allowCancel, richRet bool) *Sx {
	acts := genActs(rng, maxNext, allowPanic, allowCancel)
	if genWrap && rng.Intn(6) == 0 {
		at := rng.Intn(len(acts) + 1)
		acts = append(acts[:at:at], append([]*Sx{T("wrap")}, acts[at:]...)...)
	}
	return T("h", T("acts", acts...), T("ret", genRet(rng, richRet)...), T("fast", B(rng.Intn(2) == 0)), T("named", I([]int{0, 0, 0, 1, 2}[rng.Intn(5)])))
}

func chainInput(rng *rand.Rand, mw, route []*Sx, groups [][]*Sx, action *Sx, reps int) *Sx {
	var gs []*Sx
	for _, g := range groups {
		gs = append(gs, T("g", g...))
	}
	apprh := A("none")
	if genExtras && rng.Intn(8) == 0 {
		apprh = I(3 + rng.Intn(2))
	}
	dev := rng.Intn(2) == 0
	env := A("prod")
	if !dev && rng.Intn(3) == 0 {
		env = A("test")
	}
	ckind := A("cancel")
	if rng.Intn(3) == 0 {
		ckind = A("deadline")
	}
	return T("in", T("head", B(rng.Intn(5) == 0)), T("dev", B(dev)), T("mw", mw...), T("groups", gs...),
		T("route", route...), T("action", action), T("reps", I(reps)), T("apprh", apprh), T("env", env), T("ckind", ckind), T("via", B(rng.Intn(6) == 0)))
}

func genC03(rng *rand.Rand, n int, tier string, emit func(*Sx)) {
	genExtras = true
	defer func() { genExtras = false }()
	for i := 0; i < n; i++ {
		mk := func(k int) []*Sx {
			var hs []*Sx
			for ; k > 0; k-- {
				hs = append(hs, genHandler(rng, 3, rng.Intn(12) == 0, true, false))
			}
			return hs
		}
		mw := mk(rng.Intn(4))
		var groups [][]*Sx
		for g := rng.Intn(3); g > 0; g-- {
			groups = append(groups, mk(rng.Intn(3)))
		}
		route := mk(rng.Intn(4))
		action := A("none")
		if rng.Intn(2) == 0 {
			action = genHandler(rng, 2, false, false, false)
		}
		emit(chainInput(rng, mw, route, groups, action, 1))
	}
}

func genC14(rng *rand.Rand, n int, tier string, emit func(*Sx)) {
	genExtras, genWrap = true, true
	defer func() { genExtras, genWrap = false, false }()
	for i := 0; i < n; i++ {
		mk := func(k int, rich bool) []*Sx {
			var hs []*Sx
			for ; k > 0; k-- {
				h := genHandler(rng, 1, false, false, rich)
				if rng.Intn(2) == 0 { // a pure "return something" handler
					var acts []*Sx
					if rng.Intn(5) == 0 {
						acts = []*Sx{T("wrap")}
					}
					h = T("h", T("acts", acts...), T("ret", h.Field("ret").Args()...), T("fast", I(rng.Intn(3))))
				}
				hs = append(hs, h)
			}
			return hs
		}
		mw := mk(rng.Intn(3), rng.Intn(2) == 0)
		route := mk(1+rng.Intn(3), true)
		action := A("none")
		if rng.Intn(2) == 0 {
			action = genHandler(rng, 0, false, false, true)
		}
		emit(chainInput(rng, mw, route, nil, action, 1+rng.Intn(3)/2)) // every third case serves a second request
	}
}

func genC15(rng *rand.Rand, n int, tier string, emit func(*Sx)) {
	genWrap = true
	defer func() { genWrap = false }()
	for i := 0; i < n; i++ {
		// handlers before Recovery: never panic, call Next at most once (hypothesis H1 of C15_contained)
		var mw []*Sx
		for k := rng.Intn(3); k > 0; k-- {
			mw = append(mw, genHandler(rng, 1, false, rng.Intn(6) == 0, false))
		}
		mw = append(mw, T("recovery"))
		post := func(k int) []*Sx {
			var hs []*Sx
			for ; k > 0; k-- {
				switch r := rng.Intn(10); {
				case r == 0:
					hs = append(hs, T("unres"))
				default:
					hs = append(hs, genHandler(rng, 3, rng.Intn(2) == 0, rng.Intn(6) == 0, false))
				}
			}
			return hs
		}
		mw = append(mw, post(rng.Intn(2))...)
		var groups [][]*Sx
		if rng.Intn(3) == 0 {
			groups = append(groups, post(rng.Intn(3)))
		}
		route := post(rng.Intn(4))
		action := A("none")
		if rng.Intn(2) == 0 {
			action = genHandler(rng, 1, rng.Intn(2) == 0, false, false)
		}
		ci := chainInput(rng, mw, route, groups, action, 1+rng.Intn(3))
		if rng.Intn(3) == 0 {
			ci.List = append(ci.List, T("rot", B(true)))
		}
		emit(ci)
	}
}

func init() {
	properties["C03"] = &property{gen: genC03, run: runChain}
	properties["C14"] = &property{gen: genC14, run: runChain}
	properties["C15"] = &property{gen: genC15, run: runChain}
}
