package main

import (
	"fmt"
	"io"
	"math/rand"
	"net/http"
	"net/url"
	"sort"
	"strings"

	"github.com/flamego/flamego"
)

// ---- C11: registration programs ----
// stmt ::= (route M xPATH (hs i...)) | (get xPATH (hs..)) | (routes xPATH xMETHODS (extra xM...) (hs..))
//        | (any xPATH (hs..)) | (group xPATH (hs..) (body stmt...)) | (combo xPATH (hs..) (use M (hs..))...) | (autohead B)

type groupsRun struct {
	f     *flamego.Flame
	trace []int
	wrap  bool // a HandlerWrapper is installed and the handlers have no fast invoker
	combos map[int]*flamego.ComboRoute
}

func (gr *groupsRun) handlers(hs *Sx) []flamego.Handler {
	ids := hs.Args()
	// spare capacity on purpose: appends by the framework must not leak between routes
	out := make([]flamego.Handler, 0, len(ids)+3)
	for _, x := range ids {
		id := x.Int()
		switch {
		case id == 0: // not a function: every registration that carries it must panic
			out = append(out, 42)
		case gr.wrap: // func() has no fast invoker, so the HandlerWrapper gets it
			out = append(out, func() { gr.trace = append(gr.trace, id) })
		default:
			out = append(out, func(c flamego.Context) { gr.trace = append(gr.trace, id) })
		}
	}
	return out
}

func comboMethod(c *flamego.ComboRoute, m string, hs []flamego.Handler) {
	switch m {
	case "GET":
		c.Get(hs...)
	case "POST":
		c.Post(hs...)
	case "PUT":
		c.Put(hs...)
	case "DELETE":
		c.Delete(hs...)
	case "PATCH":
		c.Patch(hs...)
	case "OPTIONS":
		c.Options(hs...)
	case "HEAD":
		c.Head(hs...)
	case "CONNECT":
		c.Connect(hs...)
	case "TRACE":
		c.Trace(hs...)
	default:
		panic(badInput("combo method " + m))
	}
}

func (gr *groupsRun) wrapper(h flamego.Handler) flamego.Handler {
	fn, ok := h.(func())
	if !ok {
		return h
	}
	return func() { gr.trace = append(gr.trace, 0); fn() }
}

func (gr *groupsRun) exec(stmts []*Sx) {
	f := gr.f
	for _, s := range stmts {
		a := s.Args()
		hdr := false // a trailing (hdr 1): .Headers("X-Gate", "") on what the statement returns
		if n := len(a); n > 0 && a[n-1].Tag() == "hdr" {
			hdr = a[n-1].Args()[0].Atom == "1"
			a = a[:n-1]
		}
		gate := func(r *flamego.Route) {
			if hdr {
				r.Headers("X-Gate", "")
			}
		}
		switch s.Tag() {
		case "route":
			gate(f.Route(a[0].Atom, a[1].Bytes(), gr.handlers(a[2])))
		case "get":
			gate(f.Get(a[0].Bytes(), gr.handlers(a[1])...))
		case "routes":
			var hs []flamego.Handler
			for _, m := range a[2].Args() {
				hs = append(hs, m.Bytes())
			}
			hs = append(hs, gr.handlers(a[3])...)
			gate(f.Routes(a[0].Bytes(), a[1].Bytes(), hs...))
		case "any":
			gate(f.Any(a[0].Bytes(), gr.handlers(a[1])...))
		case "group":
			body := a[2].Args()
			f.Group(a[0].Bytes(), func() { gr.exec(body) }, gr.handlers(a[1])...)
		case "combo":
			c := f.Combo(a[0].Bytes(), gr.handlers(a[1])...)
			for _, u := range a[2:] {
				if u.Tag() == "autohead" { // the ComboRoute is held while the setting changes
					f.AutoHead(u.Args()[0].Atom == "1")
					continue
				}
				comboMethod(c, u.Args()[0].Atom, gr.handlers(u.Args()[1]))
			}
		case "cnew": // a ComboRoute kept in a variable ...
			if gr.combos == nil {
				gr.combos = map[int]*flamego.ComboRoute{}
			}
			gr.combos[a[0].Int()] = f.Combo(a[1].Bytes(), gr.handlers(a[2])...)
		case "cuse": // ... and given a method later, wherever that is
			c := gr.combos[a[0].Int()]
			if c == nil {
				panic(badInput("cuse before cnew " + s.String()))
			}
			comboMethod(c, a[1].Atom, gr.handlers(a[2]))
		case "autohead":
			f.AutoHead(a[0].Atom == "1")
		case "wrapper": // installed or taken off between two declarations
			if a[0].Atom == "1" {
				f.HandlerWrapper(gr.wrapper)
			} else {
				f.HandlerWrapper(nil)
			}
		default:
			panic(badInput("stmt " + s.String()))
		}
	}
}

func runGroups(in *Sx) *Sx {
	gr := &groupsRun{f: flamego.NewWithLogger(io.Discard)}
	// programs with a HandlerWrapper (installed from the start or by a wrapper statement) use handlers without a fast invoker
	if w := in.Field("wrap"); (w != nil && w.Args()[0].Atom == "1") || strings.Contains(in.Field("prog").String(), "(wrapper ") {
		gr.wrap = true
	}
	if w := in.Field("wrap"); w != nil && w.Args()[0].Atom == "1" {
		gr.f.HandlerWrapper(gr.wrapper)
	}
	status := T("ok")
	func() {
		defer func() {
			if p := recover(); p != nil {
				if b, ok := p.(badInput); ok {
					panic(b)
				}
				status = T("panic")
			}
		}()
		gr.exec(in.Field("prog").Args())
	}()
	if status.Tag() == "panic" {
		return T("obs", T("regs", status))
	}
	var res []*Sx
	for _, pr := range in.Field("probes").Args() {
		gr.trace = nil
		var params flamego.Params
		gr.f.Action(func(c flamego.Context) { params = c.Params() })
		req := &http.Request{Method: pr.Args()[0].Bytes(), URL: &url.URL{Path: pr.Args()[1].Bytes()}, Header: http.Header{}, Proto: "HTTP/1.1"}
		if len(pr.Args()) > 2 {
			req.Header.Set("X-Gate", "on")
		}
		w := &wireWriter{hdr: http.Header{}}
		gr.f.ServeHTTP(w, req)
		if w.status == 404 && params == nil {
			res = append(res, T("notfound"))
			continue
		}
		var hs []*Sx
		for _, id := range gr.trace {
			hs = append(hs, I(id))
		}
		var ps []*Sx
		keys := make([]string, 0, len(params))
		for k := range params {
			keys = append(keys, k)
		}
		sort.Strings(keys)
		for _, k := range keys {
			ps = append(ps, T("p", X(k), X(params[k])))
		}
		res = append(res, T("r", T("hs", hs...), T("params", ps...)))
	}
	return T("obs", T("regs", status), T("probes", res...))
}

type groupsGen struct {
	rng      *rand.Rand
	nextH    int
	nextR    int
	probes   []*Sx
	rootUsed map[string]bool
	gated    bool // some statement carries (hdr 1)
	held     []heldCombo // ComboRoute values made so far
}

type heldCombo struct {
	id   int
	path string
	used map[string]bool
}

// hdr decides whether a statement is followed by .Headers(...) on its result
func (g *groupsGen) hdr(s *Sx) *Sx {
	if g.rng.Intn(4) == 0 {
		g.gated = true
		s.List = append(s.List, T("hdr", B(true)))
	}
	return s
}

func (g *groupsGen) hs(max int) *Sx {
	var ids []*Sx
	for k := g.rng.Intn(max + 1); k > 0; k-- {
		g.nextH++
		ids = append(ids, I(g.nextH))
	}
	if g.rng.Intn(120) == 0 { // a handler that is not a function
		ids = append(ids, I(0))
	}
	return T("hs", ids...)
}

func instantiate(p string) string {
	var sb strings.Builder
	for i := 0; i < len(p); i++ {
		if p[i] == '{' {
			j := strings.IndexByte(p[i:], '}')
			sb.WriteString("7")
			i += j
			continue
		}
		sb.WriteByte(p[i])
	}
	return sb.String()
}

func (g *groupsGen) probe(methods []string, prefix, full string) {
	for _, m := range methods {
		g.probes = append(g.probes, T("probe", X(m), X(instantiate(full))))
	}
	if g.rng.Intn(3) == 0 && prefix != "" { // the route path without its group prefix must not exist
		g.probes = append(g.probes, T("probe", X(methods[0]), X(instantiate(strings.TrimPrefix(full, prefix)))))
	}
}

func (g *groupsGen) stmts(depth int, prefix string, n int) []*Sx {
	rng := g.rng
	var out []*Sx
	ms := []string{"GET", "POST", "PUT", "DELETE", "PATCH", "OPTIONS", "HEAD"}
	for ; n > 0; n-- {
		g.nextR++
		path := fmt.Sprintf("/r%d", g.nextR)
		if rng.Intn(4) == 0 {
			path += "/{id}"
		}
		slashed := false
		if rng.Intn(6) == 0 { // a trailing slash is an extra empty segment and must survive the concatenation
			path += "/"
			slashed = true
		} else if rng.Intn(15) == 0 && !g.rootUsed[prefix] { // the group's own root
			if g.rootUsed == nil {
				g.rootUsed = map[string]bool{}
			}
			g.rootUsed[prefix] = true
			path = "/"
			slashed = true
		}
		if strings.HasSuffix(prefix, "/") && rng.Intn(3) != 0 {
			// inside a group whose path ends in a slash: relative spellings, and the group's own path ("")
			path = strings.TrimPrefix(path, "/")
			if rng.Intn(3) == 0 {
				path, slashed = "", true
			}
		}
		full := prefix + path
		if slashed { // ... and the same path without it must not be served
			g.probes = append(g.probes, T("probe", X("GET"), X(instantiate(strings.TrimSuffix(full, "/")))))
		}
		switch r := rng.Intn(20); {
		case r < 4:
			m := ms[rng.Intn(len(ms))]
			out = append(out, g.hdr(T("route", A(m), X(path), g.hs(2))))
			g.probe([]string{m, "GET", "HEAD"}, prefix, full)
		case r < 8:
			out = append(out, g.hdr(T("get", X(path), g.hs(2))))
			g.probe([]string{"GET", "HEAD", "POST"}, prefix, full)
		case r < 10:
			lists := []string{"GET,POST", "GET, PUT ,DELETE", "HEAD", " PATCH"}
			if rng.Intn(8) == 0 { // lists with an empty or blank-separated entry name an unknown method
				lists = []string{"GET,", ",GET", "GET,,POST", "GET POST", ","}
			}
			var extra []*Sx
			if rng.Intn(2) == 0 {
				extra = append(extra, X("OPTIONS"))
			}
			out = append(out, g.hdr(T("routes", X(path), X(lists[rng.Intn(len(lists))]), T("extra", extra...), g.hs(2))))
			g.probe([]string{"GET", "POST", "PUT", "DELETE", "HEAD", "PATCH", "OPTIONS"}, prefix, full)
		case r < 11:
			out = append(out, g.hdr(T("any", X(path), g.hs(2))))
			g.probe([]string{"GET", "TRACE", "HEAD"}, prefix, full)
		case r < 15 && depth < 3:
			gp := []string{fmt.Sprintf("/g%d", g.nextR), "", fmt.Sprintf("/{gid%d}", g.nextR), fmt.Sprintf("/g%d/x", g.nextR)}[rng.Intn(4)]
			if rng.Intn(10) == 0 {
				gp = fmt.Sprintf("/g%d/", g.nextR) // the slash belongs to the path: "/g/" + "/r" has an empty inner segment (refused)
			}
			ghs := g.hs(2)
			body := g.stmts(depth+1, prefix+gp, 1+rng.Intn(3))
			out = append(out, T("group", X(gp), ghs, T("body", body...)))
		case r < 18:
			var uses []*Sx
			used := map[string]bool{}
			for k := 1 + rng.Intn(3); k > 0; k-- {
				m := ms[rng.Intn(len(ms))]
				if used[m] {
					continue
				}
				used[m] = true
				if rng.Intn(3) == 0 { // AutoHead toggled between Combo(...) and the method call
					uses = append(uses, T("autohead", B(rng.Intn(2) == 0)))
				}
				uses = append(uses, T("use", A(m), g.hs(2)))
			}
			out = append(out, T("combo", append([]*Sx{X(path), g.hs(2)}, uses...)...))
			g.probe([]string{"GET", "POST", "PUT", "DELETE", "HEAD", "PATCH", "OPTIONS"}, prefix, full)
		case r == 18 && rng.Intn(2) == 0 && strings.HasPrefix(path, "/"): // (a relative path glued to another group's last segment would leave the restricted route syntax of these programs)
			// a ComboRoute kept in a variable: made here, given methods here or in whatever scope comes later
			g.held = append(g.held, heldCombo{id: g.nextR, path: path, used: map[string]bool{}})
			out = append(out, T("cnew", I(g.nextR), X(path), g.hs(2)))
		case r == 19 && len(g.held) > 0 && rng.Intn(2) == 0:
			h := g.held[rng.Intn(len(g.held))]
			m := ms[rng.Intn(len(ms))]
			if h.used[m] && rng.Intn(4) != 0 { // now and then the same method twice: refused
				break
			}
			h.used[m] = true
			out = append(out, T("cuse", I(h.id), A(m), g.hs(2)))
			g.probe([]string{m, "GET", "HEAD"}, prefix, prefix+h.path)
		default:
			if rng.Intn(3) == 0 {
				out = append(out, T("wrapper", B(rng.Intn(2) == 0)))
			} else {
				out = append(out, T("autohead", B(rng.Intn(2) == 0)))
			}
		}
	}
	return out
}

func genC11(rng *rand.Rand, n int, tier string, emit func(*Sx)) {
	for i := 0; i < n; i++ {
		g := &groupsGen{rng: rng}
		prog := g.stmts(0, "", 2+rng.Intn(5))
		if rng.Intn(25) == 0 { // Combo refuses the same method twice
			prog = append(prog, T("combo", X("/dup"), T("hs"), T("use", A("GET"), T("hs", I(901))), T("use", A("POST"), T("hs", I(902))), T("use", A("GET"), T("hs", I(903)))))
		}
		if rng.Intn(6) == 0 {
			// a ComboRoute made inside a group, given further methods after the group has closed and inside a sibling group
			prog = append(prog,
				T("group", X("/hg"), T("hs", I(951)), T("body", T("cnew", I(9000), X("/hc"), T("hs", I(952))), T("cuse", I(9000), A("GET"), T("hs", I(953))))),
				T("cuse", I(9000), A("POST"), T("hs", I(954))),
				T("group", X("/hs"), T("hs", I(955)), T("body", T("cuse", I(9000), A("PUT"), T("hs", I(956))))))
			for _, pr := range [][2]string{{"GET", "/hg/hc"}, {"POST", "/hc"}, {"POST", "/hg/hc"}, {"PUT", "/hs/hc"}, {"PUT", "/hg/hc"}, {"PUT", "/hc"}, {"HEAD", "/hg/hc"}} {
				g.probes = append(g.probes, T("probe", X(pr[0]), X(pr[1])))
			}
		}
		if g.gated { // every probe also with the gating header
			for _, pr := range append([]*Sx(nil), g.probes...) {
				g.probes = append(g.probes, T("probe", pr.Args()[0], pr.Args()[1], T("gate")))
			}
		}
		emit(T("in", T("prog", prog...), T("probes", g.probes...), T("wrap", B(rng.Intn(3) == 0))))
	}
}

func init() {
	properties["C11"] = &property{gen: genC11, run: runGroups}
}
