// Command harness generates cases for a property and runs them against the real flamego code
// built from /repo's working tree.
//
//	harness gen <ID> <seed> <n> <tier>   -> "(case <i> (in ...))" lines
//	harness run <ID>                      -> reads case lines, appends "(obs ...)" observed on the implementation
package main

import (
	"bufio"
	"fmt"
	"math/rand"
	"os"
	"strconv"
)

type property struct {
	gen func(rng *rand.Rand, n int, tier string, emit func(in *Sx))
	run func(in *Sx) *Sx // returns (obs ...)
}

var properties = map[string]*property{}

func main() {
	if len(os.Args) < 3 {
		fmt.Fprintln(os.Stderr, "usage: harness gen|run <ID> ...")
		os.Exit(2)
	}
	if os.Args[1] == "xlate" {
		repo := "/repo"
		if len(os.Args) > 3 {
			repo = os.Args[3]
		}
		fmt.Print(xlate(repo))
		return
	}
	p := properties[os.Args[2]]
	if p == nil {
		fmt.Fprintln(os.Stderr, "unknown property", os.Args[2])
		os.Exit(2)
	}
	out := bufio.NewWriterSize(os.Stdout, 1<<20)
	defer out.Flush()
	defer c16cleanup()
	switch os.Args[1] {
	case "gen":
		seed, _ := strconv.ParseInt(os.Args[3], 10, 64)
		n, _ := strconv.Atoi(os.Args[4])
		tier := "quick"
		if len(os.Args) > 5 {
			tier = os.Args[5]
		}
		i := 0
		p.gen(rand.New(rand.NewSource(seed)), n, tier, func(in *Sx) {
			i++
			fmt.Fprintln(out, L(A("case"), I(i), in).String())
		})
	case "run":
		sc := bufio.NewScanner(os.Stdin)
		sc.Buffer(make([]byte, 1<<20), 1<<28)
		for sc.Scan() {
			line := sc.Text()
			if len(line) == 0 || line[0] != '(' {
				continue
			}
			c, err := parseSx(line)
			if err != nil {
				fmt.Fprintln(os.Stderr, "bad case line:", err)
				os.Exit(2)
			}
			in := c.Field("in")
			obs := runGuarded(p, in)
			fmt.Fprintln(out, L(A("case"), c.List[1], in, obs).String())
		}
	}
}

// runGuarded turns a malformed input (possible while shrinking) into (obs (invalid)).
func runGuarded(p *property, in *Sx) (obs *Sx) {
	defer func() {
		if r := recover(); r != nil {
			if _, ok := r.(badInput); ok {
				obs = T("obs", T("invalid"))
				return
			}
			panic(r)
		}
	}()
	return p.run(in)
}
